From JamV Require Import Model.PvmRun Model.PvmRange.
Require Import ExtrOcamlBasic.
Extraction "model.ml" N.of_nat N.to_nat Z.of_N Z.to_N deblob run_h host_tab invoke step access_of instr_of opcode_at decode bb_start skip range_ok readable writable.
