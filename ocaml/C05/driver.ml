(* C05 driver: the shared PVM cases (pvmdrv.ml) plus the host-call range tests *)
let range_model toks impl =
  match toks with
  | [ "rng"; kind; start; len ] ->
    let m = { m_pages = parse_pages "@A"; m_hp = zi 0x21000; m_hl = zi 0x30000 } in
    if range_ok (if kind = "w" then writable else readable) m (z_of_string start) (z_of_string len) then "1" else "0"
  | _ -> run_case toks impl
let () = run_cases2 range_model
