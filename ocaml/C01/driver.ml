let () = run_cases2 run_case
