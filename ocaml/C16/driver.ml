(* C16 driver: replays a history on the cache model (Model/TrieCache.v [step_obs]) and prints, per root
   computation, the FROM-SCRATCH specification root (Model/Trie.v [root]) and the model's cache size.
   If the model's cached root ever differed from the from-scratch root (only possible with a Blake2b
   collision, by C16_cache_sound) the token is marked MODEL-COLLISION. *)
let hh = blake2b_n
let hexo = function Some r -> hex_of_bytes r | None -> "nofuel"

let model toks =
  match toks with
  | "hist" :: ops ->
    let b = Buffer.create 4096 in
    (* entries in insertion order, as (key hex, key, value) *)
    let rec go ops (es : (string * n list * n list) list) cache =
      match ops with
      | "S" :: k :: v :: t ->
        let vb = bytes_of_hex v in
        let es' =
          if List.exists (fun (k', _, _) -> k' = k) es then
            List.map (fun (k', kb, v') -> if k' = k then (k', kb, vb) else (k', kb, v')) es
          else es @ [ (k, bytes_of_hex k, vb) ]
        in
        go t es' cache
      | "D" :: k :: t -> go t (List.filter (fun (k', _, _) -> k' <> k) es) cache
      | "R" :: cap :: ord :: t ->
        let es_o = if ord = "s" then List.sort (fun (a, _, _) (b, _, _) -> compare a b) es else es in
        let entries = List.map (fun (_, kb, vb) -> (kb, vb)) es_o in
        let (out, len), cache' = step_obs hh cache (Root (nat_of_int (int_of_string cap), entries)) in
        let scratch = hexo (root hh entries) in
        let cached = match out with Some r -> hexo r | None -> "none" in
        Buffer.add_string b (if cached = scratch then scratch else "MODEL-COLLISION:" ^ scratch);
        Buffer.add_string b (Printf.sprintf "/%d " (int_of_nat len));
        go t es cache'
      | "C" :: t ->
        let (_, len), cache' = step_obs hh cache Clear in
        Buffer.add_string b (Printf.sprintf "c/%d " (int_of_nat len));
        go t es cache'
      | [] -> ()
      | _ -> failwith "bad op"
    in
    go ops [] [];
    Buffer.add_string b "buf-ok";
    Buffer.contents b
  | _ -> "BADCASE"

let () = run_cases model
