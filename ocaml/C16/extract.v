From JamV Require Import Model.Trie Model.TrieCache.
Require Import ExtrOcamlBasic.
Extraction "model.ml" N.of_nat N.to_nat Z.of_N Z.to_N root step_obs.
