(* C27 driver: expected results of one whole history on the proved key-value model (Model/KV.v: kv_run).
   input tokens: <provider> <op> ...   (the provider name is ignored: all providers must show the same semantics)
   output: one token per op + "stale=-" (the model's values are immutable: no returned slice ever changes) *)
let parse_op (tok : string) : kop =
  match String.split_on_char ':' tok with
  | [ "P"; k; v ] -> Put (bytes_of_hex k, bytes_of_hex v)
  | [ "D"; k ] -> Del (bytes_of_hex k)
  | [ "G"; k ] -> Get (bytes_of_hex k)
  | [ "H"; k ] -> Has (bytes_of_hex k)
  | [ "N" ] -> NewBatch
  | [ "BP"; b; k; v ] -> BPut (nat_of_int (int_of_string b), bytes_of_hex k, bytes_of_hex v)
  | [ "BD"; b; k ] -> BDel (nat_of_int (int_of_string b), bytes_of_hex k)
  | [ "BC"; b ] -> BCommit (nat_of_int (int_of_string b))
  | [ "BX"; b ] -> BClose (nat_of_int (int_of_string b))
  | [ "I"; p; s ] -> Iter (bytes_of_hex p, bytes_of_hex s)
  | _ -> failwith ("bad op " ^ tok)

let show_out (o : kout) : string =
  match o with
  | OUnit -> "ok"
  | OVal None -> "nil"
  | OVal (Some v) -> "=" ^ hex_of_bytes v
  | OBool true -> "T"
  | OBool false -> "F"
  | OBatch n -> Printf.sprintf "b%d" (int_of_nat n)
  | OList l -> "[" ^ String.concat "," (List.map (fun (k, v) -> hex_of_bytes k ^ ":" ^ hex_of_bytes v) l) ^ "]"
  | OBad -> "bad"

let model toks =
  match toks with
  | _prov :: ops ->
    let outs = kv_run (List.map parse_op ops) in
    String.concat " " (List.map show_out outs @ [ "stale=-" ])
  | [] -> "BADCASE"

let () = run_cases model
