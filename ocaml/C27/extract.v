From Coq Require Import NArith ZArith.
From JamV Require Import Model.KV.
Require Import ExtrOcamlBasic.
Extraction "model.ml" N.of_nat N.to_nat Z.of_N Z.to_N kv_run.
