let () = run_cases acc_model
