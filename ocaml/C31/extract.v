From JamV Require Import Model.Preimages.
Require Import ExtrOcamlBasic.
Extraction "model.ml" N.of_nat N.to_nat Z.of_N Z.to_N valid_time hist_lookup hc_window admit_pre needed needed_spec
  record_empty integrate provide lookup_state_key get_acc get_p get_l blen.
