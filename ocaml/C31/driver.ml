(* C31 driver: expected outputs from the extracted Model/Preimages.v with the driver's Blake2b-256 as the hash.
   Self check: on states that satisfy the consistency hypothesis of C31_admit_iff, the implemented admission test
   (needed) and the specification (needed_spec) must agree on every entry; a difference is reported as MODELSELF. *)
let hh = blake2b_n
let blob_of_tok s = if s = "~" then [] else bytes_of_hex s
let slots_of_tok s = if s = "-" then [] else List.map n_of_string (String.split_on_char ',' s)
let tok_of_slots l = if l = [] then "-" else String.concat "," (List.map string_of_n l)

type rd = { a : string array; mutable i : int }
let next r = let t = r.a.(r.i) in r.i <- r.i + 1; t
let expect r s = if next r <> s then failwith ("expected " ^ s)
let rec times n f = if n <= 0 then [] else let x = f () in x :: times (n - 1) f

let read_state r : (n * account) list =
  expect r "S";
  let n = int_of_string (next r) in
  times n (fun () ->
    let sid = n_of_string (next r) in
    let np = int_of_string (next r) in
    let p = times np (fun () -> let hs = bytes_of_hex (next r) in let b = blob_of_tok (next r) in (hs, b)) in
    let nl = int_of_string (next r) in
    let l = times nl (fun () ->
      let hs = bytes_of_hex (next r) in
      let ln = n_of_string (next r) in
      let sl = slots_of_tok (next r) in
      ((hs, ln), sl)) in
    (sid, { a_p = p; a_l = l }))
let read_kvs r =
  expect r "K";
  let n = int_of_string (next r) in
  times n (fun () -> let k = bytes_of_hex (next r) in let v = bytes_of_hex (next r) in (k, v))
let read_eps r =
  expect r "E";
  let n = int_of_string (next r) in
  times n (fun () -> let s = n_of_string (next r) in let b = blob_of_tok (next r) in (s, b))

let dump (d : (n * account) list) : string =
  if d = [] then "-" else begin
    let d = List.sort (fun (x, _) (y, _) -> ZA.compare (za_of_n x) (za_of_n y)) d in
    String.concat "" (List.map (fun (sid, acc) ->
      let ps = List.sort compare (List.map (fun (hs, b) -> "P" ^ hex_of_bytes hs ^ "=" ^ hex_of_bytes b) acc.a_p) in
      let ls = List.sort compare (List.map (fun ((hs, ln), sl) ->
        Printf.sprintf "L%s/%s=%s" (hex_of_bytes hs) (string_of_n ln) (tok_of_slots sl)) acc.a_l) in
      Printf.sprintf "%s{%s}{%s}" (string_of_n sid) (String.concat "," ps) (String.concat "," ls)) d)
  end
let dump_kvs k =
  if k = [] then "-" else String.concat "," (List.map (fun (a, b) -> hex_of_bytes a ^ "=" ^ hex_of_bytes b) k)

let consistent_state d kvs =
  List.for_all (fun (sid, acc) ->
    List.for_all (fun (hs, b) -> hh b = hs && not (record_empty hh acc kvs sid (hs, blen b))) acc.a_p) d

let two64m1 = n_of_string "18446744073709551615"
let two32 = n_of_string "4294967296"

let model toks =
  let r = { a = Array.of_list toks; i = 0 } in
  match next r with
  | "vt" ->
    let t = n_of_string (next r) in
    let l = slots_of_tok (next r) in
    let b = if valid_time l t then "1" else "0" in
    b ^ " " ^ b
  | "hl" ->
    let t = n_of_string (next r) in
    let hs = bytes_of_hex (next r) in
    (match read_state r with
     | [ (_, acc) ] -> (match hist_lookup acc t hs with None -> "none" | Some b -> "some " ^ hex_of_bytes b)
     | _ -> "BADCASE")
  | "hc" ->
    let op = next r in
    let w7 = n_of_string (next r) in
    let w10 = n_of_string (next r) in
    let w11 = n_of_string (next r) in
    let t = n_of_string (next r) in
    let self = n_of_string (next r) in
    let hs = bytes_of_hex (next r) in
    let d = read_state r in
    let acc =
      if op = "hist" then
        (match get_acc self d with
         | Some a when w7 = two64m1 -> Some a
         | _ -> get_acc w7 d)
      else if w7 = two64m1 || w7 = self then get_acc self d
      else get_acc w7 d in
    let v = match acc with
      | None -> None
      | Some a -> if op = "hist" then hist_lookup a t hs else get_p hs a in
    let buf = List.init 48 (fun _ -> n_of_int 0xEE) in
    (match v with
     | None -> Printf.sprintf "continue %s %s" (string_of_n two64m1) (hex_of_bytes buf)
     | Some b ->
       let w = hc_window b w10 w11 in
       let rec drop n l = if n <= 0 then l else match l with [] -> [] | _ :: t -> drop (n - 1) t in
       Printf.sprintf "continue %d %s" (List.length b) (hex_of_bytes (w @ drop (List.length w) buf)))
  | "adm" ->
    let tau = n_of_string (next r) in
    let d = read_state r in
    let kvs = read_kvs r in
    let eps = read_eps r in
    let verdict = match admit_pre hh d kvs eps with
      | Accepted -> "ok" | NotSortedUnique -> "unsorted" | Unneeded -> "unneeded" in
    if consistent_state d kvs && List.exists (fun e -> needed hh d kvs e <> needed_spec hh d kvs e) eps then "MODELSELF"
    else begin
      let d', kvs' = integrate hh tau d kvs eps in
      Printf.sprintf "%s - ; %s ; %s" verdict (dump d') (dump_kvs kvs')
    end
  | "prov" ->
    let tau = n_of_string (next r) in
    let d = read_state r in
    let eps = read_eps r in
    dump (provide hh tau d eps)
  | _ -> "BADCASE"

let () = run_cases model
