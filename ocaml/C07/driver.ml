(* C07 driver: parses one case (grammar: harness/overlay/internal/verifacc/c07.go), runs the extracted
   host-call specification and renders exactly what the Go harness renders. Correspondence side only. *)
let zp = 4096
let cores = 2
let validators = 6
let queue = 80

type page = { idx : int; acc : int; data : Bytes.t }

(* fast conversions for small values (bytes, addresses below 2^32) *)
let rec int_of_pos = function XH -> 1 | XO p -> 2 * int_of_pos p | XI p -> (2 * int_of_pos p) + 1
let rec pos_bits = function XH -> 1 | XO p | XI p -> 1 + pos_bits p
let fint (x : n) : int = match x with N0 -> 0 | Npos p -> int_of_pos p
(* None when the value does not fit 40 bits *)
let fint_opt (x : n) : int option = match x with N0 -> Some 0 | Npos p -> if pos_bits p > 40 then None else Some (int_of_pos p)
let rec pos_of_int i = if i = 1 then XH else if i land 1 = 0 then XO (pos_of_int (i lsr 1)) else XI (pos_of_int (i lsr 1))
let nfast (i : int) : n = if i <= 0 then N0 else Npos (pos_of_int i)
let hexd = "0123456789abcdef"
let hex_of_bytes (l : n list) : string =
  if l = [] then "-"
  else begin
    let b = Buffer.create 64 in
    List.iter (fun x -> let v = fint x in Buffer.add_char b hexd.[v lsr 4]; Buffer.add_char b hexd.[v land 15]) l;
    Buffer.contents b
  end
let string_of_nbytes (l : n list) : string =
  let b = Buffer.create 64 in
  List.iter (fun x -> Buffer.add_char b (Char.unsafe_chr (fint x))) l;
  Buffer.contents b
let blake_n (l : n list) : n list = nbytes_of_string (Blake2bFast.blake2b256 (string_of_nbytes l))

let fill_byte fill k = (fill + k + (k lsr 8)) land 255

let digest_cache : (n list * string) list ref = ref []
let digest8 (s : string) : string =
  let h = ref 1469598103 in
  String.iter (fun c -> h := ((!h * 1000003) + Char.code c + 1) land 0x3fffffffffffffff) s;
  Printf.sprintf "%016x" !h

let hex_of_string (s : string) : string =
  if s = "" then "-"
  else begin
    let b = Buffer.create (2 * String.length s) in
    String.iter (fun c -> let v = Char.code c in Buffer.add_char b hexd.[v lsr 4]; Buffer.add_char b hexd.[v land 15]) s;
    Buffer.contents b
  end

let rec trim_zeros_rev = function N0 :: t -> trim_zeros_rev t | l -> l
let trim_zeros (l : n list) = List.rev (trim_zeros_rev (List.rev l))

let split_on c s = String.split_on_char c s
let csv_n s = if s = "-" then [] else List.map n_of_string (split_on ',' s)

let zneg_of_string s =
  if String.length s > 0 && s.[0] = '-' then z_of_za (ZA.neg (ZA.of_string (String.sub s 1 (String.length s - 1))))
  else z_of_string s

let c07_acct (id, a) =
  let st = List.sort compare (List.map (fun (k, v) -> hex_of_bytes k ^ "=" ^ hex_of_bytes v) a.a_storage) in
  let lk =
    List.sort compare
      (List.map (fun ((h, z), sl) -> hex_of_bytes h ^ "/" ^ sn z ^ "=" ^ join "." (List.map sn sl)) a.a_lookups)
  in
  let pi = List.sort compare (List.map hex_of_bytes a.a_preimages) in
  Printf.sprintf "%s{%s,%s,%s,%s,%s,%s,%s,%s,%s,%s|%s|%s|%s}" (sn id) (hex_of_bytes a.a_code) (sn a.a_bal) (sn a.a_items)
    (sn a.a_octets) (sn a.a_g) (sn a.a_m) (sn a.a_gratis) (sn a.a_created) (sn a.a_lastacc) (sn a.a_parent)
    (join "," st) (join "," lk) (join "," pi)

let c07_ctx (x : actx) : string =
  let b = x.x_base in
  let accts = join " " (List.map c07_acct (sorted_accts b.c_accts)) in
  let xf =
    join ","
      (List.map
         (fun t ->
           Printf.sprintf "%s>%s:%s:%s:%s" (sn t.x_from) (sn t.x_to) (sn t.x_amt) (sn t.x_gas) (hex_of_bytes (trim_zeros t.x_memo)))
         b.c_xfers)
  in
  let p = x.x_privs in
  let al =
    join "," (List.map (fun (i, g) -> sn i ^ ":" ^ sn g) (List.sort (fun (i, _) (j, _) -> cmp_n i j) p.p_always))
  in
  let dg (l : n list) =
    match List.find_opt (fun (k, _) -> k == l) !digest_cache with
    | Some (_, d) -> d
    | None ->
      let d = digest8 (string_of_nbytes l) in
      digest_cache := (l, d) :: !digest_cache;
      d
  in
  let aq = join "." (List.map dg x.x_authq) in
  let vk = Printf.sprintf "%d:%s" (List.length x.x_valkeys / 336) (dg x.x_valkeys) in
  let yd = match x.x_yield with None -> "-" | Some h -> hex_of_bytes h in
  let pv = join "," (List.sort compare (List.map (fun (i, bl) -> sn i ^ ":" ^ hex_of_bytes bl) x.x_provided)) in
  Printf.sprintf "%s t=%s nx=%s pr=%s/%s/%s/%s/%s aq=%s vk=%s yd=%s pv=%s" accts xf (sn b.c_next) (sn p.p_manager)
    (join "." (List.map sn p.p_assigners)) (sn p.p_designator) (sn p.p_registrar) al aq vk yd pv

let exit_name = function EContinue -> "continue" | EPanic -> "panic" | EOOG -> "oog"

let sign_extend_imm (hex : string) : n =
  let bs = List.map int_of_n (bytes_of_hex hex) in
  let nb = List.length bs in
  let v = ref ZA.zero in
  List.iteri (fun i x -> v := ZA.logor !v (ZA.shift_left (ZA.of_int x) (8 * i))) bs;
  let top = match List.rev bs with x :: _ -> x land 0x80 <> 0 | [] -> false in
  if top && nb < 8 then v := ZA.add !v (ZA.sub (ZA.shift_left ZA.one 64) (ZA.shift_left ZA.one (8 * nb)));
  n_of_za !v

let sample = ref 0

let c07_model toks_l =
  toks := Array.of_list toks_l;
  pos := 0;
  let kind = next () in
  let id_tok = next () in
  expect "G";
  let gas = zneg_of_string (next ()) in
  expect "R";
  let regs = csv_n (next ()) in
  expect "PG";
  let np = int_of_string (next ()) in
  let pages =
    List.filter_map
      (fun () ->
        match split_on ':' (next ()) with
        | [ i; a; f ] ->
          let acc = int_of_string a in
          if acc = 0 then None
          else begin
            let fill = int_of_string f in
            Some { idx = int_of_string i; acc; data = Bytes.init zp (fun k -> Char.chr (fill_byte fill k)) }
          end
        | _ -> failwith "bad page")
      (List.init np (fun _ -> ()))
  in
  let find_page p = List.find_opt (fun pg -> pg.idx = p) pages in
  expect "BL";
  let nb = int_of_string (next ()) in
  for _ = 1 to nb do
    let addr = ZA.of_string (next ()) in
    let data = bytes_of_hex (next ()) in
    List.iteri
      (fun i x ->
        let a = ZA.add addr (ZA.of_int i) in
        if ZA.lt a (ZA.shift_left ZA.one 32) then begin
          let a = ZA.to_int a in
          match find_page (a / zp) with Some pg -> Bytes.set pg.data (a mod zp) (Char.chr (fint x)) | None -> ()
        end)
      data
  done;
  let initial = List.map (fun pg -> (pg.idx, Bytes.copy pg.data)) pages in
  let m_acc (p : n) : access =
    match fint_opt p with
    | None -> Inacc
    | Some p -> (match find_page p with Some { acc = 1; _ } -> RO | Some { acc = 2; _ } -> RW | _ -> Inacc)
  in
  let m_byte (a : n) : n =
    match fint_opt a with
    | None -> N0
    | Some a -> (match find_page (a / zp) with Some pg -> byte_tab.(Char.code (Bytes.unsafe_get pg.data (a mod zp))) | None -> N0)
  in
  let mem = { m_acc; m_byte } in
  expect "T";
  let slot = nn () in
  expect "D";
  let d = nn () in
  expect "S";
  let self = nn () in
  expect "NX";
  let nx = nn () in
  expect "PR";
  let mgr = nn () in
  let assigners = csv_n (next ()) in
  let desig = nn () in
  let reg_ = nn () in
  let always =
    let s = next () in
    if s = "-" then []
    else List.map (fun p -> match split_on ':' p with [ i; g ] -> (n_of_string i, n_of_string g) | _ -> failwith "always") (split_on ',' s)
  in
  expect "AQ";
  let aq = List.map int_of_n (csv_n (next ())) in
  expect "VK";
  let vk = int_of_string (next ()) in
  expect "YD";
  let yd = bb () in
  expect "PV";
  let npv = int_of_string (next ()) in
  let prov = times npv (fun () -> let i = nn () in let b = bb () in (i, b)) in
  expect "XF";
  let nxf = int_of_string (next ()) in
  let xfers =
    times nxf (fun () ->
        let f = nn () in
        let t = nn () in
        let a = nn () in
        let g = nn () in
        let memo = bb () in
        let memo = memo @ List.init (128 - List.length memo) (fun _ -> N0) in
        { x_from = f; x_to = t; x_amt = a; x_memo = memo; x_gas = g })
  in
  expect "YP";
  let ybal = nn () in
  let yyield = bb () in
  let ymgr = nn () in
  let ynext = nn () in
  let ykeep = next () = "1" in
  expect "A";
  let na = int_of_string (next ()) in
  (* accounts, keeping the preimage blobs *)
  let blobs = ref [] in
  let accts =
    times na (fun () ->
        let start = !pos in
        let id, a = parse_acct () in
        (* re-scan the PI part for the blobs *)
        let stop = !pos in
        let i = ref start in
        while !i < stop && !toks.(!i) <> "PI" do incr i done;
        let np = int_of_string !toks.(!i + 1) in
        for k = 0 to np - 1 do
          let hh = bytes_of_hex !toks.(!i + 2 + (2 * k)) in
          let bl = bytes_of_hex !toks.(!i + 3 + (2 * k)) in
          blobs := ((id, hh), bl) :: !blobs
        done;
        (id, a))
  in
  expect "F";
  let fetch = match next () with "none" -> None | s -> Some (bytes_of_hex s) in
  expect "OFF";
  let off = nn () in
  expect "EX";
  let nex = int_of_string (next ()) in
  expect "HI";
  let nh = int_of_string (next ()) in
  let hist = times nh (fun () -> let i = nn () in match next () with "none" -> (i, None) | s -> (i, Some (bytes_of_hex s))) in
  let env =
    { he_self = self; he_slot = slot; he_D = d; he_C = n_of_int cores; he_Q = n_of_int queue; he_V = n_of_int validators;
      he_blobs = List.rev !blobs; he_fetch = fetch; he_hist = hist; he_offset = off }
  in
  digest_cache := [];
  let authq seed = List.concat (List.init queue (fun j -> List.init 32 (fun _ -> byte_tab.((seed + j) land 255)))) in
  let authqs = List.map authq aq in
  let valkeys = List.init (336 * validators) (fun i -> byte_tab.((vk + i) land 255)) in
  let opt32 b = if List.length b = 32 then Some b else None in
  let mk accts_ mgr_ next_ xf yld =
    { x_base = { c_accts = accts_; c_xfers = xf; c_next = next_ };
      x_privs = { p_manager = mgr_; p_assigners = assigners; p_designator = desig; p_registrar = reg_;
                  p_always = List.fold_left (fun acc (i, g) -> al_set N.eqb i g acc) [] always };
      x_authq = authqs; x_valkeys = valkeys; x_yield = opt32 yld; x_provided = prov }
  in
  let x = mk accts mgr nx xfers yd in
  let yaccts = List.map (fun (i, a) -> if cmp_n i self = 0 then (i, { a with a_bal = ybal }) else (i, a)) accts in
  let y = mk yaccts ymgr ynext (if ykeep then xfers else []) yyield in
  (* apply the model's single write to the pages; now and then check it against the closure of mem_after *)
  let finish_mem (mem' : memory) (wr : (n * n list) option) =
    (match wr with
     | None -> ()
     | Some (_, []) -> ()
     | Some (o, dt) ->
       (match fint_opt o with
        | None -> failwith "write outside the address space"
        | Some o ->
          List.iteri
            (fun i x ->
              let a = o + i in
              match find_page (a / zp) with Some pg -> Bytes.set pg.data (a mod zp) (Char.chr (fint x)) | None -> ())
            dt));
    incr sample;
    if !sample mod 100 = 0 then
      List.iter
        (fun pg ->
          for k = 0 to zp - 1 do
            let a = nfast ((pg.idx * zp) + k) in
            if fint (mem'.m_byte a) <> Char.code (Bytes.get pg.data k) then failwith "driver write disagrees with mem_after"
          done)
        pages;
    let runs = ref [] in
    List.iter
      (fun pg ->
        let ini = List.assoc pg.idx initial in
        let k = ref 0 in
        while !k < zp do
          if Bytes.get pg.data !k = Bytes.get ini !k then incr k
          else begin
            let j = ref !k in
            while !j < zp && Bytes.get pg.data !j <> Bytes.get ini !j do incr j done;
            runs := Printf.sprintf "%d:%s" ((pg.idx * zp) + !k) (hex_of_string (Bytes.sub_string pg.data !k (!j - !k))) :: !runs;
            k := !j
          end
        done)
      (List.sort (fun a b -> compare a.idx b.idx) pages);
    join "," (List.rev !runs)
  in
  let render_common (e : string) (rg : n list) (g : z) (diff : string) =
    Printf.sprintf "%s R %s G %s M %s P 1" e (String.concat "," (List.map sn rg)) (string_of_z g) diff
  in
  let zlt a b = ZA.lt (za_of_z a) (za_of_z b) in
  let zsub1 a = z_of_za (ZA.pred (za_of_z a)) in
  (* Host.HostCall on "ecalli imm; trap": one gas for ecalli, the call, one gas for trap *)
  let through_loop : 'c. (z -> 'c result) -> 'c -> 'c result = fun call st0 ->
    if zlt gas (Zpos XH) then { r_exit = EOOG; r_regs = regs; r_gas = gas; r_write = None; r_ctx = st0 }
    else begin
      let r = call (zsub1 gas) in
      match r.r_exit with
      | EContinue ->
        if zlt r.r_gas (Zpos XH) then { r with r_exit = EOOG } else { r with r_exit = EPanic; r_gas = zsub1 r.r_gas }
      | _ -> r
    end
  in
  let acc_out (r : (actx * actx) result) =
    let mem' = mem_after mem r in
    let diff = finish_mem mem' r.r_write in
    let x', y' = r.r_ctx in
    render_common (exit_name r.r_exit) r.r_regs r.r_gas diff ^ " ga=1 X " ^ c07_ctx x' ^ " Y " ^ c07_ctx y'
  in
  let ref_out (r : rctx result) =
    let mem' = mem_after mem r in
    let diff = finish_mem mem' r.r_write in
    let ex : n list list = r.r_ctx in
    let news =
      List.filteri (fun i _ -> i >= nex) ex |> List.mapi (fun i e -> Printf.sprintf "%d=%s" (nex + i) (hex_of_bytes (trim_zeros e)))
    in
    render_common (exit_name r.r_exit) r.r_regs r.r_gas diff ^ Printf.sprintf " E %d:%s" (List.length ex) (join "," news)
  in
  let rst : rctx = List.init nex (fun i -> List.init 4104 (fun _ -> byte_tab.((i + 1) land 255))) in
  match kind with
  | "acc" -> acc_out (acc_call blake_n env (acc_table (n_of_string id_tok)) regs gas mem (x, y))
  | "ref" -> (
    match ref_table (n_of_string id_tok) with
    | None -> "UNMODELLED"
    | Some c -> ref_out (ref_call env c regs gas mem rst))
  | "auth" -> ref_out (ref_call env (auth_table (n_of_string id_tok)) regs gas mem rst)
  | "dacc" ->
    let c = acc_table (sign_extend_imm id_tok) in
    acc_out (through_loop (fun g -> acc_call blake_n env c regs g mem (x, y)) (x, y))
  | "dref" -> (
    match ref_table (sign_extend_imm id_tok) with
    | None -> "UNMODELLED"
    | Some c -> ref_out (through_loop (fun g -> ref_call env c regs g mem rst) rst))
  | "dauth" ->
    let c = auth_table (sign_extend_imm id_tok) in
    ref_out (through_loop (fun g -> ref_call env c regs g mem rst) rst)
  | _ -> "BADCASE"


(* ---- stream (5): the six inner-machine calls on Model/InnerVm.v (the C33 model); format of cmd/verif_c07/inner_c07.go ---- *)
let zs = string_of_z
let z2za = za_of_z
let in_parse_page (s : string) : z * Model.page =
  match split_on ':' s with
  | idx :: acc :: runs ->
    let dat = ref [] in
    List.iter
      (fun r ->
        match split_on '=' r with
        | [ off; hx ] ->
          let o = int_of_string off in
          List.iteri (fun i b -> dat := (z_of_za (ZA.of_int (o + i)), z_of_za (ZA.of_int (fint b))) :: !dat) (bytes_of_hex hx)
        | _ -> failwith "bad run")
      runs;
    let a = match acc with "0" -> AccNone | "1" -> AccRO | _ -> AccRW in
    (z_of_string idx, { Model.p_acc = a; p_dat = List.rev !dat })
  | _ -> failwith "bad page"

let in_fmt_page ((idx, pg) : z * Model.page) : string =
  let b = Buffer.create 64 in
  Buffer.add_string b (zs idx);
  Buffer.add_char b ':';
  Buffer.add_string b (match pg.p_acc with AccNone -> "0" | AccRO -> "1" | AccRW -> "2");
  let cells =
    List.filter (fun (_, v) -> v <> 0) (List.map (fun (o, v) -> (ZA.to_int (z2za o), ZA.to_int (z2za v))) pg.p_dat)
  in
  let cells = List.sort_uniq compare cells in
  let rec go = function
    | [] -> ()
    | (o, v) :: t ->
      Buffer.add_string b (Printf.sprintf ":%d=%02x" o v);
      let rec run prev = function
        | (o', v') :: t' when o' = prev + 1 -> Buffer.add_string b (Printf.sprintf "%02x" v'); run o' t'
        | rest -> rest
      in
      go (run o t)
  in
  go cells;
  Buffer.contents b

let in_absent ((_, pg) : z * Model.page) : bool = pg.p_acc = AccNone && List.for_all (fun (_, v) -> v = Z0) pg.p_dat
let in_dump_mem (pages : (z * Model.page) list) : string =
  match List.filter (fun p -> not (in_absent p)) pages with
  | [] -> "-"
  | ps ->
    let ps = List.sort (fun (a, _) (b, _) -> ZA.compare (z2za a) (z2za b)) ps in
    String.concat ";" (List.map in_fmt_page ps)
let in_dump_machines ms : string =
  match ms with
  | [] -> "-"
  | _ ->
    let ms = List.sort (fun (a, _) (b, _) -> ZA.compare (z2za a) (z2za b)) ms in
    String.concat "|"
      (List.map (fun (k, mc) -> Printf.sprintf "%s@%s@%s@%s" (zs k) (zs mc.mc_pc) (zs mc.mc_mem.m_hp) (in_dump_mem mc.mc_mem.m_pages)) ms)

let in_call_of = function
  | "m" -> CMachine | "k" -> CPeek | "p" -> CPoke | "g" -> CPages | "v" -> CInvoke | "x" -> CExpunge
  | _ -> failwith "bad op"

let in_init_regs : z list = List.init 13 (fun i -> z_of_za (ZA.mul (ZA.of_int (i + 1)) (ZA.of_string "72340172838076673")))

let inner_model (pages : string) (gas : string) (ops : string list) : string =
  let mem0 = { m_pages = (if pages = "-" then [] else List.map in_parse_page (split_on ';' pages)); m_hp = Z0; m_hl = Z0 } in
  let s = ref { o_regs = in_init_regs; o_gas = z_of_string gas; o_mem = mem0; o_mach = [] } in
  let prev_o = ref (in_dump_mem !s.o_mem.m_pages) and prev_m = ref "-" in
  let delta cur prev = if cur = !prev then "=" else begin prev := cur; cur end in
  let recs = ref [] and stop = ref false in
  List.iter
    (fun op ->
      if not !stop then
        match split_on ',' op with
        | [ "w"; addr; hx ] ->
          s := guest_write !s (z_of_string addr) (List.map (fun b -> z_of_za (ZA.of_int (fint b))) (bytes_of_hex hx));
          prev_o := in_dump_mem !s.o_mem.m_pages
        | name :: args ->
          let c = in_call_of name in
          let s1 = with_regs !s (set_args !s.o_regs (nat_of_int 7) (List.map z_of_string args)) in
          (match hostcall c s1 with
           | None -> recs := "STUCK" :: !recs; stop := true
           | Some (e, s2) ->
             s := s2;
             let kind = match e with XCont -> "c" | XPanic -> stop := true; "panic" | XOog -> stop := true; "oog" in
             let o = delta (in_dump_mem s2.o_mem.m_pages) prev_o in
             let m = delta (in_dump_machines s2.o_mach) prev_m in
             recs := Printf.sprintf "%s %s %s %s %s" kind (String.concat "," (List.map zs s2.o_regs)) (zs s2.o_gas) o m :: !recs)
        | [] -> failwith "empty op")
    ops;
  if !recs = [] then "-" else String.concat " ; " (List.rev !recs)

let c07_dispatch toks_l =
  match toks_l with
  | "h" :: pages :: gas :: ops -> inner_model pages gas ops
  | _ -> c07_model toks_l

let () =
  blake2b_fast_selftest ();
  run_cases c07_dispatch
