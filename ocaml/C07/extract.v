From JamV Require Import Model.Accounts Model.AccCalls Model.HostCalls Model.InnerVm.
From Coq Require Import List NArith ZArith.
Require Import ExtrOcamlBasic.
Extraction "model.ml" N.of_nat N.to_nat Z.of_N Z.to_N
  AccCalls.step AccCalls.run credit accumulate ar_exact ar_go ar_go_orig total sum_bal sum_amt
  items_of octets_of threshold threshold_raw threshold_u64 threshold_go32 threshold_go64 stor_fp look_fp
  acc_call acc_table ref_call ref_table auth_table mem_after mwrite mread HostCalls.readable HostCalls.writable error_codes
  InnerVm.hostcall guest_write set_args with_regs.
