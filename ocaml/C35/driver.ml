(* C35 driver: expected outcome of every block of a dispute history from the extracted disputes_step.
   Signature validity is handed to the model as bits; the driver derives each bit from the signature descriptor of the
   input (who signed which statement about which report) under the ideal-signature reading: a signature verifies under
   key K for message m iff it was produced by K's secret key over m; garbage bytes never verify. *)
type sg = Garbage | Signed of int * char * int     (* key index, kind v/i/g, target index *)
let parse_sig (t : string) : sg =
  if t = "x" then Garbage
  else match String.split_on_char '/' (String.sub t 1 (String.length t - 1)) with
    | [ k; kd; tg ] -> Signed (int_of_string k, kd.[0], int_of_string tg)
    | _ -> failwith "bad sig"
let parse_idx (t : string) : int list = if t = "-" then [] else List.map int_of_string (String.split_on_char ',' t)

let model toks =
  let a = Array.of_list toks in
  let v = int_of_string a.(0) and c = int_of_string a.(1) and e = int_of_string a.(2) in
  let nkeys = int_of_string a.(4) and ntargets = int_of_string a.(5) and nsets = int_of_string a.(7) and nb = int_of_string a.(8) in
  let pos = ref 9 in
  let next () = let t = a.(!pos) in incr pos; t in
  let expect s = if next () <> s then failwith ("expected " ^ s) in
  expect "KT";
  let kt = Array.init nkeys (fun _ -> bytes_of_hex (next ())) in
  expect "TT";
  let tt = Array.init ntargets (fun _ -> bytes_of_hex (next ())) in
  expect "KS";
  let sets = Array.init nsets (fun _ -> Array.init v (fun _ -> int_of_string (next ()))) in
  let kidx = Hashtbl.create 64 and tidx = Hashtbl.create 64 in
  Array.iteri (fun i k -> Hashtbl.replace kidx k i) kt;
  Array.iteri (fun i t -> Hashtbl.replace tidx t i) tt;
  let fmt_t l = if l = [] then "-" else String.concat "," (List.map (fun x -> try string_of_int (Hashtbl.find tidx x) with Not_found -> "x" ^ hex_of_bytes x) l) in
  let fmt_k l = if l = [] then "-" else String.concat "," (List.map (fun x -> try string_of_int (Hashtbl.find kidx x) with Not_found -> "x" ^ hex_of_bytes x) l) in
  expect "S"; expect "G";
  let g0 = List.map (fun i -> tt.(i)) (parse_idx (next ())) in
  expect "B";
  let b0 = List.map (fun i -> tt.(i)) (parse_idx (next ())) in
  expect "W";
  let w0 = List.map (fun i -> tt.(i)) (parse_idx (next ())) in
  expect "O";
  let o0 = List.map (fun i -> kt.(i)) (parse_idx (next ())) in
  expect "R";
  let r0 = List.init c (fun _ -> let t = next () in if t = "-" then None else Some tt.(int_of_string t)) in
  let st = ref { psi_g = g0; psi_b = b0; psi_w = w0; psi_o = o0; rho = r0 } in
  let outs = ref [] in
  (* does signature s verify under key (bytes) for statement (kind, target index)? *)
  let verifies (s : sg) (key : n list) (kind : char) (target : int) : bool =
    match s with
    | Garbage -> false
    | Signed (k, kd, tg) -> kt.(k) = key && kd = kind && tt.(tg) = tt.(target) in
  for _b = 1 to nb do
    expect "B";
    let tau = int_of_string (next ()) in
    let kset = sets.(int_of_string (next ())) in
    let lset = sets.(int_of_string (next ())) in
    let nv = int_of_string (next ()) in
    let verdicts = List.init nv (fun _ ->
      let target = int_of_string (next ()) in
      let age = n_of_string (next ()) in
      let n = int_of_string (next ()) in
      let votes = List.init n (fun _ ->
        match String.split_on_char ',' (next ()) with
        | [ vt; ix; s ] ->
          let vote = vt = "1" and ix = int_of_string ix and s = parse_sig s in
          let kind = if vote then 'v' else 'i' in
          let ok set = ix < Array.length set && verifies s kt.(set.(ix)) kind target in
          { j_vote = vote; j_index = n_of_int ix; j_ok_k = ok kset; j_ok_l = ok lset }
        | _ -> failwith "bad vote") in
      { v_target = tt.(target); v_age = age; v_votes = votes }) in
    let nc = int_of_string (next ()) in
    let culprits = List.init nc (fun _ ->
      match String.split_on_char ',' (next ()) with
      | [ tg; k; s ] ->
        let tg = int_of_string tg and k = int_of_string k in
        { c_target = tt.(tg); c_key = kt.(k); c_ok = verifies (parse_sig s) kt.(k) 'g' tg }
      | _ -> failwith "bad culprit") in
    let nf = int_of_string (next ()) in
    let faults = List.init nf (fun _ ->
      match String.split_on_char ',' (next ()) with
      | [ tg; vt; k; s ] ->
        let tg = int_of_string tg and k = int_of_string k and vote = vt = "1" in
        { f_target = tt.(tg); f_vote = vote; f_key = kt.(k); f_ok = verifies (parse_sig s) kt.(k) (if vote then 'v' else 'i') tg }
      | _ -> failwith "bad fault") in
    let nfill = int_of_string (next ()) in
    let fill = List.init nfill (fun _ ->
      match String.split_on_char ':' (next ()) with
      | [ co; rp ] -> (nat_of_int (int_of_string co), tt.(int_of_string rp))
      | _ -> failwith "bad fill") in
    let env = { dV = n_of_int v; d_epoch = n_of_int (tau / e);
                d_kappa = Array.to_list (Array.map (fun k -> kt.(k)) kset);
                d_lambda = Array.to_list (Array.map (fun k -> kt.(k)) lset) } in
    let ext = { d_verdicts = verdicts; d_culprits = culprits; d_faults = faults } in
    match disputes_step env !st ext with
    | None -> outs := "err" :: !outs
    | Some (s', mark) ->
      let fmt_r r = String.concat "," (List.map (fun o -> match o with None -> "-" | Some x -> fmt_t [ x ]) r) in
      outs := Printf.sprintf "ok G=%s B=%s W=%s O=%s R=%s M=%s" (fmt_t s'.psi_g) (fmt_t s'.psi_b) (fmt_t s'.psi_w)
                (fmt_k s'.psi_o) (fmt_r s'.rho) (fmt_k mark) :: !outs;
      st := with_rho s' (fill_rho fill s'.rho)
  done;
  String.concat " / " (List.rev !outs)

let () = run_cases_info model
