From JamV Require Import Base.Bytes Model.StfLists Model.Disputes.
Require Import ExtrOcamlBasic.
Extraction "model.ml" N.of_nat N.to_nat Z.of_N Z.to_N disputes_step fill_rho with_rho psi_update_unsorted classify.
