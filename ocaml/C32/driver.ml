(* C32 driver: expected outputs from the extracted Model/WorkDigest.v (GP 14.8 digest, item outcome, package specification
   with the C18 constant-depth Merkle root), the hash being the driver's Blake2b-256. *)
let hh = blake2b_n
type rd = { a : string array; mutable i : int }
let next r = let t = r.a.(r.i) in r.i <- r.i + 1; t
let rec times n f = if n <= 0 then [] else let x = f () in x :: times (n - 1) f
let seg_size = 4104
let w_r = n_of_int (48 * 1024)

let read_item r : work_item =
  let svc = n_of_string (next r) in
  let code = bytes_of_hex (next r) in
  let payload = bytes_of_hex (next r) in
  let rg = n_of_string (next r) in
  let ag = n_of_string (next r) in
  let ec = n_of_string (next r) in
  let ni = int_of_string (next r) in
  let xl = next r in
  let imports = List.init ni (fun i -> ([ n_of_int (i + 1) ], n_of_int i)) in
  let xs = if xl = "-" then [] else List.mapi (fun k s -> match String.index_opt s '=' with
      | Some i -> ([ n_of_int (int_of_string (String.sub s (i + 1) (String.length s - i - 1))) ], n_of_string (String.sub s 0 i))
      | None -> ([ n_of_int k ], n_of_string s)) (String.split_on_char ',' xl) in
  { wi_service = svc; wi_code_hash = code; wi_payload = payload; wi_refine_gas = rg; wi_acc_gas = ag;
    wi_export_count = ec; wi_imports = imports; wi_extrinsics = xs }

let kind_names = [ (1, "out-of-gas"); (2, "panic"); (3, "bad-exports"); (4, "output-oversize"); (5, "bad-code"); (6, "code-oversize") ]
(* RESULT token -> (error kind option, data) *)
let read_result tok : n option * n list =
  if String.length tok > 3 && String.sub tok 0 3 = "ok:" then begin
    match String.split_on_char 'x' (String.sub tok 3 (String.length tok - 3)) with
    | [ n; b ] -> (None, List.init (int_of_string n) (fun _ -> n_of_int (int_of_string b)))
    | _ -> failwith "bad result"
  end else
    (Some (n_of_int (fst (List.find (fun (_, s) -> s = tok) kind_names))), [])
let res_tok = function
  | ROk d -> Printf.sprintf "ok:%d:%s" (List.length d) (hex_of_bytes (hh d))
  | RErr k -> List.assoc (int_of_n k) kind_names
let dig_tok (d : digest) =
  Printf.sprintf "s=%s c=%s y=%s g=%s r=%s u=%s i=%s x=%s z=%s e=%s" (string_of_n d.dg_service) (hex_of_bytes d.dg_code_hash)
    (hex_of_bytes d.dg_payload_hash) (string_of_n d.dg_acc_gas) (res_tok d.dg_result) (string_of_n d.dg_gas_used)
    (string_of_n d.dg_imports) (string_of_n d.dg_xcount) (string_of_n d.dg_xsize) (string_of_n d.dg_exports)
let spec_tok (s : pkg_spec) =
  Printf.sprintf "p=%s l=%s n=%s e=%s" (hex_of_bytes s.ps_hash) (string_of_n s.ps_length) (string_of_n s.ps_exports_count)
    (hex_of_bytes s.ps_exports_root)
let zero = n_of_int 0
let read_exports r : n list list =
  let k = int_of_string (next r) in
  times k (fun () -> let p = bytes_of_hex (next r) in p @ List.init (seg_size - List.length p) (fun _ -> zero))

let model toks =
  let r = { a = Array.of_list toks; i = 0 } in
  match next r with
  | "dig" ->
    let it = read_item r in
    let kind, data = read_result (next r) in
    let gas = n_of_string (next r) in
    let res = match kind with None -> ROk data | Some k -> RErr k in
    dig_tok (digest_of hh it res gas)
  | "spec" ->
    let ph = bytes_of_hex (next r) in
    let bundle = bytes_of_hex (next r) in
    let ex = read_exports r in
    spec_tok (spec_of hh ph bundle ex)
  | "wrc" ->
    let auth_len = n_of_string (next r) in
    let bundle = bytes_of_hex (next r) in
    let n = int_of_string (next r) in
    let items = times n (fun () ->
      let it = read_item r in
      let kind, data = read_result (next r) in
      let gas = n_of_string (next r) in
      let ex = read_exports r in
      (it, (((kind, data), ex), gas))) in
    let ds, ex = run_items hh w_r (nat_of_int seg_size) auth_len items in
    let ph = n_of_int 0xAB :: List.init 31 (fun _ -> zero) in
    String.concat " / " (List.map dig_tok ds) ^ " // " ^ spec_tok (spec_of hh ph bundle ex)
  | _ -> "BADCASE"

let () = run_cases model
