From JamV Require Import Model.WorkDigest.
Require Import ExtrOcamlBasic.
Extraction "model.ml" N.of_nat N.to_nat Z.of_N Z.to_N digest_of digest_prepatch spec_of run_items item_outcome.
