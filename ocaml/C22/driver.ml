(* C22 driver: the observed single-service results (D1{...}) and context (CTX{...}) are the oracle
   inputs of the model; the expected result of every RUN{...} is par_ref applied to them. *)
let split_on (sep : string) (s : string) : string list =
  let n = String.length sep and m = String.length s in
  let rec go i start acc =
    if i + n > m then List.rev (String.sub s start (m - start) :: acc)
    else if String.sub s i n = sep then go (i + n) (i + n) (String.sub s start (i - start) :: acc)
    else go (i + 1) start acc
  in
  go 0 0 []
let csv s = if s = "-" || s = "" then [] else String.split_on_char ',' s
let section (name : string) (s : string) : string * string =
  (* returns the content of the first  name{...}  and the rest after it *)
  let tag = name ^ "{" in
  let rec find i = if i + String.length tag > String.length s then raise Not_found
    else if String.sub s i (String.length tag) = tag then i else find (i + 1) in
  let i = find 0 in
  let j = String.index_from s i '}' in
  (String.sub s (i + String.length tag) (j - i - String.length tag), String.sub s (j + 1) (String.length s - j - 1))
let transfer_of s =
  match String.split_on_char ':' s with
  | [ a; b; c; m; g ] -> { t_from = n_of_string a; t_to = n_of_string b; t_amt = n_of_string c; t_memo = bytes_of_hex m; t_gas = n_of_string g }
  | _ -> failwith "transfer"
let acct_of s = match String.split_on_char ':' s with [ a; t ] -> (n_of_string a, bytes_of_hex t) | _ -> failwith "acct"
let single_of (s : string) : n * single_out =
  match String.split_on_char ';' s with
  | [ sid; gas; y; ts; accs; bless; assign; desig; create; always; iota; queues ] ->
    ( n_of_string sid,
      { so_gas = n_of_string gas; so_yield = (if y = "-" then None else Some (bytes_of_hex y));
        so_transfers = List.map transfer_of (csv ts); so_accounts = List.map acct_of (csv accs);
        so_bless = n_of_string bless; so_assign = List.map n_of_string (csv assign); so_designate = n_of_string desig;
        so_createacct = n_of_string create; so_always = bytes_of_hex always; so_iota = bytes_of_hex iota;
        so_queues = List.map bytes_of_hex (csv queues) } )
  | _ -> failwith "single"
let join f l = if l = [] then "-" else String.concat "," (List.map f l)
let show_run (o : par_out) : string =
  Printf.sprintf "RUN{u=%s b=%s t=%s d=%s m=%s a=%s v=%s r=%s z=%s i=%s q=%s}"
    (join (fun (s, g) -> string_of_n s ^ ":" ^ string_of_n g) o.po_u)
    (join (fun (s, h) -> string_of_n s ^ ":" ^ hex_of_bytes h) o.po_b)
    (join (fun t -> Printf.sprintf "%s:%s:%s:%s:%s" (string_of_n t.t_from) (string_of_n t.t_to) (string_of_n t.t_amt) (hex_of_bytes t.t_memo) (string_of_n t.t_gas)) o.po_t)
    (join (fun (s, t) -> string_of_n s ^ ":" ^ hex_of_bytes t) o.po_d)
    (string_of_n o.po_bless) (join string_of_n o.po_assign) (string_of_n o.po_designate) (string_of_n o.po_createacct)
    (hex_of_bytes o.po_always) (hex_of_bytes o.po_iota) (join hex_of_bytes o.po_queues)
let kvget key s =
  (* s = "d=... m=.. v=.. r=.. a=.. s=.." *)
  let toks = split_ws s in
  let pre = key ^ "=" in
  let t = List.find (fun t -> String.length t >= String.length pre && String.sub t 0 (String.length pre) = pre) toks in
  String.sub t (String.length pre) (String.length t - String.length pre)
let expected (inp : string list) (out : string) : string =
  match inp with
  | [ "acc"; _; _; _; runs ] ->
    let d1s, rest = section "D1" out in
    let ctx, _ = section "CTX" rest in
    let table = List.map single_of (split_on " ! " d1s) in
    let d1 s = try List.assoc s table with Not_found -> empty_out in
    let d = List.map acct_of (csv (kvget "d" ctx)) in
    let m = n_of_string (kvget "m" ctx) and v = n_of_string (kvget "v" ctx) and r = n_of_string (kvget "r" ctx) in
    let a = List.map n_of_string (csv (kvget "a" ctx)) in
    let services = List.map n_of_string (csv (kvget "s" ctx)) in
    let o = par_ref d1 d m v r a (List.rev services) in
    let run = show_run o in
    let b = Buffer.create 4096 in
    Buffer.add_string b ("D1{" ^ d1s ^ "} CTX{" ^ ctx ^ "}");
    for _ = 1 to int_of_string runs do Buffer.add_string b (" " ^ run) done;
    Buffer.contents b
  | [ "outer"; _; _; _; runs ] ->
    (* whole-block accumulation run repeatedly from the same prior state: the property is that every run
       equals every other, so the expectation repeats the first run *)
    let first, _ = section "RUN" out in
    (* the θ′ of the run must itself be the canonical (service, hash)-ordered sequence of its pairs *)
    let first =
      try
        let th = kvget "theta" first in
        let pairs = List.map (fun s -> match String.split_on_char ':' s with
            | [ a; hx ] -> (n_of_string a, bytes_of_hex hx) | _ -> failwith "theta") (csv th) in
        let canon = join (fun (s, hx) -> string_of_n s ^ ":" ^ hex_of_bytes hx) (theta_of pairs) in
        if canon = th then first
        else String.concat " " (List.map (fun t -> if String.length t > 6 && String.sub t 0 6 = "theta=" then "theta=" ^ canon else t) (split_ws first))
      with Not_found -> first in
    String.concat " " (List.init (int_of_string runs) (fun _ -> "RUN{" ^ first ^ "}"))
  | _ -> "BADCASE"
let () =
  let total = ref 0 and bad = ref 0 in
  (try
     while true do
       let line = input_line stdin in
       if String.length line > 0 && line.[0] <> '#' then begin
         let inp, out = split_case line in
         incr total;
         let out = String.trim out in
         let m = try expected (split_ws inp) out with e -> "MODELEXN " ^ Printexc.to_string e in
         if out <> m then begin
           incr bad;
           if !bad <= 2000 then Printf.printf "MISMATCH\t%s\timpl=%s\tmodel=%s\n" inp out m
         end
       end
     done
   with End_of_file -> ());
  Printf.printf "DONE n=%d mismatches=%d\n" !total !bad
