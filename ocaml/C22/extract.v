From JamV Require Import Model.AccParallel.
Require Import ExtrOcamlBasic.
Extraction "model.ml" N.of_nat N.to_nat Z.of_N Z.to_N par_ref par_acc par_acc_unsorted empty_out theta_of.
