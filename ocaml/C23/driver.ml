(* C23 driver: replays a block history on the extracted model (Model/Tickets.v: step) with Blake2b-256 as H and prints
   the expected output of harness/overlay/cmd/verif_c23 (same format, see there). *)
let hexd = "0123456789abcdef"
let fast_hex (l : n list) : string =
  if l = [] then "-"
  else begin
    let b = Buffer.create 128 in
    List.iter (fun x -> let v = int_of_n x in Buffer.add_char b hexd.[(v lsr 4) land 15]; Buffer.add_char b hexd.[v land 15]) l;
    Buffer.contents b
  end

let rec chunks k (l : n list) : n list list =
  if l = [] then []
  else begin
    let rec take i acc rest = if i = 0 then (List.rev acc, rest) else (match rest with [] -> (List.rev acc, []) | x :: r -> take (i - 1) (x :: acc) r) in
    let c, r = take k [] l in
    c :: chunks k r
  end

let le4 i = [ byte_tab.(i land 255); byte_tab.((i lsr 8) land 255); byte_tab.((i lsr 16) land 255); byte_tab.((i lsr 24) land 255) ]

let has_prefix p s = String.length s >= String.length p && String.sub s 0 (String.length p) = p
let after2 s = String.sub s 2 (String.length s - 2)

let parse_set v tok : n list list =
  if has_prefix "K:" tok then chunks 32 (bytes_of_hex (after2 tok))
  else if has_prefix "S:" tok then begin
    let seed = bytes_of_hex (after2 tok) in
    List.init v (fun i -> blake2b_n (seed @ le4 i))
  end
  else failwith "bad set token"

let ticket_bytes (ts : ticket list) : n list =
  List.concat_map (fun t -> t.tid @ [ (if int_of_n t.tatt > 255 then byte_tab.(0xEE) else t.tatt) ]) ts

let model toks =
  match toks with
  | mode :: tau0 :: e0 :: e1 :: e2 :: e3 :: gk :: kappa :: lambda :: iota :: ga0 :: rest ->
    let full = (mode = "full") in
    let p = if full then full_params else tiny_params in
    let v = if full then 1023 else 6 in
    let e = if full then 600 else 12 in
    let render (b : n list) (count : int) =
      if full then Printf.sprintf "#%d:%s" count (fast_hex (blake2b_n b)) else fast_hex b in
    let render_sealer g =
      match g with
      | STickets l -> "T:" ^ render (ticket_bytes l) (List.length l)
      | SKeys l -> "K:" ^ render (List.concat l) (List.length l) in
    let ga0 = List.map (fun r -> { tid = List.filteri (fun i _ -> i < 32) r; tatt = List.nth r 32 }) (chunks 33 (bytes_of_hex ga0)) in
    let kappa_l = parse_set v kappa in
    let eta2 = bytes_of_hex e2 in
    let s0 = { s_tau = n_of_string tau0; s_eta0 = bytes_of_hex e0; s_eta1 = bytes_of_hex e1; s_eta2 = eta2; s_eta3 = bytes_of_hex e3;
               s_ga = ga0; s_gs = SKeys (fallback blake2b_n p eta2 kappa_l);
               s_gk = parse_set v gk; s_kappa = kappa_l; s_lambda = parse_set v lambda; s_iota = parse_set v iota } in
    let out = Buffer.create 4096 in
    let rec blocks s toks =
      match toks with
      | [] -> ()
      | "B" :: slot :: vrf :: iota_tok :: n :: rest ->
        let n = int_of_string n in
        let rec envs k toks acc =
          if k = 0 then (List.rev acc, toks)
          else match toks with
            | id :: att :: vl :: r -> envs (k - 1) r ({ eid = bytes_of_hex id; eatt = n_of_string att; evalid = (vl <> "0") } :: acc)
            | _ -> failwith "truncated extrinsic" in
        let ext, rest = envs n rest [] in
        let b = { b_slot = n_of_string slot; b_vrf = bytes_of_hex vrf; b_ext = ext;
                  b_iota = (if iota_tok = "-" then None else Some (parse_set v iota_tok)) } in
        let verdict, s' = step blake2b_n p s b in
        (match verdict with
         | Accept ->
           let same_epoch = (ZA.div (za_of_n b.b_slot) (ZA.of_int e)) = (ZA.div (za_of_n s.s_tau) (ZA.of_int e)) in
           let shown = if same_epoch && s'.s_gs = s.s_gs then "=" else render_sealer s'.s_gs in
           Buffer.add_string out ("A a=" ^ render (ticket_bytes s'.s_ga) (List.length s'.s_ga) ^ " s=" ^ shown ^ " ")
         | RejSlot -> Buffer.add_string out "R0 "
         | RejTail -> Buffer.add_string out "R1 "
         | RejOrder -> Buffer.add_string out "R2 "
         | RejProof -> Buffer.add_string out "R3 "
         | RejAttempt -> Buffer.add_string out "R4 "
         | RejDup -> Buffer.add_string out "R6 ");
        blocks s' rest
      | _ -> failwith "expected B" in
    blocks s0 rest;
    Buffer.add_string out "alias=ok";
    Buffer.contents out
  | _ -> "BADCASE"

let () = run_cases model
