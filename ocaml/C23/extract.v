From JamV Require Import Base.Bytes Model.Tickets.
Require Import ExtrOcamlBasic.
Extraction "model.ml" N.of_nat N.to_nat Z.of_N Z.to_N step fallback acc_step outside_in tiny_params full_params.
