(* C04 driver: the shared PVM cases (pvmdrv.ml) plus the transfer-gas stream *)
let zi = fun i -> z_of_za (ZA.of_int i)
let xfer_blob (dest_exists : bool) (amount : int) (l : ZA.t) : n list =
  let le v n = List.init n (fun i -> ZA.to_int (ZA.logand (ZA.shift_right v (8 * i)) (ZA.of_int 255))) in
  let ins = [ [ 0 ]; [ 1 ]; [ 1 ]; [ 1 ]; [ 1 ];
              [ 51; 7 ] @ le (ZA.of_int (if dest_exists then 88 else 99)) 4;
              [ 51; 8 ] @ le (ZA.of_int amount) 4;
              [ 20; 9 ] @ le l 8;
              [ 51; 10 ] @ le (ZA.of_int 0x20000) 4;
              [ 10; 20 ]; [ 51; 7; 0 ]; [ 51; 8; 0 ]; [ 50; 0 ] ] in
  let code = List.concat ins in
  let mask = List.concat (List.map (fun i -> List.mapi (fun k _ -> k = 0) i) ins) in
  let n = List.length code in
  let mb = Array.make ((n + 7) / 8) 0 in
  List.iteri (fun i b -> if b then mb.(i / 8) <- mb.(i / 8) lor (1 lsl (i mod 8))) mask;
  (enc_nat N0) @ [ N0 ] @ enc_nat (n_of_int n) @ List.map n_of_int code @ List.map n_of_int (Array.to_list mb)
let xfer_model toks impl =
  match toks with
  | [ "xfer"; limit; de; minmemo; balance; amount; l ] -> (
    (* the sender's threshold is taken from the implementation's output (an oracle input of the model) *)
    let thr = try List.find (fun t -> String.length t > 4 && String.sub t 0 4 = "thr=") (split_ws impl) with Not_found -> "thr=0" in
    let thrz = z_of_string (String.sub thr 4 (String.length thr - 4)) in
    let lz = ZA.of_string l in
    let cls = classify_xfer (de = "1") (z_of_string minmemo) (z_of_za lz) (z_of_string balance) (z_of_string amount) thrz in
    match deblob (xfer_blob (de = "1") (int_of_string amount) lz) with
    | None -> "deblob-panic"
    | Some p ->
      let m = { m_pages = [ (zi 0x20, { p_acc = AccRW; p_dat = [] }); (zi 0xFEFDF, { p_acc = AccRW; p_dat = [] }) ];
                m_hp = zi 0x21000; m_hl = z_of_string "4277006336" } in
      let r = List.map z_of_string [ "4294901760"; "4278059008"; "0"; "0"; "0"; "0"; "0"; "4278124544"; "3"; "0"; "0"; "0"; "0" ] in
      match invoke (host_tab_xfer cls (z_of_za lz)) big_fuel p (zi 5) r m (z_of_string limit) with
      | None -> "FUEL"
      | Some ((((e, _), _), _), used) ->
        let kept = match e, cls with Halt, XOk -> 1 | _ -> 0 in
        Printf.sprintf "%s %d %s" (string_of_z used) kept thr)
  | _ -> run_case toks impl
let () = run_cases2 xfer_model
