(* C02 driver (correspondence side only).  Case = the "run" line of C01; the harness prints the result of the block
   engine and of the single-step engine ("B || S").  Expected: the Gray Paper machine (Psi_H loop [psi_h run] of
   Model/PvmEngines.v over [PvmRun.run], host table [host_tab]) — printed twice, since both engines must equal it.
   On every [model_every]-th case the extracted engine models M2 = [run_blocks fixed] and M1 = [run_steps fixed] are
   run as well and must give the very same result (a run-time check of the extraction of what C02_engines_are_gp
   proves); a difference is printed as MODELDIFF and therefore reported. *)
let big_calls : nat = nat_of_int 100000
let model_every = try int_of_string (Sys.getenv "C02_MODEL_EVERY") with _ -> 3
let counter = ref 0

let fmt_trace (log : (z * z) list) : string =
  match List.rev log with
  | [] -> "-"
  | l -> String.concat "," (List.map (fun (id, pc) -> zs id ^ "@" ^ zs pc) l)

let split_halves (s : string) : string * string =
  let n = String.length s in
  let rec go i = if i + 4 > n then None else if String.sub s i 4 = " || " then Some i else go (i + 1) in
  match go 0 with
  | Some i -> (String.sub s 0 i, String.sub s (i + 4) (n - i - 4))
  | None -> (s, "")

let c02_case (toks : string list) (impl : string) : string =
  match toks with
  | [ "run"; blob; pc; gas; regs; hp; hl; pages; tab ] -> (
    match deblob (bytes_of_hex blob) with
    | None -> "deblob-panic || deblob-panic"
    | Some p ->
      let m = { m_pages = parse_pages pages; m_hp = z_of_string hp; m_hl = z_of_string hl } in
      let before = fmt_mem m in
      let s = { regs = parse_regs regs; gas = z_of_string gas; mem = m } in
      let tabz = z_of_string tab in
      let pc0 = z_of_string pc in
      let ib, is = split_halves impl in
      let fmt res impl_half =
        match res with
        | None -> "FUEL"
        | Some (((e, pc'), s'), log) ->
          Printf.sprintf "%s %s %s %s %s %s %s" (fmt_exit p e pc' s' (first_token impl_half)) (zs pc') (fmt_regs s'.regs)
            (zs s'.gas) (zs s'.mem.m_hp) (fmt_trace log)
            (let after = fmt_mem s'.mem in if after = before then "=" else after)
      in
      let gp = psi_h run (host_tab tabz) big_calls big_fuel p pc0 s [] in
      incr counter;
      let diff =
        if !counter mod model_every <> 0 then ""
        else begin
          let m2 = psi_h (run_blocks fixed) (host_tab tabz) big_calls big_fuel p pc0 s [] in
          let m1 = psi_h (run_steps fixed) (host_tab tabz) big_calls big_fuel p pc0 s [] in
          (if fmt m2 "" <> fmt gp "" then "MODELDIFF-M2:" else "") ^ (if fmt m1 "" <> fmt gp "" then "MODELDIFF-M1:" else "")
        end
      in
      diff ^ fmt gp ib ^ " || " ^ fmt gp is)
  | _ -> "BADCASE"

let () = run_cases2 c02_case
