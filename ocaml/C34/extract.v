From JamV Require Import Model.Statistics.
Require Import ExtrOcamlBasic.
Extraction "model.ml" N.of_nat N.to_nat Z.of_N Z.to_N stats_step stats_run core_rec vdelta vadd.
