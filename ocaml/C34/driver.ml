(* C34 driver: expected statistics after every block of a history from the extracted Model/Statistics.v (stats_step: the
   implementation-shaped update, proved equal to the Gray Paper sums).  Self check inside the driver: every core record is
   recomputed with the specification sums core_rec and every validator record with base + vdelta; a difference is MODELSELF. *)
type rd = { a : string array; mutable i : int }
let next r = let t = r.a.(r.i) in r.i <- r.i + 1; t
let expect r s = if next r <> s then failwith ("expected " ^ s)
let rec times n f = if n <= 0 then [] else let x = f () in x :: times (n - 1) f
let ids tok = if tok = "-" then [] else List.map n_of_string (String.split_on_char ',' tok)
let colon tok = List.map n_of_string (String.split_on_char ':' tok)
let ni s = nat_of_int (int_of_string s)
let nat_of_n x = nat_of_int (int_of_n x)

let kt = { k_V = nat_of_int 6; k_C = nat_of_int 2; k_E = n_of_int 12; k_R = n_of_int 4; k_G = n_of_int 4104 }
let vz = { v_b = n_of_int 0; v_t = n_of_int 0; v_p = n_of_int 0; v_d = n_of_int 0; v_g = n_of_int 0; v_a = n_of_int 0 }

let sv r = Printf.sprintf "%s.%s.%s.%s.%s.%s" (string_of_n r.v_b) (string_of_n r.v_t) (string_of_n r.v_p) (string_of_n r.v_d)
    (string_of_n r.v_g) (string_of_n r.v_a)
let svs l = if l = [] then "-" else String.concat " " (List.map sv l)
let sc c = Printf.sprintf "%s.%s.%s.%s.%s.%s.%s.%s" (string_of_n c.c_d) (string_of_n c.c_p) (string_of_n c.c_i) (string_of_n c.c_x)
    (string_of_n c.c_z) (string_of_n c.c_e) (string_of_n c.c_b) (string_of_n c.c_u)
let ss (id, s) = Printf.sprintf "%s=%s.%s.%s.%s.%s.%s.%s.%s.%s.%s" (string_of_n id) (string_of_n s.s_pc) (string_of_n s.s_ps)
    (string_of_n s.s_rn) (string_of_n s.s_ru) (string_of_n s.s_i) (string_of_n s.s_x) (string_of_n s.s_z) (string_of_n s.s_e)
    (string_of_n s.s_an) (string_of_n s.s_au)
let dump (p : pi) =
  let svc = List.sort (fun (a, _) (b, _) -> ZA.compare (za_of_n a) (za_of_n b)) p.pi_services in
  Printf.sprintf "C %s L %s K %s S %s" (svs p.pi_curr) (svs p.pi_last)
    (if p.pi_cores = [] then "-" else String.concat " " (List.map sc p.pi_cores))
    (if svc = [] then "-" else String.concat " " (List.map ss svc))

let read_block r : block =
  expect r "B";
  let slot = n_of_string (next r) in
  let author = ni (next r) in
  let nt = n_of_string (next r) in
  expect r "P";
  let np = int_of_string (next r) in
  let pre = times np (fun () -> match colon (next r) with [ s; z ] -> (s, z) | _ -> failwith "bad preimage") in
  expect r "G";
  let ng = int_of_string (next r) in
  let gs = times ng (fun () ->
    let core = ni (next r) in
    let len = n_of_string (next r) in
    let ex = n_of_string (next r) in
    let gslot = n_of_string (next r) in
    let signers = List.map nat_of_n (ids (next r)) in
    let nd = int_of_string (next r) in
    let ds = times nd (fun () -> match colon (next r) with
      | [ s; u; i; x; z; e ] -> { d_service = s; d_u = u; d_i = i; d_x = x; d_z = z; d_e = e }
      | _ -> failwith "bad digest") in
    { g_report = { w_core = core; w_len = len; w_exports = ex; w_digests = ds }; g_slot = gslot; g_signers = signers }) in
  expect r "A";
  let na = int_of_string (next r) in
  let assur = times na (fun () -> match String.split_on_char ':' (next r) with
    | [ v; bits ] -> { as_validator = ni v; as_bits = List.init (String.length bits) (fun j -> n_of_int (Char.code bits.[j] - 48)) }
    | _ -> failwith "bad assurance") in
  expect r "W";
  let nw = int_of_string (next r) in
  let av = times nw (fun () -> match colon (next r) with
    | [ c; l; e ] -> { w_core = nat_of_n c; w_len = l; w_exports = e; w_digests = [] }
    | _ -> failwith "bad available") in
  expect r "S";
  let ns = int_of_string (next r) in
  let acc = times ns (fun () -> match colon (next r) with [ s; g; c ] -> (s, (g, c)) | _ -> failwith "bad accstat") in
  expect r "K";
  let kappa = ids (next r) in
  expect r "L";
  let lambda = ids (next r) in
  expect r "O";
  let off = ids (next r) in
  { b_author = author; b_slot = slot; b_tickets = nt; b_preimages = pre; b_guarantees = gs; b_assurances = assur;
    b_available = av; b_accstats = acc; b_kappa = kappa; b_lambda = lambda; b_offenders = off }

let model toks =
  let r = { a = Array.of_list toks; i = 0 } in
  let t0 = n_of_string (next r) in
  let nb = int_of_string (next r) in
  let zeros = List.init 6 (fun _ -> vz) in
  let p = ref { pi_curr = zeros; pi_last = zeros; pi_cores = []; pi_services = [] } in
  let tau = ref t0 in
  let outs = ref [] in
  for _b = 1 to nb do
    let b = read_block r in
    let q = stats_step kt !tau !p b in
    (* self check against the specification sums *)
    let same_epoch = ZA.equal (ZA.div (za_of_n !tau) (ZA.of_int 12)) (ZA.div (za_of_n b.b_slot) (ZA.of_int 12)) in
    let base = if same_epoch then !p.pi_curr else zeros in
    List.iteri (fun v rcd -> if vadd (List.nth base v) (vdelta kt b (nat_of_int v)) <> rcd then failwith "MODELSELF validator") q.pi_curr;
    List.iteri (fun c rcd -> if core_rec kt b (nat_of_int c) <> rcd then failwith "MODELSELF core") q.pi_cores;
    outs := dump q :: !outs;
    p := q;
    tau := b.b_slot
  done;
  String.concat " / " (List.rev !outs)

let () = run_cases model
