(* Shared driver prelude, concatenated in front of each property's driver.ml.
   Correspondence-side code only; no theorem depends on it. *)
module ZA = Z
open Model

let rec pos_of_za (z : ZA.t) : positive =
  if ZA.equal z ZA.one then XH
  else
    let hd = pos_of_za (ZA.shift_right z 1) in
    if ZA.testbit z 0 then XI hd else XO hd
let n_of_za (z : ZA.t) : n = if ZA.sign z <= 0 then N0 else Npos (pos_of_za z)
let rec za_of_pos = function
  | XH -> ZA.one
  | XO p -> ZA.shift_left (za_of_pos p) 1
  | XI p -> ZA.succ (ZA.shift_left (za_of_pos p) 1)
let za_of_n = function N0 -> ZA.zero | Npos p -> za_of_pos p
let z_of_za (z : ZA.t) : z =
  let s = ZA.sign z in
  if s = 0 then Z0 else if s > 0 then Zpos (pos_of_za z) else Zneg (pos_of_za (ZA.neg z))
let za_of_z = function Z0 -> ZA.zero | Zpos p -> za_of_pos p | Zneg p -> ZA.neg (za_of_pos p)
let n_of_int (i : int) : n = n_of_za (ZA.of_int i)
let int_of_n (x : n) : int = ZA.to_int (za_of_n x)
let n_of_string (s : string) : n = n_of_za (ZA.of_string s)
let string_of_n (x : n) : string = ZA.to_string (za_of_n x)
let z_of_string (s : string) : z = z_of_za (ZA.of_string s)
let string_of_z (x : z) : string = ZA.to_string (za_of_z x)
let rec nat_of_int (i : int) : nat = if i <= 0 then O else S (nat_of_int (i - 1))
let rec int_of_nat = function O -> 0 | S n -> 1 + int_of_nat n

(* small-byte table so that byte conversion does not allocate *)
let byte_tab : n array = Array.init 256 n_of_int
let hexval c =
  match c with
  | '0' .. '9' -> Char.code c - 48
  | 'a' .. 'f' -> Char.code c - 87
  | 'A' .. 'F' -> Char.code c - 55
  | _ -> failwith "bad hex"
let bytes_of_hex (s : string) : n list =
  if s = "-" || s = "" then []
  else begin
    let l = String.length s / 2 in
    let rec go i acc =
      if i < 0 then acc
      else go (i - 1) (byte_tab.((hexval s.[2 * i] lsl 4) lor hexval s.[(2 * i) + 1]) :: acc)
    in
    go (l - 1) []
  end
let hex_of_bytes (l : n list) : string =
  if l = [] then "-"
  else begin
    let b = Buffer.create 64 in
    List.iter (fun x -> Buffer.add_string b (Printf.sprintf "%02x" (int_of_n x))) l;
    Buffer.contents b
  end
let split_ws (s : string) : string list =
  List.filter (fun t -> t <> "") (String.split_on_char ' ' s)

(* find " | " *)
let split_case (line : string) : string * string =
  let n = String.length line in
  let rec find i =
    if i + 2 >= n then None
    else if line.[i] = ' ' && line.[i + 1] = '|' && line.[i + 2] = ' ' then Some i
    else find (i + 1)
  in
  match find 0 with
  | Some i -> (String.sub line 0 i, String.sub line (i + 3) (n - i - 3))
  | None ->
    if n >= 2 && line.[n - 2] = ' ' && line.[n - 1] = '|' then (String.sub line 0 (n - 2), "")
    else (line, "")

(* main loop: [model] maps the input tokens to the expected output string *)
let run_cases (model : string list -> string) : unit =
  let total = ref 0 and bad = ref 0 in
  (try
     while true do
       let line = input_line stdin in
       if String.length line > 0 && line.[0] <> '#' then begin
         let inp, out = split_case line in
         incr total;
         let m = try model (split_ws inp) with e -> "MODELEXN " ^ Printexc.to_string e in
         if String.trim out <> m then begin
           incr bad;
           if !bad <= 2000 then Printf.printf "MISMATCH\t%s\timpl=%s\tmodel=%s\n" inp (String.trim out) m
         end
       end
     done
   with End_of_file -> ());
  Printf.printf "DONE n=%d mismatches=%d\n" !total !bad
