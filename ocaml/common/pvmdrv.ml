(* Shared driver of the PVM checks C01 / C04 / C05 (correspondence side only; no theorem depends on it).
   Parses a case, runs the extracted Gallina machine, prints the observables in the harness format. *)
let zi (i : int) : z = z_of_za (ZA.of_int i)
let z2za = za_of_z
let zs = string_of_z

let big_fuel : nat = nat_of_int 400000

let split_on c s = String.split_on_char c s

let parse_page (s : string) : z * page =
  match split_on ':' s with
  | idx :: acc :: runs ->
    let dat = ref [] in
    List.iter (fun r ->
        match split_on '=' r with
        | [ off; hx ] ->
          let o = int_of_string off in
          List.iteri (fun i b -> dat := (zi (o + i), z_of_za (za_of_n b)) :: !dat) (bytes_of_hex hx)
        | _ -> failwith "bad run") runs;
    let a = match acc with "0" -> AccNone | "1" -> AccRO | _ -> AccRW in
    (z_of_string idx, { p_acc = a; p_dat = List.rev !dat })
  | _ -> failwith "bad page"

let preset_a = "16:2:0=1122334455667788:4088=8899aabbccddeeff;17:1:0=0102030405060708:4090=a1a2a3a4a5a6;18:0:0=5a5a5a5a:4092=a5a5a5a5;20:2:4095=7f;32:2:8=ff"
let preset_b = "16:2:0=1122334455667788:4088=8899aabbccddeeff;17:1:0=0102030405060708:4090=a1a2a3a4a5a6;20:2:4095=7f;32:2:8=ff"
let parse_pages_raw (s : string) : (z * page) list =
  if s = "-" then [] else List.map parse_page (split_on ';' s)
let pages_a = lazy (parse_pages_raw preset_a)
let pages_b = lazy (parse_pages_raw preset_b)
let parse_pages (s : string) : (z * page) list =
  if s = "@A" then Lazy.force pages_a else if s = "@B" then Lazy.force pages_b else parse_pages_raw s

let fmt_page ((idx, pg) : z * page) : string =
  let b = Buffer.create 64 in
  Buffer.add_string b (zs idx);
  Buffer.add_char b ':';
  Buffer.add_string b (match pg.p_acc with AccNone -> "0" | AccRO -> "1" | AccRW -> "2");
  let cells = List.filter (fun (_, v) -> v <> 0)
      (List.map (fun (o, v) -> (ZA.to_int (z2za o), ZA.to_int (z2za v))) pg.p_dat) in
  let cells = List.sort_uniq compare cells in
  let rec go = function
    | [] -> ()
    | (o, v) :: t ->
      Buffer.add_string b (Printf.sprintf ":%d=%02x" o v);
      let rec run prev = function
        | (o', v') :: t' when o' = prev + 1 -> Buffer.add_string b (Printf.sprintf "%02x" v'); run o' t'
        | rest -> rest
      in
      go (run o t)
  in
  go cells;
  Buffer.contents b

let fmt_mem (m : memory) : string =
  match m.m_pages with
  | [] -> "-"
  | ps ->
    let ps = List.sort (fun (a, _) (b, _) -> ZA.compare (z2za a) (z2za b)) ps in
    String.concat ";" (List.map fmt_page ps)

let fmt_regs (r : z list) : string = String.concat "," (List.map zs r)

let fmt_log (tab : z) (log : z list) : string =
  let l = List.filter (fun id -> ZA.sign (z2za id) >= 0 && ZA.lt (z2za id) (z2za tab)) (List.rev log) in
  if l = [] then "-" else String.concat "," (List.map zs l)

let page_sz = ZA.of_int 4096

(* the address range [page_start(lo), lo+n-1] a page-fault exit may report (property C01) *)
let fault_range (p : prog) (pc : z) (s : st) : (ZA.t * ZA.t) option =
  match access_of (instr_of (opcode_at p pc)) (decode p pc) s.regs with
  | Some (lo, n) ->
    let lo = z2za lo in
    Some (ZA.mul page_sz (ZA.div lo page_sz), ZA.add lo (ZA.of_int (int_of_nat n - 1)))
  | None -> None

let fmt_exit (p : prog) (e : exit) (pc : z) (s : st) (impl_first : string) : string =
  match e with
  | Halt -> "halt"
  | Panic -> "panic"
  | OutOfGas -> "oog"
  | Continue -> "continue"
  | Host _ -> "host"
  | Fault g ->
    let dflt = "fault:" ^ zs g in
    let n = String.length impl_first in
    if n > 6 && String.sub impl_first 0 6 = "fault:" then begin
      match (try Some (ZA.of_string (String.sub impl_first 6 (n - 6))) with _ -> None), fault_range p pc s with
      | Some a, Some (lo, hi) when ZA.leq lo a && ZA.leq a hi -> impl_first
      | _ -> dflt
    end else dflt

let parse_regs (s : string) : z list = List.map z_of_string (split_on ',' s)

let first_token (s : string) : string =
  match split_ws s with t :: _ -> t | [] -> ""

let run_case (toks : string list) (impl : string) : string =
  match toks with
  | [ "run"; blob; pc; gas; regs; hp; hl; pages; tab ] -> (
    match deblob (bytes_of_hex blob) with
    | None -> "deblob-panic"
    | Some p ->
      let m = { m_pages = parse_pages pages; m_hp = z_of_string hp; m_hl = z_of_string hl } in
      let before = fmt_mem m in
      let s = { regs = parse_regs regs; gas = z_of_string gas; mem = m } in
      let tabz = z_of_string tab in
      match run_h (host_tab tabz) big_fuel p (z_of_string pc) s [] with
      | None -> "FUEL"
      | Some (((e, pc'), s'), log) ->
        Printf.sprintf "%s %s %s %s %s %s %s" (fmt_exit p e pc' s' (first_token impl)) (zs pc') (fmt_regs s'.regs)
          (zs s'.gas) (zs s'.mem.m_hp) (fmt_log tabz log)
          (let after = fmt_mem s'.mem in if after = before then "=" else after))
  | [ "psim"; code; limit ] -> (
    match deblob (bytes_of_hex code) with
    | None -> "0 panic"
    | Some p ->
      let w = List.init 16 (fun i -> (zi i, zi (i + 1))) in
      let m = { m_pages = [ (zi 0x20, { p_acc = AccRW; p_dat = w }); (zi 0x21, { p_acc = AccRW; p_dat = [] });
                            (zi 0xFEFDF, { p_acc = AccRW; p_dat = [] }) ];
                m_hp = zi 0x22000; m_hl = z_of_string "4277006336" } in
      let r = List.map z_of_string [ "4294901760"; "4278059008"; "0"; "0"; "0"; "0"; "0"; "4278124544"; "0"; "0"; "0"; "0"; "0" ] in
      match invoke (host_tab (zi 64)) big_fuel p Z0 r m (z_of_string limit) with
      | None -> "FUEL"
      | Some ((((e, _), s'), _), used) ->
        let kind =
          match e with
          | OutOfGas -> "oog"
          | Halt ->
            let a = z2za (List.nth s'.regs 7) and n = z2za (List.nth s'.regs 8) in
            let top = ZA.shift_left ZA.one 32 in
            if ZA.equal n ZA.zero then "halt:-"
            else if ZA.gt n top || ZA.gt a (ZA.sub top n) then "halt:-"
            else begin
              let ok = ref true in
              let pg = ref (ZA.div a page_sz) and last = ZA.div (ZA.sub (ZA.add a n) ZA.one) page_sz in
              while !ok && ZA.leq !pg last do
                (match List.assoc_opt (z_of_za !pg) (List.map (fun (k, v) -> (k, v)) s'.mem.m_pages) with
                 | Some { p_acc = AccNone; _ } | None -> ok := false
                 | _ -> ());
                pg := ZA.succ !pg
              done;
              if not !ok then "halt:-"
              else if ZA.gt n (ZA.of_int 64) then "halt:big" ^ ZA.to_string n
              else begin
                let b = Buffer.create 16 in
                for i = 0 to ZA.to_int n - 1 do
                  let ad = ZA.add a (ZA.of_int i) in
                  let pgv = List.assoc (z_of_za (ZA.div ad page_sz)) s'.mem.m_pages in
                  let off = z_of_za (ZA.rem ad page_sz) in
                  let v = match List.assoc_opt off pgv.p_dat with Some v -> ZA.to_int (z2za v) | None -> 0 in
                  Buffer.add_string b (Printf.sprintf "%02x" v)
                done;
                "halt:" ^ Buffer.contents b
              end
            end
          | _ -> "panic"
        in
        Printf.sprintf "%s %s" (zs used) kind)
  | _ -> "BADCASE"

(* like caseio.run_cases, but the model also sees the implementation's output (needed for the
   page-fault address, which the property pins only to a range) and may append defect-model outputs *)
let run_cases2 (model : string list -> string -> string) : unit =
  let total = ref 0 and bad = ref 0 in
  let cap = try int_of_string (Sys.getenv "PVM_MM_CAP") with _ -> 5000 in
  (try
     while true do
       let line = input_line stdin in
       if String.length line > 0 && line.[0] <> '#' then begin
         let inp, out = split_case line in
         incr total;
         let out = String.trim out in
         let m = try model (split_ws inp) out with e -> "MODELEXN " ^ Printexc.to_string e in
         if out <> m then begin
           incr bad;
           if !bad <= cap then Printf.printf "MISMATCH\t%s\timpl=%s\tmodel=%s\n" inp out m
         end
       end
     done
   with End_of_file -> ());
  Printf.printf "DONE n=%d mismatches=%d\n" !total !bad
