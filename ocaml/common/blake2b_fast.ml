(* Blake2b-256 (unkeyed) with its working state in a Bytes buffer, so that native-code OCaml keeps the
   64-bit words unboxed (about 20x faster than Hashes.blake2b256, which it is checked against at
   start-up by [blake2b_fast_selftest]; Hashes.blake2b256 itself is checked against Go by HASHTEST).
   Correspondence-side code only. *)
module Blake2bFast = struct
  let iv = Hashes.iv
  let sigma = Hashes.sigma
  let g v blk a b c d ix iy =
    let ( +% ) = Int64.add and ( ^% ) = Int64.logxor in
    let rotr x n = Int64.logor (Int64.shift_right_logical x n) (Int64.shift_left x (64 - n)) in
    let va = Bytes.get_int64_le v a and vb = Bytes.get_int64_le v b
    and vc = Bytes.get_int64_le v c and vd = Bytes.get_int64_le v d in
    let x = Bytes.get_int64_le blk (8 * ix) and y = Bytes.get_int64_le blk (8 * iy) in
    let va = va +% vb +% x in
    let vd = rotr (vd ^% va) 32 in
    let vc = vc +% vd in
    let vb = rotr (vb ^% vc) 24 in
    let va = va +% vb +% y in
    let vd = rotr (vd ^% va) 16 in
    let vc = vc +% vd in
    let vb = rotr (vb ^% vc) 63 in
    Bytes.set_int64_le v a va; Bytes.set_int64_le v b vb;
    Bytes.set_int64_le v c vc; Bytes.set_int64_le v d vd

  let compress (h : Bytes.t) (blk : Bytes.t) (t : int) (last : bool) =
    let v = Bytes.create 128 in
    Bytes.blit h 0 v 0 64;
    for i = 0 to 7 do Bytes.set_int64_le v (64 + (8 * i)) iv.(i) done;
    Bytes.set_int64_le v 96 (Int64.logxor (Bytes.get_int64_le v 96) (Int64.of_int t));
    if last then Bytes.set_int64_le v 112 (Int64.lognot (Bytes.get_int64_le v 112));
    for r = 0 to 11 do
      let s = sigma.(r) in
      g v blk 0 32 64 96 s.(0) s.(1); g v blk 8 40 72 104 s.(2) s.(3);
      g v blk 16 48 80 112 s.(4) s.(5); g v blk 24 56 88 120 s.(6) s.(7);
      g v blk 0 40 80 120 s.(8) s.(9); g v blk 8 48 88 96 s.(10) s.(11);
      g v blk 16 56 64 104 s.(12) s.(13); g v blk 24 32 72 112 s.(14) s.(15)
    done;
    for i = 0 to 7 do
      Bytes.set_int64_le h (8 * i)
        (Int64.logxor (Bytes.get_int64_le h (8 * i))
           (Int64.logxor (Bytes.get_int64_le v (8 * i)) (Bytes.get_int64_le v (64 + (8 * i)))))
    done

  let blake2b256 (msg : string) : string =
    let h = Bytes.create 64 in
    for i = 0 to 7 do Bytes.set_int64_le h (8 * i) iv.(i) done;
    Bytes.set_int64_le h 0 (Int64.logxor iv.(0) 0x01010020L);
    let n = String.length msg in
    let nblocks = if n = 0 then 1 else (n + 127) / 128 in
    let block = Bytes.create 128 in
    for b = 0 to nblocks - 1 do
      Bytes.fill block 0 128 '\000';
      let off = b * 128 in
      let len = min 128 (n - off) in
      if len > 0 then Bytes.blit_string msg off block 0 len;
      let last = b = nblocks - 1 in
      compress h block (if last then n else off + 128) last
    done;
    Bytes.sub_string h 0 32
end

let blake2b_fast_n (l : n list) : n list = nbytes_of_string (Blake2bFast.blake2b256 (string_of_nbytes l))

(* agreement with the reference implementation on lengths around every block boundary *)
let blake2b_fast_selftest () : unit =
  let st = ref 0x2545F491 in
  let next () = st := (!st * 1103515245 + 12345) land 0x3FFFFFFF; (!st lsr 11) land 255 in
  List.iter
    (fun len ->
      for _ = 1 to 3 do
        let s = String.init len (fun _ -> Char.chr (next ())) in
        if Blake2bFast.blake2b256 s <> Hashes.blake2b256 s then failwith "blake2b_fast_selftest: mismatch"
      done)
    [ 0; 1; 2; 31; 32; 33; 35; 36; 37; 63; 64; 65; 127; 128; 129; 200; 255; 256; 257; 300; 1000 ]
