(* Shared driver part of C08 / C09: parses a case, runs the extracted specification (exact arithmetic)
   and renders exactly what the Go harness renders. Correspondence side only. *)
let toks = ref [||]
let pos = ref 0
let next () =
  if !pos >= Array.length !toks then failwith "case too short";
  let t = !toks.(!pos) in
  incr pos;
  t
let expect s =
  let t = next () in
  if t <> s then failwith ("expected " ^ s ^ " got " ^ t)
let nn () = n_of_string (next ())
let bb () = bytes_of_hex (next ())
let csv s = if s = "-" then [] else List.map n_of_string (String.split_on_char ',' s)
let rec times k f = if k <= 0 then [] else let x = f () in x :: times (k - 1) f
let sn = string_of_n
let u64max = n_of_string "18446744073709551615"

let parse_acct () : n * account =
  let id = nn () in
  let bal = nn () in
  let gratis = nn () in
  let code = bb () in
  let g = nn () in
  let m = nn () in
  let created = nn () in
  let lastacc = nn () in
  let parent = nn () in
  expect "ST";
  let ns = int_of_string (next ()) in
  let stor = times ns (fun () -> let k = bb () in let v = bb () in let _ = next () in (k, v)) in
  expect "LK";
  let nl = int_of_string (next ()) in
  let looks =
    times nl (fun () ->
        let h = bb () in
        let z = nn () in
        let sl = csv (next ()) in
        let _ = next () in
        ((h, z), sl))
  in
  expect "PI";
  let np = int_of_string (next ()) in
  let pre = times np (fun () -> let hh = bb () in let _ = next () in hh) in
  let a0 =
    { a_code = code; a_bal = bal; a_g = g; a_m = m; a_octets = N0; a_items = N0; a_gratis = gratis;
      a_created = created; a_lastacc = lastacc; a_parent = parent; a_storage = stor; a_lookups = looks;
      a_preimages = pre }
  in
  let rec has_dup = function [] -> false | x :: t -> List.mem x t || has_dup t in
  if has_dup (List.map fst stor) || has_dup (List.map fst looks) || has_dup pre then failwith "BADCASE";
  if !pos < Array.length !toks && !toks.(!pos) = "RC" then begin
    incr pos;
    let i = nn () in
    let o = nn () in
    (id, { a0 with a_items = i; a_octets = o })
  end
  else (id, { a0 with a_items = items_of a0; a_octets = octets_of a0 })

let parse_op () : op =
  match next () with
  | "new" ->
    let c = bb () in
    let l = nn () in
    let g = nn () in
    let m = nn () in
    let f = nn () in
    let i = nn () in
    ONew (c, l, g, m, f, i)
  | "upg" ->
    let c = bb () in
    let g = nn () in
    let m = nn () in
    OUpgrade (c, g, m)
  | "xfer" ->
    let d = nn () in
    let a = nn () in
    let l = nn () in
    let memo = bb () in
    OTransfer (d, a, l, memo)
  | "ej" ->
    let d = nn () in
    let h = bb () in
    OEject (d, h)
  | "ck" -> OCheckpoint
  | "wr" ->
    let k = bb () in
    let v = bb () in
    OWrite (k, v)
  | "sol" ->
    let h = bb () in
    let z = nn () in
    OSolicit (h, z)
  | "fg" ->
    let h = bb () in
    let z = nn () in
    OForget (h, z)
  | "info" -> OInfo (nn ())
  | t -> failwith ("bad op " ^ t)

let cmp_n a b = ZA.compare (za_of_n a) (za_of_n b)
let sorted_accts (d : amap) = List.sort (fun (i, _) (j, _) -> cmp_n i j) d

let acct_line (id, a) =
  Printf.sprintf "%s:%s:%s:%s:%s:%s" (sn id) (sn a.a_bal) (sn a.a_items) (sn a.a_octets) (sn (items_of a)) (sn (octets_of a))
let xfer_line t = Printf.sprintf "%s>%s:%s:%s:%s" (sn t.x_from) (sn t.x_to) (sn t.x_amt) (sn t.x_gas)
    (match t.x_memo with [] -> "0" | b :: _ -> sn b)
let join sep l = if l = [] then "-" else String.concat sep l
let ctx_line (x : ctx) = join "," (List.map acct_line (sorted_accts x.c_accts)) ^ " " ^ join "," (List.map xfer_line x.c_xfers)

let code_of = function
  | ROk -> "0"
  | RNone -> "18446744073709551615"
  | RWho -> "18446744073709551612"
  | RFull -> "18446744073709551611"
  | RCash -> "18446744073709551609"
  | RLow -> "18446744073709551608"
  | RHuh -> "18446744073709551607"
  | RVal v -> sn v
  | RCk -> "ck"
  | RInfo (c, fs) -> "info:" ^ hex_of_bytes c ^ ":" ^ String.concat ":" (List.map (fun v -> sn (if cmp_n v u64max > 0 then u64max else v)) fs)

let full_acct (id, a) =
  let st = List.sort compare (List.map (fun (k, v) -> hex_of_bytes k ^ "=" ^ hex_of_bytes v) a.a_storage) in
  let lk =
    List.sort compare
      (List.map (fun ((h, z), sl) -> hex_of_bytes h ^ "/" ^ sn z ^ "=" ^ join "." (List.map sn sl)) a.a_lookups)
  in
  let pi = List.sort compare (List.map hex_of_bytes a.a_preimages) in
  Printf.sprintf "%s{%s,%s,%s,%s,%s,%s,%s|%s|%s|%s}" (sn id) (hex_of_bytes a.a_code) (sn a.a_g) (sn a.a_m) (sn a.a_gratis)
    (sn a.a_created) (sn a.a_lastacc) (sn a.a_parent) (join "," st) (join "," lk) (join "," pi)

let acc_model_raw toks_l =
  toks := Array.of_list toks_l;
  pos := 0;
  match next () with
  | "seq" ->
    expect "D";
    let d = nn () in
    expect "T";
    let t = nn () in
    expect "S";
    let self = nn () in
    expect "M";
    let mgr = nn () in
    expect "R";
    let reg = nn () in
    expect "NX";
    let nx = nn () in
    expect "IN";
    let amts = csv (next ()) in
    expect "A";
    let na = int_of_string (next ()) in
    let accts = times na parse_acct in
    let rec has_dup = function [] -> false | x :: t -> List.mem x t || has_dup t in
    if has_dup (List.map fst accts) then failwith "BADCASE";
    expect "O";
    let no = int_of_string (next ()) in
    let ops = times no parse_op in
    let e = { e_self = self; e_slot = t; e_D = d; e_manager = mgr; e_registrar = reg } in
    let c0 = { c_accts = credit ar_exact e amts accts; c_xfers = []; c_next = nx } in
    let b = Buffer.create 1024 in
    Buffer.add_string b ("C " ^ ctx_line c0);
    let st = ref (c0, c0) in
    List.iter
      (fun o ->
        let r, st' = step ar_exact e o !st in
        st := st';
        Buffer.add_string b (" ; " ^ code_of r ^ " " ^ ctx_line (fst st')))
      ops;
    let x, y = !st in
    Buffer.add_string b
      (" ; F " ^ join " " (List.map full_acct (sorted_accts x.c_accts)) ^ " nx=" ^ sn x.c_next ^ " tot=" ^ sn (total x) ^ " Y " ^ ctx_line y
     ^ " ytot=" ^ sn (total y));
    Buffer.contents b
  | "thr" ->
    let i = nn () in
    let o = nn () in
    let f = nn () in
    sn (threshold_u64 i o f)
  | "infox" ->
    let bal = nn () in
    let i = nn () in
    let o = nn () in
    let f = nn () in
    Printf.sprintf "%s %s %s %s %s" (sn bal) (sn (threshold_u64 i o f)) (sn o) (sn i) (sn f)
  | "fps" ->
    let kl = int_of_string (next ()) in
    let vl = int_of_string (next ()) in
    "1 " ^ sn (stor_fp (List.init kl (fun _ -> N0)) (List.init vl (fun _ -> N0)))
  | "fpl" -> "2 " ^ sn (look_fp (nn ()))
  | "der" ->
    let _, a = parse_acct () in
    Printf.sprintf "%s %s %s" (sn (items_of a)) (sn (octets_of a)) (sn (threshold_u64 (items_of a) (octets_of a) a.a_gratis))
  | _ -> "BADCASE"

let acc_model toks_l = try acc_model_raw toks_l with Failure m when m = "BADCASE" -> "BADCASE"
