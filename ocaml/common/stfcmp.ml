(* Prelude of the C24 / C25 / C35 drivers: like run_cases, but the implementation output may end with an
   informational suffix " # <text>" (observations the property does not speak about, e.g. whether the PRIOR state
   object was mutated in place). The suffix is not compared; its values are tallied and printed as INFO lines. *)
let split_info (out : string) : string * string =
  let n = String.length out in
  let rec find i =
    if i + 2 >= n then None
    else if out.[i] = ' ' && out.[i + 1] = '#' && out.[i + 2] = ' ' then Some i
    else find (i + 1)
  in
  match find 0 with
  | Some i -> (String.sub out 0 i, String.sub out (i + 3) (n - i - 3))
  | None -> if n >= 2 && out.[0] = '#' && out.[1] = ' ' then ("", String.sub out 2 (n - 2)) else (out, "")

let run_cases_info (model : string list -> string) : unit =
  let total = ref 0 and bad = ref 0 in
  let info : (string, int) Hashtbl.t = Hashtbl.create 16 in
  (try
     while true do
       let line = input_line stdin in
       if String.length line > 0 && line.[0] <> '#' then begin
         let inp, out = split_case line in
         let out, inf = split_info (String.trim out) in
         (* keep only the kind of the observation, not its counters *)
         let kind = match String.index_opt inf ':' with Some i -> String.sub inf 0 i | None -> inf in
         if kind <> "" then Hashtbl.replace info kind (1 + try Hashtbl.find info kind with Not_found -> 0);
         incr total;
         let m = try model (split_ws inp) with e -> "MODELEXN " ^ Printexc.to_string e in
         if String.trim out <> m then begin
           incr bad;
           if !bad <= 2000 then Printf.printf "MISMATCH\t%s\timpl=%s\tmodel=%s\n" inp (String.trim out) m
         end
       end
     done
   with End_of_file -> ());
  Hashtbl.iter (fun k v -> Printf.printf "INFO %s cases=%d\n" k v) info;
  Printf.printf "DONE n=%d mismatches=%d\n" !total !bad
