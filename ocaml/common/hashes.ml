(* Blake2b-256 (unkeyed) and Keccak-256 (original padding 0x01) over OCaml strings, and wrappers
   over the extracted [n list] byte strings. Correspondence-side code only: self-tested against the
   Go hash package by check/selftest_hashes at the start of runs that use it. *)
module Hashes = struct
  let ( +% ) = Int64.add
  let ( ^% ) = Int64.logxor
  let rotr x n = Int64.logor (Int64.shift_right_logical x n) (Int64.shift_left x (64 - n))
  let rotl x n = Int64.logor (Int64.shift_left x n) (Int64.shift_right_logical x (64 - n))

  let iv = [| 0x6a09e667f3bcc908L; 0xbb67ae8584caa73bL; 0x3c6ef372fe94f82bL; 0xa54ff53a5f1d36f1L;
              0x510e527fade682d1L; 0x9b05688c2b3e6c1fL; 0x1f83d9abfb41bd6bL; 0x5be0cd19137e2179L |]
  let sigma = [|
    [| 0; 1; 2; 3; 4; 5; 6; 7; 8; 9; 10; 11; 12; 13; 14; 15 |];
    [| 14; 10; 4; 8; 9; 15; 13; 6; 1; 12; 0; 2; 11; 7; 5; 3 |];
    [| 11; 8; 12; 0; 5; 2; 15; 13; 10; 14; 3; 6; 7; 1; 9; 4 |];
    [| 7; 9; 3; 1; 13; 12; 11; 14; 2; 6; 5; 10; 4; 0; 15; 8 |];
    [| 9; 0; 5; 7; 2; 4; 10; 15; 14; 1; 11; 12; 6; 8; 3; 13 |];
    [| 2; 12; 6; 10; 0; 11; 8; 3; 4; 13; 7; 5; 15; 14; 1; 9 |];
    [| 12; 5; 1; 15; 14; 13; 4; 10; 0; 7; 6; 3; 9; 2; 8; 11 |];
    [| 13; 11; 7; 14; 12; 1; 3; 9; 5; 0; 15; 4; 8; 6; 2; 10 |];
    [| 6; 15; 14; 9; 11; 3; 0; 8; 12; 2; 13; 7; 1; 4; 10; 5 |];
    [| 10; 2; 8; 4; 7; 6; 1; 5; 15; 11; 9; 14; 3; 12; 13; 0 |];
    [| 0; 1; 2; 3; 4; 5; 6; 7; 8; 9; 10; 11; 12; 13; 14; 15 |];
    [| 14; 10; 4; 8; 9; 15; 13; 6; 1; 12; 0; 2; 11; 7; 5; 3 |] |]

  let get64 (s : Bytes.t) off = Bytes.get_int64_le s off

  let compress h (block : Bytes.t) (t : int) (last : bool) =
    let m = Array.init 16 (fun i -> get64 block (8 * i)) in
    let v = Array.make 16 0L in
    for i = 0 to 7 do v.(i) <- h.(i); v.(i + 8) <- iv.(i) done;
    v.(12) <- v.(12) ^% Int64.of_int t;
    if last then v.(14) <- Int64.lognot v.(14);
    let g a b c d x y =
      v.(a) <- v.(a) +% v.(b) +% x; v.(d) <- rotr (v.(d) ^% v.(a)) 32;
      v.(c) <- v.(c) +% v.(d); v.(b) <- rotr (v.(b) ^% v.(c)) 24;
      v.(a) <- v.(a) +% v.(b) +% y; v.(d) <- rotr (v.(d) ^% v.(a)) 16;
      v.(c) <- v.(c) +% v.(d); v.(b) <- rotr (v.(b) ^% v.(c)) 63 in
    for r = 0 to 11 do
      let s = sigma.(r) in
      g 0 4 8 12 m.(s.(0)) m.(s.(1)); g 1 5 9 13 m.(s.(2)) m.(s.(3));
      g 2 6 10 14 m.(s.(4)) m.(s.(5)); g 3 7 11 15 m.(s.(6)) m.(s.(7));
      g 0 5 10 15 m.(s.(8)) m.(s.(9)); g 1 6 11 12 m.(s.(10)) m.(s.(11));
      g 2 7 8 13 m.(s.(12)) m.(s.(13)); g 3 4 9 14 m.(s.(14)) m.(s.(15))
    done;
    for i = 0 to 7 do h.(i) <- h.(i) ^% v.(i) ^% v.(i + 8) done

  let blake2b256 (msg : string) : string =
    let h = Array.copy iv in
    h.(0) <- h.(0) ^% 0x01010020L;
    let n = String.length msg in
    let nblocks = if n = 0 then 1 else (n + 127) / 128 in
    for b = 0 to nblocks - 1 do
      let block = Bytes.make 128 '\000' in
      let off = b * 128 in
      let len = min 128 (n - off) in
      if len > 0 then Bytes.blit_string msg off block 0 len;
      let last = b = nblocks - 1 in
      compress h block (if last then n else off + 128) last
    done;
    let out = Bytes.create 32 in
    for i = 0 to 3 do Bytes.set_int64_le out (8 * i) h.(i) done;
    Bytes.to_string out

  let rc = [| 0x0000000000000001L; 0x0000000000008082L; 0x800000000000808aL; 0x8000000080008000L;
              0x000000000000808bL; 0x0000000080000001L; 0x8000000080008081L; 0x8000000000008009L;
              0x000000000000008aL; 0x0000000000000088L; 0x0000000080008009L; 0x000000008000000aL;
              0x000000008000808bL; 0x800000000000008bL; 0x8000000000008089L; 0x8000000000008003L;
              0x8000000000008002L; 0x8000000000000080L; 0x000000000000800aL; 0x800000008000000aL;
              0x8000000080008081L; 0x8000000000008080L; 0x0000000080000001L; 0x8000000080008008L |]
  let rotc = [| 1; 3; 6; 10; 15; 21; 28; 36; 45; 55; 2; 14; 27; 41; 56; 8; 25; 43; 62; 18; 39; 61; 20; 44 |]
  let piln = [| 10; 7; 11; 17; 18; 3; 5; 16; 8; 21; 24; 4; 15; 23; 19; 13; 12; 2; 20; 14; 22; 9; 6; 1 |]

  let keccakf (st : int64 array) =
    let bc = Array.make 5 0L in
    for round = 0 to 23 do
      for i = 0 to 4 do bc.(i) <- st.(i) ^% st.(i + 5) ^% st.(i + 10) ^% st.(i + 15) ^% st.(i + 20) done;
      for i = 0 to 4 do
        let t = bc.((i + 4) mod 5) ^% rotl bc.((i + 1) mod 5) 1 in
        for j = 0 to 4 do st.((5 * j) + i) <- st.((5 * j) + i) ^% t done
      done;
      let t = ref st.(1) in
      for i = 0 to 23 do
        let j = piln.(i) in
        let b = st.(j) in
        st.(j) <- rotl !t rotc.(i);
        t := b
      done;
      for j = 0 to 4 do
        for i = 0 to 4 do bc.(i) <- st.((5 * j) + i) done;
        for i = 0 to 4 do
          st.((5 * j) + i) <- st.((5 * j) + i) ^% Int64.logand (Int64.lognot bc.((i + 1) mod 5)) bc.((i + 2) mod 5)
        done
      done;
      st.(0) <- st.(0) ^% rc.(round)
    done

  let keccak256 (msg : string) : string =
    let rate = 136 in
    let st = Array.make 25 0L in
    let n = String.length msg in
    let padded_len = ((n / rate) + 1) * rate in
    let p = Bytes.make padded_len '\000' in
    Bytes.blit_string msg 0 p 0 n;
    Bytes.set p n (Char.chr (Char.code (Bytes.get p n) lxor 0x01));
    Bytes.set p (padded_len - 1) (Char.chr (Char.code (Bytes.get p (padded_len - 1)) lxor 0x80));
    for b = 0 to (padded_len / rate) - 1 do
      for i = 0 to (rate / 8) - 1 do st.(i) <- st.(i) ^% Bytes.get_int64_le p ((b * rate) + (8 * i)) done;
      keccakf st
    done;
    let out = Bytes.create 32 in
    for i = 0 to 3 do Bytes.set_int64_le out (8 * i) st.(i) done;
    Bytes.to_string out
end

let string_of_nbytes (l : n list) : string =
  let b = Buffer.create 64 in
  List.iter (fun x -> Buffer.add_char b (Char.chr (int_of_n x))) l;
  Buffer.contents b
let nbytes_of_string (s : string) : n list =
  let rec go i acc = if i < 0 then acc else go (i - 1) (byte_tab.(Char.code s.[i]) :: acc) in
  go (String.length s - 1) []
let blake2b_n (l : n list) : n list = nbytes_of_string (Hashes.blake2b256 (string_of_nbytes l))
let keccak_n (l : n list) : n list = nbytes_of_string (Hashes.keccak256 (string_of_nbytes l))
