(* C20 driver: expected outputs from the Gray Paper layer of Model/Shuffle.v
   (F = F.1, qseq = F.2, shuffle_F = F.3, rotate = 11.19, assign = 11.20); the hash is Blake2b-256. *)
let csv_of (l : n list) : string = if l = [] then "-" else String.concat "," (List.map string_of_n l)
let of_csv (s : string) : n list =
  if s = "-" || s = "" then [] else List.map n_of_string (String.split_on_char ',' s)

(* direct conversions for small numbers (no big-integer detour) *)
let rec small_of_pos (p : positive) (acc_bits : int) : int =
  if acc_bits > 60 then max_int
  else match p with XH -> 1 | XO q -> 2 * small_of_pos q (acc_bits + 1) | XI q -> (2 * small_of_pos q (acc_bits + 1)) + 1
let small_of_n (x : n) : int = match x with N0 -> 0 | Npos p -> small_of_pos p 0

(* Blake2b with a table of already computed inputs (the model asks for the same 36-byte block
   once per drawn number, as F.2 is written) *)
let tbl : (string, n list) Hashtbl.t = Hashtbl.create 65536
let memo_blake (l : n list) : n list =
  let b = Buffer.create 40 in
  let ok = ref true in
  List.iter (fun x -> let v = small_of_n x in if v > 255 || v < 0 then ok := false else Buffer.add_char b (Char.chr v)) l;
  if not !ok then blake2b_fast_n l
  else begin
    let k = Buffer.contents b in
    match Hashtbl.find_opt tbl k with
    | Some v -> v
    | None ->
      let v = nbytes_of_string (Blake2bFast.blake2b256 k) in
      if Hashtbl.length tbl > 300000 then Hashtbl.reset tbl;
      Hashtbl.add tbl k v;
      v
  end

let params_of (mode : string) : params =
  match mode with
  | "tiny" -> tiny_params
  | "full" -> full_params
  | _ -> (
    match String.split_on_char ':' mode with
    | [ v; c; e; r ] -> { pV = n_of_string v; pC = n_of_string c; pE = n_of_string e; pR = n_of_string r }
    | _ -> failwith "bad mode")

let slots_csv (ll : n list list) : string = String.concat ";" (List.map csv_of ll)
let run_slots mode e t0 cnt =
  slots_csv (assign_slots memo_blake (params_of mode) (bytes_of_hex e) (slots_from (n_of_string t0) (nat_of_int cnt)))

(* F_fast / shuffle_fast / assign_slots are proved equal to F (F.1), shuffle_F (F.3) and
   map assign (11.20) in Properties/C20.v (C20_extracted_model_is_spec); short fy cases also run F itself *)
let model toks =
  match toks with
  | [ "fy"; s; r ] ->
    let s = of_csv s and r = of_csv r in
    let a = f_fast s r in
    if List.length s <= 24 && f s r <> a then "MODEL-INCONSISTENT" else csv_of a
  | [ "qseq"; e; l ] ->
    let h = bytes_of_hex e and l = nat_of_int (int_of_string l) in
    let a = qseq_fast memo_blake h l in
    if qseq memo_blake h l <> a then "MODEL-INCONSISTENT" else csv_of a
  | [ "shuf"; e; s ] -> csv_of (shuffle_fast memo_blake (of_csv s) (bytes_of_hex e))
  | [ "rot"; c; k; s ] ->
    csv_of (rotate { pV = n_of_int 0; pC = n_of_string c; pE = n_of_int 1; pR = n_of_int 1 } (of_csv s) (n_of_string k))
  | [ "perm"; mode; e; t ] -> run_slots mode e t 1
  | [ "perms"; mode; e; t0; cnt ] -> run_slots mode e t0 (int_of_string cnt)
  | [ "ga"; mode; e; t ] -> run_slots mode e t 1 ^ " keys=ok"
  | [ "gas"; mode; e; t0; cnt ] -> run_slots mode e t0 (int_of_string cnt) ^ " keys=ok"
  | _ -> "BADCASE"

let () = blake2b_fast_selftest (); run_cases model
