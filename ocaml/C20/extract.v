From JamV Require Import Model.Shuffle Model.ShuffleFast.
Require Import ExtrOcamlBasic.
Extraction "model.ml" N.of_nat N.to_nat Z.of_N Z.to_N F F_fast qseq qseq_fast shuffle_fast rotate assign_slots slots_from tiny_params full_params.
