(* C06 driver: Y(p, a) of the model, printed as the harness prints the Go result *)
let rec trim_rev = function x :: t when x = N0 -> trim_rev t | l -> l
let trim l = List.rev (trim_rev (List.rev l))
let acc_code = function ANone -> 0 | ARead -> 1 | AWrite -> 2
let model toks =
  match toks with
  | [ "init"; p; a ] -> (
    match init (bytes_of_hex p) (bytes_of_hex a) with
    | None -> "rej"
    | Some ((c, regs), pages) ->
      let b = Buffer.create 1024 in
      Buffer.add_string b ("ok c=" ^ hex_of_bytes c ^ " regs=");
      Buffer.add_string b (String.concat "," (List.map string_of_n regs));
      Buffer.add_string b " pages=";
      List.iter
        (fun ((pn, acc), bs) ->
          Buffer.add_string b (Printf.sprintf "%s:%d:%s;" (string_of_n pn) (acc_code acc) (hex_of_bytes (trim bs))))
        pages;
      Buffer.add_string b " alias=ok";
      Buffer.contents b)
  | _ -> "BADCASE"
let () = run_cases model
