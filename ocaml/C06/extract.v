From JamV Require Import Model.PvmInit.
Require Import ExtrOcamlBasic.
Extraction "model.ml" N.of_nat N.to_nat Z.of_N Z.to_N init cell_gp lookup_pages.
