(* C29 driver: expected outputs from Model/Grid.v (grid relation with width floor(sqrt V), three-epoch
   neighbour sets, key-level neighbour test, preferred initiator) *)
let csv_of (l : n list) : string = if l = [] then "-" else String.concat "," (List.map string_of_n l)
let of_csv (s : string) : n list =
  if s = "-" || s = "" then [] else List.map n_of_string (String.split_on_char ',' s)
let bstr b = if b then "true" else "false"
let grid_of p c nx = { g_prev = of_csv p; g_cur = of_csv c; g_next = of_csv nx }
let keq = N.eqb
let zi (s : string) : z = z_of_string s
let wz (i : int) : int = int_of_n (width_z (z_of_za (ZA.of_int i)))

let model toks =
  match toks with
  | [ "sqrt"; nn ] -> string_of_n (width_z (zi nn))
  | [ "sqrange"; lo; hi ] ->
    let lo = int_of_string lo and hi = int_of_string hi in
    let b = Buffer.create 256 in
    let prev = ref (wz lo) in
    Buffer.add_string b (string_of_int !prev);
    for x = lo + 1 to hi do
      let w = wz x in
      if w <> !prev then begin Buffer.add_string b (Printf.sprintf ";%d:%d" x w); prev := w end
    done;
    Buffer.contents b
  | [ "sqcheck"; k0; k1 ] ->
    (* for every k >= 1 : width(k*k-1) = k-1 (1 for k = 1), width(k*k) = k, width(k*k+1) = k  is theorem
       C29_width_around_squares; the extracted function is evaluated on both ends of the range and on a
       stride of interior points as a guard of the extraction *)
    let k0 = int_of_string k0 and k1 = int_of_string k1 in
    let ok k =
      let below = if k = 1 then 1 else k - 1 in
      wz ((k * k) - 1) = below && wz (k * k) = k && wz ((k * k) + 1) = k in
    let good = ref (k1 <= k0 || (ok k0 && ok (k1 - 1))) in
    let step = max 1 ((k1 - k0) / 64) in
    let k = ref k0 in
    while !k < k1 do if not (ok !k) then good := false; k := !k + step done;
    if !good then "ok" else "MODEL-INCONSISTENT"
  | [ "nbrs"; v; i ] -> csv_of (neighbor_indices_z (n_of_string v) (zi i))
  | [ "row"; v; a ] ->
    String.concat "" (List.map (fun b -> if b then "1" else "0") (neighbor_row_z (n_of_string v) (zi a)))
  | [ "all"; p; c; nx; i ] -> csv_of (all_neighbors_z (grid_of p c nx) (zi i))
  | [ "isn"; p; c; nx; i; k ] ->
    let g = grid_of p c nx in
    let spec = is_neighbor_key_z keq g (zi i) (n_of_string k) in
    bstr spec
  | [ "cross"; p; c; nx; i; k ] -> bstr (same_index_cross_z keq (grid_of p c nx) (zi i) (n_of_string k))
  | [ "find"; c; k ] -> (
    match find_index keq (grid_of "-" c "-") (n_of_string k) with Some i -> string_of_n i | None -> "none")
  | [ "pi"; a; b ] ->
    let a = bytes_of_hex a and b = bytes_of_hex b in
    hex_of_bytes (initiator a b) ^ " " ^ hex_of_bytes (initiator b a)
  | _ -> "BADCASE"

let () = run_cases model
