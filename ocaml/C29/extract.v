From JamV Require Import Model.Grid.
Require Import ExtrOcamlBasic.
Extraction "model.ml" N.of_nat N.to_nat Z.of_N Z.to_N N.eqb width width_z neighbor neighbor_z neighbor_indices_z neighbor_row_z
  all_neighbors_z same_index_cross_z find_index is_neighbor_key_z is_neighbor_first_only_z initiator.
