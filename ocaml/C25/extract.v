From JamV Require Import Base.Bytes Model.StfLists Model.RecentHistory.
Require Import ExtrOcamlBasic.
Extraction "model.ml" N.of_nat N.to_nat Z.of_N Z.to_N rh_step acc_root_k acc_root_opt new_entry.
