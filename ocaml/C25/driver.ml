(* C25 driver: expected posterior beta (history entries + beefy belt peaks) after every block, from the extracted
   rh_step with B = Blake2b-256, K = Keccak-256 and the accumulation-output root acc_root_k (M_B over Keccak). *)
let fmt_beta (b : beta) : string =
  let buf = Buffer.create 4096 in
  Buffer.add_string buf "E";
  List.iteri (fun i e ->
    if i > 0 then Buffer.add_string buf " ;";
    Buffer.add_string buf (Printf.sprintf " %s,%s,%s," (hex_of_bytes e.e_hh) (hex_of_bytes e.e_sroot) (hex_of_bytes e.e_beefy));
    if e.e_reported = [] then Buffer.add_string buf "-";
    List.iteri (fun k p ->
      if k > 0 then Buffer.add_string buf ":";
      Buffer.add_string buf (hex_of_bytes p.rp_hash ^ ":" ^ hex_of_bytes p.rp_exports)) e.e_reported) b.b_hist;
  Buffer.add_string buf " M";
  List.iter (fun p -> match p with
    | None -> Buffer.add_string buf " -"
    | Some x -> Buffer.add_string buf (" " ^ hex_of_bytes x)) b.b_mmr;
  Buffer.contents buf

let model toks =
  let a = Array.of_list toks in
  let hh = nat_of_int (int_of_string a.(0)) and nb = int_of_string a.(2) in
  let pos = ref 3 in
  let next () = let t = a.(!pos) in incr pos; t in
  let expect s = if next () <> s then failwith ("expected " ^ s) in
  let hash () = bytes_of_hex (next ()) in
  expect "H";
  let n0 = int_of_string (next ()) in
  let hist = List.init n0 (fun _ ->
    let e_hh = hash () in let e_sroot = hash () in let e_beefy = hash () in
    let nrep = int_of_string (next ()) in
    let e_reported = List.init nrep (fun _ -> let rp_hash = hash () in let rp_exports = hash () in { rp_hash; rp_exports }) in
    { e_hh; e_beefy; e_sroot; e_reported }) in
  expect "M";
  let np = int_of_string (next ()) in
  let peaks = List.init np (fun _ -> let t = next () in if t = "-" then None else Some (bytes_of_hex t)) in
  let beta = ref { b_hist = hist; b_mmr = peaks } in
  let outs = ref [] in
  for _b = 1 to nb do
    let commit = (match next () with "B" -> true | "F" -> false | _ -> failwith "expected B or F") in
    let hb_header = hash () in
    let hb_parent_sroot = hash () in
    let ng = int_of_string (next ()) in
    let hb_guar = List.init ng (fun _ -> let rp_hash = hash () in let rp_exports = hash () in { rp_hash; rp_exports }) in
    let na = int_of_string (next ()) in
    let hb_accout = List.init na (fun _ -> let s = n_of_string (next ()) in let o = hash () in (s, o)) in
    let blk = { hb_header; hb_parent_sroot; hb_guar; hb_accout } in
    (match acc_root_opt keccak_n hb_accout with None -> failwith "OUTOFFUEL" | Some _ -> ());
    (* every block is computed from the committed prior VALUE; an F block (uncommitted sibling) does not advance it *)
    let post = rh_step blake2b_n keccak_n (acc_root_k keccak_n) hh !beta blk in
    if commit then beta := post;
    outs := fmt_beta post :: !outs
  done;
  String.concat " / " (List.rev !outs)

let () = run_cases_info model
