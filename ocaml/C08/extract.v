From JamV Require Import Model.Accounts Model.AccCalls.
From Coq Require Import List NArith ZArith.
Require Import ExtrOcamlBasic.
Extraction "model.ml" N.of_nat N.to_nat Z.of_N Z.to_N
  step run credit accumulate ar_exact ar_go ar_go_orig total sum_bal sum_amt
  items_of octets_of threshold threshold_raw threshold_u64 threshold_go32 threshold_go64 stor_fp look_fp.
