From Coq Require Import NArith ZArith.
From JamV Require Import Model.AccQueue.
Require Import ExtrOcamlBasic.
Extraction "model.ml" N.of_nat N.to_nat Z.of_N Z.to_N
  E Q Wbang WQ Wstar step run accumulated_now count_in count_bad qinv_b fresh_b guard_rejects.
