(* C21 driver: expected outputs of the accumulation-queue model (Model/AccQueue.v, GP 12.1-12.12, 12.31-12.33).
   Also evaluates the proved laws on the model's own values (LAWFAIL can only appear if extraction or this
   driver is wrong): QInv(state) => no queue-chosen report is accumulated history and QInv(next state);
   QInv(state) and fresh available reports => nothing in W* is accumulated history. *)
let split_on c s = String.split_on_char c s
let parse_list sep f s = if s = "-" || s = "" then [] else List.map f (split_on sep s)
let parse_hashes s = parse_list ',' bytes_of_hex s
let parse_hi s = match split_on '.' s with [ h; i ] -> (bytes_of_hex h, n_of_string i) | _ -> failwith "hash.id"
let parse_rr s =
  match split_on ':' s with
  | [ hi; deps ] -> let h, i = parse_hi hi in { rhash = h; rdeps = parse_hashes deps; rid = i }
  | _ -> failwith "record"
let parse_wr s =
  match split_on ':' s with
  | [ hi; pre; look ] -> let h, i = parse_hi hi in { whash = h; wpre = parse_hashes pre; wlook = parse_hashes look; wid = i }
  | _ -> failwith "report"
let parse_xi s = List.map parse_hashes (split_on '/' s)
let parse_theta s = List.map (parse_list ';' parse_rr) (split_on '/' s)
let parse_avail s = parse_list ';' parse_wr s

let hx = hex_of_bytes
let pr_set l = match List.sort_uniq compare (List.map hx l) with [] -> "-" | l -> String.concat "," l
let pr_w l = if l = [] then "-" else String.concat "," (List.map (fun e -> hx e.rhash ^ "." ^ string_of_n e.rid) l)
let pr_xi xi = String.concat "/" (List.map pr_set xi)
let pr_rec e = hx e.rhash ^ "." ^ string_of_n e.rid ^ ":" ^ pr_set e.rdeps
let pr_grp g = if g = [] then "-" else String.concat ";" (List.map pr_rec g)
let pr_theta t = String.concat "/" (List.map pr_grp t)

let fnv32 s =
  let h = ref 0x811c9dc5 in
  String.iter (fun c -> h := ((!h lxor Char.code c) * 16777619) land 0xffffffff) s;
  !h

let rec firstn k l = if k <= 0 then [] else match l with [] -> [] | x :: t -> x :: firstn (k - 1) t
let rec skipn k l = if k <= 0 then l else match l with [] -> [] | _ :: t -> skipn (k - 1) t

(* one block: returns (W-string, re-string, qb, "X=.. T=..", next state, law ok) *)
let one_block el s b =
  let ws = wstar el s b in
  let s' = step el s b in
  let nb = List.length (wbang b.bavail) in
  let xs = List.concat s.sxi in
  let a = int_of_nat (count_in xs (firstn nb ws)) and q = int_of_nat (count_in xs (skipn nb ws)) in
  let qb = int_of_nat (count_bad s') in
  let inv = qinv_b s in
  let law = (not inv) || (q = 0 && qb = 0 && ((not (fresh_b s b)) || a = 0)) in
  (pr_w ws, Printf.sprintf "%d+%d" a q, qb, Printf.sprintf "X=%s T=%s" (pr_xi s'.sxi) (pr_theta s'.stheta), s', law, ws)

let model toks =
  match toks with
  | [ "blk"; e; tau; slot; cut; xi; theta; avail ] ->
    let el = nat_of_int (int_of_string e) in
    let s = { sxi = parse_xi xi; stheta = parse_theta theta; stau = n_of_string tau } in
    let b = { bslot = n_of_string slot; bavail = parse_avail avail; bcut = nat_of_int (int_of_string cut) } in
    let w, re, qb, xt, _, law, _ = one_block el s b in
    Printf.sprintf "W=%s %s re=%s qb=%d%s" w xt re qb (if law then "" else " LAWFAIL")
  | "hist" :: e :: tau :: xi :: theta :: nb :: rest ->
    let el = nat_of_int (int_of_string e) in
    let s0 = { sxi = parse_xi xi; stheta = parse_theta theta; stau = n_of_string tau } in
    let rec blocks k l =
      if k = 0 then []
      else match l with
        | slot :: cut :: avail :: t ->
          { bslot = n_of_string slot; bavail = parse_avail avail; bcut = nat_of_int (int_of_string cut) } :: blocks (k - 1) t
        | _ -> failwith "hist blocks"
    in
    let bs = blocks (int_of_string nb) rest in
    let parts = ref [] and last = ref "" and ok = ref true and s = ref s0 and wsl = ref [] in
    List.iter
      (fun b ->
        let w, re, qb, xt, s', law, ws = one_block el !s b in
        if not law then ok := false;
        parts := Printf.sprintf "W=%s re=%s qb=%d S=%d" w re qb (fnv32 xt) :: !parts;
        wsl := ws :: !wsl;
        last := xt;
        s := s')
      bs;
    (* the function the history theorems are stated about gives the same W* lists and final state *)
    let wr, sf = run el s0 bs in
    if wr <> List.rev !wsl || sf <> !s then ok := false;
    String.concat " ; " (List.rev (!last :: !parts)) ^ if !ok then "" else " LAWFAIL"
  | [ "guard"; xi; theta; rho; beta; g ] ->
    if guard_rejects (parse_xi xi) (parse_theta theta) (parse_hashes rho) (parse_hashes beta) (parse_hashes g) then "dup" else "ok"
  | _ -> "BADCASE"

let () = run_cases model
