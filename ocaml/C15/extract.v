From JamV Require Import Model.Trie.
Require Import ExtrOcamlBasic.
Extraction "model.ml" N.of_nat N.to_nat Z.of_N Z.to_N root go_root leaf branch go_partition.
