(* C15 driver: expected outputs from the Appendix D specification [root] (Model/Trie.v), the node
   encodings and the list replay of the Go partition loop; the hash is the driver's Blake2b-256. *)
let hh = blake2b_n
let rec entries = function
  | k :: v :: t -> (bytes_of_hex k, bytes_of_hex v) :: entries t
  | [] -> []
  | _ -> failwith "odd entry tokens"
let hexo = function Some r -> hex_of_bytes r | None -> "nofuel"
let fmt_entries es = String.concat "" (List.map (fun (k, v) -> " " ^ hex_of_bytes k ^ " " ^ hex_of_bytes v) es)
(* the specification root; on small sets the Go-shaped model is evaluated as well (they are proved equal) *)
let spec_root es =
  let r = hexo (root hh es) in
  if List.length es <= 24 && hexo (go_root hh es) <> r then "MODEL-INCONSISTENT" else r

let model toks =
  match toks with
  | "root" :: _n :: kv -> spec_root (entries kv) ^ " same"
  | "perm" :: _seed :: _n :: kv -> spec_root (entries kv) ^ " inv"
  | [ "leaf"; k; v ] ->
    let n = leaf hh (bytes_of_hex k) (bytes_of_hex v) in
    hex_of_bytes n ^ " " ^ hex_of_bytes (hh n)
  | [ "branch"; l; r ] -> hex_of_bytes (branch (bytes_of_hex l) (bytes_of_hex r))
  | "part" :: d :: _n :: kv ->
    let a, b = go_partition (nat_of_int (int_of_string d)) (entries kv) in
    Printf.sprintf "%d%s" (List.length a) (fmt_entries (a @ b))
  | "state" :: _seed :: _n :: kv ->
    let r = spec_root (entries kv) in
    r ^ " " ^ r ^ " enc-same"
  | _ -> "BADCASE"

let () = run_cases model
