From JamV Require Import Base.Bytes Model.StateKV.
Require Import ExtrOcamlBasic.
Extraction "model.ml" N.of_nat N.to_nat Z.of_N Z.to_N key_fixed key_svc_idx key_svc_hash fixed_index info_sid
  serialize parse coll_free idx16.
