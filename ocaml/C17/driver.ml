(* C17 driver.  The model state is rebuilt from the logical content spelled out in the case; every key is
   recomputed with the extracted constructors C(i), C(255,s), C(s,h) (hash = the driver's Blake2b-256),
   the extracted [parse] is run on the (reversed) export, and the expected line is

     n=.. keys=.. parsed=.. raw=.. roundtrip ok roots eq node ok

   The values of the 16 components and of the service information are opaque here (identity codec on a
   dummy value): the Go side prints those keys without value.  The state root is not recomputed (C15 owns
   the trie): the Go line must say "roots eq <r>", the hex token is dropped before comparing. *)
let hh = blake2b_n
let idc (_ : n) (c : n list) = c
let decc (_ : n) (b : n list) = Some b
let id (b : n list) = b
let some (b : n list) = Some b
(* time-slot list of a lookup entry: the concatenated 4-byte slots; encoding = compact length ++ slots *)
let enc_ts (t : n list) : n list =
  let n = List.length t / 4 in
  if n >= 128 then failwith "too many slots" else n_of_int n :: t
let dec_ts (b : n list) : n list option =
  match b with
  | c :: rest when int_of_n c < 128 && List.length rest = 4 * int_of_n c -> Some rest
  | _ -> None

let ser st = serialize hh idc id enc_ts st
let prs kvs = parse hh decc (fun _ -> []) some [] dec_ts kvs

let rec take_n k f toks acc =
  if k = 0 then (List.rev acc, toks) else let x, toks = f toks in take_n (k - 1) f toks (x :: acc)

let parse_service toks =
  match toks with
  | sid :: _iseed :: ns :: toks ->
    let sto, toks = take_n (int_of_string ns)
        (function k :: v :: t -> ((bytes_of_hex k, bytes_of_hex v), t) | _ -> failwith "storage tokens") toks [] in
    (match toks with
     | np :: toks ->
       let pre, toks = take_n (int_of_string np)
           (function
             | b :: t ->
               (match String.index_opt b '=' with
                | Some i ->
                  ((bytes_of_hex (String.sub b 0 i), bytes_of_hex (String.sub b (i + 1) (String.length b - i - 1))), t)
                | None -> let b = bytes_of_hex b in ((hh b, b), t))
             | _ -> failwith "preimage tokens") toks [] in
       (match toks with
        | nl :: toks ->
          let lk, toks = take_n (int_of_string nl)
              (function hs :: l :: ts :: t -> (((bytes_of_hex hs, n_of_string l), bytes_of_hex ts), t)
                      | _ -> failwith "lookup tokens") toks [] in
          ((n_of_string sid, { a_info = []; a_storage = sto; a_pre = pre; a_lk = lk }), toks)
        | _ -> failwith "nl")
     | _ -> failwith "np")
  | _ -> failwith "service tokens"

let keyonly k = fixed_index k <> None || info_sid k <> None
let cmp_str (a : string) b = compare a b

let model toks =
  match toks with
  | "rt" :: _cseed :: _pseed :: nsvc :: rest ->
    let svcs, rest = take_n (int_of_string nsvc) parse_service rest [] in
    let extras =
      match rest with
      | [] -> Some []
      | "x" :: n :: t ->
        let xs, t' = take_n (int_of_string n)
            (function k :: v :: t -> ((bytes_of_hex k, bytes_of_hex v), t) | _ -> failwith "foreign tokens") t [] in
        if t' = [] then Some xs else None
      | _ -> None in
    if extras = None then "BADCASE trailing" else begin
      let extras = match extras with Some x -> x | None -> [] in
      let st = { st_comp = (fun _ -> []); st_delta = svcs } in
      let kvs = ser st @ extras in
      let coinc = not (coll_free hh enc_ts st) in
      let shown = List.sort cmp_str
          (List.map (fun (k, v) -> if keyonly k then hex_of_bytes k else hex_of_bytes k ^ ":" ^ hex_of_bytes v) kvs) in
      let b = Buffer.create 4096 in
      Buffer.add_string b (Printf.sprintf "n=%d keys=%s" (List.length kvs) (String.concat "," shown));
      (match prs (List.rev kvs) with
       | None -> Buffer.add_string b " import-err"
       | Some (st', raw) ->
         let ds = List.sort (fun (s1, _) (s2, _) -> ZA.compare (za_of_n s1) (za_of_n s2)) st'.st_delta in
         let one (s, a) =
           let lks = List.sort cmp_str
               (List.map (fun ((hs, l), _) -> hex_of_bytes hs ^ ":" ^ string_of_n l) a.a_lk) in
           Printf.sprintf "%s/%d/%s" (string_of_n s) (List.length a.a_pre) (String.concat "," lks) in
         Buffer.add_string b (" parsed=" ^ (if ds = [] then "-" else String.concat ";" (List.map one ds)));
         let rk = List.sort cmp_str (List.map (fun (k, _) -> hex_of_bytes k) raw) in
         Buffer.add_string b (" raw=" ^ (if rk = [] then "-" else String.concat "," rk));
         let canon l = List.sort cmp_str (List.map (fun (k, v) -> hex_of_bytes k ^ ":" ^ hex_of_bytes v) l) in
         let again = ser st' @ raw in
         Buffer.add_string b (if canon again = canon kvs then " roundtrip ok" else " roundtrip MODEL-DIFF");
         Buffer.add_string b " roots eq node ok");
      if coinc then Buffer.add_string b " HASH-COINCIDENCE";
      Buffer.contents b
    end
  | _ -> "BADCASE"

(* drop the hex token after "roots eq" of the implementation's line *)
let strip_root (out : string) : string =
  let ts = split_ws out in
  let rec go = function
    | "roots" :: "eq" :: _r :: t -> "roots" :: "eq" :: go t
    | x :: t -> x :: go t
    | [] -> [] in
  String.concat " " (go ts)

let () =
  let total = ref 0 and bad = ref 0 in
  (try
     while true do
       let line = input_line stdin in
       if String.length line > 0 && line.[0] <> '#' then begin
         let inp, out = split_case line in
         incr total;
         let m = try model (split_ws inp) with e -> "MODELEXN " ^ Printexc.to_string e in
         if strip_root (String.trim out) <> m then begin
           incr bad;
           if !bad <= 2000 then Printf.printf "MISMATCH\t%s\timpl=%s\tmodel=%s\n" inp (String.trim out) m
         end
       end
     done
   with End_of_file -> ());
  Printf.printf "DONE n=%d mismatches=%d\n" !total !bad
