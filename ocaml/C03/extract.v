From JamV Require Import Model.PvmGo.
Require Import ExtrOcamlBasic.
Extraction "model.ml" N.of_nat N.to_nat Z.of_N Z.to_N mk_slice deblob_go djump_go single_initializer_go
  psi_m_load decode_serialized_values declared alloc_bound_of deblob_bound_of alloc_load alloc_deblob C_BLOB K_FIXED range_ok_go halt_out_len m_has.
