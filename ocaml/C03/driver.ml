(* C03 driver: the Go-shaped model (extracted from Model/PvmGo.v, repaired shape) predicts the outcome class of
   every case - never a Go panic - and its allocation account. The measured allocation a=<bytes> printed by the
   harness is replaced by a=ok when it is at most 21/20 of the proved bound plus a fixed slack per kind
   of call (the slack covers what is not a make of the modelled code: error values, the Host struct, the page
   map's buckets, copies a run makes out of mapped memory) AND that account is within the proved bound
   (C03_alloc_bound); k=<exit kind> is compared only where the model fixes it (k=* otherwise). *)
let spare n = List.init n (fun _ -> byte_tab.(0xAA))
let slice hex xcap = mk_slice (bytes_of_hex hex) (spare xcap)
let sn = string_of_n
let za = za_of_n
let huh = "18446744073709551607"

(* storage of the page map itself (Go runtime map growth, not a make of the code): at most 128 bytes per mapped page *)
let map_overhead s alen = ZA.div (za (declared s alen)) (ZA.of_int 32)

(* limit for the measured allocation: 21/20 * the PROVED bound (C03_alloc_bound: 512*|p| + 65536 + declared + declared/128,
   i.e. "a fixed bound plus the sizes the blob declares") + slack; an account above the proved bound gives limit -1.
   The limit was 21/20 * the model's exact account at first: that is the footprint of the code as it is written today, which
   the property does not fix - a behaviour-preserving rewrite that allocates one backing array per zone and pre-sizes the page
   map (neutral/C03/N3) went 2 % over it. The property only states the bound, so the bound is what is checked. *)
let limit (account : n) (proved : n) (slack : ZA.t) : ZA.t =
  if ZA.gt (za account) (za proved) then ZA.minus_one
  else ZA.add (ZA.div (ZA.mul (za proved) (ZA.of_int 21)) (ZA.of_int 20)) slack

(* expected output and the limit for the measured allocation *)
let model toks : string * ZA.t =
  let zero = ZA.zero in
  match toks with
  | [ "deblob"; hx; xc ] -> (
    let s = slice hx (int_of_string xc) in
    let bound = limit (alloc_deblob s) (deblob_bound_of s) (ZA.of_int 512) in
    match deblob_go true true s with
    | Ok g ->
      ( Printf.sprintf "ok ni=%s nb=%s js=%s jl=%s jd=%s sb=%d a=ok" (sn g.gp_ni) (sn g.gp_nb) (sn g.gp_js) (sn g.gp_jl)
          (sn g.gp_jt.g_len) (if g.gp_sb then 1 else 0),
        bound )
    | Rej -> ("rej a=ok", bound)
    | GoPanic -> ("MODEL-GOPANIC", zero)
    | OutOfFuel -> ("MODEL-FUEL", zero))
  | [ "djump"; hx; a ] -> (
    match deblob_go true true (slice hx 0) with
    | Ok g -> (
      match djump_go true g (n_of_string a) with
      | Ok JHalt -> ("halt", zero)
      | Ok JPanic -> ("panic", zero)
      | Ok (JGo pc) -> ("go:" ^ sn pc, zero)
      | Rej -> ("MODEL-REJ", zero)
      | GoPanic -> ("MODEL-GOPANIC", zero)
      | OutOfFuel -> ("MODEL-FUEL", zero))
    | Rej -> ("rej", zero)
    | GoPanic -> ("MODEL-GOPANIC", zero)
    | OutOfFuel -> ("MODEL-FUEL", zero))
  | [ "init"; hx; al; xc ] -> (
    let s = slice hx (int_of_string xc) in
    let alen = n_of_string al in
    let account = match single_initializer_go true s alen with Ok io -> io.io_alloc | _ -> N0 in
    let bound = limit account (alloc_bound_of s alen) (ZA.add (ZA.of_int 512) (map_overhead s alen)) in
    match single_initializer_go true s alen with
    | Ok io ->
      ( Printf.sprintf "ok c=%s pg=%s hp=%s hl=%s a=ok" (sn io.io_c.g_len) (sn io.io_pages) (sn io.io_hp) (sn io.io_hl),
        bound )
    | Rej -> ("rej a=ok", bound)
    | GoPanic -> ("MODEL-GOPANIC", zero)
    | OutOfFuel -> ("MODEL-FUEL", zero))
  | [ "psim"; hx; al; _gas ] -> (
    let s = slice hx 0 in
    let alen = n_of_string al in
    (* slack: the Host, host-call buffers, and what a run may copy out of the mapped memory (halt output, machine's blob) *)
    let bound =
      limit (alloc_load s alen) (alloc_bound_of s alen)
        (ZA.add (ZA.add (ZA.of_int 8192) (map_overhead s alen)) (za (declared s alen)))
    in
    let sbrk =
      match decode_serialized_values s with
      | Ok b -> ( match deblob_go true true b.sb_c with Ok g -> g.gp_sb | _ -> false)
      | _ -> false
    in
    if sbrk then ("skip-sbrk", zero)
    else
      match psi_m_load true s alen with
      | Ok _ -> ("def k=* g=ok a=ok", bound)
      | Rej -> ("def k=panic g=ok a=ok", bound)
      | GoPanic -> ("MODEL-GOPANIC", zero)
      | OutOfFuel -> ("MODEL-FUEL", zero))
  | [ "mach"; hx; _i ] -> (
    let s = slice hx 0 in
    let bound = limit (alloc_deblob s) (deblob_bound_of s) (ZA.add (ZA.of_int 2048) (za s.g_len)) in
    match deblob_go true true s with
    | Ok _ -> ("r7=0 n=1 a=ok", bound)
    | Rej -> ("r7=" ^ huh ^ " n=0 a=ok", bound)
    | GoPanic -> ("MODEL-GOPANIC", zero)
    | OutOfFuel -> ("MODEL-FUEL", zero))
  | [ "range"; call; st; ln; hx ] -> (
    (* the assembled program puts (st, ln) into the pointer/length registers of the call; gas 100 is enough *)
    let s = slice hx 0 in
    let start = n_of_string st and len = n_of_string ln in
    let bound =
      limit (alloc_load s N0) (alloc_bound_of s N0)
        (ZA.add (ZA.add (ZA.of_int 24576) (map_overhead s N0)) (za (declared s N0)))
    in
    match psi_m_load true s N0 with
    | Ok (io, _) ->
      let acc p = m_has { m_iv = io.io_iv; m_made = N0 } p in
      let ok off = range_ok_go true acc start off in
      let seg = n_of_int 4104 in
      let e =
        match call with
        | "halt" -> Printf.sprintf "k=halt olen=%s g=ok a=ok" (sn (halt_out_len true acc start len))
        | "log" -> "k=halt olen=0 g=ok a=ok"
        | "mach" -> if ok len then "k=halt olen=0 g=ok a=ok" else "k=panic olen=0 g=ok a=ok"
        | "export" ->
          let z = if ZA.lt (za len) (za seg) then len else seg in
          if ok z then "k=halt olen=0 g=ok a=ok" else "k=panic olen=0 g=ok a=ok"
        | _ -> "BADCASE"
      in
      (e, bound)
    | Rej -> ("MODEL-REJ", zero)
    | GoPanic -> ("MODEL-GOPANIC", zero)
    | OutOfFuel -> ("MODEL-FUEL", zero))
  | [ "refine"; hx; gas ] -> (
    (* the assembled refine program: 8 instructions and one host call (10) = 18 units of gas *)
    if int_of_string gas < 18 then ("k=oog out=- g=ok", zero)
    else
      match deblob_go true true (slice hx 0) with
      | Ok _ -> ("k=halt out=0000000000000000 g=ok", zero)
      | Rej -> ("k=halt out=f7ffffffffffffff g=ok", zero)
      | GoPanic -> ("MODEL-GOPANIC", zero)
      | OutOfFuel -> ("MODEL-FUEL", zero))
  | _ -> ("BADCASE", zero)

let starts p s = String.length s >= String.length p && String.sub s 0 (String.length p) = p

(* the implementation's output with the measured allocation classified against the bound *)
let normalise (out : string) (expect : string) (bound : ZA.t) : string =
  let wild = List.mem "k=*" (split_ws expect) in
  String.concat " "
    (List.map
       (fun t ->
         if starts "a=" t then (
           match ZA.of_string (String.sub t 2 (String.length t - 2)) with
           | m -> if ZA.leq m bound then "a=ok" else Printf.sprintf "a=OVER:%s>%s" (ZA.to_string m) (ZA.to_string bound)
           | exception _ -> t)
         else if wild && starts "k=" t then "k=*"
         else t)
       (split_ws out))

let () =
  let total = ref 0 and bad = ref 0 in
  (try
     while true do
       let line = input_line stdin in
       if String.length line > 0 && line.[0] <> '#' then begin
         let inp, out = split_case line in
         incr total;
         let m, shown =
           try
             let e, b = model (split_ws inp) in
             (e, normalise (String.trim out) e b)
           with ex -> ("MODELEXN " ^ Printexc.to_string ex, String.trim out)
         in
         if shown <> m then begin
           incr bad;
           if !bad <= 2000 then Printf.printf "MISMATCH\t%s\timpl=%s\tmodel=%s\n" inp shown m
         end
       end
     done
   with End_of_file -> ());
  Printf.printf "DONE n=%d mismatches=%d\n" !total !bad
