#!/bin/sh
# build.sh <Cxx> : extract the model of one property and compile its driver -> .build/modelrun_<Cxx>
set -e
P="$1"
ROOT="$(cd "$(dirname "$0")/.." && pwd)"
D="$ROOT/ocaml/$P"
B="$ROOT/.build/ocaml_$P"
rm -rf "$B"; mkdir -p "$B"
cp "$D/extract.v" "$B/extract.v"
( cd "$B" && timeout 900 coqc -Q "$ROOT/coq" JamV extract.v >/dev/null )
EXTRA=""
[ -f "$D/PARTS" ] && for f in $(cat "$D/PARTS"); do EXTRA="$EXTRA $ROOT/ocaml/common/$f"; done
cat "$ROOT/ocaml/common/caseio.ml" $EXTRA "$D/driver.ml" > "$B/main.ml"
( cd "$B" && ocamlfind ocamlopt -O3 -unboxed-types 2>/dev/null -package zarith -linkpkg -w -a model.mli model.ml main.ml -o "$ROOT/.build/modelrun_$P" \
  || ocamlfind ocamlopt -package zarith -linkpkg -w -a model.mli model.ml main.ml -o "$ROOT/.build/modelrun_$P" )
