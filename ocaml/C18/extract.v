From JamV Require Import Model.Merkle.
Require Import ExtrOcamlBasic.
Extraction "model.ml" N.of_nat N.to_nat Z.of_N Z.to_N
  Nroot MB M C T Ptop PI Jx Lx pages verify_go paged_proofs copath C_go Jx_go T_floor N_nil0.
