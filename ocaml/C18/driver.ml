(* C18 driver: expected outputs from the extracted Gray Paper E.1 model (Model/Merkle.v).
   Element tokens: hex, "-" (empty) or "nil"; the specification has one empty blob, so "nil" = "-". *)

(* byte conversion without bignum arithmetic (hot path: every hash call) *)
let rec int_of_pos_fast = function XH -> 1 | XO p -> 2 * int_of_pos_fast p | XI p -> (2 * int_of_pos_fast p) + 1
let int_of_n_fast = function N0 -> 0 | Npos p -> int_of_pos_fast p
let string_of_nbytes_fast (l : n list) : string =
  let b = Buffer.create 80 in
  List.iter (fun x -> Buffer.add_char b (Char.unsafe_chr (int_of_n_fast x))) l;
  Buffer.contents b
(* the hashes are pure; consecutive cases share their sequence, so results are cached by input *)
let cached (f : string -> string) : n list -> n list =
  let tbl : (string, n list) Hashtbl.t = Hashtbl.create 65536 in
  fun l ->
    let k = string_of_nbytes_fast l in
    match Hashtbl.find_opt tbl k with
    | Some r -> r
    | None ->
      if Hashtbl.length tbl > 400000 then Hashtbl.reset tbl;
      let r = nbytes_of_string (f k) in
      if String.length k <= 200 then Hashtbl.add tbl k r;
      r
let blake = cached Hashes.blake2b256
let keccak = cached Hashes.keccak256
let pick = function "k" -> keccak | _ -> blake

let hexdigits = "0123456789abcdef"
let hex_fast (l : n list) : string =
  if l = [] then "-"
  else begin
    let b = Buffer.create 64 in
    List.iter (fun x -> let v = int_of_n_fast x in
                Buffer.add_char b hexdigits.[v lsr 4]; Buffer.add_char b hexdigits.[v land 15]) l;
    Buffer.contents b
  end

let elem t = if t = "nil" then [] else bytes_of_hex t
let elems toks = List.map elem toks
let join l = if l = [] then "[]" else String.concat "," (List.map hex_fast l)
let nat s = nat_of_int (int_of_string s)

(* one 4104-byte export segment from a repeated pattern *)
let segment_size = 4104
let segment tok =
  let pat = Array.of_list (bytes_of_hex tok) in
  let k = Array.length pat in
  List.init segment_size (fun j -> pat.(j mod k))

let strip_zeros (b : n list) : n list =
  let rec drop = function N0 :: t -> drop t | l -> l in
  List.rev (drop (List.rev b))

let model toks =
  match toks with
  | "N" :: h :: v -> hex_fast (nroot (pick h) (elems v))
  | "Mb" :: h :: v -> hex_fast (mB (pick h) (elems v))
  | "M" :: h :: v -> hex_fast (m (pick h) (elems v))
  | "C" :: h :: v -> join (c (pick h) (elems v))
  | "T" :: h :: i :: v -> join (t (pick h) (elems v) (nat i))
  | "Ps" :: i :: v -> join (ptop (elems v) (nat i))
  | "PI" :: i :: v -> string_of_int (int_of_nat (pI (elems v) (nat i)))
  | "Jx" :: h :: x :: i :: v -> join (jx (pick h) (nat x) (elems v) (nat i))
  | "Lx" :: h :: x :: i :: v -> join (lx (pick h) (nat x) (elems v) (nat i))
  | "vfy" :: h :: pi :: ui :: leaf :: v ->
    let hf = pick h in
    let v = elems v in
    if verify_go hf (elem leaf) (jx hf O v (nat pi)) (nat ui) (m hf v) then "true" else "false"
  | "Tall" :: h :: v ->
    let hf = pick h in
    let v = elems v in
    "T:" ^ String.concat ";" (List.mapi (fun i _ -> join (t hf v (nat_of_int i))) v)
  | "Jall" :: h :: x :: v ->
    let hf = pick h in
    let v = elems v in
    let x = nat x in
    let np = int_of_nat (pages x v) in
    "J:" ^ String.concat ";"
      (List.init np (fun p -> join (jx hf x v (nat_of_int p)) ^ "/" ^ join (lx hf x v (nat_of_int p))))
  | "Vall" :: h :: v ->
    let hf = pick h in
    let v = elems v in
    let n = List.length v in
    let root = m hf v in
    "V:" ^ String.concat ""
      (List.mapi
         (fun i leaf ->
           let proof = jx hf O v (nat_of_int i) in
           let b idx = if verify_go hf leaf proof (nat_of_int idx) root then "t" else "f" in
           b i ^ b ((i + 1) mod n))
         v)
  | "Call" :: v ->
    let v = elems v in
    "P:" ^ String.concat ";"
      (List.init (List.length v + 1) (fun i ->
           match copath blake v (nat_of_int i) with Some b -> hex_fast b | None -> "err"))
  | "copath" :: i :: v -> (
    match copath blake (elems v) (nat i) with Some b -> hex_fast b | None -> "err")
  | "paged" :: ts ->
    let pages = paged_proofs blake (nat_of_int segment_size) (List.map segment ts) in
    String.concat " "
      (string_of_int (List.length pages)
       :: List.map (fun p -> Printf.sprintf "%d:%s" (List.length p) (hex_fast (strip_zeros p))) pages)
  | _ -> "BADCASE"

let () = run_cases model
