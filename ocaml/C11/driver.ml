(* C11/C13/C14 driver: the model decodes the bytes with the descriptor of the named Go type
   (Model/JamTypes.v) and re-encodes; expected outputs follow internal/verifcodec/run.go *)
(* decf = dec (theorem decf_eq) *)
let dec = decf
let dec_frame = decf_frame

let params_of = function "t" -> tiny | "f" -> full | m -> failwith ("mode " ^ m)

let desc_of p name =
  match name with
  | "U8" -> dU8 | "U16" -> dU16 | "U32" -> dU32 | "U64" -> dU64
  | "OpaqueHash" | "HeaderHash" | "StateRoot" | "BeefyRoot" | "WorkPackageHash" | "WorkReportHash" | "TicketID"
  | "AuthorizerHash" | "BandersnatchPublic" | "Ed25519Public" -> dHash
  | "BlsPublic" -> dBlsPublic | "BandersnatchVrfSignature" -> dBandersnatchVrfSignature
  | "BandersnatchRingVrfSignature" -> dBandersnatchRingVrfSignature
  | "BandersnatchRingCommitment" -> dBandersnatchRingCommitment | "ValidatorMetadata" -> dValidatorMetadata
  | "TimeSlot" | "ServiceID" -> dU32 | "Gas" -> dU64 | "ValidatorIndex" | "CoreIndex" -> dU16
  | "TicketAttempt" -> dTicketAttempt | "ByteSequence" -> dByteSequence | "TimeSlotSet" -> dTimeSlotSet
  | "EpochMarkValidatorKeys" -> dEpochMarkValidatorKeys | "EpochMark" -> dEpochMark p | "TicketBody" -> dTicketBody
  | "TicketsMark" -> dTicketsMark p | "OffendersMark" -> dOffendersMark | "Header" -> dHeader p
  | "WorkPackageSpec" -> dWorkPackageSpec | "RefineContext" -> dRefineContext
  | "SegmentRootLookupItem" -> dSegmentRootLookupItem | "SegmentRootLookup" -> dSegmentRootLookup
  | "WorkExecResult" -> dWorkExecResult | "RefineLoad" -> dRefineLoad | "WorkResult" -> dWorkResult
  | "WorkReport" -> dWorkReport | "TicketEnvelope" -> dTicketEnvelope | "TicketsExtrinsic" -> dTicketsExtrinsic
  | "Preimage" -> dPreimage | "PreimagesExtrinsic" -> dPreimagesExtrinsic | "ValidatorSignature" -> dValidatorSignature
  | "ReportGuarantee" -> dReportGuarantee | "GuaranteesExtrinsic" -> dGuaranteesExtrinsic | "Bitfield" -> dBitfield p
  | "AvailAssurance" -> dAvailAssurance p | "AssurancesExtrinsic" -> dAssurancesExtrinsic p | "Judgement" -> dJudgement
  | "Verdict" -> dVerdict p | "Culprit" -> dCulprit | "Fault" -> dFault | "DisputesExtrinsic" -> dDisputesExtrinsic p
  | "Extrinsic" -> dExtrinsic p | "Block" -> dBlock p | "Authorizer" -> dAuthorizer | "ImportSpec" -> dImportSpec
  | "WorkItem" -> dWorkItem | "WorkPackage" -> dWorkPackage | "ExtrinsicData" -> dExtrinsicData
  | "ExtrinsicDataList" -> dExtrinsicDataList | "ExportSegment" -> dExportSegment
  | "ExportSegmentMatrix" -> dExportSegmentMatrix | "OpaqueHashMatrix" -> dOpaqueHashMatrix
  | "WorkPackageBundle" -> dWorkPackageBundle | "AuthPool" -> dAuthPool | "AuthPools" -> dAuthPools p
  | "AuthQueue" -> dAuthQueue | "AuthQueues" -> dAuthQueues p | "ReportedWorkPackage" -> dReportedWorkPackage
  | "BlockInfo" -> dBlockInfo | "BlocksHistory" -> dBlocksHistory | "Mmr" -> dMmr | "RecentBlocks" -> dRecentBlocks
  | "Validator" -> dValidator | "ValidatorsData" -> dValidatorsData p | "TicketsOrKeys" -> dTicketsOrKeys p
  | "TicketsAccumulator" -> dTicketsAccumulator | "SafroleState" -> dSafroleState p
  | "DisputesRecords" -> dDisputesRecords | "EntropyBuffer" -> dEntropyBuffer
  | "AvailabilityAssignment" -> dAvailabilityAssignment | "AvailabilityAssignments" -> dAvailabilityAssignments p
  | "ServiceIDList" -> dServiceIDList p | "AlwaysAccumulateMap" -> dAlwaysAccumulateMap | "Privileges" -> dPrivileges p
  | "ValidatorActivityRecord" -> dValidatorActivityRecord | "ValidatorsStatistics" -> dValidatorsStatistics p
  | "CoreActivityRecord" -> dCoreActivityRecord | "CoresStatistics" -> dCoresStatistics p
  | "ServiceActivityRecord" -> dServiceActivityRecord | "ServicesStatistics" -> dServicesStatistics
  | "Statistics" -> dStatistics p | "ReadyRecord" -> dReadyRecord | "ReadyQueueItem" -> dReadyQueueItem
  | "ReadyQueue" -> dReadyQueue p | "AccumulatedQueueItem" -> dAccumulatedQueueItem
  | "AccumulatedQueue" -> dAccumulatedQueue p | "AccumulatedServiceHash" -> dAccumulatedServiceHash
  | "LastAccOut" -> dLastAccOut | "AccumulatedServiceOutput" -> dAccumulatedServiceOutput
  | "ServiceInfo" -> dServiceInfo | "PreimagesMapEntry" -> dPreimagesMapEntry
  | "LookupMetaMapEntry" -> dLookupMetaMapEntry | "Storage" -> dStorage | "ServiceAccount" -> dServiceAccount
  | "ServiceAccountState" -> dServiceAccountState | "State" | "StateTheta" -> dState p
  | "DeferredTransfer" -> dDeferredTransfer | "Operand" -> dOperand
  | "OperandOrDeferredTransfer" -> dOperandOrDeferredTransfer | "StateKey" -> dStateKey
  | "StateKeyVal" -> dStateKeyVal | "StateKeyVals" -> dStateKeyVals | "BoundaryNode" -> dBoundaryNode
  | "AncestryItem" -> dAncestryItem | "Ancestry" -> dAncestry p
  | _ -> failwith ("no descriptor for " ^ name)

let consumed bs rest = List.length bs - List.length rest

(* decode then re-encode: the observable of C13 *)
let dec_outcome d bs =
  match dec d bs with
  | None -> "err"
  | Some (v, rest) ->
    let used = consumed bs rest in
    let re = match enc d v with
      | None -> "E"
      | Some b -> if b = List.filteri (fun i _ -> i < used) bs then "1" else "0" in
    Printf.sprintf "ok used=%d reenc=%s" used re

let model toks =
  match toks with
  | [ "rt"; m; ty; _seed; hx ] -> (
    (* the model accepts exactly Go's bytes and re-encodes the decoded value to the same bytes *)
    let d = desc_of (params_of m) ty and bs = bytes_of_hex hx in
    match dec d bs with
    | Some (v, []) -> (
      match enc d v with
      | Some b when b = bs -> Printf.sprintf "ok used=%d eq=1 det=1" (List.length bs)
      | _ -> "MODEL-REENCODES-DIFFERENTLY")
    | Some (_, _ :: _) -> "MODEL-LEAVES-BYTES"
    | None -> "MODEL-REJECTS")
  | [ "frt"; m; _seed; hx ] -> (
    let d = dMessage (params_of m) and bs = bytes_of_hex hx in
    match dec_frame d bs with
    | Some (v, []) -> (
      match enc_frame d v with
      | Some b when b = bs -> Printf.sprintf "ok used=%d eq=1 det=1" (List.length bs)
      | _ -> "MODEL-REENCODES-DIFFERENTLY")
    | Some (_, _ :: _) -> "MODEL-LEAVES-BYTES"
    | None -> "MODEL-REJECTS")
  | [ "dec"; m; ty; hx ] -> dec_outcome (desc_of (params_of m) ty) (bytes_of_hex hx)
  | [ "safe"; m; ty; hx ] -> dec_outcome (desc_of (params_of m) ty) (bytes_of_hex hx) ^ " mem=ok"
  | [ "frame"; _m; _hx ] -> "safe"
  | [ "peer"; _hx ] -> "safe"
  | _ -> "BADCASE"

let () = run_cases model
