From JamV Require Import Base.Bytes Model.StfLists Model.AuthPool.
Require Import ExtrOcamlBasic.
Extraction "model.ml" N.of_nat N.to_nat Z.of_N Z.to_N alpha_step alpha_step_checked pool_spec_fn used_by queue_entry.
