(* C24 driver: expected posterior pools after every block of a history, from the extracted alpha_step_checked
   (the impl-shaped model proved equal to the per-core formula). Cross-check inside the driver: every pool is also
   recomputed with the per-core formula pool_spec_fn; a difference is reported as MODELSELF. *)
let ids_of_tok (s : string) : n list =
  if s = "-" || s = "~" then [] else List.map n_of_string (String.split_on_char ',' s)
let tok_of_ids (l : n list) : string =
  if l = [] then "-" else String.concat "," (List.map string_of_n l)

let model toks =
  let a = Array.of_list toks in
  let c = int_of_string a.(0) and o = int_of_string a.(1) in
  let nq = int_of_string a.(3) and nb = int_of_string a.(4) in
  let pos = ref 5 in
  let next () = let t = a.(!pos) in incr pos; t in
  let expect s = if next () <> s then failwith ("expected " ^ s) in
  expect "P";
  let alpha = ref (List.init c (fun _ -> ids_of_tok (next ()))) in
  expect "Q";
  let queues = Array.init nq (fun _ -> List.init c (fun _ -> ids_of_tok (next ()))) in
  let outs = ref [] in
  let stop = ref false in
  let on = nat_of_int o in
  for _b = 1 to nb do
    if not !stop then begin
      expect "B";
      let slot = n_of_string (next ()) in
      let varphi = queues.(int_of_string (next ())) in
      let ng = int_of_string (next ()) in
      let gs = List.init ng (fun _ ->
        match String.split_on_char ':' (next ()) with
        | [ co; au ] -> (nat_of_int (int_of_string co), n_of_string au)
        | _ -> failwith "bad guarantee") in
      match alpha_step_checked on slot gs !alpha varphi with
      | None -> outs := "err" :: !outs; stop := true
      | Some post ->
        (* self check against the per-core formula *)
        List.iteri (fun ci p ->
          let prior = List.nth !alpha ci and q = List.nth varphi ci in
          match queue_entry slot q with
          | Some e -> if pool_spec_fn on (used_by (nat_of_int ci) gs) prior e <> p then failwith "MODELSELF"
          | None -> ()) post;
        alpha := post;
        outs := String.concat ";" (List.map tok_of_ids post) :: !outs
    end
  done;
  String.concat "/" (List.rev !outs)

let () = run_cases_info model
