(* C12 driver: expected outputs of the canonical natural codec (model = Gray Paper C.6) *)
let model toks =
  match toks with
  | [ "enc"; _codec; v ] -> hex_of_bytes (enc_nat (n_of_string v))
  | [ "dec"; _codec; hx ] -> (
    let bs = bytes_of_hex hx in
    match dec_nat bs with
    | Some (x, rest) -> Printf.sprintf "ok %s %d" (string_of_n x) (List.length bs - List.length rest)
    | None -> "err")
  | _ -> "BADCASE"

let () = run_cases model
