From JamV Require Import Model.NatCodec.
Require Import ExtrOcamlBasic.
Extraction "model.ml" N.of_nat N.to_nat Z.of_N Z.to_N enc_nat dec_nat dec_nat_lenient.
