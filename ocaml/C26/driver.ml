(* C26 driver. Each implementation line is
     hist <seed> <nops> <anc> <tix> | A m=- <op>=<res> ... # B1 m=<mask> <op>=<res> ... # B2 ... # A2 ...
   (see harness/overlay/cmd/verif_c26/main.go). The extracted node model (Model/Node.v: step/run, mask_ok,
   remove_mask) is run on the same operations. Its STF is the table  (parent state, block) -> accepted post-state |
   protocol-error kind  LEARNED from run A of the implementation itself (first use of a key defines it; any later use,
   in A or in another run, is predicted). States are identified by (state root, key-value digest). The expected
   transcript of every run is what the theorems prescribe: run B = run of the model on the history with the masked
   (refused) imports deleted = A's observables with those deleted (C26_rejected_is_noop), A2 = A
   (C26_import_deterministic). The first token that differs is reported.
   The same is done with the Go-shaped leaky node (gstep/grun, C26_go_shaped_node_refuted): when it predicts the whole
   implementation output the mismatch is tagged "goshaped=explains". *)

type blk = { bid : int; bh : int; bp : int; bt : int }

let states : (string * string) array ref = ref (Array.make 64 ("?", "?"))
let nstates = ref 0
let state_ids : (string * string, int) Hashtbl.t = Hashtbl.create 64
let intern_state r d =
  match Hashtbl.find_opt state_ids (r, d) with
  | Some i -> i
  | None ->
    if !nstates >= Array.length !states then begin
      let a = Array.make (2 * !nstates) ("?", "?") in
      Array.blit !states 0 a 0 !nstates; states := a
    end;
    !states.(!nstates) <- (r, d);
    Hashtbl.add state_ids (r, d) !nstates;
    incr nstates; !nstates - 1
let root_of s = if s < 0 then "?" else fst !states.(s)
let kv_of s = if s < 0 then "?" else snd !states.(s)

let kinds : string array ref = ref (Array.make 64 "")
let nkinds = ref 0
let kind_ids : (string, int) Hashtbl.t = Hashtbl.create 64
let intern_kind k =
  match Hashtbl.find_opt kind_ids k with
  | Some i -> i
  | None ->
    if !nkinds >= Array.length !kinds then begin
      let a = Array.make (2 * !nkinds) "" in
      Array.blit !kinds 0 a 0 !nkinds; kinds := a
    end;
    !kinds.(!nkinds) <- k; Hashtbl.add kind_ids k !nkinds; incr nkinds; !nkinds - 1

let reset_tables () =
  nstates := 0; Hashtbl.reset state_ids; nkinds := 0; Hashtbl.reset kind_ids

let render (ob : (string, string) obs) : string =
  match ob with
  | OAccepted (r, k) -> "ok:" ^ r ^ ":" ^ k
  | ORejected k -> !kinds.(int_of_n k)
  | ORefused RNoParent -> "no:refused_noparent"
  | ORefused RAncestry -> "no:refused_ancestry"
  | ORefused RNoHead -> "no:refused_nohead"
  | OState (k, r) -> "kv:" ^ k ^ ":" ^ r
  | ONone -> "none"

let num s = int_of_string (String.sub s 1 (String.length s - 1))

exception Missing of int * int
exception Bad of string

(* one oracle (STF table + genesis states) per node model, learned along that model's run of A *)
type oracle = {
  tbl : (int * int, (int, n) sum) Hashtbl.t;
  gen : (int, int) Hashtbl.t;
  mutable learning : bool;
}
let new_oracle () = { tbl = Hashtbl.create 64; gen = Hashtbl.create 8; learning = false }
let missing_kind () = n_of_int (intern_kind "no:oracle_has_no_entry")
let stf_of (o : oracle) (s : int) (b : blk) : (int, n) sum =
  match Hashtbl.find_opt o.tbl (s, b.bid) with
  | Some v -> v
  | None -> if o.learning then raise (Missing (s, b.bid)) else Inr (missing_kind ())

let split_on c s = String.split_on_char c s

(* learn an STF table entry from the implementation's result token *)
let learn (o : oracle) key (res : string) =
  let v =
    match split_on ':' res with
    | [ "ok"; r; d ] -> Inl (intern_state r d)
    | _ -> Inr (n_of_int (intern_kind res))
  in
  Hashtbl.replace o.tbl key v

let parse_op (o : oracle) (text : string) (res : string option) : (int, blk) op =
  match split_on '.' text with
  | [ "S"; g; h; t; a ] ->
    let g = num g and h = num h and t = num t in
    let sid =
      match Hashtbl.find_opt o.gen g with
      | Some s -> s
      | None -> (
        match res with
        | Some r when o.learning -> (
          match split_on ':' r with
          | [ "ok"; rt; d ] -> let s = intern_state rt d in Hashtbl.replace o.gen g s; s
          | _ -> -1)
        | _ -> -1)
    in
    let anc = if a = "a1" then [ (n_of_int t, n_of_int h) ] else [] in
    SetState (n_of_int h, n_of_int t, sid, anc)
  | [ "I"; b; h; p; t; _label ] -> Import { bid = num b; bh = num h; bp = num p; bt = num t }
  | [ "G"; h ] -> GetState (n_of_int (num h))
  | _ -> raise (Bad ("op " ^ text))

let bhash b = n_of_int b.bh
let bparent b = n_of_int b.bp
let bslot b = n_of_int b.bt

type run = { name : string; mask : string; toks : (string * string) list }

let parse_run (s : string) : run =
  match split_ws s with
  | name :: m :: rest ->
    let mask = if String.length m >= 2 && String.sub m 0 2 = "m=" then String.sub m 2 (String.length m - 2) else raise (Bad "mask") in
    let toks =
      List.map
        (fun t ->
          match String.index_opt t '=' with
          | Some i -> (String.sub t 0 i, String.sub t (i + 1) (String.length t - i - 1))
          | None -> raise (Bad ("token " ^ t)))
        rest
    in
    { name; mask; toks }
  | _ -> raise (Bad "run")

let split_runs (out : string) : string list =
  (* runs are separated by " # " *)
  let parts = ref [] and cur = Buffer.create 1024 in
  let n = String.length out in
  let i = ref 0 in
  while !i < n do
    if !i + 2 < n && out.[!i] = ' ' && out.[!i + 1] = '#' && out.[!i + 2] = ' ' then begin
      parts := Buffer.contents cur :: !parts; Buffer.clear cur; i := !i + 3
    end else begin Buffer.add_char cur out.[!i]; incr i end
  done;
  parts := Buffer.contents cur :: !parts;
  List.rev !parts

(* generic over the two node models *)
type 'nd machine = {
  init : 'nd;
  stepf : oracle -> 'nd -> (int, blk) op -> 'nd * (string, string) obs;
  runf : oracle -> (int, blk) op list -> (string, string) obs list;
}

let spec_machine : int node machine = {
  init = fresh;
  stepf = (fun o n op -> step bhash bparent bslot (stf_of o) root_of kv_of n op);
  runf = (fun o ops -> run bhash bparent bslot (stf_of o) root_of kv_of fresh ops);
}
let go_machine : int gnode machine = {
  init = gfresh;
  stepf = (fun o n op -> gstep bhash bparent bslot (stf_of o) root_of kv_of n op);
  runf = (fun o ops -> grun bhash bparent bslot (stf_of o) root_of kv_of gfresh ops);
}

(* expected transcripts of all runs under one machine: list of (run name, expected tokens) or an error string *)
let expected (type nd) (mc : nd machine) (runs : run list) : (string * string list) list =
  let o = new_oracle () in
  let a = List.hd runs in
  (* run A step by step, learning the oracle *)
  o.learning <- true;
  let node = ref mc.init in
  let ops_a = ref [] and obs_a = ref [] in
  List.iter
    (fun (text, res) ->
      let op = parse_op o text (Some res) in
      let rec go tries =
        match mc.stepf o !node op with
        | r -> r
        | exception Missing (s, b) ->
          if tries > 0 then raise (Bad "learning loop");
          learn o (s, b) res;
          go (tries + 1)
      in
      let n', ob = go 0 in
      node := n';
      ops_a := op :: !ops_a;
      obs_a := ob :: !obs_a)
    a.toks;
  o.learning <- false;
  let ops_a = List.rev !ops_a and obs_a = List.rev !obs_a in
  let texts_a = List.map fst a.toks in
  let exp_a = List.map render obs_a in
  (a.name, exp_a)
  :: List.map
       (fun (r : run) ->
         let m = List.init (String.length r.mask) (fun i -> r.mask.[i] = '1') in
         if List.length m <> List.length ops_a then (r.name, [ "MASK-LENGTH" ])
         else if remove_mask m texts_a <> List.map fst r.toks then (r.name, [ "MASK-DOES-NOT-MATCH-OPS" ])
         else if not (mask_ok m ops_a obs_a) then
           (* the harness deleted an import that the model does not refuse in A: the hypothesis of the theorem fails,
              which itself means A already deviates from the model *)
           (r.name, [ "MASK-NOT-OK" ])
         else
           let ops_b = remove_mask m ops_a in
           (r.name, List.map render (mc.runf o ops_b)))
       (List.tl runs)

(* equality of result tokens. A refusal that the MODEL attributes to the node's own admission policy (before the STF) matches
   any refusal `no:<kind>` of the implementation: <kind> is the sanitised error TEXT, which the property does not fix (the harmless
   change neutral/C26/N2 rewords these messages). STF rejections are compared as learned from run A of the same binary. *)
let tok_eq (impl : string) (model : string) : bool =
  impl = model
  || ((model = "no:refused_ancestry" || model = "no:refused_noparent" || model = "no:refused_nohead")
      && String.length impl >= 3 && String.sub impl 0 3 = "no:")

(* first difference between implementation and expectation *)
let first_diff (runs : run list) (exp : (string * string list) list) : (string * int * string * string * string) option =
  let res = ref None in
  List.iter2
    (fun (r : run) (_, e) ->
      if !res = None then begin
        let impl = List.map snd r.toks in
        let rec go i l1 l2 =
          match l1, l2 with
          | [], [] -> ()
          | x :: t1, y :: t2 -> if not (tok_eq x y) then res := Some (r.name, i, fst (List.nth r.toks i), x, y) else go (i + 1) t1 t2
          | x :: _, [] -> res := Some (r.name, i, fst (List.nth r.toks i), x, "(nothing)")
          | [], y :: _ -> res := Some (r.name, i, "(end)", "(nothing)", y)
        in
        go 0 impl e
      end)
    runs exp;
  !res

let context (r : run) (i : int) : string =
  let l = List.filteri (fun j _ -> j >= i - 4 && j < i) r.toks in
  String.concat " " (List.map (fun (a, b) -> a ^ "=" ^ b) l)

let () =
  let total = ref 0 and bad = ref 0 and explained = ref 0 in
  let nops = ref 0 and nrefused = ref 0 and naccepted = ref 0 in
  (try
     while true do
       let line = input_line stdin in
       if String.length line > 0 && line.[0] <> '#' then begin
         let inp, out = split_case line in
         incr total;
         reset_tables ();
         (try
            let runs = List.map parse_run (split_runs (String.trim out)) in
            List.iter (fun (_, res) ->
                incr nops;
                if String.length res >= 3 && String.sub res 0 3 = "ok:" then incr naccepted
                else if String.length res >= 3 && String.sub res 0 3 = "no:" then incr nrefused)
              (List.hd runs).toks;
            let exp = expected spec_machine runs in
            match first_diff runs exp with
            | None -> ()
            | Some (rn, i, optext, impl, model) ->
              incr bad;
              let r = List.find (fun (r : run) -> r.name = rn) runs in
              let gexp = try Some (expected go_machine runs) with _ -> None in
              let goshaped =
                match gexp with
                | Some g -> if first_diff runs g = None then (incr explained; "explains") else "differs"
                | None -> "n/a"
              in
              if !bad <= 2000 then
                Printf.printf "MISMATCH\t%s\timpl=%s@%d %s=%s [after: %s]\tmodel=%s=%s goshaped=%s\n" inp rn i optext impl
                  (context r i) optext model goshaped
          with
          | Bad msg ->
            incr bad;
            Printf.printf "MISMATCH\t%s\timpl=%s\tmodel=UNPARSABLE %s\n" inp
              (String.sub out 0 (min 200 (String.length out))) msg
          | e ->
            incr bad;
            Printf.printf "MISMATCH\t%s\timpl=%s\tmodel=MODELEXN %s\n" inp
              (String.sub out 0 (min 200 (String.length out))) (Printexc.to_string e))
       end
     done
   with End_of_file -> ());
  Printf.printf "INFO operations_in_A=%d accepted=%d refused=%d mismatching_histories_explained_by_go_shaped_node=%d\n" !nops
    !naccepted !nrefused !explained;
  Printf.printf "DONE n=%d mismatches=%d\n" !total !bad
