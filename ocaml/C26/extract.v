From Coq Require Import NArith ZArith.
From JamV Require Import Model.Node.
Require Import ExtrOcamlBasic.
Extraction "model.ml" N.of_nat N.to_nat Z.of_N Z.to_N step run gstep grun import_pre mask_ok remove_mask refused_mask fresh gfresh.
