From JamV Require Import Model.Mmr.
Require Import ExtrOcamlBasic.
Extraction "model.ml" N.of_nat N.to_nat Z.of_N Z.to_N
  append append_go mmr_of superpeak superpeak_fold append_and_commit P_ replace_at.
