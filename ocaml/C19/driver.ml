(* C19 driver: expected outputs from the extracted Gray Paper E.2 model (Model/Mmr.v).
   hist  : every intermediate state is the closed form mmr_of (items so far) — peak i present iff bit i
           of the count is set, equal to the perfect merge of its 2^i items — not the append recursion
   rest / aac / P / R : the Gray Paper append function A / P / R from the given (restored) peak list
   commitment : the super-peak M_R *)
let rec int_of_pos_fast = function XH -> 1 | XO p -> 2 * int_of_pos_fast p | XI p -> (2 * int_of_pos_fast p) + 1
let int_of_n_fast = function N0 -> 0 | Npos p -> int_of_pos_fast p
let string_of_nbytes_fast (l : n list) : string =
  let b = Buffer.create 80 in
  List.iter (fun x -> Buffer.add_char b (Char.unsafe_chr (int_of_n_fast x))) l;
  Buffer.contents b
let cached (f : string -> string) : n list -> n list =
  let tbl : (string, n list) Hashtbl.t = Hashtbl.create 65536 in
  fun l ->
    let k = string_of_nbytes_fast l in
    match Hashtbl.find_opt tbl k with
    | Some r -> r
    | None ->
      if Hashtbl.length tbl > 400000 then Hashtbl.reset tbl;
      let r = nbytes_of_string (f k) in
      Hashtbl.add tbl k r;
      r
let blake = cached Hashes.blake2b256
let keccak = cached Hashes.keccak256
let pick = function "b" -> blake | _ -> keccak

let hexdigits = "0123456789abcdef"
let hex_fast (l : n list) : string =
  if l = [] then "-"
  else begin
    let b = Buffer.create 64 in
    List.iter (fun x -> let v = int_of_n_fast x in
                Buffer.add_char b hexdigits.[v lsr 4]; Buffer.add_char b hexdigits.[v land 15]) l;
    Buffer.contents b
  end

let peak t = if t = "_" || t = "nil" then None else Some (bytes_of_hex t)
let peaks t = if t = "[]" then [] else List.map peak (String.split_on_char ',' t)
let show r =
  if r = [] then "[]"
  else String.concat "," (List.map (function None -> "_" | Some b -> hex_fast b) r)
let nat s = nat_of_int (int_of_string s)

let model toks =
  match toks with
  | "hist" :: h :: xs ->
    let hm = pick h in
    let _, out =
      List.fold_left
        (fun (rev_items, out) t ->
          let rev_items = match peak t with None -> rev_items | Some x -> x :: rev_items in
          let r = mmr_of hm (List.rev rev_items) in
          (rev_items, (show r ^ "=" ^ hex_fast (superpeak keccak r)) :: out))
        ([], []) xs
    in
    String.concat " " (List.rev ("alias-ok" :: out))
  | "rest" :: h :: ps :: xs ->
    let hm = pick h in
    let _, out =
      List.fold_left
        (fun (r, out) t ->
          let r = append_go hm r (peak t) in
          (r, (show r ^ "=" ^ hex_fast (superpeak keccak r)) :: out))
        (peaks ps, []) xs
    in
    String.concat " " (List.rev ("alias-ok" :: out))
  | "aac" :: ps :: xs ->
    let _, out =
      List.fold_left
        (fun (r, out) t ->
          let r', c = append_and_commit keccak keccak r (bytes_of_hex t) in
          (r', (show r' ^ "=" ^ hex_fast c) :: out))
        (peaks ps, []) xs
    in
    String.concat " " (List.rev ("alias-ok" :: out))
  | [ "sp"; ps ] -> hex_fast (superpeak keccak (peaks ps))
  | [ "P"; h; n; ps; l ] ->
    let r = peaks ps in
    show (p_ (pick h) (nat_of_int (List.length r + 2)) r (bytes_of_hex l) (nat n))
  | [ "R"; i; ps; v ] -> show (replace_at (peaks ps) (nat i) (peak v))
  | _ -> "BADCASE"

let () = run_cases model
