From Coq Require Import NArith ZArith List.
From JamV Require Import Model.Telemetry.
Require Import ExtrOcamlBasic.
Extraction "model.ml" N.of_nat N.to_nat Z.of_N Z.to_N accepts accepts_conns followups_ok ids_inc run init all_wires results.
