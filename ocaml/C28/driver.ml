(* C28 driver: validates each OBSERVED run of the real Go client with the extracted, proved oracle
   [accepts] (coq/Model/Telemetry.v; C28_oracle_sound says what a true verdict means, C28_alignment_inv
   that every interleaving of the model is accepted).  The harness output carries the observed run:
     <go verdict> <counts> ; W <wire tokens> ; R <emit tokens>
   The expected verdict is always "ok"; a line is a MISMATCH when the Go-side verdict is not ok (hang /
   blocked emitter) or the oracle rejects the run; the first misalignment is located by evaluating the
   same extracted oracle on prefixes of the wires. *)

let split_on_string (sep : string) (s : string) : string list =
  let n = String.length s and m = String.length sep in
  let rec go start i acc =
    if i + m > n then List.rev (String.sub s start (n - start) :: acc)
    else if String.sub s i m = sep then go (i + m) (i + m) (String.sub s start (i - start) :: acc)
    else go start (i + 1) acc
  in
  go 0 0 []

exception Malformed of int

let parse_wires (toks : string list) : frame list list =
  (* tokens: c (new connection) n e<tag> f<tag>.<parent> d<count> x *)
  let conns = ref [] and cur = ref None in
  let flush () = match !cur with Some l -> conns := List.rev l :: !conns | None -> () in
  List.iter
    (fun t ->
      if t = "c" then begin flush (); cur := Some [] end
      else begin
        let l = match !cur with Some l -> l | None -> failwith "frame before connection" in
        let f =
          match t.[0] with
          | 'n' -> FNode
          | 'e' -> FEvent (n_of_string (String.sub t 1 (String.length t - 1)), None)
          | 'f' ->
            let body = String.sub t 1 (String.length t - 1) in
            let i = String.index body '.' in
            FEvent (n_of_string (String.sub body 0 i), Some (n_of_string (String.sub body (i + 1) (String.length body - i - 1))))
          | 'd' -> FDropped (n_of_string (String.sub t 1 (String.length t - 1)))
          | _ -> raise (Malformed (List.length !conns))
        in
        cur := Some (f :: l)
      end)
    toks;
  flush ();
  List.rev !conns

let parse_results (toks : string list) : emitrec list =
  List.map
    (fun t ->
      match String.split_on_char ':' t with
      | [ tag; "-" ] -> { r_tag = n_of_string tag; r_id = None; r_parent = None }
      | [ tag; "-"; pe; ps ] -> { r_tag = n_of_string tag; r_id = None; r_parent = Some (n_of_string pe, n_of_string ps) }
      | [ tag; e; s ] -> { r_tag = n_of_string tag; r_id = Some (n_of_string e, n_of_string s); r_parent = None }
      | [ tag; e; s; pe; ps ] ->
        { r_tag = n_of_string tag; r_id = Some (n_of_string e, n_of_string s); r_parent = Some (n_of_string pe, n_of_string ps) }
      | _ -> failwith ("bad emit token " ^ t))
    toks

let rec take k l = if k <= 0 then [] else match l with [] -> [] | x :: r -> x :: take (k - 1) r

(* first (connection, frame) prefix that the oracle rejects *)
let locate (conns : frame list list) (res : emitrec list) : string =
  let one = n_of_int 1 in
  let nc = List.length conns in
  let rec conn_loop k =
    if k > nc then "?"
    else if accepts_conns res one (take k conns) then conn_loop (k + 1)
    else begin
      let before = take (k - 1) conns and c = List.nth conns (k - 1) in
      let rec frame_loop j =
        if j > List.length c then "?"
        else if accepts_conns res one (before @ [ take j c ]) then frame_loop (j + 1)
        else Printf.sprintf "conn=%d frame=%d" (k - 1) (j - 1)
      in
      frame_loop 1
    end
  in
  conn_loop 1

let verdict (out : string) : string =
  let parts = split_on_string " ; " out in
  let go_verdict = match split_ws (List.hd parts) with v :: _ -> v | [] -> "empty-output" in
  if go_verdict <> "ok" then String.trim (List.hd parts)
  else
    match parts with
    | [ _; w; r ] -> (
      try
        let conns = parse_wires (List.tl (split_ws w)) in
        let res = parse_results (List.tl (split_ws r)) in
        if accepts conns res then "ok"
        else if not (accepts_conns res (n_of_int 1) conns) then "bad misaligned " ^ locate conns res
        else if not (followups_ok res) then "bad followup-parent-of-other-connection"
        else if not (ids_inc None res) then "bad duplicate-id"
        else "bad ?"
      with Malformed k -> Printf.sprintf "bad malformed-frame conn=%d" k)
    | _ -> "bad unparsable-output"

let () =
  let total = ref 0 and bad = ref 0 in
  (try
     while true do
       let line = input_line stdin in
       if String.length line > 0 && line.[0] <> '#' then begin
         let inp, out = split_case line in
         incr total;
         let v = try verdict (String.trim out) with e -> "MODELEXN " ^ Printexc.to_string e in
         if v <> "ok" then begin
           incr bad;
           if !bad <= 2000 then Printf.printf "MISMATCH\t%s\timpl=%s\tmodel=ok\n" inp v
         end
       end
     done
   with End_of_file -> ());
  Printf.printf "DONE n=%d mismatches=%d\n" !total !bad
