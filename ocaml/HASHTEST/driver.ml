(* self-test of the OCaml hash implementations against the Go hash package *)
let model toks =
  match toks with
  | [ "blake2b"; hx ] -> hex_of_bytes (blake2b_n (bytes_of_hex hx))
  | [ "keccak"; hx ] -> hex_of_bytes (keccak_n (bytes_of_hex hx))
  | _ -> "BADCASE"
let () = run_cases model
