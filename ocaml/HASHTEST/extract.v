From JamV Require Import Base.Bytes.
Require Import ExtrOcamlBasic.
Extraction "model.ml" N.of_nat N.to_nat Z.of_N Z.to_N le_dec.
