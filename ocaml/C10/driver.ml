(* C10 driver *)
let rec take n l = if n <= 0 then [] else match l with [] -> [] | x :: t -> x :: take (n - 1) t
let op_of (s : string) : aop =
  let k () = n_of_string (String.sub s 1 (String.length s - 1)) in
  match s.[0] with
  | 'w' -> OWrite (k ()) | 'd' -> ODelete (k ()) | 't' -> OTransfer (k ()) | 'y' -> OYield (k ())
  | 'p' -> OProvide (k ()) | 'u' -> OUpgrade (k ()) | 'n' -> ONew | 'c' -> OCheckpoint
  | _ -> failwith "op"
let tags l = if l = [] then "-" else String.concat "," (List.map string_of_n l)
let model toks =
  match toks with
  | "psia" :: e :: ops ->
    let ops = List.map op_of ops in
    let ops, ending =
      if e = "h0" then (ops, EHaltEmpty)
      else if e = "hx" then (ops, EHaltOther)
      else if e = "trap" then (ops, EPanic)
      else if String.length e > 4 && String.sub e 0 4 = "h32:" then (ops, EHalt32 (n_of_string (String.sub e 4 (String.length e - 4))))
      else if String.length e > 4 && String.sub e 0 4 = "oog:" then
        (take (int_of_string (String.sub e 4 (String.length e - 4))) ops, EOutOfGas)
      else failwith "ending"
    in
    let c = run init_ctx ops ending in
    Printf.sprintf "store=%s raw=%s t=%s y=%s p=%s code=%s new=%s spent=%s rcv=same" (tags c.c_store) (tags c.c_raw) (tags c.c_transfers)
      (match c.c_yield with None -> "-" | Some k -> string_of_n k)
      (tags c.c_provided) (string_of_n c.c_code) (string_of_n c.c_created) (string_of_n c.c_spent)
  | _ -> "BADCASE"
let () = run_cases model
