From JamV Require Import Model.AccInvoke.
Require Import ExtrOcamlBasic.
Extraction "model.ml" N.of_nat N.to_nat Z.of_N Z.to_N run init_ctx.
