(* C33 driver: replays one history of inner-machine host calls on the extracted model (Model/InnerVm.v)
   and prints the records in the format of harness/overlay/cmd/verif_c33.  Correspondence side only. *)
let is_absent_page ((_, pg) : z * page) : bool =
  pg.p_acc = AccNone && List.for_all (fun (_, v) -> v = Z0) pg.p_dat

let dump_mem (m : memory) : string =
  match List.filter (fun p -> not (is_absent_page p)) m.m_pages with
  | [] -> "-"
  | ps ->
    let ps = List.sort (fun (a, _) (b, _) -> ZA.compare (z2za a) (z2za b)) ps in
    String.concat ";" (List.map fmt_page ps)

let dump_machines (ms : (z * machine) list) : string =
  match ms with
  | [] -> "-"
  | _ ->
    let ms = List.sort (fun (a, _) (b, _) -> ZA.compare (z2za a) (z2za b)) ms in
    String.concat "|"
      (List.map (fun (k, mc) -> Printf.sprintf "%s@%s@%s@%s" (zs k) (zs mc.mc_pc) (zs mc.mc_mem.m_hp) (dump_mem mc.mc_mem)) ms)

let call_of = function
  | "m" -> CMachine | "k" -> CPeek | "p" -> CPoke | "g" -> CPages | "v" -> CInvoke | "x" -> CExpunge
  | _ -> failwith "bad op"

let init_regs : z list =
  List.init 13 (fun i -> z_of_za (ZA.mul (ZA.of_int (i + 1)) (ZA.of_string "72340172838076673")))

let split_records (s : string) : string list =
  (* records are joined by " ; " *)
  let rec go acc cur = function
    | [] -> List.rev (String.concat " " (List.rev cur) :: acc)
    | ";" :: t -> go (String.concat " " (List.rev cur) :: acc) [] t
    | x :: t -> go acc (x :: cur) t
  in
  go [] [] (split_ws s)

(* omega_8 of a FAULT exit: the Gray Paper value is the start of the page holding the lowest
   inaccessible byte; an address inside that page, or inside an access (at most 8 bytes) that starts
   just below it, is accepted from the implementation (same latitude as C01) *)
let fault_w8 (model_w8 : z) (impl_rec : string) : string =
  let dflt = zs model_w8 in
  match split_ws impl_rec with
  | "c" :: "2" :: w8 :: _ -> (
    match (try Some (ZA.of_string w8) with _ -> None) with
    | Some a ->
      let g = z2za model_w8 in
      if ZA.leq (ZA.sub g (ZA.of_int 7)) a && ZA.leq a (ZA.add g (ZA.of_int 4095)) then w8 else dflt
    | None -> dflt)
  | _ -> dflt

(* [guest_write] of the model, computed with native integers (same association-list result:
   first matching page, cell replaced in place or appended; a byte of an unmapped page is dropped) *)
let guest_write_fast (s : istate) (addr : ZA.t) (bs : n list) : istate =
  let pages = ref s.o_mem.m_pages in
  List.iteri (fun i b ->
      let a = ZA.add addr (ZA.of_int i) in
      let pgk = z_of_za (ZA.div a page_sz) and off = z_of_za (ZA.rem a page_sz) in
      let v = z_of_za (za_of_n b) in
      let rec set_cell = function
        | [] -> [ (off, v) ]
        | (o, x) :: t -> if o = off then (off, v) :: t else (o, x) :: set_cell t in
      let rec set_page = function
        | [] -> []
        | (k, pg) :: t -> if k = pgk then (k, { pg with p_dat = set_cell pg.p_dat }) :: t else (k, pg) :: set_page t in
      pages := set_page !pages) bs;
  { s with o_mem = { s.o_mem with m_pages = !pages } }

let replay (pages : string) (gas : string) (ops : string list) (impl : string) (trunc_pc : bool) : string =
  let s = ref { o_regs = init_regs; o_gas = z_of_string gas;
                o_mem = { m_pages = parse_pages_raw pages; m_hp = Z0; m_hl = Z0 }; o_mach = [] } in
  let impl_recs = ref (split_records impl) in
  let next_impl () = match !impl_recs with r :: t -> impl_recs := t; r | [] -> "" in
  let prev_o = ref (dump_mem !s.o_mem) and prev_m = ref "-" in
  let delta cur prev = if cur = !prev then "=" else begin prev := cur; cur end in
  (* a call that returns the very same RAM / machine-map value changed nothing: no need to print it *)
  let last_o = ref !s.o_mem and last_m = ref !s.o_mach in
  let check_fast = (try Sys.getenv "C33_CHECK_FAST" = "1" with Not_found -> false) in
  let recs = ref [] in
  let stop = ref false in
  List.iter (fun op ->
      if not !stop then begin
        match split_on ',' op with
        | [ "w"; addr; hx ] ->
          let bs = bytes_of_hex hx in
          let s' = guest_write_fast !s (ZA.of_string addr) bs in
          if check_fast then begin
            let s'' = guest_write !s (z_of_string addr) (List.map (fun b -> z_of_za (za_of_n b)) bs) in
            if s'' <> s' then failwith "guest_write_fast differs from the model"
          end;
          s := s';
          prev_o := dump_mem !s.o_mem; last_o := !s.o_mem
        | name :: args ->
          let c = call_of name in
          let args = List.map z_of_string args in
          let args =
            if trunc_pc && c = CMachine then
              List.mapi (fun i a -> if i = 2 then z_of_za (ZA.erem (z2za a) (ZA.shift_left ZA.one 32)) else a) args
            else args in
          let s1 = with_regs !s (set_args !s.o_regs (nat_of_int 7) args) in
          let irec = next_impl () in
          (match hostcall c s1 with
           | None -> recs := "STUCK" :: !recs; stop := true
           | Some (e, s2) ->
             s := s2;
             let o = if s2.o_mem == !last_o then "=" else delta (dump_mem s2.o_mem) prev_o in
             let m = if s2.o_mach == !last_m then "=" else delta (dump_machines s2.o_mach) prev_m in
             last_o := s2.o_mem; last_m := s2.o_mach;
             (match e with
              | XCont ->
                let w7 = List.nth s2.o_regs 7 and w8 = List.nth s2.o_regs 8 in
                let same = List.for_all (fun i -> i = 7 || i = 8 || List.nth s2.o_regs i = List.nth s1.o_regs i)
                    (List.init 13 (fun i -> i)) in
                let w8s = if c = CInvoke && zs w7 = "2" then fault_w8 w8 irec else zs w8 in
                (* an accepted fault address stays in omega_8 for the calls that follow *)
                if w8s <> zs w8 then
                  s := { s2 with o_regs = List.mapi (fun i v -> if i = 8 then z_of_string w8s else v) s2.o_regs };
                recs := Printf.sprintf "c %s %s %s %s %s %s" (zs w7) w8s (zs s2.o_gas)
                    (if same then "=" else fmt_regs s2.o_regs) o m :: !recs
              | XPanic -> recs := Printf.sprintf "panic %s %s %s" (zs s2.o_gas) o m :: !recs; stop := true
              | XOog -> recs := Printf.sprintf "oog %s %s" o m :: !recs; stop := true))
        | [] -> failwith "empty op"
      end) ops;
  if !recs = [] then "-" else String.concat " ; " (List.rev !recs)

let run_case (toks : string list) (impl : string) : string =
  match toks with
  | "h" :: pages :: gas :: ops ->
    let spec = replay pages gas ops impl false in
    if spec = impl then spec
    else begin
      (* defect model C33-pc-truncated: the counter given to machine is kept modulo 2^32 *)
      let big_pc = List.exists (fun op -> match split_on ',' op with
          | [ "m"; _; _; i ] -> ZA.geq (ZA.of_string i) (ZA.shift_left ZA.one 32)
          | _ -> false) ops in
      if big_pc then spec ^ " defect:C33-pc-truncated=" ^ replay pages gas ops impl true else spec
    end
  | _ -> "BADCASE"

let () = run_cases2 run_case
