#!/bin/sh
# Build the whole framework from files on disk (offline): Coq development, extracted models, Go harnesses.
cd "$(dirname "$0")"
ROOT=$(pwd)
mkdir -p .build evidence replays
sh coq/gen_project.sh
( cd coq && timeout 7200 make -k -j16 2>&1 | tail -40 )
for d in ocaml/C*/; do
  p=$(basename "$d")
  ( sh ocaml/build.sh "$p" >/dev/null 2>&1 || echo "setup: ocaml build failed for $p" ) &
done
wait
python3 harness/mkoverlay.py
GO=$(ls /root/go/pkg/mod/golang.org/toolchain@v0.0.1-go1.25.5.linux-amd64/bin/go 2>/dev/null || echo go)
for d in harness/overlay/cmd/*/; do
  c=$(basename "$d")
  ( cd /repo && env -u GOSUMDB GOFLAGS=-mod=mod GOPROXY=off GOTOOLCHAIN=local "$GO" build -tags verif -overlay "$ROOT/.build/overlay.json" -o "$ROOT/.build/h_$c" "./cmd/$c" 2>&1 | tail -5 )
done
echo "setup done"
