#!/usr/bin/env python3
import os, sys
sys.path.insert(0, os.path.dirname(os.path.abspath(__file__)))
import lib
sys.exit(lib.main())
