"""Shared machinery of the /verif checks (see DESIGN.md §3.4, §3.5).

One check = (1) re-check the Coq property file of the property (theorems + Print Assumptions),
(2) rebuild the Go harness from /repo's *current working tree* (overlay build, nothing written
under /repo), (3) run generated cases through the implementation and through the extracted
model, (4) classify every disagreement (known finding / violation), (5) write evidence.
"""
import fcntl, glob, hashlib, importlib, json, os, re, shutil, subprocess, sys, time

ROOT = os.path.dirname(os.path.dirname(os.path.abspath(__file__)))
REPO = os.environ.get("VERIF_REPO", "/repo")
BUILD = os.path.join(ROOT, ".build")
COQ = os.path.join(ROOT, "coq")
FORBIDDEN = re.compile(r"\b(Admitted|admit|Axiom|Axioms|Parameter|Parameters|Conjecture|Abort All|"
                       r"bypass_check|Unset Guard Checking|Unset Positivity Checking|Unset Universe Checking|"
                       r"Admit Obligations|native_compute|type-in-type|impredicative-set)\b")
STD_AXIOMS_OK = ("functional_extensionality_dep", "proof_irrelevance", "classic", "JMeq_eq",
                 "Eqdep.Eq_rect_eq.eq_rect_eq", "propositional_extensionality", "constructive_definite_description")

BASE_TRUST = [
    "Coq 8.16.1 kernel (coqc; vm_compute only inside Examples / finite sweeps whose bound is in the statement; no native_compute)",
    "no axioms declared by the development; Print Assumptions under every property theorem is parsed on each run",
    "extraction: ExtrOcamlBasic only (Extract Inductive bool/option/list/prod/unit/sumbool/sumor to OCaml; no Extract Constant); N/Z/positive/nat stay Coq datatypes; OCaml 4.13.1 + zarith only in the driver's I/O",
    "hand-written OCaml driver (case parsing/printing, Blake2b/Keccak where used) and this Python driver: correspondence side only",
    "Go harness injected by `go build -overlay` (build tag verif), incl. the deterministic stand-in for the absent Rust VRF submodule; Go toolchain 1.25.5",
    "the Go code is modelled, not verified: the tie is differential execution of the extracted model and the implementation on the generated inputs of this run",
    "specification layers are hand transcriptions of Gray Paper v0.7.2 (no offline copy); see DESIGN.md §3.7",
]


def go_bin():
    cands = glob.glob(os.path.expanduser("~/go/pkg/mod/golang.org/toolchain@v0.0.1-go1.25.5.linux-amd64/bin/go"))
    cands += glob.glob("/root/go/pkg/mod/golang.org/toolchain@v0.0.1-go1.25.5.linux-amd64/bin/go")
    for c in cands:
        if os.path.exists(c):
            return c
    return "go"


def go_env():
    e = dict(os.environ)
    e["GOFLAGS"] = "-mod=mod"
    e["GOPROXY"] = "off"
    e["GOTOOLCHAIN"] = "local" if go_bin() != "go" else "auto"
    e.pop("GOSUMDB", None)
    e.setdefault("GOMAXPROCS", "16")
    return e


def sh(cmd, cwd=None, env=None, timeout=3600, stdin=None, stdout=None):
    p = subprocess.run(cmd, cwd=cwd, env=env, timeout=timeout, stdin=stdin,
                       stdout=stdout if stdout is not None else subprocess.PIPE, stderr=subprocess.STDOUT, text=True)
    return p.returncode, (p.stdout or "")


class Lock:
    def __init__(self, name):
        os.makedirs(BUILD, exist_ok=True)
        self.path = os.path.join(BUILD, name + ".lock")

    def __enter__(self):
        self.f = open(self.path, "w")
        fcntl.flock(self.f, fcntl.LOCK_EX)

    def __exit__(self, *a):
        fcntl.flock(self.f, fcntl.LOCK_UN)
        self.f.close()


# ------------------------------------------------------------------------------------------------
# (1) proofs
def coq_cone(prop_v):
    """the .v files Properties/<pid>.v transitively imports from the JamV namespace"""
    seen, todo = set(), [prop_v]
    while todo:
        f = todo.pop()
        if f in seen or not os.path.exists(f):
            continue
        seen.add(f)
        src = re.sub(r"\(\*.*?\*\)", "", open(f, encoding="utf-8").read(), flags=re.S)
        for stmt in re.findall(r"(?:From\s+JamV\s+)?Require\b(.*?)\.(?=\s)", src, flags=re.S):
            for d, n in re.findall(r"\b(Base|Model|Proofs|Properties)\.([A-Za-z_][\w']*)", stmt):
                todo.append(os.path.join(COQ, d, n + ".v"))
    return sorted(seen)


def check_proofs(pid, spec):
    """Rebuild the dependency cone of Properties/<pid>.v and re-run coqc on the property file,
    parsing theorems and Print Assumptions. Returns dict(ok, obligations, discharged, axioms, log)."""
    prop_v = os.path.join(COQ, "Properties", pid + ".v")
    res = dict(ok=False, obligations=0, discharged=0, axioms=[], log="", theorems=[])
    if not os.path.exists(prop_v):
        res["log"] = "missing " + prop_v
        return res
    with Lock("coqgen"):
        if not os.path.exists(os.path.join(COQ, "Makefile")) or \
                any(os.path.getmtime(v) > os.path.getmtime(os.path.join(COQ, "_CoqProject"))
                    for v in glob.glob(os.path.join(COQ, "*", "*.v"))):
            sh(["sh", "gen_project.sh"], cwd=COQ)
    # the builds of different properties touch disjoint targets (shared Base files are built by setup);
    # a per-property lock keeps two runs of the same check apart without letting one slow proof block the rest
    with Lock("coq_" + pid):
        rc, out = sh(["timeout", "3000", "make", "-j8", "Properties/%s.vo" % pid], cwd=COQ)
        if rc != 0:
            res["log"] = out[-4000:]
            return res
        # forbidden constructs anywhere in the dependency cone of the property file
        bad = []
        for v in coq_cone(prop_v):
            for i, line in enumerate(open(v, encoding="utf-8")):
                code = re.sub(r"\(\*.*?\*\)", "", line)
                if FORBIDDEN.search(code):
                    bad.append("%s:%d: %s" % (os.path.relpath(v, COQ), i + 1, line.strip()))
        if bad:
            res["log"] = "forbidden constructs:\n" + "\n".join(bad)
            return res
        # re-run the property file itself to capture Print Assumptions (deps are compiled)
        rc, out = sh(["timeout", "1800", "coqc", "-Q", ".", "JamV", "-w", "-notation-overridden,-deprecated,-ambiguous-paths",
                      "Properties/%s.v" % pid], cwd=COQ)
    res["log"] = out[-4000:]
    if rc != 0:
        return res
    src = open(prop_v, encoding="utf-8").read()
    src_nc = re.sub(r"\(\*.*?\*\)", "", src, flags=re.S)
    theorems = re.findall(r"^\s*(?:Theorem|Corollary)\s+(\w+)", src_nc, flags=re.M)
    printed = re.findall(r"Print Assumptions\s+(\w+)", src_nc)
    res["theorems"] = theorems
    res["obligations"] = len(theorems)
    # parse assumption blocks in order
    blocks = re.split(r"(?m)^(?=Closed under the global context|Axioms:)", out)
    blocks = [b for b in blocks if b.startswith("Closed under") or b.startswith("Axioms:")]
    axioms = []
    closed = 0
    for b in blocks:
        if b.startswith("Closed under"):
            closed += 1
        else:
            names = re.findall(r"(?m)^([\w.']+)\s*:", b)
            axioms.extend(names)
            if all(any(n.endswith(ok) or ok in n for ok in STD_AXIOMS_OK) for n in names):
                closed += 1
    res["axioms"] = sorted(set(axioms))
    res["discharged"] = min(closed, len(theorems))
    missing = [t for t in theorems if t not in printed]
    if missing:
        res["log"] += "\nno Print Assumptions for: " + ", ".join(missing)
        return res
    res["ok"] = (closed >= len(theorems)) and len(theorems) > 0
    return res


# ------------------------------------------------------------------------------------------------
# (2) builds
def build_model(pid, force=False):
    out = os.path.join(BUILD, "modelrun_" + pid)
    src = [os.path.join(ROOT, "ocaml", pid, f) for f in os.listdir(os.path.join(ROOT, "ocaml", pid))]
    src += glob.glob(os.path.join(ROOT, "ocaml", "common", "*"))
    src += glob.glob(os.path.join(COQ, "Model", "*.v")) + glob.glob(os.path.join(COQ, "Base", "*.v"))
    with Lock("ocaml_" + pid):
        if not force and os.path.exists(out) and all(os.path.getmtime(s) <= os.path.getmtime(out) for s in src):
            return True, ""
        with Lock("coq_" + pid):
            # the model's .vo files must exist
            rc, o = sh(["timeout", "3000", "make", "-j8", "Properties/%s.vo" % pid], cwd=COQ)
        rc, o = sh(["sh", os.path.join(ROOT, "ocaml", "build.sh"), pid])
        return rc == 0, o[-3000:]


def build_harness(cmd):
    """go build of /repo/cmd/<cmd> (overlay) from the current working tree of /repo."""
    alt = "" if REPO == "/repo" else "_" + hashlib.sha1(REPO.encode()).hexdigest()[:8]
    out = os.path.join(BUILD, "h_" + cmd + alt)
    ovj = os.path.join(BUILD, "overlay_%s.json" % hashlib.sha1(REPO.encode()).hexdigest()[:8])
    with Lock("overlay"):
        sh([sys.executable, os.path.join(ROOT, "harness", "mkoverlay.py"), ovj], env=dict(os.environ, VERIF_REPO=REPO))
    # Every add-only export file harness/overlay/**/verif_export*.go that wraps unexported code carries its own build tag
    # (`//go:build verif && vi_<pkg>_<name>`) and has a `_stub.go` sibling (`verif && !vi_...`) whose functions panic with
    # VERIF-UNAVAILABLE. The harness is built with all tags; when an export file no longer compiles against this tree (a rewrite
    # renamed or removed the unexported helper / field it touches) its tag is dropped and the build repeated: the cases that call
    # the stub come out as UNAVAILABLE. main() skips them if the property declares their stream auxiliary (SPEC aux_kinds: what
    # they call directly is also reached through the exported entry points) and reports `no-failing-input-found` otherwise.
    tags = export_tags()
    if os.environ.get("VERIF_NO_INT"):      # self-test of the fallback: pretend that no export file compiles
        dropped, o_first = sorted(tags), "VERIF_NO_INT set: export files left out on purpose"
        tags = {}
    else:
        dropped, o_first = [], ""
    DEGRADED.pop(cmd, None)
    rc, o = 1, ""
    for _round in range(8):
        rc, o = sh([go_bin(), "build", "-tags", ",".join(["verif"] + sorted(tags)), "-overlay", ovj,
                    "-o", out, "./cmd/" + cmd], cwd=REPO, env=go_env(), timeout=1800)
        if rc == 0:
            break
        bad = {t for t, f in tags.items() if os.path.basename(f) in o}
        if not bad:
            break
        if not o_first:
            o_first = o[-1500:]
        for t in bad:
            dropped.append(t)
            del tags[t]
    if rc == 0 and dropped:
        DEGRADED[cmd] = "export files left out: %s\n%s" % (" ".join(sorted(dropped)), o_first)
    return rc == 0, o[-4000:], out


def export_tags():
    """{tag: file} of the add-only export files that have a build tag of their own"""
    res = {}
    for root, _, files in os.walk(os.path.join(ROOT, "harness", "overlay")):
        for f in files:
            if f.startswith("verif_export") and f.endswith(".go") and not f.endswith("_stub.go"):
                first = open(os.path.join(root, f)).readline()
                m = re.search(r"verif && (vi_\w+)", first)
                if m:
                    res[m.group(1)] = os.path.join(root, f)
    return res


DEGRADED = {}


# ------------------------------------------------------------------------------------------------
# known findings
def load_findings(pid):
    p = os.path.join(ROOT, "KNOWN_FINDINGS.json")
    if not os.path.exists(p):
        return {}
    data = json.load(open(p))
    return {f["id"]: f for f in data.get("findings", []) if f["property"] == pid and f.get("status") == "open"}


# ------------------------------------------------------------------------------------------------
def parse_mismatch(line):
    parts = line.rstrip("\n").split("\t")
    d = dict(input=parts[1], impl="", model="")
    for p in parts[2:]:
        if p.startswith("impl="):
            d["impl"] = p[5:]
        elif p.startswith("model="):
            d["model"] = p[6:]
    return d


def write_replay(pid, tag, lines, header):
    os.makedirs(os.path.join(ROOT, "replays"), exist_ok=True)
    hsh = hashlib.sha1(("\n".join(lines)).encode()).hexdigest()[:10]
    path = os.path.join(ROOT, "replays", "%s-%s-%s.txt" % (pid, tag, hsh))
    with open(path, "w") as f:
        for h in header:
            f.write("# " + h + "\n")
        for l in lines:
            f.write(l + "\n")
    return path


def run_pipeline(pid, spec, hbin, cases_path, workdir):
    """cases -> impl (harness run) -> model (modelrun). Returns (impl_path, mismatches, done_line, err)."""
    impl_path = os.path.join(workdir, "impl.txt")
    mm_path = os.path.join(workdir, "model_out.txt")
    env = go_env()
    with open(cases_path) as fin, open(impl_path, "w") as fout:
        p = subprocess.run([hbin, "run"], stdin=fin, stdout=fout, stderr=subprocess.PIPE, env=env,
                           timeout=spec.get("run_timeout", 3000), text=True)
    if p.returncode != 0:
        return impl_path, [], None, "harness run failed rc=%d: %s" % (p.returncode, (p.stderr or "")[-2000:])
    def _big_stack():
        # extracted Gallina recursion (firstn, map, ...) is not tail recursive: very long lists need a deep stack
        import resource
        try:
            resource.setrlimit(resource.RLIMIT_STACK, (resource.RLIM_INFINITY, resource.RLIM_INFINITY))
        except Exception:
            try:
                soft, hard = resource.getrlimit(resource.RLIMIT_STACK)
                resource.setrlimit(resource.RLIMIT_STACK, (hard, hard))
            except Exception:
                pass
    with open(impl_path) as fin, open(mm_path, "w") as fout:
        p = subprocess.run([os.path.join(BUILD, "modelrun_" + spec.get("model", pid))] + spec.get("model_args", []), preexec_fn=_big_stack,
                           stdin=fin, stdout=fout, stderr=subprocess.PIPE, timeout=spec.get("run_timeout", 3000), text=True)
    if p.returncode != 0:
        return impl_path, [], None, "modelrun failed rc=%d: %s" % (p.returncode, (p.stderr or "")[-2000:])
    mism, done = [], None
    for line in open(mm_path):
        if line.startswith("MISMATCH\t"):
            mism.append(parse_mismatch(line))
        elif line.startswith("DONE "):
            done = line.strip()
    if done is None:
        return impl_path, mism, None, "modelrun produced no DONE line"
    return impl_path, mism, done, None


def default_nontrivial(inp, out):
    return out not in ("", "err") and not out.startswith("GOPANIC")


_HELD = set()


def main(argv=None):
    import argparse
    ap = argparse.ArgumentParser()
    ap.add_argument("pid")
    ap.add_argument("--tier", default=os.environ.get("VERIF_TIER", "quick"))
    ap.add_argument("--seed", type=int, default=int(os.environ.get("VERIF_SEED", "1")))
    ap.add_argument("--replay", default=None)
    a = ap.parse_args(argv)
    pid = a.pid
    # one run of a property's check per tree at a time: runs share the built binaries and the run directory
    key = "check_" + pid + ("" if REPO == "/repo" else "_" + hashlib.sha1(REPO.encode()).hexdigest()[:8])
    if key not in _HELD:
        with Lock(key):
            _HELD.add(key)
            try:
                return main(argv)
            finally:
                _HELD.discard(key)
    sys.path.insert(0, os.path.join(ROOT, "check", "props"))
    mod = importlib.import_module(pid)
    spec = mod.SPEC
    if hasattr(mod, "main"):   # fully custom check
        return mod.main(a)
    t0 = time.time()
    os.makedirs(BUILD, exist_ok=True)
    alt = "" if REPO == "/repo" else "_" + hashlib.sha1(REPO.encode()).hexdigest()[:8]
    workdir = os.path.join(BUILD, "run_" + pid + alt)
    shutil.rmtree(workdir, ignore_errors=True)
    os.makedirs(workdir)
    violations = []      # (tag, replay_path, suffix)
    notes = []
    findings = load_findings(pid)
    known_hit = {}

    # (1) proofs
    pr = check_proofs(pid, spec)
    proof_broken = not pr["ok"]

    # (1b) thorough tier: the independent checker re-checks the property file and everything it depends on
    coqchk = None
    if pr["ok"] and a.tier == "thorough" and not a.replay:
        rc, out = sh(["timeout", "3000", "coqchk", "-silent", "-o", "-Q", ".", "JamV", "JamV.Properties." + pid], cwd=COQ)
        m = re.search(r"\* Axioms:(.*?)\n\s*\n\* Constants", out, flags=re.S)
        axs = m.group(1).strip() if m else "?"
        coqchk = dict(rc=rc, axioms=axs)
        if rc != 0 or axs != "<none>":
            names = re.findall(r"([\w.']+)", axs) if axs not in ("<none>", "?") else []
            if rc != 0 or axs == "?" or not all(any(ok in n for ok in STD_AXIOMS_OK) for n in names):
                pr["ok"] = False
                pr["log"] = "coqchk: rc=%d axioms=%s\n%s" % (rc, axs, out[-1500:])
    proof_broken = not pr["ok"]

    # (2) builds
    okm, logm = build_model(spec.get("model", pid))
    okh, logh, hbin = build_harness(spec["harness"])
    evaluations = 0
    distinct = set()
    stats = {}
    samples = []
    mism = []
    pipeline_err = None
    if okm and okh and spec.get("uses_hashes"):
        ok1, l1 = build_model("HASHTEST")
        ok2, l2, hb = build_harness("verif_hashtest")
        if ok1 and ok2:
            hd = os.path.join(workdir, "hashtest"); os.makedirs(hd)
            with open(os.path.join(hd, "cases.txt"), "w") as f:
                subprocess.run([hb, "gen", "--seed", str(a.seed)], stdout=f, env=go_env(), timeout=600)
            _, hm, hdone, herr = run_pipeline("HASHTEST", dict(model="HASHTEST"), hb, os.path.join(hd, "cases.txt"), hd)
            if herr or hm:
                pipeline_err = "OCaml hash self-test against Go failed: %s %s" % (herr, hm[:1])
        else:
            pipeline_err = "hash self-test build failed: " + l1 + l2
    if pipeline_err:
        pass
    elif not okm:
        pipeline_err = "model build failed:\n" + logm
    elif not okh:
        pipeline_err = "harness build failed against the current /repo tree:\n" + logh
    else:
        cases_path = os.path.join(workdir, "cases.txt")
        with open(cases_path, "w") as f:
            if a.replay:
                for line in open(a.replay):
                    if line.strip() and not line.startswith("#"):
                        f.write(line)
            else:
                # corpus first
                for c in sorted(glob.glob(os.path.join(ROOT, "corpus", pid, "*.txt"))):
                    for line in open(c):
                        if line.strip() and not line.startswith("#"):
                            f.write(line if line.endswith("\n") else line + "\n")
                f.flush()
                p = subprocess.run([hbin, "gen", "--seed", str(a.seed), "--tier", a.tier], stdout=f,
                                   stderr=subprocess.PIPE, env=go_env(), timeout=spec.get("run_timeout", 3000), text=True)
                if p.returncode != 0:
                    pipeline_err = "harness gen failed: " + (p.stderr or "")[-2000:]
        if not pipeline_err:
            impl_path, mism, done, pipeline_err = run_pipeline(pid, spec, hbin, cases_path, workdir)
            nontriv0 = getattr(mod, "nontrivial", default_nontrivial)
            nontriv = lambda i, o: (not o.startswith("UNAVAILABLE")) and nontriv0(i, o)
            if spec["harness"] in DEGRADED:
                skipped = [m for m in mism if m["impl"].startswith("UNAVAILABLE")]
                mism = [m for m in mism if not m["impl"].startswith("UNAVAILABLE")]
                ncmp = sum(1 for l in open(impl_path) if " | " in l and not l[l.find(" | ") + 3:].startswith("UNAVAILABLE"))
                msg = ("DEGRADED harness: an auxiliary add-only export no longer compiles against this tree (an unexported helper was "
                       "renamed or removed); %d case(s) that call it directly were skipped, %d case(s) through the other entry points "
                       "were compared. Compiler: %s" % (len(skipped), ncmp, " / ".join(DEGRADED[spec["harness"]].splitlines()[-4:])))
                notes.append(msg)
                print("NOTE: " + msg[:600])
                if ncmp == 0 and not pipeline_err:
                    pipeline_err = "harness built only without its auxiliary exports and no case could be compared:\n" + DEGRADED[spec["harness"]]
                # only the streams a property declares auxiliary (SPEC aux_kinds: leading token(s) of the case line; what they call
                # directly is also reached through the exported entry points of the other streams) may be skipped; an UNAVAILABLE
                # case of any other stream means an ESSENTIAL part of the correspondence cannot run on this tree
                aux = tuple(spec.get("aux_kinds", ()))
                ess = [l[:l.find(" | ")] for l in open(impl_path)
                       if " | UNAVAILABLE" in l and not (l.startswith(aux) if aux else False)]
                if ess and not pipeline_err:
                    pipeline_err = ("an add-only export that this property's correspondence needs no longer compiles against this tree "
                                    "(%d case(s) could not run, e.g. `%s`):\n%s" % (len(ess), ess[0][:120], DEGRADED[spec["harness"]]))
            for line in open(cases_path):
                if line.startswith("#STAT "):
                    try:
                        k, v = line[6:].rstrip().rsplit(" ", 1)
                        stats[k] = stats.get(k, 0) + int(v)
                    except ValueError:
                        pass
            n = 0
            for line in open(impl_path):
                i = line.find(" | ")
                if i < 0:
                    continue
                inp, out = line[:i], line[i + 3:].strip()
                evaluations += 1
                if nontriv(inp, out):
                    distinct.add(hashlib.blake2b(inp.encode(), digest_size=8).digest())
                    n += 1
                    if len(samples) < 6 and (n % 97 == 1):
                        samples.append((inp[:300] + " | " + out[:300]))
            if not samples and evaluations:
                samples.append(open(impl_path).readline().strip()[:600])

    # (2b) guard of the extraction and the OCaml driver: a sample of the same cases is evaluated by vm_compute
    # inside coqc (thorough tier, or VERIF_CROSSCHECK=1) for the properties that define coq_crosscheck()
    cross = None
    if (not pipeline_err) and hasattr(mod, "coq_crosscheck") and (a.tier == "thorough" or os.environ.get("VERIF_CROSSCHECK")):
        lines = [l.rstrip("\n") for l in open(impl_path) if " | " in l]
        step = max(1, len(lines) // int(spec.get("crosscheck_samples", 600)))
        vsrc = mod.coq_crosscheck(lines[::step])
        vpath = os.path.join(workdir, "crosscheck.v")
        open(vpath, "w").write(vsrc)
        rc, out = sh(["timeout", "1200", "coqc", "-Q", COQ, "JamV", "-w", "-notation-overridden,-deprecated,-ambiguous-paths", vpath], cwd=workdir)
        ok = rc == 0 and re.search(r"=\s*true", out) is not None and "false" not in out
        cross = dict(cases=len(lines[::step]), ok=ok)
        if not ok:
            pipeline_err = "vm_compute cross-check of the extracted model failed (extraction/driver disagree with the Coq evaluation):\n" + out[-1500:]

    # (3) classify
    classify = getattr(mod, "classify", lambda m: None)
    oracle = getattr(mod, "violates", lambda m: True)
    unexplained, benign, ignored = [], [], []
    # ignore(m): the difference lies in an observable the property does not fix AND the theorems do not depend on (e.g. the
    # number of entries a cache retains, when the soundness theorem holds for arbitrary evictions): counted, never an alarm
    ignore = getattr(mod, "ignore", lambda m: None)
    for m in mism:
        k = classify(m)
        if ignore(m):
            ignored.append(m)
            continue
        if k is not None and k in findings:
            known_hit.setdefault(k, []).append(m)
        elif oracle(m):
            unexplained.append(m)
        else:
            benign.append(m)

    out_lines = []
    for k, ms in sorted(known_hit.items()):
        out_lines.append("KNOWN-FINDING: property=%s %s [%s; %d case(s) this run, e.g. %s => impl %s, spec %s]" % (
            pid, findings[k]["what"], k, len(ms), ms[0]["input"][:120], ms[0]["impl"][:80], ms[0]["model"][:80]))
    if unexplained:
        # group by a coarse signature so that distinct violations give distinct replays
        sig = getattr(mod, "signature", lambda m: m["input"].split(" ")[0:2])
        groups = {}
        for m in unexplained:
            groups.setdefault(" ".join(sig(m)), []).append(m)
        for g, ms in sorted(groups.items())[:8]:
            ms.sort(key=lambda m: len(m["input"]))
            lines = [m["input"] for m in ms[:20]]
            hdr = ["property=%s violation group=%s" % (pid, g),
                   "first case: impl=%s" % ms[0]["impl"][:400], "            spec/model=%s" % ms[0]["model"][:400],
                   "replay: check/check.py %s --replay <this file>" % pid]
            path = write_replay(pid, "viol", lines, hdr)
            violations.append((g, path, ""))
    if pipeline_err:
        path = write_replay(pid, "pipeline", [], ["property=%s correspondence could not run" % pid] + pipeline_err.splitlines()[-40:])
        violations.append(("pipeline", path, " no-failing-input-found"))
    if not unexplained:
        if proof_broken:
            path = write_replay(pid, "proof", [], ["property=%s proof obligation no longer checks: Properties/%s.v" % (pid, pid)] + pr["log"].splitlines()[-40:])
            violations.append(("proof", path, " no-failing-input-found"))
        if benign:
            lines = [m["input"] for m in benign[:20]]
            path = write_replay(pid, "corr", lines, ["property=%s correspondence model/impl differs, property oracle holds on every differing case" % pid,
                                                     "first: impl=%s model=%s" % (benign[0]["impl"][:300], benign[0]["model"][:300])])
            violations.append(("correspondence", path, " no-failing-input-found"))
    elif proof_broken:
        notes.append("proof obligations also fail: " + pr["log"][-500:])

    wall = time.time() - t0
    ev = dict(
        property_id=pid, tier=a.tier if a.tier in ("quick", "thorough") else "quick", seed=a.seed, level="proof",
        coverage=dict(
            obligations=max(pr["obligations"], 1), discharged=pr["discharged"],
            checker_cmd="make -C coq Properties/%s.vo && coqc -Q coq JamV coq/Properties/%s.v  (Print Assumptions parsed)" % (pid, pid),
            trusted_base=BASE_TRUST + spec.get("trusted_base", []) + (["axioms reported by Print Assumptions: " + ", ".join(pr["axioms"])] if pr["axioms"] else ["Print Assumptions: every property theorem closed under the global context"]),
            theorems=pr["theorems"],
            evaluations=evaluations, distinct_nontrivial=len(distinct),
            rule=spec.get("rule", "cases generated by the Go harness from one splitmix64 seed; non-trivial = the implementation produced a defined (non-error) result; distinct by input"),
            samples=samples or ["(no case ran)"],
            traces_validated_against_impl=evaluations,
            disagreements=len(mism) - len(ignored), disagreements_known=sum(len(v) for v in known_hit.values()),
            differences_outside_the_property=dict(cases=len(ignored), why=(ignore(ignored[0]) if ignored else None),
                                                  example=(ignored[0]["input"][:200] if ignored else None)),
            known_findings_hit=sorted(known_hit.keys()),
            input_distribution=stats,
            replay=bool(a.replay),
            vm_compute_crosscheck=cross,
            coqchk=coqchk,
        ),
        assumptions=spec.get("assumptions", []) + notes,
        wall_s=round(wall, 2), violations=len(violations),
    )
    if not a.replay:
        # evidence is only ever written for /repo itself; runs against a scratch tree (VERIF_REPO) keep theirs apart
        evdir = os.path.join(ROOT, "evidence") if REPO == "/repo" else os.path.join(BUILD, "evidence" + alt)
        os.makedirs(evdir, exist_ok=True)
        json.dump(ev, open(os.path.join(evdir, pid + ".json"), "w"), indent=1)
    for l in out_lines:
        print(l)
    print("%s: theorems %d/%d, cases %d (distinct non-trivial %d), disagreements %d (known %d), %.1fs" % (
        pid, pr["discharged"], pr["obligations"], evaluations, len(distinct), len(mism) - len(ignored),
        sum(len(v) for v in known_hit.values()), wall))
    for g, path, suffix in violations:
        print("VIOLATION property=%s replay=%s%s" % (pid, path, suffix))
    return 1 if violations else 0
