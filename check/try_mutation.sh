#!/bin/sh
# try_mutation.sh <Cxx> <patch.diff> [tier] : run the check of a property against a scratch worktree of /repo with the patch applied
P="$1"; PATCH="$(realpath "$2")"; TIER="${3:-quick}"
WT=/tmp/trymut_$P_$$
git -C /repo worktree add -q "$WT" HEAD || exit 2
( cd "$WT" && ( git apply "$PATCH" 2>/dev/null || git apply --3way "$PATCH" ) ) || { echo "patch does not apply"; git -C /repo worktree remove --force "$WT"; exit 2; }
VERIF_REPO="$WT" python3 /verif/check/check.py "$P" --tier "$TIER"
rc=$?
git -C /repo worktree remove --force "$WT"
H=$(printf %s "$WT" | sha1sum | cut -c1-8)
rm -rf /verif/.build/h_*_$H /verif/.build/run_*_$H /verif/.build/evidence_$H /verif/.build/overlay_$H.json /verif/.build/check_*_$H.lock 2>/dev/null
echo "exit=$rc"
exit $rc
