SPEC = dict(
    aux_kinds=['perm ', 'perms ', 'qseq ', 'rot '],   # streams that call unexported helpers directly; skipped (UNAVAILABLE) when those are renamed
    harness="verif_c20",
    model="C20",
    uses_hashes=True,
    rule="shuffle.FisherYatesShuffle / numericSequenceFromHash / Shuffle, extrinsic.rotateCores / permute / NewGuranatorAssignments "
         "against the extracted Gray Paper definitions (F.1, F.2, F.3, 11.19, 11.20): Shuffle on every length 0..1100 with random "
         "entropy (identity input for every length, inputs with duplicates / arbitrary 32-bit values on every length <= 64 and every fourth length above, "
         "every length in thorough); F.1 with explicit number sequences (boundary-biased 32-bit draws, |r| >= |s|); Q_l for every l <= 80 and a few "
         "long ones; permute and NewGuranatorAssignments on every slot of several epochs (first epochs, epoch 1000, the epochs holding "
         "slot 2^32-1) for the tiny and the full parameter set, single random slots, and 1500 other (V,C,E,R) sets; "
         "non-trivial = non-empty result; distinct by input",
    trusted_base=["OCaml Blake2b-256 used as the model's hash: ocaml/common/blake2b_fast.ml, checked at start-up against ocaml/common/hashes.ml, "
                  "which is checked against the Go hash package on every run (HASHTEST)"],
    assumptions=["F.1 is compared only where it is defined (|r| >= |s|); Shuffle always supplies |r| = |s|",
                 "NewGuranatorAssignments is run with no offenders in the posterior state (default chain state): its key list is only checked to be the input list"],
    run_timeout=3000,
)


def signature(m):
    t = m["input"].split(" ")
    return [t[0], t[1] if t[0] in ("perm", "perms", "ga", "gas") and t[1] in ("tiny", "full") else "x"]


MANIFEST = dict(
    text="Proof (Coq, for every element type, sequence length, entropy, hash function and slot): the shuffle algorithm of shuffle.go "
         "(in-place swap and truncate) returns a permutation of its input and equals the Gray Paper recursive definition F.1 driven by the "
         "hash-derived sequence F.2 (F.3); permute equals P(e,t) of 11.20; when C divides V every core receives exactly V/C validators "
         "(preserved by the shuffle and by the rotation), all V validators get a core below C; advancing one rotation period inside an epoch "
         "adds 1 mod C to every assignment; the assignment depends on the slot only through floor((t mod E)/R) and is a function of "
         "(entropy, slot) (all nodes agree). Tie to the code: Shuffle, FisherYatesShuffle, numericSequenceFromHash, rotateCores, permute and "
         "NewGuranatorAssignments are run against the extracted definitions on every run (all lengths 0..1100; every slot of several "
         "epochs for the tiny and full parameter sets).",
    note="Theorems are about Model/Shuffle.v (Gallina); the Go code is tied by differential execution only. The hash is a Section variable "
         "(theorems hold for every function); the correspondence instantiates it with Blake2b-256. The extracted model runs a finite-map "
         "evaluation of F.1 and a block-wise F.2 that are proved equal to the definitions (C20_extracted_model_is_spec). "
         "Outside the model: Shuffle permutes the caller's slice in place (both callers pass fresh slices); the key list of "
         "NewGuranatorAssignments (offender replacement, which also overwrites the caller's validator slice) and GFunc/GStarFunc "
         "(state access, tau - R at the start of the chain) are not part of the property.",
    technique="Coq proof (induction on the number sequence; counting argument for the core shares) + model/implementation correspondence "
              "(extracted OCaml vs Go, all lengths 0..1100, all slots of several epochs)",
    design_ref="DESIGN.md §4 C20; notes/C20.md",
)
