SPEC = dict(
    harness="verif_c01",
    model="C01",
    rule="real programs through DeBlobProgramCode + Host.HostCall (block engine, logging host-call table incl. the node's gas call) "
         "against the extracted Gray Paper machine: (a) exhaustive opcode 0..255 x skip 0..24 x position {start, mid-block, last bytes of "
         "code} x operand-byte pairs from a boundary set (quick 9 pairs, thorough 64) with boundary-biased registers; (b) random "
         "instruction streams with random bitmasks / jump tables / entry points / undefined opcodes / unterminated last block; "
         "(c) structured programs (branches to block starts, jump-table jumps, loops, ecalli, halting); (d) load/store and sbrk programs "
         "over maps mixing RW / RO / present-inaccessible / absent pages around 2^16, page edges and 2^32. Compared: exit kind, fault "
         "address (accepted anywhere in [page start of first byte, last byte] as the property says), resume counter, 13 registers, gas, "
         "heap pointer, host-call log, every page (access + contents). non-trivial = program was deblobbed and ran; distinct by input",
    assumptions=["entry points whose bitmask bit is clear are not generated (the Gray Paper leaves them to the invoker; the block engine panics)",
                 "the fault address is compared as a range, per the property text; the Gray Paper value (start of the lowest inaccessible page) is the model's default"],
    trusted_base=["Model/PvmStep.v is a hand transcription of Gray Paper v0.7.2 Appendix A (139 opcodes); sbrk is the de-facto behaviour within the property's clauses"],
    run_timeout=3000,
)


def nontrivial(inp, out):
    return not (out.startswith("GOPANIC") or out.startswith("deblob-panic") or out == "")


def signature(m):
    return [m["input"].split(" ")[0], m["impl"].split(" ")[0].split(":")[0], m["model"].split(" ")[0].split(":")[0]]


MANIFEST = dict(
    text="Proof (Coq) over the executable Gray Paper machine S (deblob, zero-extended code, bitmask with implicit 1-bits, skip, A.5 operand "
         "decoding, 139 opcodes, page memory, sbrk, Psi and the Psi_H loop), for all programs/states: skip <= 24 and exact; decoding depends on "
         "the code only through nth-default-0 and explicit zero padding changes nothing; register indices <= 12 and immediate lengths clamped; "
         "undefined opcode and everything past the end = trap (1 gas, panic); ecalli yields its full sign-extended immediate with resume point "
         "pc+1+skip; a page-fault exit leaves state and counter alone and reports an address in [page start of the access, end of the access]; "
         "over any number of steps registers stay < 2^64, bytes < 256, counter < 2^32, gas never grows; run is total (gas+1 fuel suffices). "
         "That the Go interpreter equals S ('matches') is decided by the correspondence on every run: exhaustive opcode x skip x position sweep "
         "plus random/structured/memory programs through DeBlobProgramCode + Host.HostCall, all observables compared.",
    note="Theorems are about Model/Pvm*.v, a hand transcription of GP v0.7.2 App. A; per-opcode arithmetic conformance of the Go code is by "
         "differential execution only (a transliterated model would make it vacuous). Ten defects found on the unchanged tree are covered by "
         "proposed_fixes/C01-*.patch and C05-*.patch (the check passes with them applied). Not modelled: entry at a non-instruction offset, "
         "logging, the single-step engine (C02), real host functions other than gas (C07).",
    technique="Coq proofs about an executable specification + model/implementation correspondence (extracted OCaml vs Go, exhaustive sweep + random)",
    design_ref="DESIGN.md §4 C01",
)
