SPEC = dict(harness="verif_hashtest", model="HASHTEST")
