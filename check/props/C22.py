SPEC = dict(
    harness="verif_c22",
    model="C22",
    run_timeout=1800,
    rule="generated accumulation rounds: 2-10 services with assembled PVM accumulate programs (0-20 transfers each, more than a dozen to one 'hot' "
         "receiver, optional yield, some trapping, some without code), random privileges/assigners/always-accumulate map, work reports and incoming "
         "deferred transfers; SingleServiceAccumulation is run per service on deep copies (the model's D1 oracle) and ParallelizedAccumulation is "
         "run 3 (thorough 5) times per round under GOMAXPROCS 16/1/4/2/8 and worker limits 32/1/2/3/64; every run must equal the model's "
         "par_ref of the same single-service results (u, b, t', d', privileges, iota, queues). non-trivial = a round whose service set has >= 2 services; distinct by seed",
    assumptions=["single-service accumulation is a function of (context, service): each worker gets a deep copy (CloneForService); data races between workers "
                 "on memory shared through the process-wide singleton are outside the model and only sampled by the repeated real runs",
                 "rounds do not use the provide host call, so the preimage integration P is the identity on the compared account digests"],
)

def nontrivial(inp, out):
    try:
        ctx = out.split("CTX{")[1].split("}")[0]
        s = [t for t in ctx.split(" ") if t.startswith("s=")][0][2:]
        return s != "-" and len(s.split(",")) >= 2
    except Exception:
        return False

def signature(m):
    runs = m["impl"].split(" RUN{")[1:]
    if len(set(r.strip() for r in runs)) > 1:
        return ["runs-differ-among-themselves"]
    return ["runs-agree-but-differ-from-spec"]

MANIFEST = dict(
    text="Proof (Coq): the parallel accumulation ∆* modelled with the worker completion order and the hash-map delivery order of the service set as "
         "explicit arguments is proved to be a function of the service SET alone (equal to the reference par_ref for every completion order and every "
         "permutation of the iteration order), with the single-service accumulation ∆1 a Section variable; the loop as originally written (following map order) is "
         "proved order-dependent (_refuted) — the defect repaired in /repo. Tie to the code: real rounds with assembled PVM services emitting >12 transfers per receiver "
         "are run repeatedly under different GOMAXPROCS / worker limits and each run is compared with the extracted model applied to the observed ∆1 results.",
    note="Partial: the Go scheduler, goroutine data races and the PVM run inside ∆1 are outside the model (∆1 is an oracle observed from SingleServiceAccumulation on deep copies); "
         "schedules are sampled, not enumerated. Account/validator/queue values are compared as digests. The provide/P integration is not exercised.",
    technique="Coq proof of order-independence (sorted traversal, cache keyed by service) + repeated real runs compared with the extracted model",
    design_ref="DESIGN.md §4 C22",
)
