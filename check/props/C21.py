import re

SPEC = dict(
    harness="verif_c21",
    model="C21",
    rule="real ProcessAccumulation (W!, W_Q, E, Q, W*) + updateXi + updateVartheta driven through the blockchain singleton vs the extracted "
         "model: every dependency graph on <= 4 reports (all hash partitions incl. duplicate hashes, every dependency bitmask incl. self-dependencies "
         "and cycles; exhaustive in thorough, <=3 reports exhaustive + 1/4 sample of the 4-report graphs in quick), each in several placements "
         "(all available / all queued / mixed over queue slots), prerequisites vs segment-root lookups, external dependencies, accumulated-history "
         "contents, epoch lengths 1-24, slot gaps 1..>E, partial accumulation (n < |W*|); random graphs of 5-120 reports; random 2-10 block histories "
         "(outputs re-read after the last block); the upstream guard ValidateWorkPackageHashes. Compared: W* (ordered hash.id), xi', theta' "
         "(sets canonicalised), number of re-accumulated entries (W! part + queue part), number of kept queue entries that are accumulated or "
         "carry an accumulated dependency. non-trivial = W* non-empty (or guard verdict); distinct by input",
    assumptions=[
        "n (how many entries of W* are accumulated) is an input of the model (|W*| minus a cut chosen by the generator); in the node it comes from the gas limit in OuterAccumulation, which is outside C21",
        "the clause 'no report already in the accumulated history is chosen again' holds for dependency-free reports only under the upstream guarantee GP 11.38 (reported package hash not in xi/theta/rho/beta); "
        "that hypothesis is explicit in C21_no_reaccumulation_all, shown necessary by C21_Wbang_unfiltered, and the real guard (GuaranteeController.ValidateWorkPackageHashes) is run against a model of it on every run",
        "hash labels are short byte strings zero-padded to 32 bytes; report identity is carried in WorkReport.AuthGasUsed",
    ],
    trusted_base=["between blocks of a history the harness does what StateCommit does for xi/theta/tau (posterior becomes prior, same slices; fresh posterior) without the database/merklization part"],
)


def nontrivial(inp, out):
    if inp.startswith("guard"):
        return out in ("dup", "ok")
    return re.search(r"W=[0-9a-f]", out) is not None


def signature(m):
    t = m["input"].split(" ")
    return [t[0], "E" + (t[1] if t[0] != "guard" else "-")]


MANIFEST = dict(
    text="Proof (Coq, all inputs, no size bound): Q terminates with fuel |r|+1 and is fuel-independent above that (a non-empty ready set strictly "
         "shrinks the queue) and satisfies the GP equation 12.8; W* = W! ++ Q(E(theta_m.. ++ theta_..m ++ W_Q, P(W!))) with W!/W_Q characterised; every "
         "entry of W* stems from an available report or queued record of the same hash and identity all of whose dependencies are in the accumulated "
         "history or are hashes of EARLIER entries of W* (order), and nothing satisfiable is left behind (completeness); the kept queue never contains an "
         "accumulated report nor an accumulated dependency — invariant of one block and, by induction, of every block history with arbitrary slots, "
         "gaps (three cases of theta'), reports and partial accumulation; no report chosen from the queue is in the accumulated history, at every block "
         "of every history. For dependency-free reports neither the Gray Paper nor the code filters against xi: the clause is proved under the explicit "
         "upstream hypothesis (GP 11.38) and proved to fail without it. Tie to the code: the real accumulation entry points are run against the "
         "extracted model on every run, exhaustively over all dependency graphs on <= 4 reports in thorough.",
    note="Theorems are about Model/AccQueue.v (Gallina transliteration of GP 12.4-12.12, 12.31-12.33); the Go code is tied by differential execution only. "
         "Modelled not verified: n (gas) is an input; dependency sets / xi entries are compared as sets (Go keeps slices, sorts xi in place). "
         "Outside the model: that available reports really satisfy GP 11.38 at availability time (cross-block argument through rho), OuterAccumulation, state encoding of xi/theta.",
    technique="Coq proof (fuel-independence, ordering, completeness, history invariant by fold_left induction) + model/implementation correspondence "
              "(extracted OCaml vs Go; exhaustive small dependency graphs, random large graphs and multi-block histories)",
    design_ref="DESIGN.md §4 C21",
)
