SPEC = dict(
    harness="verif_c10",
    model="C10",
    rule="assembled accumulate programs (load_imm/ecalli sequences) of 0-13 tagged operations drawn from storage write/delete, transfer, yield, provide, "
         "upgrade, new and checkpoint (1/4 of the operations are checkpoints), ending by halt with empty / 32-byte / 5-byte output, trap, or a gas limit that "
         "runs out inside operation j+1; run through PVM.Psi_A; compared: storage keys present, deferred transfers in order, yielded hash / output precedence, "
         "provided preimages, code hash, created services, balance spent, bystander account; non-trivial = program with at least one checkpoint or mutation; distinct by program",
    assumptions=["every generated mutation is one that succeeds (enough balance, solicited blobs, existing receiver); error returns of the host calls are C07/C08/C09"],
)

def nontrivial(inp, out):
    return len(inp.split()) > 2

def signature(m):
    return [m["input"].split(" ")[1].split(":")[0]]

MANIFEST = dict(
    text="Proof (Coq): Psi_A's checkpoint protocol modelled as a state machine over traces of tagged successful mutations with contexts (x, y): for EVERY trace, a panic or "
         "out-of-gas result equals exactly the mutations up to the most recent checkpoint (the initial context if none), nothing after the last checkpoint reaches it, "
         "a halt yields the latest values, and a 32-byte output overrides the yielded hash. Tie to the code: thousands of assembled PVM accumulate programs mutate every "
         "context component (storage, transfers, yield, provided preimages, code hash, new services, balance) around checkpoints and end in each way; PVM.Psi_A's result is compared with the extracted model.",
    note="'Mutations after a checkpoint never leak into the checkpoint copy' is a property of the Go heap (deep copy completeness): it is decided by the correspondence only (partial). "
         "Host-call error paths, privileged calls (bless/assign/designate), eject/query/solicit/forget are not in the generated programs. One defect found and repaired (provided preimages dropped on halt with a non-32-byte output).",
    technique="Coq proof of the checkpoint/rollback protocol over all traces + assembled-program correspondence against PVM.Psi_A",
    design_ref="DESIGN.md §4 C10",
)
