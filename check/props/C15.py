SPEC = dict(
    aux_kinds=['leaf ', 'branch ', 'part '],   # streams that call unexported helpers directly; skipped (UNAVAILABLE) when those are renamed
    harness="verif_c15",
    model="C15",
    uses_hashes=True,
    rule="real MerklizationSerializedState / MerklizationState / StateEncoder / encodeLeafNode / encodeBranchNode / partitionByBit "
         "against the extracted Appendix D specification (Model/Trie.v root, leaf, branch, go_partition) with the driver's Blake2b-256: "
         "entry sets of 0..200 distinct 31-byte keys clustered on long common bit prefixes (incl. keys differing only in bit 247), "
         "value lengths 0..64 biased to 31/32/33, each set in several orders plus 8 in-harness permutations (shuffles, reversal, key-sorted), "
         "every value length 0..70 for the leaf node, random branch nodes, the partition loop on up to 23 entries at splitting depths, "
         "generated full states (random service accounts with storage/preimages/lookups); non-trivial = a root/node was produced; distinct by input",
    assumptions=["generated full states randomise tau, eta and the service accounts only; the other 14 components keep their zero value "
                 "(their serialisation is the subject of C17, not C15)"],
    trusted_base=["OCaml Blake2b-256 of the driver (self-tested against the Go hash package at the start of every run)"],
)


def signature(m):
    return [m["input"].split(" ")[0]]


MANIFEST = dict(
    text="Proof (Coq, for all inputs and every hash function H): the Go-shaped model of `merklize` (in-place swap partition replayed by index "
         "on lists, fuel 249) equals the Gray Paper Appendix D trie root for every fuel, depth and entry list, and on distinct well-formed "
         "31-byte keys never runs out of fuel (C15_merklize_refines_spec, C15_fuel_suffices, C15_go_partition_ok); the root is invariant under "
         "every permutation of the entries and is a function of the entry set (C15_root_perm_invariant, C15_root_set_invariant); leaf nodes embed "
         "the value iff |v| <= 32 (first byte 0b10 + 6-bit length, key, zero-padded value) else 0b11000000, key, H(v); leaf first bit set, branch "
         "first bit clear with the remaining 511 bits = left hash tail ++ right hash; empty trie = 32 zero bytes. Tie to the code: the real Go "
         "functions are run against the extracted specification on every run (roots, permutations, nodes, partition loop, and "
         "MerklizationState(state) = MerklizationSerializedState(StateEncoder(state)) on generated states).",
    note="Theorems are about Model/Trie.v (Gallina); the Go code is tied by differential execution only. The clause 'root of a full state equals "
         "the root of its serialisation' is tied by correspondence (it holds by construction of MerklizationState); the content of StateEncoder "
         "is C17's subject. Duplicate keys (outside the property) make the Go recursion index Key[31] and panic; the model returns None there. "
         "The specification is a hand transcription of GP Appendix D (MSB-first bit order).",
    technique="Coq refinement proof (Go-shaped partition vs stable partition, permutation invariance, fuel bound) + model/implementation "
              "correspondence (extracted OCaml vs Go, Blake2b self-tested)",
    design_ref="DESIGN.md §4 C15",
)
