SPEC = dict(
    harness="verif_c08",
    model="C08",
    rule="random sequences (4-17 calls) of new/transfer/eject/upgrade/checkpoint (+ some write/solicit/forget/info) on the REAL host-call "
         "functions PVM.AccumulateOmegas[...] after the incoming-transfer credit of the real PVM.Psi_A, from consistent funded partial states "
         "with total supply < 2^64; 1 sequence in 5 has a caller whose recorded counters stand for a huge footprint (threshold near 2^32, 2^63, "
         "2^64, or saturated; only counter-reading calls are run on it); code lengths / amounts drawn around the caller's free balance, its whole balance, 2^32, 2^63, 2^64-1; "
         "compared per call with the proved specification: register 7, every balance, every deferred transfer, recorded and recomputed "
         "items/octets of every account, and at the end both contexts in full with exact totals; non-trivial = the sequence ran; distinct by input",
    assumptions=["the generator draws each call's operands against the live state of the implementation (cases are still closed inputs)",
                 "gas is ample (2^60) so that no call runs out of gas; memory ranges are always readable (panics are C07's subject)"],
)


def signature(m):
    # group by the op at the first differing step
    a, b = m["impl"].split(" ; "), m["model"].split(" ; ")
    for s, (x, y) in enumerate(zip(a, b)):
        if x != y:
            return ["seq", "step%d" % min(s, 3), x.split(" ")[0][:6]]
    return ["seq", "len"]


def nontrivial(inp, out):
    return inp.startswith("seq ") and not out.startswith("GOPANIC") and out != "BADCASE"


MANIFEST = dict(
    text="Proof (Coq): for the Gray Paper semantics of new/upgrade/transfer/eject/checkpoint/write/solicit/forget/info over an abstract context "
         "(service map, deferred transfers, checkpoint pair), the exact unbounded sum of all balances plus all pending transfer amounts never "
         "increases, for every call and by induction every call sequence, including the incoming-transfer credit of Psi_A; hence no balance or "
         "amount ever reaches 2^64 when the initial supply is < 2^64; a call answering CASH (or any other rejection code) leaves the whole context "
         "unchanged. The same invariant is proved for the Go-shaped uint64 arithmetic of the repaired code (for all operands), which is proved "
         "equal to the exact arithmetic on uint64 operands; the unchanged `new` arithmetic (s.Balance - a_t before the comparison) is refuted by a "
         "concrete witness that mints 2^64 tokens. Tie to the code: the real host-call functions and Psi_A's credit are run against the extracted "
         "specification on random call sequences on every run.",
    note="Theorems are about Model/AccCalls.v (Gallina); the Go code is tied by differential execution only. Not modelled: guest memory faults, "
         "gas exhaustion (transfer's gas charge), bless/assign/designate/provide/query/yield, the gratis register of `new` when the manager uses it "
         "(the Go code ignores it; outside this property), eject on a child whose lookup record is still held as a raw key-value.",
    technique="Coq invariant proof over call histories (fold_left) + refutation witness for the defective arithmetic + model/implementation "
              "correspondence (extracted OCaml vs the real Go host calls)",
    design_ref="DESIGN.md §4 C08",
)

_ERR = {str(2**64 - k) for k in (1, 2, 3, 4, 5, 6, 8, 9)}      # NONE WHAT OOB WHO FULL CORE LOW HUH  (CASH = 2^64-7 is named by the property)


def ignore(m):
    """The property names ONE result code: CASH (a call that would leave the caller below its threshold). Which of the other
    refusal codes a refused call answers when several conditions fail (e.g. eject: WHO vs HUH, neutral/C08/round2_O) is not part
    of it - C07 is the property about result codes. Ignored iff the transcripts are equal after mapping every refusal code other
    than CASH in the result-register position of a step to one token: same balances, deferred transfers and CASH decisions."""
    def canon(t):
        steps = t.split(" ; ")
        out = []
        for st in steps:
            f = st.split(" ", 1)
            if f and f[0] in _ERR:
                f[0] = "REFUSED"
            out.append(" ".join(f))
        return " ; ".join(out)
    if m["impl"] != m["model"] and canon(m["impl"]) == canon(m["model"]):
        return "only a refusal code other than CASH differs; every balance and deferred transfer equal"
    return None
