SPEC = dict(
    harness="verif_c07",
    model="C07",
    uses_hashes=True,
    rule="one REAL host call per case: (1) every entry of PVM.AccumulateOmegas (gas fetch lookup read write info log bless assign designate "
         "checkpoint new upgrade transfer eject query solicit forget yield provide), (2) RefineOmegas gas/fetch/historical_lookup/export/log, "
         "(3) identifiers without entry in the accumulate / refine / is-authorized tables selected as Host.HostCall selects them (getOmega -> "
         "hostCallException): 27..99, 101..255, 256+k aliases of defined calls, > 255, sign-extended, calls of another invocation kind, "
         "(4) the same through Host.HostCall itself on the program `ecalli imm; trap` (1-4 byte immediates incl. sign-extended ones), "
         "(5) the six inner-machine calls machine/peek/poke/pages/invoke/expunge of RefineOmegas one at a time: a set-up prefix of real calls "
         "(machine, pages, poke; the machine map cannot be given directly) then ONE tested call with windows and buffers at page starts / ends / "
         "straddling read-write, read-only, inaccessible and absent outer pages, 2^32-n, >= 2^32, machine ids live / never created / huge, inner "
         "ranges inside / straddling / outside the opened pages, lengths 0..300, 4096.., >= 2^32, pages modes 0..7 and huge, inner programs "
         "ecalli / trap / loop (out of gas) / halt / implicit trap, outer gas sometimes running out; compared after every call: exit kind, all 13 "
         "registers (also after panic / out-of-gas), gas, the whole outer RAM and every inner machine (counter, heap pointer, pages). "
         "Registers: noise in every unused register, pointers at page starts / ends / crossing into the next page / at 2^32-n, 2^32-n+1, "
         ">= 2^32, 2^64-1, identifiers = existing / absent / existing + k*2^32 / 2^64-1 / self, amounts and lengths around the caller's free "
         "balance, gas 0..25 / ample / around 10 + transfer gas limit. Memory: 6 adjacent pages (base 16, the last pages below 2^32, random) "
         "each read-write / read-only / absent / present-inaccessible, pattern-filled, inputs overlaid. Context: 2-6 funded accounts with "
         "storage, lookups (0-3 slots around t-D), preimages, gratis, ejectable children, solicited blobs, privileges (caller is / is not "
         "manager, assigner, designator, registrar), pending transfers, yield, provided set; the exceptional context y differs from x "
         "(balance, manager, next id, yield, transfers). Compared with the extracted specification: exit kind, all 13 registers, gas, every "
         "changed memory byte, page accesses, the general-args view of the caller, BOTH contexts in full (every account field, storage, "
         "lookups, preimage keys, transfers with memo, next id, privileges, queue and validator-key checksums, yield, provided set) / the "
         "export sequence; non-trivial = the call ran (no harness error); distinct by input",
    assumptions=["fetch's selected blob and historical_lookup's Lambda are oracles: computed by the implementation's own selector handlers / "
                 "service_account.HistoricalLookup at generation time, recorded in the case and re-checked at run time; the model covers "
                 "windowing, write discipline and NONE",
                 "the caller's account holds at least its threshold balance (Gray Paper invariant, proved preserved in C09); from such states the "
                 "Go code's missing FULL test on deletions cannot fire",
                 "solicit with a length register >= 2^32 is not generated (the Gray Paper gives it no type)",
                 "the six inner-machine calls use the C33 model (Model/InnerVm.v): inner programs of stream (5) make no memory access (the address "
                 "reported by a page fault, machine counters >= 2^32 and legal million-page requests are C33's subject and are not generated here)",
                 "seven defects of the tree before commits C07-01..07 (all applied) are recorded in notes/C07.md"],
    run_timeout=3000,
)


def signature(m):
    t = m["input"].split(" ")
    if t[0] == "h":   # inner-machine stream: group by the tested (last) call and the kind of its record
        a, b = m["impl"].split(" ; "), m["model"].split(" ; ")
        return ["h", t[-1].split(",")[0], (a[-1].split(" ")[0] if a else "-") + "/" + (b[-1].split(" ")[0] if b else "-")]
    a, b = m["impl"].split(" "), m["model"].split(" ")
    why = "len"
    for i, (x, y) in enumerate(zip(a, b)):
        if x != y:
            why = {0: "exit", 2: "regs", 4: "gas", 6: "mem", 8: "pages"}.get(i, "ctx")
            break
    return [t[0], t[1] if not t[0].startswith("d") else "imm", why]


def nontrivial(inp, out):
    return not (out.startswith("GOPANIC") or out.startswith("ORACLE") or out.startswith("BADCASE") or out == "")


MANIFEST = dict(
    text="Proof (Coq) over S = one Gallina function per host call of Gray Paper v0.7.2 App. B (13 registers, gas, guest memory as page-access "
         "map + bytes, abstract accumulate context with accounts/transfers/privileges/queues/validator keys/yield/provided set and a refine "
         "context), for ALL registers, memories, gas values and contexts, by case analysis on S: (hc_frame) each call changes only register 7 "
         "(and 8 for query), no page access, no byte outside [destination register, + length register), and only the context fields the Gray "
         "Paper assigns to it (per call: own account / one appended transfer / the ejected or created account / privileges / one core's queue / "
         "validator keys / yield / one provided preimage; never y except checkpoint); (hc_write_after_check) every written range was tested "
         "first - each of its addresses is below 2^32 on a read-write page (the page loop is proved equal to the pointwise predicate) - a call "
         "that does not continue wrote nothing and left registers and context alone, and a delivering call that continues wrote exactly "
         "min(l,|v|-min(f,|v|)) octets, so an unwritable window can only panic; (hc_unreadable_panics_clean) an unreadable required input "
         "range gives exactly (panic, registers unchanged, gas-10, nothing written, context unchanged); (hc_error_no_state_change) register 7 "
         "in {NONE,WHAT,OOB,WHO,FULL,CORE,CASH,LOW,HUH} implies both contexts unchanged (exception made by the Gray Paper itself: write answers "
         "NONE when it stores a new key); (hc_unknown_is_what) exactly the identifiers outside the defined set of each table - every natural, "
         "so every >255 and sign-extended one - charge 10 gas, answer WHAT and change nothing. ALL 28 CALLS COVERED: gas, fetch, lookup, read, write, info, "
         "log, bless, assign, designate, checkpoint, new, upgrade, transfer, eject, query, solicit, forget, yield, provide, historical_lookup, "
         "export over Model/HostCalls.v; machine, peek, poke, pages, invoke, expunge over the C33 model Model/InnerVm.v (imported unchanged), "
         "for which the same four clauses are proved (C07_inner_*): only register 7 (and 8 for invoke) changes, 10 gas charged, no outer byte "
         "outside the write window (peek [o,o+z), invoke the 112-byte record) and no access class changes, only ONE entry of the machine map "
         "changes (fresh id / machine w7 / none for peek); the outer RAM can differ only after a continuing peek / invoke whose WHOLE window "
         "passed the writability test, a window that fails it gives (panic, nothing changed), as does an unreadable blob (machine) or source "
         "(poke); WHO / OOB / HUH in register 7 imply outer RAM and machine map unchanged. Tie to the code: every call of the real "
         "tables and the real dispatch loop run against the extracted S on every run, all observables compared.",
    note="Theorems are about Model/HostCalls.v (+ Model/AccCalls.v for the account arithmetic), a hand transcription of GP v0.7.2 App. B; that "
         "the Go functions equal S is decided by differential execution only. fetch's sixteen selectors and Lambda are oracles taken from the "
         "implementation; logging output is not observed; Go heap aliasing between x and y is visible only as far as single calls show it "
         "(histories: C10). Out-of-gas after transfer sets gas to 0 as the Go code does. For the inner-machine calls the error clause needs a machine map of machine size whose "
         "stored counters are not themselves codes (else the value returned by machine / expunge could read as WHO/OOB/HUH). Seven defects "
         "found by this check were repaired by commits C07-01..07 (register 7 := OOB on panic; new: manager of y, gratis ignored; service-id and "
         "length registers truncated to 32 bits; transfer records before the gas test; export limit off by one).",
    technique="Coq proofs by case analysis over an executable specification + model/implementation correspondence (extracted OCaml vs the real "
              "Go host-call functions and dispatch loop)",
    design_ref="DESIGN.md §4 C07",
)
