SPEC = dict(
    harness="verif_c17",
    model="C17",
    uses_hashes=True,
    rule="generated full states in tiny mode: all 16 components with random non-trivial values (pools/queues, recent blocks with MMR holes, "
         "safrole state with tickets or keys, disputes, validator sets, availability assignments with work reports, privileges, statistics, "
         "ready/accumulated queues, last accumulation outputs) plus 0..8 services (ids incl. 0, 2^32-1, bytes 0xff / 1..16) with 0..6 storage "
         "entries, 0..4 preimages (some shared between services, some filed under a foreign hash), 0..5 lookup entries (matching a preimage, "
         "right hash with wrong length, no preimage), optionally 1..3 foreign key-values (random keys, near misses of component and "
         "service-information keys); real StateEncoder -> seeded random permutation -> real StateKeyValsToState -> StateEncoder(parsed state) ++ raw "
         "entries compared as a key->value set with the export (differences listed), both state roots, and the node path fuzz SetState -> GetState "
         "-> ChainState.RestoreBlockAndState -> prior state + prior/post unmatched key-vals re-serialised with the three roots; the model "
         "recomputes every key from the logical content with the extracted C(i), C(255,s), C(s,h) and the driver's Blake2b-256, runs the "
         "extracted import on its own export and predicts which entries are attributed (preimages, attached lookups per service) and which "
         "stay raw; compared string = key set (service entries with values), attribution, 'roundtrip ok roots eq node ok'. "
         "non-trivial = import succeeded and the round trip line was produced; distinct by input",
    assumptions=[
        "the values of the 16 components and of the service information are opaque to the model (identity codec on a dummy value): their keys are "
        "compared, their values only through the Go-side round-trip comparison",
        "the two state roots are compared on the Go side (roots eq); the root itself is not recomputed by the model (the trie is C15)",
        "the model imports its own export in reversed order, the Go side a seeded random permutation: the compared observables are order-free",
    ],
    trusted_base=["OCaml Blake2b-256 of the driver (self-tested against the Go hash package at the start of every run)"],
)


def nontrivial(inp, out):
    return " roundtrip " in out


def signature(m):
    out = m["impl"]
    if out.startswith("GOPANIC"):
        return ["gopanic"]
    for tag in ("import-err", "export-err", "reexport-err"):
        if tag in out:
            return [tag]
    if " roundtrip DIFF" in out:
        return ["roundtrip-diff"]
    if " roots ne" in out:
        return ["roots-differ"]
    if " node ok" not in out:
        return ["node-path"]
    return ["keys-or-attribution"]


MANIFEST = dict(
    text="Proof (Coq, for every hash function with 32-byte output and all encodings satisfying the codec laws decode(encode x) = x and canonicity): "
         "for every well-formed state (pairwise different service ids < 2^32; per service pairwise different hash inputs, values shorter than 2^32-2) "
         "and EVERY permutation of its exported key-values, the import succeeds and export(parsed state) ++ raw entries is a permutation of the "
         "imported key-values (C17_export_import_roundtrip), hence the same state root for any permutation-invariant root function "
         "(C17_same_state_root, the premise being C15's theorem); two input orders give results that stand for the same key-value multiset "
         "(C17_order_independent); the import recovers all 16 components, exactly the services of the state with their service information, and every "
         "raw entry is a service entry of the state (C17_import_recovers); exported keys are pairwise different (C17_export_keys_distinct) — each "
         "ending in 'or an explicit hash coincidence among the finitely many hash inputs of that state' (two different inputs with equal 27-byte "
         "truncated hash, or a service entry whose key has component / service-information shape), computed by a decision procedure. "
         "Independently of any hash property, for ANY key-values with pairwise different keys a successful import loses and invents nothing "
         "(C17_import_export_any). Closed corollaries (Proofs/StateKVInstP.v): the abstract codecs and root are instantiated with the development's generic "
         "strict codec (Model/Codec.v) on the node's descriptors of the 16 components, ServiceInfo and the time-slot list (Model/JamTypes.v, any "
         "parameter set) and with the Appendix D root (Model/Trie.v); the codec hypotheses are discharged by the C11/C13 theorems (roundtrip, canonical, "
         "val_ok_enc) through a small adapter, the root hypothesis by C15's root_perm: C17_desc_roundtrip_root (any well-formed descriptors), "
         "C17_jam_roundtrip_root, C17_jam_recovers, C17_jam_import_export_any — round trip and equal Trie.root, hash still arbitrary, collisions explicit. Tie to the code: real StateEncoder / StateKeyValsToState / fuzz SetState / RestoreBlockAndState run on generated "
         "full states against the extracted model on every run (keys, attribution, round trip, roots).",
    note="Theorems are about Model/StateKV.v (Gallina); the Go code is tied by differential execution only. In the generic theorems the component, service-information "
         "and time-slot-list encodings are Section variables with the C11/C13 laws as hypotheses; in the C17_desc_* / C17_jam_* corollaries they are the "
         "concrete codec and descriptors (adapter: a component is a Codec.val, decoding demands full consumption and byte-valued input); the hash "
         "is abstract throughout (only its output length is assumed; no injectivity). Not modelled: Go's final sort of the exported list (statements are up to "
         "permutation), Go map semantics on repeated input keys (outside the property: exports never repeat a key), the ChainState/fuzz plumbing "
         "(exercised by the harness, not modelled). Lookup lengths >= 2^32-2 and values of 4 GiB are outside well-formedness (their key preimages "
         "coincide literally with storage/preimage key preimages, in the Gray Paper as well).",
    technique="Coq proof (invariant of the two import loops over an emitted-key-value multiset; decidable coincidence check) + model/implementation "
              "correspondence (extracted OCaml vs Go on generated full states, Blake2b self-tested)",
    design_ref="DESIGN.md §4 C17",
)
