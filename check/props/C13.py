SPEC = dict(
    harness="verif_c13",
    model="C11",
    rule="every top-level decoder of internal/types (121 table entries) on: valid encodings, every truncation of small values "
         "(sampled for large), trailing bytes, byte flips to boundary values, substitution of 0/1 bytes (discriminators) by "
         "2/3/0x80/0xff/the other, non-minimal 2- and 3-byte forms spliced over a byte, huge length prefixes (up to the 9-byte "
         "2^64-1) spliced in or ending the input, count edits, swapped/duplicated aligned chunks (dictionary order), and for every "
         "type the empty input, bare length prefixes, short random and 0/1-only strings, runs of 00 and ff. Observable: "
         "err | ok used=<consumed> reenc=<1 iff Go re-encodes the decoded value to exactly the consumed bytes>; the model's strict "
         "decoder must give the same outcome and consumption. every case counts (rejections are the subject); distinct by input",
    assumptions=[
        "ImportSpec decoded with an empty HashSegmentMap",
        "blind (schema-free) mutations on the Go side; the corpus holds the schema-aware cases for each repaired defect",
    ],
)


def signature(m):
    t = m["input"].split(" ")
    return [t[0], t[2], m["impl"].split(" ")[0]]


def nontrivial(inp, out):
    return True


MANIFEST = dict(
    text="Proof (Coq, for every well-formed descriptor): any accepted byte string is the encoding of the decoded value followed by "
         "the rest (re-encoding reproduces the consumed bytes); every proper prefix of an encoding is rejected; option flags other "
         "than 0/1, variant tags naming no alternative and every non-minimal natural are rejected; accepted fuzz frames are "
         "canonical. Tie to the code: every top-level Go decoder is run on ~37k (quick) mutated encodings and arbitrary short inputs; "
         "accept/reject, consumption and 're-encodes to the consumed bytes' must equal the strict model's.",
    note="Theorems are about Model/Codec.v (Gallina); Go is tied by differential execution with schema-free mutations plus a "
         "corpus of targeted cases. Eleven decoder defects found this way are repaired by proposed patches (see notes/C13.md).",
    technique="Coq proof of canonicity over a descriptor language + model/implementation correspondence on malformed inputs",
    design_ref="DESIGN.md §4 C11/C13",
)
