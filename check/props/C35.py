SPEC = dict(
    harness="verif_c35",
    model="C35",
    rule="dispute histories (4-20 blocks) through the blockchain singleton (prior tau / kappa / lambda / psi / rho, latest block) and "
         "extrinsic.Disputes() = stf.UpdateDisputes: V=6 (tiny), V in {3,4,5,7,8,9,10,12,15} with other core counts / epoch lengths, and "
         "V=1023 C=341 (full). Every signature is a real Ed25519 signature made in the harness (keys derived from the case seed) or 64 garbage "
         "bytes. Blocks are generated against the implementation's own running state: good / bad / wonky verdicts (current and previous epoch "
         "keys, epoch rotations), culprits, faults, a key that is both culprit and fault, new pending reports between blocks; 45% of the blocks "
         "carry one deviation (other vote splits incl. supermajority-1, bad / foreign / wrong-statement signatures, bad age, unsorted / duplicate "
         "verdicts, votes, culprits, faults, index out of range, already judged reports with the same or a conflicting class, missing culprits / "
         "faults, culprit for a non-bad report, non-validator or already-offending keys, fault agreeing with the verdict, fewer / more / no votes, "
         "culprits and faults for earlier verdicts, empty extrinsics). Compared observable per block: rejected, or the posterior psi_g, psi_b, "
         "psi_w, psi_o in stored order, rho-dagger per core and the offenders mark; non-trivial = at least one block accepted; distinct by input. "
         "The trailing '# alias=' token (PRIOR psi / rho objects mutated in place, also on rejected blocks) is informational, not compared.",
    assumptions=["signature validity bits are derived by the driver from the signature descriptors under the ideal-signature reading "
                 "(valid iff made by that key over exactly that statement); the Go side verifies the real signatures with ed25519consensus",
                 "verdict ages 2^32-1 at epoch 0 (Go's U32 wrap of a-1) are not generated",
                 "after a rejected block the harness restores its own snapshot of the prior state (the node would discard the block)"],
    run_timeout=3000,
)


def nontrivial(inp, out):
    return "ok " in out and not out.startswith("GOPANIC")


def signature(m):
    t = m["input"].split(" ")
    impl = m["impl"].split(" / ")
    mod = m["model"].split(" / ")
    kind = "len"
    for a, b in zip(impl, mod):
        if a != b:
            if a == "err" or b == "err":
                kind = "accept-reject"
            else:
                fa = dict(x.split("=") for x in a.split()[1:] if "=" in x)
                fb = dict(x.split("=") for x in b.split()[1:] if "=" in x)
                kind = "fields-" + "".join(f for f in fa if fa.get(f) != fb.get(f))
            break
    return ["V" + t[0], kind]


MANIFEST = dict(
    text="Proof (Coq), for all states, extrinsics, validator counts and block sequences: a verdict is good iff its positive count is "
         "floor(2V/3)+1, bad iff 0, wonky iff floor(V/3) (V>=3), and any other count rejects the whole extrinsic; an accepted extrinsic files "
         "each report in exactly the set of its class (C35_class_*, C35_verdict_class, _exclusive, C35_other_count_rejected); good / bad / wonky "
         "stay pairwise disjoint and strictly sorted as an invariant of any block sequence, rejected blocks included (C35_gbw_disjoint_sorted, "
         "_step); the offender set contains the prior one, gains exactly the culprit and fault keys and stays strictly sorted, along any "
         "sequence (C35_offenders_step, C35_offenders_grow_sorted, C35_offenders_monotone); exactly the pending reports judged bad or wonky "
         "are removed, every other core is unchanged (C35_bad_wonky_cleared, _core, C35_judged_in_state; V>=2). Tie to the code: "
         "extrinsic.Disputes() is run over generated histories with real Ed25519 signatures against the extracted model on every run.",
    note="Theorems are about Model/Disputes.v (signature validity as data); the Go code is tied by differential execution only. The model "
         "is of the REPAIRED update of psi_g/b/w (sorted after appending; proposed_fixes/C35-psi-gbw-unsorted.patch): the unchanged code "
         "appends without sorting and violates the 'sorted' clause (C35_append_only_refuted shows the shape). Modelled as coded, not as the "
         "Gray Paper: a fault whose report is in neither posterior set is accepted by the Go code (GP 10.6 would reject it) — outside C35's "
         "text. Not modelled: Ed25519 itself, report hashing (hashes enter as data), in-place mutation of the prior rho by ClearWorkReports "
         "(observed and reported, incl. on rejected blocks; C26's subject).",
    technique="Coq invariant proofs over block sequences + model/implementation correspondence on dispute histories with real signatures",
    design_ref="DESIGN.md §4 C35",
)
