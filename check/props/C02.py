SPEC = dict(
    harness="verif_c02",
    model="C02",
    rule="every program / state stream of C01 (exhaustive opcode 0..255 x skip 0..24 x position {start, mid-block, last bytes of code} x "
         "operand-byte pairs; random instruction streams with random bitmasks / jump tables / entry points / undefined opcodes / open "
         "end; structured programs with loops, jump-table jumps, ecalli, halting; load/store and sbrk programs over RW / RO / inaccessible / "
         "absent pages) plus five C02 streams (skip clamped at 24 behind terminators and ordinary instructions; entry at a counter whose "
         "bitmask bit is clear; ecalli of every immediate length with gas around the host-call charges; last instruction cut short so that "
         "operands lie past the end of the code; backward-branch loops, with and without an ecalli inside, whose body passes through addresses "
         "without table entry so that they are visited repeatedly within one invocation and across host-call resumptions) executed in BOTH Go engines (SingleStepInvokeDecodedBlocks and SingleStepInvoke), each on its "
         "own copy of program, registers, gas and memory, the Psi_H loop driven by the harness with the host function Host.HostCall would pick "
         "and each engine resumed from ITS OWN returned counter after every host call. Per engine compared with the extracted Gray Paper "
         "machine (psi_h over PvmRun.run, printed twice): exit kind, fault address (as a range, like C01), returned counter, 13 registers, "
         "gas, heap pointer, (identifier, returned counter) of every host-call exit, every page (access + bytes). The real Host.HostCall is run "
         "on a third copy and must agree with the harness loop (DRIFT otherwise). On every 3rd case the extracted models of the two engines "
         "(run_blocks / run_steps of Model/PvmEngines.v) are run too and must equal the Gray Paper result (MODELDIFF otherwise). "
         "non-trivial = deblobbed and ran; distinct by input",
    assumptions=["counters and branch targets are not wrapped modulo 2^32 in the models (blobs of 2^32-25 bytes or more are not generated)",
                 "the fault address is compared as a range, per C01's property text"],
    trusted_base=["Model/PvmEngines.v is a hand model of PVM/invocation.go, block_info.go and of which InstrMeta field each handler of "
                  "instructions_instrmeta.go reads; per-opcode arithmetic of both handler tables is tied to Model/PvmStep.v by the sweep only"],
    run_timeout=3000,
)


def nontrivial(inp, out):
    return not (out.startswith("GOPANIC") or out.startswith("deblob-panic") or out == "")


def signature(m):
    def kind(half):
        return half.strip().split(" ")[0].split(":")[0] if half.strip() else "-"
    i = m["impl"].split(" || ")
    o = m["model"].split(" || ")
    i += [""] * (2 - len(i))
    o += [""] * (2 - len(o))
    return ["B:" + ("ok" if i[0] == o[0] else kind(i[0]) + "/" + kind(o[0])), "S:" + ("ok" if i[1] == o[1] else kind(i[1]) + "/" + kind(o[1]))]


MANIFEST = dict(
    text="Proof (Coq) that the two engines of the interpreter, modelled separately as written in the Go code — M1 the single-step engine "
         "(decode at execute, end-of-code and gas tests, counter worked out from what the handler returns) and M2 the block engine (the "
         "scan of preDecodeBlocks building Instrs / BlockAt / InstrIdxAt, InstrMeta fields Dst/Src/Imm per operand format and the field each "
         "handler reads, slice execution, mid-block entry through InstrIdxAt, decoding on demand, per-instruction gas) — return the same "
         "(exit, counter, registers, gas, memory) for EVERY program accepted by deblob, every start state, counter and fuel, and again when "
         "each is resumed from its own returned counter after any host-call result (any host function, any number of calls); both equal the "
         "Gray Paper machine of C01. Table soundness: every entry equals the decode of the code at its counter, a block is the slice up to the "
         "first terminator, entries exist exactly at the instruction starts, the 'no terminator' panic cannot occur. Seven _refuted theorems "
         "give one witness per behaviour of the tree before the repairs (all replayed on the Go code). That the Go engines are these models "
         "is decided by the correspondence on every run: all C01 streams plus five C02 streams through both Go engines in lock-step over "
         "host-call boundaries, every observable compared with the extracted Gray Paper machine.",
    note="Six genuine defects found on the tree (five in the single-step engine: counter advanced on a page fault, host-call exit returns "
         "the ecalli's own counter, trap past the end not charged, taken jump to own address falls through, operands read from the raw code "
         "slice [Go index panic / bitmask bytes read as operands / HALT]; one in the block engine: uncharged panic at a counter without table "
         "entry) are covered by proposed_fixes/C02-01..06; the check passes with them applied. Both engines share decode.go, branch/djump and "
         "the memory helpers, which therefore cannot make them differ; their conformance to the Gray Paper is C01/C05. Not modelled: uint32 "
         "wrap of counters, logging, the unused BlockBasedInvoke; the inner-machine host calls that call the single-step engine are C33.",
    technique="Coq refinement proof between two executable implementation models and an executable specification + model/implementation "
              "correspondence (extracted OCaml vs both Go engines, exhaustive sweep + random)",
    design_ref="DESIGN.md §4 C02",
)
