import re

SPEC = dict(
    harness="verif_c33",
    model="C33",
    rule="one case = one HISTORY (4-17 calls, quick 4 000 / thorough 100 000 histories) of machine / pages / poke / invoke / peek / expunge against ONE "
         "refine context, every call made through the real PVM.RefineOmegas entry with an OmegaInput as Host.HostCall builds it and HostCallArgs as "
         "RefineInvoke + Psi_M build them (IntegratedPVMMap, Program = the outer program). Programs: assembled arithmetic / load-store / loop / jump-table / "
         "ecalli / halt / empty programs (entry at any instruction start, past the end, >= 2^32) and blobs that must be refused (random bytes, truncated, "
         "trailing byte, code length beyond the blob, huge headers, missing jump table, empty); blob, windows and copy buffers in read-write, read-only, "
         "inaccessible, absent outer pages, straddling page boundaries, at 0, at the top of and beyond 2^32; machine ids live / expunged / never created / huge; "
         "pages with p < 16, p + c = 2^20, p + c wrapping 2^64, c = 0, r = 0..7 and huge, the last legal pages; copies of 0..5000 bytes and >= 2^32; inner gas 0, "
         "small, 5..200, >= 2^63; the blob area overwritten after `machine`; outer gas running out mid-history. After EVERY call: exit kind, omega_7, "
         "omega_8, gas, the other registers, the whole outer RAM and every inner machine (counter, heap pointer, every page's access and bytes), printed in "
         "full whenever they differ from the previous record. A Go runtime panic is the outcome GOPANIC (a violation). distinct by input",
    assumptions=["gas read from the invoke window is taken as a signed 64-bit number (>= 2^63 runs nothing: out-of-gas), as the C01 model does for gas limits",
                 "omega_8 after a FAULT exit: the Gray Paper value is the start of the page holding the lowest inaccessible byte; any address inside that page "
                 "or inside an access (<= 8 bytes) starting just below it is accepted from the implementation (same latitude as C01)",
                 "after a panic of the outer machine omega_7 is not compared (the machine is dead; C07 owns the register discipline of panics)"],
    trusted_base=["Model/InnerVm.v: Gray Paper v0.7.2 B.8 transcribed by hand on top of the C01/C05 machine model (Model/Pvm*.v)"],
    run_timeout=3000,
)


def classify(m):
    # `machine` keeps the initial counter in a uint32: only histories whose complete output is what the model gives with
    # exactly that change (counter argument taken modulo 2^32), and that contain such a machine call, are attributed to it
    k = m["model"].find(" defect:C33-pc-truncated=")
    if k >= 0:
        defect_out = m["model"][k + len(" defect:C33-pc-truncated="):]
        big = any(op.startswith("m,") and int(op.split(",")[3]) >= 2 ** 32 for op in m["input"].split(" ")[3:])
        if big and defect_out == m["impl"]:
            return "C33-pc-truncated"
    return None


def signature(m):
    # first differing record: which call, what the implementation did
    ops = [o for o in m["input"].split(" ")[3:] if not o.startswith("w,")]
    impl = m["impl"].split(" ; ")
    model = m["model"].split(" defect:")[0].split(" ; ")
    for i, (a, b) in enumerate(zip(impl, model)):
        if a != b:
            return [ops[i].split(",")[0] if i < len(ops) else "?", a.split(" ")[0], b.split(" ")[0]]
    return ["len", str(len(impl)), str(len(model))]


def nontrivial(inp, out):
    return out.startswith("c ") and "GOPANIC" not in out


MANIFEST = dict(
    text="Proof (Coq) over the Gray Paper B.8 model of the six inner-machine host calls, for ALL states and call sequences: `machine` panics iff the blob "
         "range is unreadable, answers HUH iff the bytes do not deblob, else stores (deblob of exactly those bytes, empty RAM, counter) under the minimal free "
         "id; `pages` changes access/contents of exactly the requested pages of exactly that machine with the exact WHO/HUH conditions; `peek`/`poke` copy "
         "exactly the requested bytes between the two RAMs with the exact panic/WHO/OOB conditions and change nothing else; `invoke` runs Psi (PvmRun.run, "
         "fuel gas+1 proved sufficient) on the stored program with the gas and registers of the 112-byte window, writes E_8(gas'), E_8(registers') back to "
         "exactly that window, sets omega_7/omega_8 to the exit kind / fault address / host id and stores the new RAM and counter; `expunge` removes exactly "
         "that machine and returns its counter; no call writes the outer RAM outside its window or changes an access class, and the result of every call "
         "depends on the outer RAM only through its argument window (non-interference), so nothing else can reach an inner machine; every call in every "
         "state, and every history, returns an outcome (no stuck state). Correspondence: random histories on the real host-call functions and the real "
         "single-step engine, whole state compared after every call, Go panics are violations.",
    note="Theorems are about Model/InnerVm.v (+ Model/Pvm*.v); the Go code is tied by differential execution on generated histories only. On the unchanged tree "
         "the calls are broadly defective (nil page map crash in pages, pages modes/limits, peek z=0, poke OOB panics, invoke runs the raw blob and writes zeros "
         "back): eight proposed patches C33-01..08 (host_call_refine.go only; they rely on the C02-01..06 single-step-engine and C03-01 deblob repairs, already applied) repair them; the check passes on that tree. "
         "Open finding C33-pc-truncated (uint32 counter). Outside the model: resource use of huge legal `pages` requests (a million pages = 4 GiB; not generated), "
         "entry counters that are not instruction starts, sbrk in inner programs beyond the empty-heap case, the general gas/OOG discipline of host calls (C07), "
         "per-opcode conformance of the single-step engine beyond the generated programs (C02).",
    technique="Coq proofs over an executable Gray Paper model (extracted to OCaml) + history-based model/implementation correspondence",
    design_ref="DESIGN.md §4 C33",
)
