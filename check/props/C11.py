import re

SPEC = dict(
    harness="verif_c11",
    model="C11",
    rule="every type of internal/types with both Encode and Decode (121 table entries, Model/JamTypes.v gives each a descriptor) "
         "and the 7 fuzz message kinds: reflection-driven random values (fixed-length invariants respected, boundary-biased "
         "integers, lengths across the 1/2/3-byte prefix borders, maps filled in random insertion order), tiny parameters for "
         "all types and full parameters for the 17 types whose layout depends on V/C/E. gen encodes once; run regenerates the "
         "value from its seed in another process, encodes it 4x concurrently through the encoder pool interleaved with "
         "unrelated encodings (det=1 iff all equal the gen-time bytes and the value is unchanged), decodes (used = bytes "
         "consumed, eq = structural equality with nil==empty). The model must accept exactly Go's bytes with its descriptor "
         "of that type and re-encode the decoded value to the same bytes. non-trivial = Go produced an encoding; distinct by input",
    assumptions=[
        "ImportSpec is exercised with an empty (non-nil) HashSegmentMap on encoder and decoder",
        "values larger than 48 KiB encoded are redrawn (the extracted model works on lists)",
        "MetaCode (length-prefixed metadata followed by the rest of the input) is not self-delimiting and has no descriptor; "
        "ProtocolParameters has no Encode, SliceHash/LookupMetaMapkey no Decode: not covered",
    ],
)


def classify(m):
    # State.Encode/Decode do not carry Theta: exactly the StateTheta variant, exactly eq=0 with everything else right
    if m["input"].startswith("rt t StateTheta "):
        a = re.match(r"^ok used=(\d+) eq=0 det=1$", m["impl"])
        b = re.match(r"^ok used=(\d+) eq=1 det=1$", m["model"])
        if a and b and a.group(1) == b.group(1):
            return "C11-state-theta-dropped"
    return None


def signature(m):
    t = m["input"].split(" ")
    return [t[0], t[2] if t[0] == "rt" else "frame", m["impl"].split(" ")[0]]


def nontrivial(inp, out):
    return out.startswith("ok")


MANIFEST = dict(
    text="Proof (Coq, once for every well-formed descriptor of the wire-format language): decode(encode v ++ r) = (v, r) for every "
         "well-typed value, well-typed = encodable, encoding injective, a dictionary encodes to the same bytes from any "
         "permutation of its entries, fuzz frames round-trip; all 117 descriptors of Model/JamTypes.v are well formed for every "
         "parameter set. Tie to the code: for every Encode/Decode type of internal/types and every fuzz message the Go "
         "encoding of random values is decoded and re-encoded by the extracted model (must accept exactly, same bytes), and Go's "
         "own round trip, consumption, determinism under pooled concurrent encoders and random map insertion order are compared.",
    note="Theorems are about Model/Codec.v + JamTypes.v (Gallina); the Go code is tied by differential execution. The extracted "
         "decoder decf is proved equal to dec. Open finding: State.Encode/Decode omit Theta. Outside: JSON, SCALE registry, MetaCode.",
    technique="Coq proof over a descriptor language (induction on descriptors with an explicit nested induction principle) + "
              "model/implementation correspondence (extracted OCaml vs Go)",
    design_ref="DESIGN.md §4 C11/C13",
)
