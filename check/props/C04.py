SPEC = dict(
    harness="verif_c04",
    model="C04",
    rule="programs of the C01 generators (random, structured, memory, sbrk) through DeBlobProgramCode + Host.HostCall at EVERY gas limit "
         "0..steps+1 (steps capped at 40), plus negative / 2^62 / 2^63-1 supplies; and through Psi_M (standard blob) at limits 0..50, 1000, "
         "2^32, 2^63-1, 2^63, 2^63+1, 2^64-2, 2^64-1 and random limits with bit 63 set: reported gas used and result kind. Compared: exit, "
         "counter, registers, remaining gas, memory, host-call log / used gas. non-trivial = program ran; distinct by input",
    assumptions=["host calls: the node's gas call (10) and the default for unknown identifiers (10); transfer's extra charge belongs to the accumulate context (C07/C08)"],
    trusted_base=["Model/PvmRun.v: Psi, Psi_H and R transcribed from Gray Paper v0.7.2 A.1/A.34/A.41; the signed 64-bit gas conversion written out as gas_in"],
    run_timeout=3000,
)


def nontrivial(inp, out):
    return not (out.startswith("GOPANIC") or out.startswith("deblob-panic") or out == "")


def signature(m):
    return [m["input"].split(" ")[0], m["impl"].split(" ")[0].split(":")[0], m["model"].split(" ")[0].split(":")[0]]


MANIFEST = dict(
    text="Proof (Coq), all programs/states: every executed instruction costs exactly 1 and out-of-gas happens exactly when < 1 is left, before "
         "executing, state and counter untouched; running with supply n stops out-of-gas exactly when the (n+1)-th step would start, in the state "
         "after exactly those n steps of any larger-supply run (induction), and conversely an out-of-gas exit means exactly gas-many steps ran; "
         "any other exit is independent of surplus gas, which comes back untouched; the modelled host calls charge exactly 10; gas never grows "
         "across the host-call loop; reported usage limit - max(remaining,0) is within [0, limit] for every limit in [0,2^64), and a limit >= 2^63 "
         "(negative as int64) executes nothing and reports the whole limit. Correspondence: every limit 0..steps+1 and the large limits on the real "
         "Host.HostCall / Psi_M path, final state compared.",
    note="Theorems are about Model/PvmRun.v; the Go code is tied by differential execution. Limits >= 2^63 are modelled as the code treats them "
         "(immediate out-of-gas), which keeps 'used within [0, limit]' true but executes nothing. transfer's l-gas charge is outside this model.",
    technique="Coq proofs (induction over steps, gas-shift simulation) + model/implementation correspondence at every gas limit",
    design_ref="DESIGN.md §4 C04",
)
