SPEC = dict(
    harness="verif_c19",
    model="C19",
    uses_hashes=True,
    rule="mmr.AppendOne/P/Replace/SuperPeak and recent_history.AppendAndCommitMmr against the extracted Gray Paper E.2 model with the real "
         "Keccak/Blake2b: histories of 300 appends from the empty range (every prefix 0..300 is an intermediate state, each compared with the "
         "CLOSED FORM mmr_of: peak i present iff bit i of the count, equal to the perfect merge of its 2^i items) and one history per length "
         "(0..70 every length, then every 7th up to 300; thorough: every length 0..300) so that the aliasing re-read happens at every length; "
         "nil items; equal items; restored peak lists with every hole pattern up to 7 peaks and random ones up to 16 peaks followed by appends; "
         "AppendAndCommitMmr chains from restored and empty belts; P at every level; Replace at every index. At the end of each history every "
         "peak list returned earlier, the restored list passed in and the items are re-read and compared with snapshots (slice entries, pointer "
         "identity and pointed-to hashes); non-trivial = at least one state compared; distinct by input",
    assumptions=["AppendOne/AppendAndCommitMmr are the public append entry points; mmr.P called directly on a slice with spare capacity "
                 "shares the backing array between results (not reachable through AppendOne, which copies) and is outside the property"],
)


def signature(m):
    t = m["input"].split(" ")
    alias = "alias" if "ALIASED" in m["impl"] or "MUTATED" in m["impl"] else "value"
    return [t[0], alias]


MANIFEST = dict(
    text="Proof (Coq), for every hash function and all inputs: appending x to the closed-form range of xs gives the closed-form range of "
         "xs ++ [x] (C19_mmr_append_spec, binary-counter induction through a bottom-up pairing form), hence every append history from the empty "
         "range equals the closed form (C19_mmr_history), whose peak i is present exactly when bit i of the item count is set and is the perfect "
         "merge of its 2^i items (C19_mmr_peaks, C19_mmr_peak_present); appending to an arbitrary restored peak list with holes merges through "
         "the leading present peaks into the first hole and leaves everything above untouched, and always adds exactly one item of weight "
         "(C19_append_from_holes, C19_append_weight); the super-peak satisfies the three Gray Paper equations over the present peaks "
         "(C19_superpeak_spec) and the Go-shaped left fold / AppendAndCommitMmr refine it. Tie to the code: every intermediate state of every "
         "generated history is compared with the extracted model on every run. The clause 'peak lists handed to callers are never modified by "
         "later appends' is about Go slice aliasing and is decided by the correspondence only: all earlier results and caller inputs are re-read "
         "at the end of each history.",
    note="Theorems are about Model/Mmr.v (hand transcription of Gray Paper E.2); the Go code is tied by differential execution only. "
         "Aliasing is not a theorem (a pure model has no aliasing): it is tested, on every history of the run. No defect found in mmr.go.",
    technique="Coq proofs (binary-counter induction via pairing levels; carry-chain lemma for holes) + history-based model/implementation "
              "correspondence with re-read of earlier outputs",
    design_ref="DESIGN.md §4 C19",
)
