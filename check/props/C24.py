SPEC = dict(
    harness="verif_c24",
    model="C24",
    rule="block histories (4-44 blocks) through authorization.STFAlpha2AlphaPrime (direct, result fed back as the next prior) and "
         "authorization.Authorization() (blockchain singleton: prior alpha, latest block slot+guarantees, posterior varphi; posterior becomes "
         "the next prior) for C=2 (tiny), C=1..7 and C=341 (full): random pools with duplicates from a small authorizer universe that includes the all-zero hash (zero-filled queues, zero-heavy cases), empty/nil/"
         "full/over-long pools, 1-3 queue sets of Q=80, slots random / consecutive / 0,79,80,2^32-1, 0..C+1 guarantees per block incl. several "
         "per core and authorizers absent from every pool; compared observable = all C posterior pools after every block; the driver also "
         "recomputes every pool with the per-core formula; non-trivial = every block produced pools; distinct by input. The trailing "
         "'# alias=' token (was the PRIOR pools object mutated in place) is informational and not compared.",
    assumptions=["guarantee core indices are < C (an out-of-range index is rejected by guarantee validation before this transition)",
                 "queues have exactly Q=80 entries (AuthQueues.Validate); authorizer hashes are abstract identifiers in the model"],
)


def nontrivial(inp, out):
    return "err" not in out.split(" # ")[0] and not out.startswith("GOPANIC")


def signature(m):
    t = m["input"].split(" ")
    return [t[0], t[2], "err" if m["impl"].startswith("err") or "/err" in m["impl"] else "diff"]


MANIFEST = dict(
    text="Proof (Coq): the impl-shaped transition (one pass over the guarantees extrinsic removing the leftmost occurrence of each used "
         "authorizer from its core's pool, one pass over the cores appending varphi[c][slot mod Q] and truncating) equals, for every core, "
         "lastn O (remove_first* used(c) alpha[c] ++ [queue entry]) for all slots, extrinsics, pools and queues (C24_pool_spec, C24_queue_entry, "
         "C24_leftmost, C24_most_recent); pools never exceed O as an invariant of every block history, and after one block from any prior "
         "(C24_pool_le_O, C24_pool_le_O_any, C24_validation_never_fails); a guarantee whose authorizer is absent removes nothing "
         "(C24_absent_authorizer_noop). Tie to the code: both Go entry points are run over generated block histories against the extracted model on every run.",
    note="Theorems are about Model/AuthPool.v; the Go code is tied by differential execution only. Authorizer hashes are abstract ids (only "
         "equality matters). Outside the model: guarantee core index >= C (Go would index out of range; rejected upstream), queues whose "
         "length is not Q. In-place mutation of the prior pools by STFAlpha2AlphaPrime is observed and reported but is not part of C24.",
    technique="Coq refinement proof (sequential pass = per-core formula) + invariant over histories + model/implementation correspondence on block histories",
    design_ref="DESIGN.md §4 C24",
)
