SPEC = dict(
    harness="verif_c29",
    model="C29",
    rule="validator.ComputeWidth / NeighborIndicesInEpoch / IsNeighborInEpoch / AllNeighborValidators / GetNeighbors / IsNeighbor / "
         "IsSameIndexCrossEpoch / FindIndex / PreferredInitiator against the extracted model: ComputeWidth for every n in -3..1100, "
         "exhaustively on [0,2^16] (2^24 in thorough) and around perfect squares k^2-1,k^2,k^2+1 (k < 2^16, the top 2^14 below 2^26 and 64 "
         "random windows; every k < 2^26 in thorough); every validator count 0..1100 with all index pairs (incl. -1, V, V+1) for V <= 72 "
         "(200 in thorough) and boundary-biased sampled indices above; three-epoch sets with persisting, moved, replaced and duplicate keys "
         "(sizes 0..29, the tiny set and the full 1023 set), every key of the sets plus a stranger; initiator on random, equal, "
         "last-byte-high-bit-only, last-byte-low-bits, single-bit, 127/128-boundary and corner key pairs, both argument orders; "
         "non-trivial = defined non-empty result; distinct by input",
    assumptions=["keys of generated validator sets are injective images of numeric ids; the model compares ids",
                 "IsNeighbor is not queried with the node's own key (the property relates a validator to other validators; "
                 "counted as isn-own-key-skipped in the input distribution)",
                 "sqcheck cases: the Go side evaluates width(k^2-1)=k-1, width(k^2)=k, width(k^2+1)=k for every k of the window; the model side "
                 "is theorem C29_width_around_squares plus evaluation of the extracted width on 66 points of the window"],
)


def signature(m):
    return [m["input"].split(" ")[0]]


MANIFEST = dict(
    text="Proof (Coq, for every validator count, index, key and validator set): the grid relation of grid.go is symmetric and irreflexive and "
         "relates exactly the distinct in-range indices sharing a row (i / W) or a column (i mod W) with W = floor(sqrt V) (N.sqrt, with "
         "W*W <= V < (W+1)^2); the neighbour index list holds exactly those indices, ascending, once each; across epochs validators are "
         "linked iff they have the same index, and the three-epoch relation is symmetric and irreflexive; AllNeighborValidators returns "
         "exactly the current validators at neighbour indices plus the previous-set and next-set validators at the same index; the key-level "
         "test accepts exactly the keys of those validators; the preferred initiator is one of the two keys and both peers compute the same "
         "one (for all byte strings, equal keys included). Tie to the code: all ten functions are run against the extracted model on every "
         "run; Go's int(math.Sqrt(float64(n))) is tied to N.sqrt exhaustively for n <= 2^16 (2^24 thorough) and around perfect squares below 2^52.",
    note="Theorems are about Model/Grid.v (Gallina); the Go code is tied by differential execution only. Validator counts at or above 2^52 "
         "(where float64 conversion is inexact) are outside the correspondence. manager.go IsNeighbor before the proposed repair consulted "
         "only the first current index of a key and skipped the cross-epoch rule for keys present in the current set "
         "(C29_first_only_refuted; proposed_fixes/C29-isneighbor-first-index.patch). Outside the model: PeerAddressFromMetadata, "
         "the QUIC connection logic that consumes the neighbour list (it skips the node's own key).",
    technique="Coq proof (N.sqrt specification, boolean reflection, lexicographic trichotomy) + model/implementation correspondence "
              "(extracted OCaml vs Go, exhaustive small cases)",
    design_ref="DESIGN.md §4 C29; notes/C29.md",
)
