SPEC = dict(
    harness="verif_c32",
    model="C32",
    uses_hashes=True,
    rule="work_package.C on random work items (0..16 imports, 0..16 extrinsics with lengths 0 / around 2^16 / up to 2^24 / small, export "
         "counts 0..4 and up to 3072, payloads 0..39 octets) with every result kind and random gas; work_package.A on random bundles with 0..8 "
         "and 9..68 exported segments (more than one page of proofs); work_package.WorkReportCompute on packages of 1..4 items with a scripted "
         "PVM executor (ok / out-of-gas / panic / bad-code / code-oversize, export-count mismatches, outputs pushing the running total across "
         "the 48 KiB limit, authorizer outputs up to 40 KB); compared: all ten digest fields of every item, and hash / length / exports count / "
         "exports root of the specification. non-trivial = a defined result; distinct by input",
    assumptions=[
        "built with the overlay stand-ins for pkg/Rust-VRF and the cgo package pkg/erasure_coding: the erasure root is computed by the stand-in and is never compared",
        "the scripted executor returns an empty output blob for error kinds, as PVM.RefineInvoke does",
        "sum of extrinsic lengths of an item stays below 2^32 (the generator's lengths are < 2^24, at most 16 per item)",
    ],
    trusted_base=["the OCaml driver's Blake2b-256 (self-tested against Go at the start of the run) instantiates the hash parameter; "
                  "Model/Merkle.v M (C18) is the exports-root specification"],
)


def signature(m):
    return [m["input"].split(" ")[0], m["impl"][:10].replace(" ", "_")]


MANIFEST = dict(
    text="Proof (Coq, all items / results / gas, hash universally quantified): the digest function of the model records service, code hash, "
         "H(payload), accumulate gas, the result, gas used, |imports|, |extrinsics|, the sum of the extrinsic lengths and the export count — GP 14.8 "
         "field by field (C32_digest_spec); the Go function as found is refuted on a concrete item (C32_digest_prepatch_refuted: (x,z,e) = (3,2,4469) "
         "instead of (2,70005,3)) and is wrong only in those three fields (C32_digest_prepatch_same_prefix) — repaired by the proposed patch "
         "C32-digest-refine-load; the specification records the package hash, bundle length, export count and the constant-depth Merkle root of the "
         "exported segments (C32_spec_fields); for whole packages every digest is the 14.8 digest of its own item with the gas refinement reported, and "
         "the number of segments handed to the specification is the sum of the declared export counts whatever refinement did (C32_package_digests, "
         "C32_package_lengths, C32_result_ok_iff). Tie to the code: work_package.C, A and WorkReportCompute are run against the extracted model on every run.",
    note="Theorems are about Model/WorkDigest.v; Go is tied by differential execution only. Outside the model: the erasure root (stand-in erasure coder), "
         "bundle construction/encoding, authorization, segment-root lookup. item_outcome follows the Go order of checks in work_package.I (oversize, "
         "bad exports, refinement error). Two proposed patches: C32-digest-refine-load (refine-load fields) and C32-spec-no-exports (A panicked for a "
         "package that exports no segment); without them the check reports violations.",
    technique="Coq proof (field-by-field specification, refutation witness for the code as found, induction over the items of a package) + "
              "model/implementation correspondence (extracted OCaml vs Go)",
    design_ref="DESIGN.md §4 C32",
)
