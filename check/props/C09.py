SPEC = dict(
    harness="verif_c09",
    model="C09",
    rule="(a) CalcThresholdBalance on item counts 0..23, 2^32/10-12..+11, 2^33/10.., 2^31.., 2^32-24..2^32-1 and random, octets near 0, 2^32, "
         "2^63, 2^64 and where the sum crosses 2^64, gratis = raw-2..raw+1, 0, 2^64-1, boundary; the same through the info host call; "
         "CalcStorageItemfootprint / CalcLookupItemfootprint; GetServiceAccountDerivatives on random accounts; (b) random sequences (5-20 calls) "
         "of write/solicit/forget/new/info (+ transfer/eject/upgrade/checkpoint) on the REAL host-call functions from consistent funded accounts, "
         "some entries held as raw key-values, value/preimage lengths drawn so that the new threshold lands around the balance; compared per call: "
         "register 7, balances, recorded items/octets and the values recomputed from the actual dictionaries (real CalcKeys/CalcOctets) plus raw "
         "entries; full final contexts; non-trivial = defined result; distinct by input",
    assumptions=["preimage lengths z < 2^32 (the lookup key type); footprints reachable in sequences stay far below the uint32/uint64 counter ranges"],
)


def signature(m):
    t = m["input"].split(" ")
    if t[0] != "seq":
        return [t[0], "x"]
    a, b = m["impl"].split(" ; "), m["model"].split(" ; ")
    for s, (x, y) in enumerate(zip(a, b)):
        if x != y:
            return ["seq", "step%d" % min(s, 3), x.split(" ")[0][:6]]
    return ["seq", "len"]


def nontrivial(inp, out):
    return not out.startswith("GOPANIC") and out not in ("", "BADCASE")


MANIFEST = dict(
    text="Proof (Coq): recorded items = 2*|lookups| + |storage| and recorded octets = sum(81+z) + sum(34+|k|+|v|) are preserved in both contexts "
         "by every sequence of write/solicit/forget/new (and every other modelled call), whatever decides the comparisons; the threshold is "
         "max(0, B_S + B_I*i + B_L*o - f) over the integers; the repaired Go computation (64-bit product, carry, saturation) equals it on all "
         "uint32/uint64 inputs, saturating at 2^64-1 when it does not fit; the unchanged 32-bit product is refuted at i = 429496730 (104 instead of "
         "4294967400); a call answering FULL leaves the whole context unchanged; accounts holding at least their threshold keep doing so. "
         "Tie to the code: CalcThresholdBalance, the footprint helpers, GetServiceAccountDerivatives, info and the real host calls are run against "
         "the extracted specification on boundary sweeps and random call sequences on every run.",
    note="Theorems are about Model/Accounts.v and Model/AccCalls.v (Gallina); the Go code is tied by differential execution only. The uint32/uint64 "
         "wrap of the *counters* themselves (needs >= 2^32 items) is covered only by the lemma counter_go_exact under a no-overflow hypothesis. "
         "Raw key-value entries are counted through the harness's registry of their original keys (the state key hides the key length).",
    technique="Coq invariant proof over call histories + arithmetic refinement/refutation + model/implementation correspondence "
              "(extracted OCaml vs the real Go functions, boundary sweeps)",
    design_ref="DESIGN.md §4 C09",
)
