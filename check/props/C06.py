SPEC = dict(
    harness="verif_c06",
    model="C06",
    rule="standard program blobs built from (o, w, z, s, c) with every section size over {0,1,2,4095,4096,4097,8191,8192,8193,65535,65536,65537}, "
         "random sizes/contents, argument lengths up to Z_I (thorough), plus a malformed stream (truncations, trailing bytes, length-field bit flips, random bytes); "
         "compared observable: reject/accept, code, 13 registers, every mapped page (number, access, content); non-trivial = accepted blob; distinct by input",
)

def signature(m):
    i, o = m["impl"], m["model"]
    if i.startswith("rej") != o.startswith("rej"):
        return ["accept-reject", i[:3], o[:3]]
    return ["layout"]

MANIFEST = dict(
    text="Proof (Coq): for EVERY byte string p and argument a (|a| <= Z_I) the initialiser model either rejects — exactly when p is not the "
         "serialisation E3(|o|) E3(|w|) E2(z) E3(s) o w E4(|c|) c (truncated, trailing bytes, sizes beyond the data) — or returns code, the A.43 "
         "registers and a page list whose lookup at every address of the 32-bit space equals the Gray Paper A.42 cell (access and byte): RO data at Z_Z, "
         "RW data + z heap pages, zero stack of P(s) below 2^32-2Z_Z-Z_I, RO argument zone; zones proved ordered/disjoint; the A.38 overflow rejection "
         "proved unreachable for 3-byte size fields. Tie to the code: SingleInitializer is run against the extracted model on boundary-swept and random "
         "blobs and a malformed stream on every run, comparing accept/reject, code, all 13 registers and every mapped page.",
    note="Theorems are about Model/PvmInit.v; the Go code is tied by differential execution only. Heap pointer/limit fields (used by sbrk) are not part of Y and not compared here (C05). "
         "Argument lengths above Z_I are outside the statement. Two defects found and repaired in /repo (argument padding mapped from the wrong base; trailing bytes accepted).",
    technique="Coq refinement proof (page construction = Gray Paper RAM function, pointwise over the address space) + model/implementation correspondence",
    design_ref="DESIGN.md §4 C06",
)
