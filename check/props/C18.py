SPEC = dict(
    aux_kinds=['copath ', 'Call '],   # streams that call unexported helpers directly; skipped (UNAVAILABLE) when those are renamed
    harness="verif_c18",
    model="C18",
    uses_hashes=True,
    rule="merkle_tree.N/Mb/M/C/T/Ps/PI/Jx/Lx/VerifyMerkleProof, ce.constructMerkleCoPath and work_package.PagedProofs against the extracted "
         "Gray Paper E.1 model with the real Blake2b/Keccak: every sequence length 0..70 in eight element flavours (32-byte hashes, "
         "variable-length blobs, nil/empty/short mixed, nil first and at the split point, empty first, all nil, all empty, all equal); "
         "T and the co-path at EVERY index of every sequence; Jx/Lx at every page of every page size 2^0..2^6 and VerifyMerkleProof "
         "(right leaf, wrong leaf, wrong index) at every index for two flavours, sampled for the rest (all of them in thorough); "
         "PagedProofs over 0..130 (thorough: 0..200, 255..320) export segments; the caller's input sequence is re-read after every call; "
         "non-trivial = defined non-error result; distinct by input",
    assumptions=["nil and empty elements are the same blob in the specification (the Gray Paper has one empty octet string)",
                 "Lx/Jx are driven only at page indices inside the sequence (the Gray Paper domain); merkle_tree.Lx with a page index "
                 "past the end underflows a uint32 capacity and is outside the property"],
)


def signature(m):
    t = m["input"].split(" ")
    kind = "nil" if "nil" in t else "plain"
    return [t[0], kind]


def nontrivial(inp, out):
    return out not in ("", "err", "[]", "false") and not out.startswith("GOPANIC")


MANIFEST = dict(
    text="Proof (Coq), for every hash function and all inputs: folding the trace T(v,i) from leaf i reproduces N(v) for every non-empty "
         "sequence and index (C18_trace_reproduces_root); the same for the constant-depth tree with J_0 (C18_J0_reproduces_M) and for every "
         "page size: J_x(v,i) folded from the root of the zero-padded page L_x(v,i) reproduces M(v) (C18_paged_fold); the pages partition the "
         "hashed leaves and page i holds exactly leaves 2^x i .. min(2^x i+2^x,|v|) (C18_paged_cover, C18_page_exact); changing any single "
         "element changes N, M_B and M or exhibits an explicit collision of the hash (C18_single_change_detected*); the Go-shaped pieces refine "
         "the specification (bottom-up VerifyMerkleProof accepts J_0 against M; the doubling loops of C/Jx). Two shapes the Go code had are "
         "proved NOT to refine it (C18_prepatch_*_refuted) and are repaired by proposed patches. Tie to the code: every Go function named in the "
         "anchors is run against the extracted model with the real hashes on all lengths 0..70, every index, page sizes 2^0..2^6, nil/empty "
         "elements, on every run.",
    note="Theorems are about Model/Merkle.v (hand transcription of Gray Paper E.1; N is called Nroot in Coq); the Go code is tied by differential "
         "execution only. 'Roots equal their Gray Paper definitions' is therefore a correspondence result, not a theorem about Go source. "
         "PagedProofs' page encoding (length prefixes, zero padding to 4104) is modelled and compared, not separately proved. Collision resistance "
         "is never assumed: statements offer an explicit collision instead. Lx/Jx at page indices beyond the sequence are outside the model. "
         "The overlay replaces the unlinkable cgo package pkg/erasure_coding by a stand-in so that work_package and handler/ce compile; neither "
         "driven function calls it.",
    technique="Coq proofs (strong induction on the split recursion; power-of-two subtree lemma; collision-or-equal case analysis) + "
              "model/implementation correspondence with real Blake2b/Keccak (extracted OCaml vs Go)",
    design_ref="DESIGN.md §4 C18",
)
