SPEC = dict(
    harness="verif_c16",
    model="C16",
    uses_hashes=True,
    rule="histories of 1..200 root computations on ONE ChainState through the real ComputeStateRootWithCache -> merklizeWithKeyCache -> "
         "MerklizationSerializedStateWithCache -> merklizeWithCache -> KeyLevelCache path, with types.MaxKeyLevelCacheSize set per computation "
         "(0, 1..8, around the number of keys, 600) and explicit ClearKeyLevelCache calls; between computations the entry set evolves by "
         "same-length value changes (in the caller's buffer), embedded<->hashed flips, removals, re-insertion with the old value, reverts to "
         "earlier values, unchanged steps; entries supplied key-sorted or in insertion order. Compared per computation: the Go cached root "
         "against the model's FROM-SCRATCH Appendix D root; caller slices re-read. KeyLevelCache.Len() is printed next to the cache model's size "
         "but a size-only difference is counted (differences_outside_the_property), not alarmed: the property fixes roots only. "
         "One case = one history; non-trivial = history produced roots; distinct by input",
    assumptions=["the cache model threads the Go traversal order (swap partition, left subtree first), which the Len() observable depends on"],
    trusted_base=["OCaml Blake2b-256 of the driver (self-tested against the Go hash package at the start of every run)",
                  "overlay export VerifNewCacheChainState builds a ChainState holding only a fresh KeyLevelCache (the cached-root path reads nothing else)"],
)


def signature(m):
    t = m["input"].split(" ")
    return [t[0], "roots=%d" % min(t.count("R"), 3)]


def violates(m):
    """The property speaks about roots: a mismatch violates it iff some root (or the caller-buffer flag) differs;
    a difference in the cache size only is a model/implementation correspondence difference."""
    a, b = m["impl"].split(" "), m["model"].split(" ")
    if len(a) != len(b):
        return True
    return any(x.split("/")[0] != y.split("/")[0] for x, y in zip(a, b))


def ignore(m):
    """A difference in the cache SIZE only (every root and the caller-buffer flag equal): the property fixes the roots, and
    C16_cache_sound holds for arbitrary evictions and capacities, so how many entries the cache retains (eviction policy, bypass of
    embedded values, ...) is neither part of the property nor a premise of the proof. Reported in the evidence, never an alarm.
    (Until the harmless-change campaign such a difference was a `no-failing-input-found` VIOLATION: neutral/C16/N2, N3.)"""
    if not violates(m):
        return "cache size differs from the modelled retention policy; all roots equal (C16_cache_sound covers arbitrary evictions)"
    return None


MANIFEST = dict(
    text="Proof (Coq, for all histories and every hash function H): over any sequence of root computations (any, possibly changing, capacity), "
         "explicit clears and evictions of arbitrary entries, from any cache satisfying the invariant 'every entry of key k is (H v, H(leaf k v)) "
         "for some v', the invariant is preserved and every cached root equals the from-scratch Appendix D root of the same entries, or two "
         "different values with equal H are exhibited (C16_cache_sound, C16_cache_sound_from_empty, C16_root_cached_sound, "
         "C16_get_or_compute_sound); the association list stays a map and its size is bounded by max(|c|,cap,1) (C16_cache_bounded). An Example "
         "shows the collision disjunct cannot be dropped. The Go cache decides a hit by comparing the full 32-byte Blake2b(value) with the stored "
         "valueHash, which is exactly the modelled rule, so a wrong hit needs a hash collision. Tie to the code: real cached path run against the "
         "model's from-scratch root and cache size over generated histories on every run.",
    note="Theorems are about Model/TrieCache.v + Model/Trie.v (Gallina); Go is tied by differential execution only. Outside the model: concurrent "
         "use of the cache (the Go map is unsynchronised), the singleton ChainState wiring (PersistStateForBlock, BuildStateRootInputKeyValsAndRoot "
         "call the same merklizeWithKeyCache), duplicate keys in one entry list.",
    technique="Coq invariant proof over histories (collision-explicit) + model/implementation correspondence on stateful histories",
    design_ref="DESIGN.md §4 C16",
)
