SPEC = dict(
    harness="verif_c23",
    model="C23",
    uses_hashes=True,
    rule="random block histories (tiny parameters: 2000 histories of 12-61 blocks in quick, 40000 in thorough; full parameters E=600: 4 / 60 "
         "histories) over several epochs through safrole.OuterUsedSafrole on the blockchain singleton: ticket extrinsics of random size "
         "(0 .. V+2), sorted / swapped / shuffled, duplicated identifiers, attempts N, N+1, 255, 256, 2^32(+k), 2^64-1, invalid proofs, "
         "clashes with tickets of the same epoch, submissions in the epoch tail, non-increasing slots, epoch changes with full / short "
         "accumulators, skipped epochs, staging-set changes; identifiers chosen through the VRF stand-in, boundary-biased (shared "
         "prefixes, last-byte differences, 00..00, ff..ff). Compared per block: accept / Safrole error code, the whole posterior "
         "accumulator, the sealer sequence (kind and content; '=' inside an epoch), and at the end a re-read of every kept slice. "
         "non-trivial = a history in which at least one block was accepted with a non-empty accumulator; distinct by input",
    assumptions=[
        "the ring-VRF is the overlay stand-in: a ring signature verifies iff its last byte != 0xFF and its output (ticket identifier) "
        "is its first 32 bytes; the entropy VRF output is the first 32 bytes of H_v",
        "the harness commits an accepted block as ChainState.StateCommit does (posterior -> prior, iota carried over) without persistence; "
        "a rejected block leaves the prior state and drops the half-built posterior state",
        "the per-extrinsic size bound enforced by the Safrole step is ValidatorsCount (the code's choice; K is enforced by "
        "types.Extrinsic.Validate elsewhere) — the property does not speak about this bound",
    ],
    trusted_base=["OCaml Blake2b-256 of the driver (self-tested against the Go hash package at the start of every run)"],
)


def _segments(out):
    segs, cur = [], []
    for tok in out.split(" "):
        if tok.startswith("R") or tok == "A" or tok.startswith("alias=") or tok.startswith("GOPANIC"):
            if cur:
                segs.append(" ".join(cur))
            cur = [tok]
        else:
            cur.append(tok)
    if cur:
        segs.append(" ".join(cur))
    return segs


def _kind(seg):
    t = seg.split(" ")
    if t[0] == "A":
        s = [x for x in t if x.startswith("s=")]
        return "A" + (":" + s[0][2:3] if s else "")
    return t[0].split("@")[0]


def signature(m):
    a, b = _segments(m["impl"]), _segments(m["model"])
    mode = m["input"].split(" ")[0]
    for x, y in zip(a, b):
        if x != y:
            return [mode, "impl-" + _kind(x), "spec-" + _kind(y)]
    return [mode, "length"]


def nontrivial(inp, out):
    if out.startswith("GOPANIC"):
        return False
    toks = out.split(" ")
    return any(t.startswith("a=") and t != "a=-" and t != "a=#0:" for t in toks)


MANIFEST = dict(
    text="Proof (Coq, all inputs / all block histories, any hash function): on acceptance the new ticket accumulator is "
         "firstn E (sort (new ++ carried)) with carried = [] at an epoch change, characterised without the sorting function as the "
         "strictly increasing list of the min(E, n) lowest identifiers of new ++ carried (C23_acc_spec, C23_sort_is_sort); after every "
         "accepted block and over every history it is strictly increasing, duplicate-free and at most E long (C23_acc_inv_step, "
         "C23_acc_inv); a ticket extrinsic is rejected iff it comes after the submission window, is oversize, has an attempt >= N, a bad "
         "proof, is unsorted, has a duplicate, or clashes with a carried ticket, and is accepted iff none of these (C23_accept_iff, "
         "C23_reject_iff, C23_strictly_ascending_iff, C23_reject_class), a rejected block changing nothing (C23_reject_unchanged, "
         "C23_step_cases); the outside-in sequencer satisfies Z[2i]=a[i], Z[2i+1]=a[E-1-i] and is a permutation of a full accumulator "
         "(C23_outside_in_spec); the fallback sequence has E entries F[i] = k[LE32(H(eta ++ E4(i))[0..4)) mod V], all validator keys "
         "(C23_fallback_spec); the sealer sequence is unchanged inside an epoch, Z(gamma_a) after a closed lottery with a full accumulator, "
         "F(eta_2', kappa') otherwise (C23_sealer_spec), and over every history it is the outside-in ordering of a full strictly "
         "increasing accumulator or a fallback key sequence (C23_sealer_inv). Tie to the code: whole block histories are run through "
         "the real safrole.OuterUsedSafrole (CreateNewTicketAccumulator, Verify*, UpdateSlotKeySequence, OutsideInSequencer, "
         "FallbackKeySequence) and through the extracted model with Blake2b, comparing accept/error code, accumulator and sealer sequence "
         "after every block.",
    note="Theorems are about Model/Tickets.v (Gallina); the Go code is tied by differential execution on generated histories only. "
         "Modelled rather than verified: the order of the Go checks (decides which error code is reported), the entropy rotation and "
         "key rotation (without offenders) needed to follow eta_2' and kappa' across epochs. Outside the model: the real Bandersnatch ring "
         "VRF (stand-in), offender key replacement, gamma_z, epoch / winning-tickets markers, header seal validation, and GP (6.35) "
         "(a submitted ticket that does not make it into the accumulator is not rejected by the code; the property does not ask for it).",
    technique="Coq proofs (sorting refinement, invariants by induction over block histories, bijection argument for the outside-in "
              "permutation) + model/implementation correspondence on random multi-epoch histories (extracted OCaml vs Go singleton)",
    design_ref="DESIGN.md §4 C23",
)

import re as _re


def ignore(m):
    """Which error code a REJECTED block reports is not fixed by the property ('... is rejected'): a block that violates several
    rules may report any of them (neutral/C23/round2_O runs the attempt check before the window check and folds order/duplicate
    checks into one pass). A difference is ignored iff the two transcripts are equal after replacing every rejection token R<code>
    by R: same accept/reject decision on every block, same accumulator and sealer sequence after every block."""
    canon = lambda t: _re.sub(r"(?<![0-9A-Za-z])R[0-9]+(?![0-9A-Za-z])", "R", t)
    if m["impl"] != m["model"] and canon(m["impl"]) == canon(m["model"]):
        return "only the error code of a rejected block differs (the property fixes 'rejected', not the code)"
    return None
