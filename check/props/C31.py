SPEC = dict(
    aux_kinds=['vt '],   # streams that call unexported helpers directly; skipped (UNAVAILABLE) when those are renamed
    harness="verif_c31",
    model="C31",
    uses_hashes=True,
    rule="(1) service_account.isValidTime and HistoricalLookup on ALL availability records of length 0..4 over the value grid "
         "{0,1,5,6,9,2^32-1} at 12 times around every boundary, plus random records of length 0..5 with times at slot-1/slot/slot+1; "
         "(2) HistoricalLookup and the host calls historical_lookup / lookup (register 7, written window) on random service states; "
         "(3) ValidatePreimageExtrinsics then ProcessPreimageExtrinsics (through the blockchain singleton) and Provide on random states whose "
         "(service, blob) entries are solicited / provided / forgotten / re-available / solicited only in raw key-values / raw non-empty / "
         "raw odd value / absent / wrong length / over-long record / off-invariant (empty blobs both as nil and as empty slices), with extrinsics sorted, duplicated, adjacent-swapped, reversed, shuffled, "
         "naming unknown services and unknown blobs; compared: verdict, full posterior preimage and lookup maps of every service, remaining "
         "raw key-values, and that validation / integration did not alter their inputs. non-trivial = a defined non-error result; distinct by input",
    assumptions=[
        "host-call cases keep register 7 either 2^64-1 or below 2^32 (the ServiceID(uint64) truncation of the host calls belongs to C07)",
        "proposed patch C31-historical-lookup-empty-preimage is needed for the cases whose stored preimage is the empty blob held as a nil slice "
        "(token ~): without it those lookups are reported as violations",
    ],
    trusted_base=["the OCaml driver's Blake2b-256 (self-tested against the Go hash package at the start of the run) instantiates the hash "
                  "parameter of the model; lookup_state_key in the model re-derives merklization.EncodeDelta4Key"],
)


def signature(m):
    t = m["input"].split(" ")
    return [t[0], m["impl"].split(" ")[0][:12]]


def nontrivial(inp, out):
    return out not in ("", "err", "none", "0 0") and not out.startswith("GOPANIC") and not out.startswith("continue 18446744073709551615")


MANIFEST = dict(
    text="Proof (Coq, all inputs, hash universally quantified, no injectivity assumed): I(l,t) is exactly the Gray Paper case table for "
         "|l|<=3 and false for longer records (C31_valid_time_spec / _intervals); a historical lookup returns b iff b is stored under h and t is "
         "valid for the record of (h,|b|), and nothing otherwise (C31_lookup_iff, C31_lookup_none_iff); ValidatePreimageExtrinsics' model accepts "
         "iff the entries are strictly ordered by (requester, blob) — hence duplicate-free — and each is solicited (empty record in the dictionary, "
         "or only in raw key-values with value 0x00) and not yet provided (C31_admit_iff under GP 9.6-style consistency of the accounts, else an "
         "explicit collision; C31_admit_accepted_iff unconditionally for the implemented test; C31_admit_unsorted_iff); every entry kept by the "
         "integration filter, and every entry of an extrinsic admitted against the same state, ends with record [tau'] and its blob stored, so it is "
         "available exactly from the block's slot on (C31_integrate_sets_slot, C31_admitted_all_stored, C31_stored_available); untouched preimages "
         "are unchanged (C31_integrate_frame); Provide stores iff the dictionary record is empty (C31_provide_stores/_skips). Tie to the code: the "
         "Go functions named in the anchors are run against the extracted model on every run (exhaustive records of length 0..4 on a boundary grid).",
    note="Theorems are about Model/Preimages.v (association-list maps, first match wins); the Go code is tied by differential execution only. "
         "The Go raw-key-value branch of ShouldIntegratePreimage does not consult the preimage map: equal to the specification only on states where a "
         "stored preimage never has an empty record (hypothesis `consistent`, satisfied by every state the node can reach; off-invariant states are "
         "generated too and compared against the implementation-shaped model only). Outside the model: gas charging and memory faults of the host calls "
         "(C07), the service-id truncation of register 7, metadata decoding of fetched code. One proposed patch: "
         "C31-historical-lookup-empty-preimage (a stored, valid EMPTY preimage — nil after decoding — was returned as 'nothing').",
    technique="Coq proof of the case table, lookup/admission iff-characterisations and integration invariants by induction over the extrinsic + "
              "model/implementation correspondence (extracted OCaml vs Go, exhaustive boundary grid for I)",
    design_ref="DESIGN.md §4 C31",
)

def ignore(m):
    """An extrinsic that is both out of order and unsolicited may be refused for either reason: the property says when an extrinsic
    is ACCEPTED, not which error a refused one reports (neutral/C31/round2_O checks 'solicited' first). Ignored iff the transcripts
    are equal after mapping the two refusal verdicts to one token: same accept/refuse decision, same state dump, same raw keys."""
    def canon(t):
        f = t.split(" ", 1)
        if f and f[0] in ("unsorted", "unneeded"):
            f[0] = "refused"
        return " ".join(f)
    if m["impl"] != m["model"] and canon(m["impl"]) == canon(m["model"]):
        return "only the refusal reason of a refused preimage extrinsic differs"
    return None
