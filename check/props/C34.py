SPEC = dict(
    harness="verif_c34",
    model="C34",
    rule="random block histories (1..10 blocks, slot steps 1..30 so that epoch boundaries (E=12) are crossed and whole epochs skipped, also near "
         "2^32) through blockchain.GetInstance() and stf.UpdateStatistics with tiny constants V=6 C=2 E=12 R=4; each block has a random author, "
         "0..3 tickets, 0..3 preimages (sizes 0..5000), 0..C guarantees on distinct cores (this or the previous rotation, the latter resolved "
         "against kappa' or lambda', 2..3 signers, 1..4 digests with random refine loads), 0..V assurances with random bitfields, 0..C newly "
         "available reports, 0..3 accumulation-statistics entries, validator key sets rotating at epoch changes with carried-over keys and "
         "offenders; compared after EVERY block: all V current and previous validator records, all C core records, all service records; the "
         "posterior pi becomes the next prior exactly as StateCommit does. non-trivial = history ran; distinct by input",
    assumptions=[
        "blocks are well-formed as the earlier STF stages guarantee: author / assurer / signer indices < V, one assurance per validator, at most one "
        "guarantee and one newly available report per core, offenders never sign a guarantee",
        "counter sums stay inside their Go integer widths (imports/exports <= 3072 and extrinsic counts <= 128 per digest, <= 4 digests per report)",
    ],
)


def signature(m):
    return ["history", str(min(m["input"].count(" B "), 9))]


MANIFEST = dict(
    text="Proof (Coq, all blocks / prior statistics / validator positions): the implementation-shaped update (author's four counters one extrinsic "
         "entry at a time, reporters marked from the guarantees' signer keys, one assurance at a time) equals base + delta where base is the prior "
         "accumulator (same epoch) or zero (epoch change) and delta = exactly 1 block + ticket count + preimage count + preimage octets for the author, "
         "+1 for each validator whose key is in the reporters set, +1 per assurance (C34_block_deltas, C34_update_order, by induction over the extrinsic "
         "lists); at an epoch change previous := accumulator and the accumulator restarts from this block's deltas (C34_epoch_rollover); a validator "
         "that did none of these keeps its record (C34_others_unchanged); core records are the sums over the incoming / newly available reports of the "
         "core and the assurance bits — the Go map core->report agrees when no two reports name a core (C34_core_records); exactly the services named "
         "by a digest, a preimage or the accumulation statistics get one record each, equal to the sums (C34_service_records); over any history inside "
         "one epoch the block counters grow by exactly the number of blocks (C34_epoch_block_count). Tie to the code: histories are run through "
         "stf.UpdateStatistics on the singleton and every record after every block is compared with the extracted model.",
    note="Theorems are about Model/Statistics.v over unbounded N; Go is tied by differential execution only (tiny constants). Outside the model: the "
         "shuffle/rotation that assigns cores (only the key list G / G* uses matters here and is modelled), Go integer widths, malformed blocks "
         "(out-of-range indices panic in Go; duplicate cores: the Go map keeps the last report where GP sums). Observation outside this property: "
         "safrole.ReplaceOffenderKeys, reached through extrinsic.GFunc/GStarFunc, nulls offenders' keys in the posterior kappa'/lambda' slices in place.",
    technique="Coq proof by induction over extrinsic lists and block histories (implementation-shaped update = Gray Paper sums) + "
              "model/implementation correspondence on block histories (extracted OCaml vs Go through the blockchain singleton)",
    design_ref="DESIGN.md §4 C34",
)
