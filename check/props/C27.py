SPEC = dict(
    harness="verif_c27",
    model="C27",
    run_timeout=3000,
    rule="one case = one whole random history (direct Put/Delete/Get/Has, several batches alive at once with Put/Delete/Commit/"
         "Close(discard)/Close-after-commit, iterators with prefix/start, ops on finished or absent batches) run on the memory provider, "
         "the Pebble provider (fresh real directory per history) and the Redis provider (miniredis), every result compared token by token "
         "with the extracted proved model kv_run; keys over a per-case sub-alphabet of {00,ff,a,b,*,?,[,],\\,^,-} with lengths 0..3, empty "
         "keys/values, prefix/start pairs that complete a key, are cut short, or are unrelated to every key; every buffer passed in is "
         "overwritten after the call, every slice returned by Get is re-read at the end of the history, iterator slices are re-read after a "
         "later write inside their validity window; each history ends by reading back every key ever named and its overwritten image and by a "
         "full iteration. non-trivial = the history returned at least one stored value; distinct by (provider, history)",
    trusted_base=[
        "miniredis v2.34.0 stands in for a Redis server (its SCAN returns sorted keys and its glob translation cannot parse patterns that are "
        "not UTF-8 or have malformed classes: such iterator bounds are not replayed on the Redis provider; counted in input_distribution)",
        "Pebble v1.1.5 on a fresh directory per history (tmpfs when available)",
    ],
    assumptions=[
        "a batch is used until Commit or Close; after Commit only Close is called; operations addressed to a finished or absent batch are "
        "answered by the harness itself without calling the provider (the interface does not define them)",
        "iterator Key()/Value() slices are required to be stable only until the next Next() (the contract written on the interface "
        "implementations); Get results are required to be stable for the whole history",
        "ascending order of the Redis iterator is observable only up to miniredis, whose SCAN reply is already sorted",
    ],
)


def _first_diff(m):
    toks = m["input"].split(" ")
    a, b = m["impl"].split(" "), m["model"].split(" ")
    for i in range(max(len(a), len(b))):
        x = a[i] if i < len(a) else ""
        y = b[i] if i < len(b) else ""
        if x != y:
            if y.startswith("stale=") or x.startswith("stale="):
                return "stale"
            op = toks[1 + i] if 1 + i < len(toks) else "?"
            return op.split(":")[0]
    return "none"


def signature(m):
    return [m["input"].split(" ")[0], _first_diff(m)]


def nontrivial(inp, out):
    return not out.startswith("GOPANIC") and " err" not in (" " + out) and ("=" in out.replace("stale=", "") or ":" in out)


MANIFEST = dict(
    text="Proof (Coq), for all histories of puts, deletes, gets, batch writes (several batches alive at once, committed, discarded or left "
         "open) and iterations: the sorted-list store refines the abstract function map (lookup = value of the latest committed write, "
         "C27_kv_refines_map / C27_get_latest / C27_has_latest, with C27_committed_* saying which writes are committed); a batch that is "
         "never committed is invisible — removing its writes from the history changes no other result and not the store "
         "(C27_batch_atomic_uncommitted); a commit applies exactly the writes addressed to that batch, all, in order "
         "(C27_batch_atomic_commit); an iterator returns exactly the bindings whose key has the prefix and is >= prefix++start, with the "
         "current values, keys strictly ascending, no duplicates, and that list is unique (C27_iter_spec, C27_iter_unique); the "
         "sorted/NoDup store invariant is preserved by every operation (C27_store_inv_step, C27_store_inv). Tie to the code: whole random "
         "histories are run on the memory, Pebble and Redis providers and every result is compared with the extracted model on every run. "
         "Independence of returned slices and of caller buffers cannot be expressed in a pure model; it is decided by the correspondence "
         "(buffers overwritten after each call, returned slices re-read later) and is not a theorem.",
    note="Theorems are about Model/KV.v (Gallina); Go code is tied by differential execution only. Redis is miniredis (sorted SCAN, "
         "limited glob parser): ordering of the Redis iterator and iterator bounds that are not UTF-8 are not exercised on Redis. Concurrency "
         "(locks, concurrent batches/iterators, snapshot isolation of an open iterator against concurrent writers), Close of the database, "
         "I/O errors, durability and re-opening a Pebble directory are outside the model. Needs proposed_fixes/C27-*.patch (5 patches, 4 files) "
         "applied: on the tree as found the memory and Redis providers violate the property.",
    technique="Coq proof (refinement of an abstract map by a sorted association list, simulation between store representations, history "
              "surgery for batch atomicity) + model/implementation correspondence on whole histories (extracted OCaml vs three Go providers)",
    design_ref="DESIGN.md §4 C27",
)
