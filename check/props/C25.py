SPEC = dict(
    aux_kinds=["1 ", "2 ", "3 ", "5 "],   # capacities other than the real H = 8 need the add-only setter of an unexported variable
    harness="verif_c25",
    model="C25",
    uses_hashes=True,
    rule="block histories (3-30 blocks, i.e. longer than H) through the blockchain singleton: prior beta, latest block (random header incl. "
         "offenders / tickets marks, guarantees), posterior theta; recent_history.STFBetaH2BetaHDagger + STFBetaHDagger2BetaHPrime (which call "
         "History2HistoryDagger, serLastAccOut, lastAccOutRoot, AppendAndCommitMmr, MapWorkReportFromEg, NewItem, AddItem2BetaHPrime); posterior "
         "beta committed as the next prior; a quarter of the blocks are executed but NOT committed (fork sibling / block rejected later): the next "
         "block then runs from the very same prior-state object and is compared with the model applied to the committed prior value. H = 8 and (through an add-only export of the package variable) 1, 2, 3, 5; C = 2, 1..4, 341; prior "
         "histories empty / partial / full / over-long (over-long = outside the state invariant: only `at most H entries after every block` is required there), prior belts with empty positions, 0..C+1 guarantees (close hashes, repeated pairs, hashes "
         "reported before), 0..47 accumulation outputs. Compared observable after EVERY block: all entries (header hash, state root, commitment, "
         "reported pairs in order) and all belt peaks, recomputed by the model with its own Blake2b / Keccak; non-trivial = every block produced "
         "a history; distinct by input. The trailing '# alias=' token (PRIOR beta object mutated in place) is informational, not compared.",
    assumptions=["the header hash is Blake2b of the encoding produced by the Go encoder for the generated header (the header codec itself is C11's subject)",
                 "two guarantees of one block never carry the same package hash with different exports roots (sort.Slice is not stable)"],
)


def nontrivial(inp, out):
    return "err" not in out.split(" # ")[0].split(" / ") and not out.startswith("GOPANIC")


def ignore(m):
    """A history whose PRIOR list is over-long (n0 > H entries: outside the state invariant, rejected by BlocksHistory.Validate and the
    codec, never produced by the transition) is outside the property's quantifier (block histories): which of the surplus entries
    survive is not fixed by the property, and the clause 'all other entries are unchanged' cannot hold under any choice. Only the
    clause that can hold is kept for such a case: after every block the list has at most H entries. (Until the harmless-change
    campaign the code's choice - entries 1..H-1 - was compared: neutral/C25/N2 keeps the newest H-1 instead and was alarmed.)"""
    t = m["input"].split(" ")
    try:
        H, n0 = int(t[0]), int(t[4])
    except (ValueError, IndexError):
        return None
    if t[3] != "H" or n0 <= H:
        return None
    body = m["impl"].split(" # ")[0]
    for blk in body.split(" / "):
        if not blk.startswith("E"):
            return None                      # err / GOPANIC / anything unexpected: not ignored
        ents = blk.split(" M")[0][1:].strip()
        n = 0 if not ents else len(ents.split(" ;"))
        if n > H:
            return None                      # more than H entries after a block: the property's first clause fails
    return "over-long prior history (outside the state invariant and the property's quantifier); at most H entries after every block holds"


def signature(m):
    t = m["input"].split(" ")
    return ["H" + t[0], "C" + t[1]]


MANIFEST = dict(
    text="Proof (Coq), for all hash functions, histories and blocks: the impl-shaped transition (overwrite the newest entry's state root, build "
         "the item, make/copy/overwrite of AddItem2BetaHPrime) yields exactly lastn H (history with the newest state root replaced by the parent "
         "state root ++ [new entry]) and the belt = MMR append of the accumulation-output root (C25_history_spec, _not_full, _full, _empty); the "
         "new entry has the Blake2b header hash, the zero state root, the super-peak of the appended belt and the block's packages as a sorted "
         "permutation, strictly increasing when hashes are distinct (C25_new_entry, C25_reported_strictly_sorted, C25_newest_is_new); the history "
         "holds at most H entries after every block of any history and is full from block H on (C25_history_le_H, _le_H_any, _history_length); "
         "every other prior entry reappears unchanged and the previous newest changes in its state root only (C25_others_unchanged, "
         "C25_previous_newest); the Merkle node function never exhausts its fuel (C25_acc_root_total). Tie to the code: the real STF functions "
         "are run over generated block histories against the extracted model on every run, every entry and peak compared after every block.",
    note="Theorems are about Model/RecentHistory.v with Blake2b, Keccak and the accumulation-output root as arbitrary functions; the theory of "
         "M_B and of the MMR belongs to C18/C19 — here their Go implementations are only tied to the model's transcription by differential "
         "execution. The header codec is not modelled (the harness feeds the Go encoding of the generated header to the model). In-place "
         "mutation of the prior history by History2HistoryDagger is observed and reported but is not part of C25.",
    technique="Coq refinement proof + invariant over histories + model/implementation correspondence on block histories (own Blake2b/Keccak)",
    design_ref="DESIGN.md §4 C25",
)
