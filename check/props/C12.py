SPEC = dict(
    aux_kinds=['dec reader ', 'dec fuzz ', 'enc fuzz '],   # streams that call unexported helpers directly; skipped (UNAVAILABLE) when those are renamed
    harness="verif_c12",
    model="C12",
    rule="all six Go natural decoders/encoders (types.DecodeUint, reader DecodeLength, utilities, PVM ReadUintVariable, "
         "telemetry, fuzz compact) against the proved canonical codec: every 2^k-1/2^k/2^k+1, random values, all byte strings "
         "of length 1-2 (length 3 exhaustive in thorough), FF-prefixed 9-byte strings, every prefix of every encoding, "
         "non-minimal candidates; non-trivial = decoder accepted / encoder produced bytes; distinct by (codec,input)",
    assumptions=["consumed length for DeserializeU64 (which does not report it) is derived from the re-encoding of the value"],
)

def signature(m):
    t = m["input"].split(" ")
    return [t[0], t[1], "ff" if t[2].startswith("ff") else "other"]

MANIFEST = dict(
    text="Proof (Coq): the canonical codec is a bijection between [0,2^64) and its encodings — decode∘encode = id with any suffix, "
         "every accepted byte string is exactly the minimal encoding of its value (no non-minimal form), every proper prefix is rejected, "
         "encoding is injective; for all values/byte strings. Tie to the code: all six Go natural-number codecs are run against the "
         "extracted model on every run (exhaustive for short strings), so each Go codec is shown equal to the proved bijection on the explored inputs.",
    note="Theorems are about Model/NatCodec.v (Gallina); Go code is tied by differential execution only. DeserializeU64 reports no consumption (derived).",
    technique="Coq proof of canonical-bijection laws + model/implementation correspondence (extracted OCaml vs Go, exhaustive short inputs)",
    design_ref="DESIGN.md §4 C12",
)


def coq_crosscheck(lines):
    """the sampled Go results re-checked against the model evaluated by vm_compute inside coqc"""
    def bl(hx):
        if hx == "-":
            return "[]"
        return "[" + "; ".join(str(int(hx[i:i + 2], 16)) for i in range(0, len(hx), 2)) + "]"
    encs, decs = [], []
    for l in lines:
        inp, out = l.split(" | ")
        t = inp.split()
        out = out.strip()
        if t[0] == "enc":
            encs.append("(%s, %s)" % (t[2], bl(out)))
        else:
            if out == "err":
                decs.append("(%s, None)" % bl(t[2]))
            else:
                _, v, n = out.split()
                decs.append("(%s, Some (%s, %s))" % (bl(t[2]), v, n))
    return """From JamV Require Import Base.Bytes Model.NatCodec Proofs.BytesP.
Local Open Scope N_scope.
Definition encs : list (N * bytes) := [%s].
Definition decs : list (bytes * option (N * N)) := [%s].
Definition chk_enc (c : N * bytes) := bytes_eqb (enc_nat (fst c)) (snd c).
Definition chk_dec (c : bytes * option (N * N)) :=
  match dec_nat (fst c), snd c with
  | None, None => true
  | Some (x, r), Some (v, n) => (x =? v) && (N.of_nat (length (fst c) - length r) =? n)
  | _, _ => false
  end.
Eval vm_compute in (forallb chk_enc encs && forallb chk_dec decs).
""" % ("; ".join(encs), "; ".join(decs))
