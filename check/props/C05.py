SPEC = dict(
    aux_kinds=['rng '],   # streams that call unexported helpers directly; skipped (UNAVAILABLE) when those are renamed
    harness="verif_c05",
    model="C05",
    rule="programs of 1-6 loads/stores (absolute, register-indirect, immediate stores; widths 1/2/4/8; signed and unsigned) at addresses within 9 "
         "bytes of the edges of RW, RO, present-but-inaccessible and absent pages, below/around 2^16, at the top of the address space (incl. wrapping "
         "accesses) and with mapped low pages; sbrk sequences (0, small, page-sized, exactly to the limit, one past, wrapping) with heap pointers "
         "aligned/unaligned and pages pre-mapped inside the heap range, touching the returned region. Through DeBlobProgramCode + Host.HostCall. "
         "Compared: exit (+fault address range), counter, registers, gas, heap pointer, every page's access and contents. distinct by input",
    assumptions=["sbrk is specified de facto (Gray Paper under-specifies it): see Model/PvmMem.v"],
    trusted_base=["Model/PvmMem.v: A.7-A.9 transcribed by hand; the low-address rule in the property's reading (any touched address < 2^16 panics), proved equal to the GP rule when nothing below 2^16 is accessible"],
    run_timeout=3000,
)


def nontrivial(inp, out):
    return not (out.startswith("GOPANIC") or out.startswith("deblob-panic") or out == "")


def signature(m):
    return [m["input"].split(" ")[0], m["impl"].split(" ")[0].split(":")[0], m["model"].split(" ")[0].split(":")[0]]


MANIFEST = dict(
    text="Proof (Coq), all memories/programs: a load succeeds only on readable bytes >= 2^16 and returns exactly them; a store succeeds only on "
         "writable bytes; any access touching an address < 2^16 (mod 2^32) panics; a faulting or panicking access changes no register and no byte; "
         "a store is all-or-nothing across pages and otherwise writes exactly its n bytes, leaving other bytes, access classes, mapped pages and heap "
         "pointers alone; only sbrk changes the page map or the heap pointer; over any instruction sequence the heap limit is constant, the heap "
         "pointer monotone and <= limit; pages are never unmapped and a page that appears is read-write and all zero. Correspondence: boundary-straddling "
         "loads/stores over mixed page maps and sbrk sequences to and past the limit on the real interpreter, whole memory compared.",
    note="Theorems are about Model/PvmMem.v / PvmStep.v; Go tied by differential execution. Two defects of the unchanged tree (loads ignore an "
         "inaccessible page's access class; accesses wrapping past 2^32 fault instead of panicking) are covered by proposed_fixes/C05-*.patch. "
         "Host-call range checks (isReadable/isWriteable) and the pages host call are exercised under C07/C33, not here.",
    technique="Coq proofs about the page-memory model + model/implementation correspondence on boundary-biased access programs",
    design_ref="DESIGN.md §4 C05",
)
