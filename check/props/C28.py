"""C28 — telemetry stream stays aligned with event IDs.

Proof over the model's interleavings (coq/Properties/C28.v) + validation of observed runs of the REAL
Go client with the extracted, proved oracle `accepts` (ocaml/C28/driver.ml) + the same scenarios under
the Go race detector.  The standard pipeline of check/lib.py does the first two; `main` below adds the
race-detector run and then delegates to the standard pipeline.
"""
import hashlib, json, os, subprocess, sys

SPEC = dict(
    harness="verif_c28",
    model="C28",
    run_timeout=3000,
    rule="seeded scenarios of the real tcpClient (newTCPClient + injected dialer) over in-memory connections: 1-8 concurrent emitter "
         "goroutines (Emit / EmitLazy / EmitFollowup / EmitFollowupLazy, parents = latest id, first id ever (stale after a reconnect) or "
         "InvalidID), buffer sizes 1-64, GOMAXPROCS 1-16, per-connection faults (dial refused, write error inside the node-information "
         "frame, write error at an arbitrary byte offset later, peer that stops reading = stalled writer, peer close), re-stalls, Close "
         "after / during the emitters / while the writer is stalled; in a quarter of the scenarios some lazy builders PANIC on the writer "
         "goroutine (1-30 %) and the emitters keep emitting afterwards; in another quarter some lazy builders RETURN NIL (3-60 %: the client "
         "sends a header-only frame, identified by a discriminator used for that call only); padded payloads (1-2048 bytes); every 30th scenario is a "
         "RECONNECT STORM (every connection dies after 1-4 frames, ReconnectMin = 1 ns, 3-8 emitters alternating Emit and a follow-up "
         "of the id just returned without pausing, 800-1700 attempts each, ~100-300 connections per scenario) so that emit calls are "
         "regularly in flight across a whole disconnect -> epoch bump -> reconnect; 900 scenarios in quick, 30000 in thorough. Observed: the ids "
         "returned to every emitter and the bytes each connection received, decoded with the package's own Decoder into "
         "node-info / event(tag) / follow-up(tag,parent seq) / dropped(n). The extracted oracle `accepts` (proved sound: "
         "C28_oracle_sound) is evaluated on every observed run; compared string = verdict, always expected `ok`. Also `blocked` when an "
         "Emit* call takes > 4 s (emitters keep running while the writer is stalled; the stall only ends through emitter 0's progress or "
         "a 6 s watchdog), `hang`, `GOPANIC emitter`. A further 150 / 3000 scenarios (other seed) is re-run with a `go build -race` binary: any "
         "DATA RACE report is a violation. non-trivial = verdict ok with delivered events and (a dropped-events record or >= 2 "
         "established connections); distinct by input",
    assumptions=[
        "the Go schedule is not controllable: the run-time side SAMPLES schedules (real goroutines, GOMAXPROCS 1..16, with and without "
        "the race detector's instrumentation), whereas the Coq theorems cover ALL interleavings of the model's atomic actions; a failing "
        "scenario is replayed with the same seed but may need several runs to reproduce",
        "epoch of a connection = 1 + number of earlier connections on which the node-information frame was completely written "
        "(what connectLoop/bumpEpoch do); a connection that received no complete node-information frame is an empty stream",
        "an incomplete trailing frame is accepted only on a connection on which a Write returned an error (that is how TCP loses a "
        "connection mid-frame); everywhere else it is reported as a malformed frame",
        "event payload tags identify emit calls; the harness gives every call a distinct tag",
        "`emitters never block` is measured, not proved, on the Go side: max latency of an Emit* call while the peer is stalled (bound 4 s)",
    ],
    trusted_base=[
        "the in-memory net.Conn of the harness (records exactly the bytes whose Write it acknowledged; injected failures acknowledge a "
        "prefix) and its frame decoding (length prefix + telemetry.Decoder)",
        "Go race detector (ThreadSanitizer runtime of toolchain 1.25.5) for the data-race part",
    ],
)


def _head(out):
    head = out.split(" ; ")[0].split(" ")
    kv = {}
    for t in head[1:]:
        if "=" in t:
            k, v = t.split("=", 1)
            if v.isdigit():
                kv[k] = int(v)
    return head[0], kv


def nontrivial(inp, out):
    v, kv = _head(out)
    return v == "ok" and kv.get("ev", 0) + kv.get("fu", 0) > 0 and (kv.get("dr", 0) > 0 or kv.get("est", 0) >= 2)


def signature(m):
    t = m["impl"].split(" ")
    return [t[0], t[1] if len(t) > 1 else "-"]


MANIFEST = dict(
    text="PARTIAL. Proof (Coq) over a hand-written transition-system model of internal/telemetry's emitter / writer / reconnect / close "
         "protocol (one action = one critical section, channel operation, frame write or flag store of tcp.go / writer.go / sequencer.go / "
         "dropranges.go): for EVERY list of actions and every channel capacity, every connection's stream is empty or starts with the "
         "node-information frame, and a receiver that numbers events from 0 and advances by each dropped-events count assigns every "
         "delivered event exactly the (epoch, seq) its emitter received (C28_alignment_inv / _explicit, by an invariant relating wire "
         "prefix, claimed range, pending envelope, queue, drop ranges and next id); a follow-up that got an id has a parent of the same "
         "epoch = connection (C28_followup_same_epoch); an emit call is one step defined in every state (C28_emit_nonblocking: no wait "
         "state) and dropState.record's panic is unreachable (C28_no_emitter_panic); ids are never handed out twice (C28_ids_unique). "
         "Tie to the code: NOT a differential test of the model's transitions — the real client is run under sampled schedules with "
         "injected faults and each observed run (ids returned, bytes received) is validated by the extracted oracle, whose meaning is "
         "itself proved (C28_oracle_sound); plus the race detector on a subset. So: all interleavings for the model, sampled "
         "interleavings for the Go code.",
    note="Modelled, not verified: all Go code; the atomicity granularity of the model (what is one action) is read off the source by hand. "
         "Outside the model: Go's memory model (covered only by the sampled race-detector runs), real blocking and timers (back-off, "
         "ticker, CloseTimeout), timestamps, 48-bit seq truncation and 16-bit epoch exhaustion, writer panics inside lazy builders "
         "(modelled only as 'Close'), payload aliasing with the caller's buffer, byte-level framing (checked on the run-time side only). "
         "Liveness (Close drains, tail drops are eventually flushed) is not claimed.",
    technique="Coq invariant proof over all interleavings of a transition-system model + run-time validation of real concurrent runs by an "
              "extracted, proved receiver oracle + Go race detector",
    design_ref="DESIGN.md §4 C28",
)


# ------------------------------------------------------------------------------------------------
def _race_run(a, lib):
    """Build the harness with -race and run a subset of the scenarios. Returns (violation_path_or_None, info)."""
    repo, build = lib.REPO, lib.BUILD
    # everything of this run lives in a directory of its own (several checks of C28 may run at the same time)
    import tempfile, shutil
    wd = tempfile.mkdtemp(prefix="run_C28_race_", dir=build)
    try:
        return _race_run_in(a, lib, wd)
    finally:
        shutil.rmtree(wd, ignore_errors=True)


def _race_run_in(a, lib, wd):
    repo, build = lib.REPO, lib.BUILD
    out = os.path.join(wd, "h_verif_c28_race")
    ovj = os.path.join(wd, "overlay.json")
    subprocess.run([sys.executable, os.path.join(lib.ROOT, "harness", "mkoverlay.py"), ovj],
                   env=dict(os.environ, VERIF_REPO=repo), check=False)
    rc, o = lib.sh([lib.go_bin(), "build", "-race", "-tags", "verif", "-overlay", ovj, "-o", out, "./cmd/verif_c28"],
                   cwd=repo, env=lib.go_env(), timeout=1800)
    if rc != 0:
        p = lib.write_replay("C28", "racebuild", [], ["property=C28 the -race build of the harness failed"] + o.splitlines()[-30:])
        return p, dict(built=False), " no-failing-input-found"
    cases = os.path.join(wd, "cases.txt")
    if a.replay:
        lines = [l for l in open(a.replay) if l.strip() and not l.startswith("#")]
    else:
        k = 3000 if a.tier == "thorough" else 150
        g = subprocess.run([out, "gen", "--seed", str(a.seed + 7919), "--tier", "quick"], stdout=subprocess.PIPE,
                           env=lib.go_env(), text=True, timeout=600)
        lines = [l + "\n" for l in g.stdout.splitlines() if l and not l.startswith("#")]
        while len(lines) < k:      # quick generator yields 900 scenarios per seed
            g = subprocess.run([out, "gen", "--seed", str(a.seed + 7919 + len(lines)), "--tier", "quick"], stdout=subprocess.PIPE,
                               env=lib.go_env(), text=True, timeout=600)
            lines += [l + "\n" for l in g.stdout.splitlines() if l and not l.startswith("#")]
        lines = lines[:k]
    open(cases, "w").writelines(lines)
    env = lib.go_env()
    env["GORACE"] = "halt_on_error=0 exitcode=0"
    impl = os.path.join(wd, "impl.txt")
    with open(cases) as fin, open(impl, "w") as fout:
        p = subprocess.run([out, "run"], stdin=fin, stdout=fout, stderr=subprocess.PIPE, env=env, text=True, timeout=3000)
    err = p.stderr or ""
    races = err.count("WARNING: DATA RACE")
    info = dict(built=True, scenarios=len(lines), races=races)
    if p.returncode != 0 and not races:
        path = lib.write_replay("C28", "racerun", [l.rstrip("\n") for l in lines[:20]],
                                ["property=C28 the -race harness run failed rc=%d" % p.returncode] + err.splitlines()[-30:])
        return path, info, " no-failing-input-found"
    if races:
        first = err[err.find("WARNING: DATA RACE"):].splitlines()[:40]
        path = lib.write_replay("C28", "race", [l.rstrip("\n") for l in lines[:50]],
                                ["property=C28 the Go race detector reported %d data race(s) while running these scenarios "
                                 "(go build -race; schedule dependent, re-run several times)" % races] + first)
        return path, info, ""
    # the race-instrumented runs are also observed runs: validate them with the oracle
    with open(impl) as fin:
        q = subprocess.run([os.path.join(build, "modelrun_C28")], stdin=fin, stdout=subprocess.PIPE, text=True, timeout=3000)
    bad = [l for l in q.stdout.splitlines() if l.startswith("MISMATCH\t")]
    info["oracle_rejected"] = len(bad)
    if bad or "DONE " not in q.stdout:
        ms = [lib.parse_mismatch(l) for l in bad]
        path = lib.write_replay("C28", "viol", [m["input"] for m in ms[:20]],
                                ["property=C28 violation (race-instrumented run) group=%s" % (ms[0]["impl"][:60] if ms else "pipeline"),
                                 "first case: impl=%s" % (ms[0]["impl"][:400] if ms else q.stdout[-400:])])
        return path, info, "" if ms else " no-failing-input-found"
    return None, info, ""


def main(a):
    import lib
    me = sys.modules[__name__]
    saved = me.main
    del me.main                      # lib.main would call us again
    try:
        argv = [a.pid, "--tier", a.tier, "--seed", str(a.seed)] + (["--replay", a.replay] if a.replay else [])
        rc = lib.main(argv)
    finally:
        me.main = saved
    path, info, suffix = None, dict(built=False), ""
    if os.path.exists(os.path.join(lib.BUILD, "modelrun_C28")):
        path, info, suffix = _race_run(a, lib)
    evp = os.path.join(lib.ROOT, "evidence", "C28.json")
    if not a.replay and os.path.exists(evp):
        ev = json.load(open(evp))
        ev["coverage"]["race_detector"] = info
        if path:
            ev["violations"] = ev.get("violations", 0) + 1
        json.dump(ev, open(evp, "w"), indent=1)
    print("C28: race detector: %s" % ", ".join("%s=%s" % kv for kv in sorted(info.items())))
    if path:
        print("VIOLATION property=C28 replay=%s%s" % (path, suffix))
        return 1
    return rc
