SPEC = dict(
    harness="verif_c14",
    model="C11",
    rule="C13's malformed stream with a heavier share of huge length prefixes through every top-level decoder, plus fuzz frames "
         "(crafted length fields 0, 1, 2^31, 2^32-1, 16 MiB with little data; valid frames with edited length/type/payload; "
         "payloads carrying huge inner prefixes) through Message.ReadFrom and PeerInfo/ErrorMessage.UnmarshalBinary. Each call runs "
         "in a worker process under recover(), an 8 MiB stack cap and a 3 GiB address-space limit; runtime.MemStats.TotalAlloc is "
         "read before and after. Observable: decoder outcome (as C13) + mem=ok iff allocated <= 8192*len(input)+256 KiB (8 MiB in "
         "full mode); GOPANIC (runtime panic), GOFATAL (stack overflow / out of memory / timeout) and mem=EXCESS differ from the "
         "model, whose decoder is total and whose account is proved linear. every case counts; distinct by input",
    assumptions=[
        "the Go allocator is measured, not modelled: the proved bound is about the model's account (declared count x element size)",
        "budget constant 8192 B per input byte covers the largest element (ExportSegment, 4104 B) per declared element",
    ],
)


def signature(m):
    t = m["input"].split(" ")
    return [t[0], t[2] if t[0] == "safe" else "-", m["impl"].split(" ")[0]]


def nontrivial(inp, out):
    return True


MANIFEST = dict(
    text="Proof (Coq): the decoding discipline that compares every declared count with the remaining input allocates at most "
         "kconst(d) bytes per input byte plus a per-type constant, for every well-formed descriptor and every input; the same "
         "discipline without the comparison is refuted by a 9-byte input (account 2^64-1), the frame reader that allocates L-1 "
         "before reading by a 5-byte one (2^32-1). Tie to the code: every top-level decoder and the fuzz frame reader run on "
         "~64k (quick) attacker-shaped inputs; runtime panics, fatal errors and allocation beyond the budget are violations.",
    note="Partial: the allocation theorem is over the model's account; the Go runtime's real allocation is measured per call "
         "(TotalAlloc), not proved. 'No panic' is established by execution under recover() only. Defects repaired by proposed patches.",
    technique="Coq proof of a linear allocation bound over a descriptor language + fuzz-style correspondence with allocation measurement",
    design_ref="DESIGN.md §4 C14",
)
