SPEC = dict(
    aux_kinds=['djump '],   # streams that call unexported helpers directly; skipped (UNAVAILABLE) when those are renamed
    harness="verif_c03",
    model="C03",
    rule="malformed-input stream through the real entry points, each under recover(): DeBlobProgramCode (also on slices with spare "
         "capacity), the djump table lookup, SingleInitializer, Psi_M (node's gas + machine host calls, gas limits 0..20000) and the "
         "machine host call (direct, and through an assembled refine program). Inputs: 11 valid programs built with a small assembler "
         "(arithmetic, loop, memory traffic + host calls, jump table + branches, refine/machine, 6 random defined-opcode streams), EVERY "
         "truncation of each, 1-3 bit flips, every declared length (|j|, z, |c|; |o|, |w|, z, s, |c| of the standard header) overwritten "
         "with boundary and huge values (2^32-1, 2^32, 2^56.., 2^63, 0x5555555555555556, 2^64-1) and values around the true ones, "
         "declared lengths exceeding the data, appended garbage, random bytes, arguments of Z_I-1..Z_I+Z_Z+1 bytes, z up to 4096 pages "
         "(65535 in thorough); assembled programs that load 64-bit (start, length) pairs at the 2^64 / 2^32 wrap boundaries into the pointer/"
         "length registers of a halt, log, machine or export call (outcome and output length predicted by the model's range check). Compared with the extracted Go-shaped model (repaired shape): accept/reject, instruction and block counts, "
         "jump-table fields, page count, heap pointer/limit, machine's result register, the halt output of the refine program; the model "
         "never predicts a Go panic. Per case the runtime.MemStats.TotalAlloc delta of the call must be <= 21/20 of the PROVED bound C03_alloc_bound (not of the exact "
         "account of today's code, which the property does not fix) + a fixed slack (512 B; + declared/32 for the page map's buckets; + declared + 8 KiB for a run) and the "
         "account within the proved bound; gas used <= limit; a 15 s watchdog and a heap guard turn a hang into HANG/OOM. "
         "non-trivial = the call returned a defined result; distinct by input",
    assumptions=["programs whose decoded table contains sbrk are not RUN (one sbrk may map the whole free address space; C05 covers sbrk): "
                 "they are still parsed and compared, the model predicts the skip from its own table",
                 "the exit kind of a Psi_M run is required to be one of the defined ones (halt / panic / out-of-gas) and is predicted only "
                 "where the model fixes it (rejected blob => panic, the refine program); per-instruction conformance is C01's",
                 "the measured allocation of a Psi_M run is compared with the load account plus what a run may copy out of mapped memory "
                 "(declared + 8 KiB)"],
    trusted_base=["Model/PvmGo.v is a hand transliteration of the Go parsing glue (slice capacity, uint32/uint64 wrap, append growth as "
                  "runtime.nextslicecap without size-class rounding, sizeof(InstrMeta)=40, sizeof(BlockMeta)=32, page = 4096+32 bytes)",
                  "the table 'which register fields the handlers of an operand category use' (cat_uses) was transcribed from "
                  "instructions_instrmeta.go with a script, not proved about Go text"],
    run_timeout=3000,
)


def nontrivial(inp, out):
    return not (out.startswith("GOPANIC") or out in ("", "HANG", "OOM", "BADCASE") or out.startswith("UNDEF"))


def signature(m):
    kind = m["input"].split(" ")[0]
    impl = m["impl"].split(" ")
    what = impl[0] + ("-" + impl[1] if impl[0] == "GOPANIC" and len(impl) > 1 else "")
    over = "alloc-over" if "a=OVER" in m["impl"] else ("gas-over" if "g=OVER" in m["impl"] else "class")
    return [kind, what, over]


MANIFEST = dict(
    text="Proof (Coq) over a faithful Go-shaped model of the parsing glue (ReadUintVariable, DeBlobProgramCode incl. the uint64 product "
         "z*|j| and data[:instSize], MakeBitMasks, skip, decodeOperands over the 13 operand categories, preDecodeBlocks with its append "
         "growth, djump's table lookup, DecodeSerializedValues/ReadUintFixed/ReadBytes, SingleInitializer's seven page loops in uint32) in "
         "which every Go index/slice expression is an option (bounds = length resp. CAPACITY) and every loop has fuel: for ALL byte strings "
         "below 2^32-64 bytes with any spare capacity behind them and ALL argument lengths the loading half of Psi_M ends in accept or the "
         "defined reject - never a Go panic, never out of fuel; an accepted program holds only register indices < 13 where its handlers "
         "index the register file, and every dynamic-jump lookup on it is defined; the guest-range check (isReadable/isWriteable) accepts a "
         "non-empty range only if start+len <= 2^32 without wrap-around and every touched page passed the access test, for all 64-bit "
         "register values, so the halt-output buffer is <= 2^32 (the wrapping-sum form of the check is refuted). The same statement is proved FALSE of the code as found "
         "(4 witnesses replayed on the Go code; repaired by proposed_fixes/C03-01..04, the theorems are about the repaired shape). "
         "Gas: every step after which the machine continues costs exactly one unit, so Psi and the Psi_H loop (any host that never adds "
         "gas) end within gas+1 steps (over Model/PvmRun.v). Allocation: the model's account of every make / &T{} / append while loading "
         "is <= 512*|blob| + 64 KiB + 129/128 * (z*Z_P + P(s) + P(|o|) + P(|w|) + P(|a|)). Tie to the code on every run: malformed-input "
         "stream through the real Go entry points under recover(), outcome class and parse observables equal to the extracted model, "
         "measured TotalAlloc <= 21/20 of the proved bound + a small fixed slack (and the account within the proved bound), gas used <= limit, watchdog.",
    note="PARTIAL where the property speaks of real memory: the theorem bounds the model's account of requested sizes; the Go allocator, "
         "size-class rounding, the page map's buckets and run-time allocations (sbrk pages up to the address space, host-call buffers, the "
         "halt output) are measured, not proved. Not modelled: the interpreter handlers themselves (C01/C02/C05: their table lookups are "
         "exercised by the Psi_M cases only), host calls other than gas/machine, the inner-machine calls invoke/peek/poke/pages (C33). "
         "Gas progress is a theorem about the Gray Paper machine of Model/PvmStep.v, tied to the Go engine by C01/C04's correspondence and "
         "here by 'gas used <= limit + the call returned'. Blobs of 4 GiB and more are outside the theorems (Go truncates len to uint32).",
    technique="Coq proof over a Go-shaped executable model (slices with capacity, explicit wrap-around, fuel) + refutation witnesses for "
              "the unrepaired shape + model/implementation correspondence on a malformed-input stream with allocation measurement",
    design_ref="DESIGN.md §4 C03",
)
