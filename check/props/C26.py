SPEC = dict(
    harness="verif_c26",
    model="C26",
    run_timeout=3000,
    rule="metamorphic histories on the real fuzz-target entry points (FuzzServiceStub.SetState / ImportBlock / GetState, tiny parameters, "
         "JAM_FUZZ=1): from 6 synthetic genesis states (validators whose Bandersnatch/Ed25519 secrets the harness owns, sealing through the "
         "VRF stand-in; 5 of them with service accounts holding storage items, preimage+lookup entries and open lookup requests = raw unmatched "
         "key-values) chains over several epochs of VALID blocks authored from the parent's posterior state (fallback-key sealed and "
         "ticket-sealed epochs, epoch marks, winning-tickets marks, ticket extrinsics, assurances; children, forks/siblings on recent states, "
         "slot gaps, skipped epochs) with 25 kinds of INVALID blocks interleaved (bad slot, parent state root, extrinsic hash, extrinsic body "
         "under a valid header, seal, entropy source, author, author index, epoch mark, tickets mark, offenders mark, ticket order / duplicate / "
         "attempt / proof / epoch tail / count, preimage unneeded / unsorted, assurance anchor / order / signature / bit / index, unknown parent), "
         "retries of refused blocks, re-imports of accepted blocks, GetState of head / old / refused / unknown hashes, repeated SetState, "
         "and closing re-reads of every recent hash. Each history runs on node A (sees everything), B1 (all refused imports deleted), B2 (random "
         "subset deleted), B3 (exactly one refused import deleted), A2 (same sequence again after reset) and, for a quarter, X (same sequence in a freshly exec'ed process). Compared per "
         "operation with the extracted Coq node model (STF = table learned from run A): import result class and error kind, returned state root, "
         "digest of GetState key-values, Merkle root recomputed from those key-values. non-trivial = history with at least one accepted and one "
         "refused import; distinct by input",
    assumptions=[
        "the STF itself is an oracle: the model's stf table is the accept/reject/post-state behaviour observed on node A (first use of a "
        "(parent state, block) pair defines it; every later use in any run is predicted) — a deterministic but wrong STF is invisible here",
        "the two message variants of the ancestry refusal ('already finalized' / 'not part of the finalized block', chosen by a block-number "
        "index lookup) are one refusal kind; other error texts are compared as kinds (the fuzz protocol does not compare them, the check does)",
        "retention/pruning (the node keeps 24 states under JAM_FUZZ) is outside the model: hashes are queried / forked from / re-imported only "
        "while fewer than 22 imports were accepted since their latest acceptance (the SetState header always): a correct 24-entry retention is "
        "invisible, a premature deletion (C26-02) is a mismatch",
        "ring-VRF and IETF-VRF are the overlay stand-in (valid blocks are valid for the stand-in, not for Bandersnatch)",
    ],
)


def signature(m):
    # group by which run diverged and the shape of the diverging operation
    impl = m["impl"].split(" ")
    run = impl[0].split("@")[0] if impl else "?"
    op = impl[1].split("=")[0].split(".")[-1].split("+")[0] if len(impl) > 1 and "=" in impl[1] else "?"
    cls = impl[1].split("=")[1].split(":")[0] if len(impl) > 1 and "=" in impl[1] else "?"
    return [run, op, cls]


def nontrivial(inp, out):
    a = out.split(" # ")[0]
    return "=ok:" in a.split(" ", 3)[-1] and "=no:" in a


MANIFEST = dict(
    text="Proof (Coq), partial: for the node bookkeeping protocol (states committed by header hash, import applied to the parent state found by "
         "hash, ancestry admission policy, GetState) with the STF as an arbitrary deterministic function, deleting ANY set of refused imports "
         "(protocol error or refused by the node) from ANY history leaves every observable of the remaining operations unchanged "
         "(C26_rejected_is_noop, by induction over the history); hence after a refusal every GetState answer and every later import result is "
         "as on a node that never saw the block; an accepted import serves exactly the returned root/key-values; SetState resets completely so "
         "two nodes fed the same sequence agree (C26_import_deterministic). The node shaped like the Go code before the repair (rejected block "
         "stays 'latest block') is proved NOT to have the property (C26_go_shaped_node_refuted). Tie to the code: generated histories of valid "
         "and invalid blocks over several epochs are executed on the real SetState/ImportBlock/GetState and compared, per operation and for "
         "five differently filtered replays of each history, with the extracted model.",
    note="PARTIAL: the real STF (internal/stf, safrole, extrinsic processing) and persistence/pruning are NOT modelled — the STF enters as an "
         "oracle table observed from the implementation, so what the check decides is whether the real node implements the proved protocol "
         "(no trace of a rejected block: latest block, head, ancestry, in-place mutated prior state, half-built posterior state). Guarantees, "
         "disputes and accumulation never appear in generated blocks (only tickets, assurances with empty bitfields, and refused preimages). "
         "Go code is modelled, not verified. The defect found (ImportBlock left traces of a rejected block; three shapes in corpus/C26) is repaired by the applied "
         "fix commit from proposed_fixes/C26-import-rollback.patch.",
    technique="Coq proof of a metamorphic law of the node protocol (STF as Section variable) + metamorphic differential execution (node A vs nodes "
              "that never saw the rejected blocks, extracted OCaml model with an observed STF table) + refutation witness of the pre-repair node shape",
    design_ref="DESIGN.md §4 C26",
)
