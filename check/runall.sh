#!/bin/sh
# runall.sh [tier] [ids...] : run claimed (or given) checks sequentially, one summary line each
TIER=${1:-quick}; shift 2>/dev/null
HERE=$(cd "$(dirname "$0")/.." && pwd)
IDS="$@"
[ -z "$IDS" ] && IDS=$(python3 -c "import json;print(' '.join(json.load(open('$HERE/check/claimed.json'))))")
for p in $IDS; do
  out=$(python3 $HERE/check/check.py $p --tier $TIER 2>&1); rc=$?
  mkdir -p $HERE/.build; echo "$out" > $HERE/.build/runall_${p}_$TIER.log
  echo "$p rc=$rc $(echo "$out" | grep -E "theorems" | tail -1) $(echo "$out" | grep -c '^VIOLATION') violation(s) $(echo "$out" | grep -c '^KNOWN-FINDING') known"
done
