#!/usr/bin/env python3
"""Regenerate the generated block of DESIGN.md §8.2 from claimed.json, evidence, KNOWN_FINDINGS.json and seeded/*/verdict.json."""
import glob, json, os, re
R = "/verif"
claimed = json.load(open(R + "/check/claimed.json"))
kf = json.load(open(R + "/KNOWN_FINDINGS.json"))["findings"]
props = {json.loads(l)["id"]: json.loads(l) for l in open(R + "/properties.jsonl")}
na = json.load(open(R + "/check/not_applicable.json"))
rows = []
for pid in sorted(props):
    t = props[pid]["title"]
    if pid in na:
        rows.append("| %s | %s | not applicable | | | | |" % (pid, t)); continue
    if pid not in claimed:
        rows.append("| %s | %s | not yet claimed | | | | |" % (pid, t)); continue
    ev = {}
    p = R + "/evidence/%s.json" % pid
    if os.path.exists(p):
        ev = json.load(open(p))
    cov = ev.get("coverage", {})
    fixed = [f for f in kf if f["property"] == pid and f["status"] == "fixed"]
    openf = [f for f in kf if f["property"] == pid and f["status"] == "open"]
    seeds = []
    for v in sorted(glob.glob(R + "/seeded/%s/*/verdict.json" % pid)):
        d = json.load(open(v))
        seeds.append("%s:%s%s" % (d["change"], d["quick_check"], "*" if d.get("note") else ""))
    neu = []
    for v in sorted(glob.glob(R + "/neutral/%s/*/verdict.json" % pid)):
        d = json.load(open(v))
        q = d["quick_check"]
        neu.append("%s:%s%s" % (d["change"].replace("round2_", "r2"), {"silent": "ok", "alarm-no-failing-input-found": "nfif"}.get(q, q),
                                "*" if (d.get("note") and q == "silent" and "ALARM at first" in d["note"]) else ""))
    rows.append("| %s | %s | %d theorems, all closed | %s cases (%s tier) | %d fixed%s | %s | %s |" % (
        pid, t, cov.get("obligations", 0), cov.get("evaluations", "?"), ev.get("tier", "?"),
        len(fixed), (", %d open" % len(openf)) if openf else "", " ".join(seeds) or "-", " ".join(neu) or "-"))
block = ["<!-- BEGIN GENERATED STATUS (check/mkstatus.py) -->",
         "| id | title | proof | correspondence (last evidence) | genuine defects (fix: commits / open findings) | seeded changes (A/B; * = caught only after strengthening, see seeded/<id>/<x>/verdict.json) | harmless changes (neutral/<id>/<x>: ok = silent, * = false alarm at first, machinery corrected; nfif = `no-failing-input-found` report because an export the correspondence needs no longer compiles) |",
         "|----|-------|-------|------|------|------|------|"] + rows + ["", "Fix commits and open findings (from KNOWN_FINDINGS.json):", ""]
for f in kf:
    block.append("* %s — %s" % (f["id"], f["what"]))
block.append("<!-- END GENERATED STATUS -->")
s = open(R + "/DESIGN.md").read()
new = "\n".join(block)
if "<!-- BEGIN GENERATED STATUS" in s:
    s = re.sub(r"<!-- BEGIN GENERATED STATUS.*?<!-- END GENERATED STATUS -->", lambda m: new, s, flags=re.S)
else:
    s += "\n### 8.2 Status per property (generated)\n\nPer-property implementation records (model files, theorem lists, what the correspondence covers, what is partial or outside the model, mutations tried by the builder) are in `notes/Cxx.md`.\n\n" + new + "\n"
open(R + "/DESIGN.md", "w").write(s)
print("status rows:", len(rows))
