#!/usr/bin/env python3
"""verdict.py Cxx A|B caught|missed "<note>" : record how the check fared on a seeded change"""
import json, sys, os
p, m, v, note = sys.argv[1], sys.argv[2], sys.argv[3], (sys.argv[4] if len(sys.argv) > 4 else "")
d = "/verif/seeded/%s/%s" % (p, m)
json.dump({"property": p, "change": m, "quick_check": v, "note": note,
           "ran": "check/try_mutation.sh %s seeded/%s/%s/patch.diff  (scratch worktree of /repo with the patch applied; VERIF_REPO)" % (p, p, m)},
          open(os.path.join(d, "verdict.json"), "w"), indent=1)
