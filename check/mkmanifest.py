#!/usr/bin/env python3
"""Regenerate MANIFEST.json from check/props/*.py and check/not_applicable.json."""
import importlib, json, os, sys
ROOT = os.path.dirname(os.path.dirname(os.path.abspath(__file__)))
sys.path.insert(0, os.path.join(ROOT, "check", "props"))
ids = [json.loads(l)["id"] for l in open(os.path.join(ROOT, "properties.jsonl"))]
na = json.load(open(os.path.join(ROOT, "check", "not_applicable.json")))
claimed = json.load(open(os.path.join(ROOT, "check", "claimed.json")))
checks, nal = [], []
for pid in ids:
    p = os.path.join(ROOT, "check", "props", pid + ".py")
    if os.path.exists(p) and pid not in na and pid in claimed:
        m = importlib.import_module(pid)
        mf = m.MANIFEST
        checks.append(dict(
            property_id=pid,
            quick_cmd="python3 check/check.py %s --tier quick" % pid,
            thorough_cmd="python3 check/check.py %s --tier thorough" % pid,
            evidence_file="/verif/evidence/%s.json" % pid,
            replay_cmd_template="python3 check/check.py %s --replay {path}" % pid,
            engine="coq+correspondence",
            level_claimed=dict(category=mf.get("category", "proof"), text=mf["text"], design_ref=mf.get("design_ref", "DESIGN.md §4")),
            level_note=mf["note"],
            technique=mf["technique"],
        ))
    else:
        nal.append(dict(property_id=pid, reason=na.get(pid, "no check built yet in this development (see DESIGN.md status table)")))
man = dict(
    version=1,
    setup_cmd="sh ./setup.sh",
    hooks=dict(
        guard="verif",
        enable="go build -tags verif,vi_<pkg>_<name>,... -overlay /verif/.build/overlay_<tree>.json ./cmd/verif_<id>  (files under /verif/harness/overlay are injected by the overlay; nothing is written under /repo; every add-only export file has its own vi_* tag and a panicking _stub.go sibling, see DESIGN.md 8.1f)",
        baseline_off_cmd="sh /verif/check/baseline.sh",
        source_commits=[],
        add_only=True,
    ),
    engines=[dict(name="coq+correspondence", path="check/check.py", serves_properties=[c["property_id"] for c in checks],
                  kind_free_text="Coq 8.16.1 theorems over a Gallina model; model extracted to OCaml and run against the Go implementation (overlay harness) on generated cases every run")],
    checks=checks,
    not_applicable=nal,
    notes="fix: commits in /repo are listed in KNOWN_FINDINGS.json as fixed entries. No hook commits: all instrumentation is injected by go build -overlay with build tag verif.",
)
json.dump(man, open(os.path.join(ROOT, "MANIFEST.json"), "w"), indent=1)
print("claimed:", [c["property_id"] for c in checks])
