#!/bin/sh
# apply_fix.sh <name> : apply /verif/proposed_fixes/<name>.patch to /repo as one "fix:" commit (coordinator only, serial)
N="$1"; D=/verif/proposed_fixes
[ -f "$D/$N.patch" ] && [ -f "$D/$N.msg" ] && [ -f "$D/$N.finding" ] || { echo "missing files for $N"; exit 2; }
cd /repo || exit 2
[ -z "$(git status --porcelain)" ] || { echo "/repo not clean"; exit 2; }
git apply --check "$D/$N.patch" || { echo "patch does not apply"; exit 2; }
git apply "$D/$N.patch"
GOFLAGS=-mod=mod GOPROXY=off go build ./... >/dev/null 2>&1
if ! /verif/check/baseline.sh; then echo "baseline broken by $N: reverting"; git checkout -- . ; git clean -fdq; exit 1; fi
git add -A && git commit -q -F "$D/$N.msg"
H=$(git log -1 --format=%h)
PID=$(echo "$N" | cut -d- -f1)
python3 - "$PID" "$N" "$H" "$D/$N.finding" <<'PY'
import json,sys
pid,name,h,ff=sys.argv[1:5]
what=open(ff).read().strip()
what=what.replace("property=%s "%pid,"",1)
p='/verif/KNOWN_FINDINGS.json'
d=json.load(open(p))
d['findings']=[f for f in d['findings'] if f['id']!=name]
d['findings'].append({"property":pid,"id":name,"status":"fixed","commit":h,"what":"fixed: property=%s %s %s"%(pid,h,what)})
json.dump(d,open(p,'w'),indent=1)
PY
mkdir -p "$D/applied" && mv "$D/$N.patch" "$D/$N.msg" "$D/$N.finding" "$D/applied/"
echo "applied $N as $H"
