#!/usr/bin/env python3
"""print the prompt for an independent 'harmless change' agent for property <id> with worktree <dir>:
changes to the anchored code under which the property still holds (the checks must stay silent on them)"""
import json, sys
pid, wt = sys.argv[1], sys.argv[2]
p = [json.loads(l) for l in open('/verif/properties.jsonl') if json.loads(l)['id'] == pid][0]
print(f"""You are testing a verification setup for FALSE ALARMS. You get ONE semantic property of a Go code base and your own scratch git worktree of it. Work ONLY inside your worktree {wt} (a git worktree of the repository New-JAMneration/JAM-Protocol, a Polkadot JAM node in Go). Do NOT read, list or use anything under /verif or /root/.vp (that is the setup under test; your work must be independent of it), and do not touch /repo.

THE PROPERTY ({pid}: {p['title']}):
{p['statement']}
Scope of inputs it quantifies over: {p['quantifier']['text']}
Code it is anchored in: {', '.join(p['anchors']['files'])}

YOUR TASK: produce THREE independent, realistic code changes (N1, N2, N3) to the code this property is anchored in (and its direct helpers), under each of which the property STILL HOLDS for every input it quantifies over, the code still compiles and the existing test suite still passes. They should be the kind of change a maintainer makes every week and that a good checker must NOT flag:
  N1 - a behaviour-preserving rewrite of the logic the property is about: restructure a loop or a switch, replace a data structure or an arithmetic idiom by an equivalent one, inline or extract a helper, reorder independent steps, add a fast path or a cache that is provably equivalent, change an internal representation. Make it substantial (tens of lines are fine), not cosmetic.
  N2 - a change of OBSERVABLE behaviour that lies OUTSIDE what the property states: e.g. the wording/type of an error message or log line, which of several errors is reported where the property does not say, behaviour on inputs the property explicitly excludes or does not quantify over, an internal counter, metrics, capacity/performance behaviour, an unrelated field. The property text decides: anything it fixes must stay exactly as it is.
  N3 - your choice of either kind, in a different place/mechanism from N1 and N2, preferably touching the most delicate boundary case of the property while keeping it true.
Read the property carefully and argue, for each change, why it still holds for EVERY input in scope (not just typical ones). If you are not sure a change preserves the property, do not submit it - pick another.

For each change deliver, under {wt}.out/N1, {wt}.out/N2, {wt}.out/N3 (create these directories; they are outside the worktree):
  patch.diff   - `git diff` of the change against the worktree's HEAD (only production code, no test files)
  meta.json    - {{"property": "{pid}", "kind": "rewrite|outside-scope", "what": "<one paragraph: what was changed>", "why_holds": "<the argument that the property still holds for every input in scope>", "ran": "<commands you ran and their outcomes>"}}

How to build and test here (offline): `cd {wt} && export GOFLAGS=-mod=mod GOPROXY=off` then `go build ./... ` / `go test -vet=off -count=1 ./PVM/... ./internal/utilities/... ./internal/types/... ` etc. Do not set GOTOOLCHAIN or GOSUMDB. IMPORTANT: the submodule pkg/Rust-VRF is empty and pkg/erasure_coding needs an absent Rust library, so packages importing them (internal/safrole, blockchain, stf, accumulation, extrinsic, statistics, recent_history, authorization, fuzz, work_package, merklization, ...) only compile with pure-Go stand-ins injected by an overlay: run `/tmp/mut_support/mkov.sh {wt}` once, then pass `-overlay {wt}.overlay.json` to go build / go test for those packages. "The existing test suite passes" means: `cd {wt} && go test -vet=off -count=1 ./... 2>&1 | grep -E "^(ok|FAIL|---)"` (with the overlay for the packages that need it) shows no NEW failure compared with the unmodified worktree (several packages fail to build without the overlay and a few tests fail even unmodified: TestSignExtend/InvalidInput*, TestSingleInitializer, TestSkip, TestExtrinsicGuaranteeSerialization, TestHeaderSerialization, TestSerializeWorkPackage, TestWorkReportSerialization, TestWorkResultSerialization - ignore those). Run the suite on the unmodified worktree first to get your baseline, and again with each change. Do not change exported function signatures or type definitions that other packages use (external callers must keep compiling), and do not rename exported identifiers.

Never use `git stash` (the stash is shared by all worktrees of the repository and other agents work in sibling worktrees): keep your changes as patch files and use `git apply` / `git apply -R` / `git checkout -- .`. Verify everything yourself: each change compiles, the suite shows no new failure. Keep the worktree clean at the end (git checkout -- . ; remove untracked files you added), leaving only the deliverables under {wt}.out/. Report a short summary of N1, N2, N3.""")
