#!/usr/bin/env python3
"""print the prompt for an independent mutation agent for property <id> with worktree <dir>"""
import json, sys
pid, wt = sys.argv[1], sys.argv[2]
p = [json.loads(l) for l in open('/verif/properties.jsonl') if json.loads(l)['id'] == pid][0]
print(f"""You are testing how well a verification setup detects bugs. You get ONE semantic property of a Go code base and your own scratch git worktree of it. Work ONLY inside your worktree {wt} (a git worktree of the repository New-JAMneration/JAM-Protocol, a Polkadot JAM node in Go). Do NOT read, list or use anything under /verif or /root/.vp (that is the setup under test; your work must be independent of it), and do not touch /repo.

THE PROPERTY ({pid}: {p['title']}):
{p['statement']}
Scope of inputs it quantifies over: {p['quantifier']['text']}
Code it is anchored in: {', '.join(p['anchors']['files'])}

YOUR TASK: produce TWO independent, realistic code changes (A and B; different mechanisms, different places where possible) to the repository, each of which BREAKS this property while the code still compiles and the existing test suite still passes. Each must look like a plausible programming mistake or well-meant refactoring/optimisation (off-by-one, wrong rounding, a missed or weakened check, an aliasing/copy omission, wrong order of operations, a cache not invalidated, int width...), NOT sabotage that ordinary use or the existing tests would expose at once. Prefer changes that need something specific to manifest: an unusual or boundary input, a multi-step sequence of operations, a particular interleaving, or two cooperating sites that each look fine alone. Keep each change small (a few lines).

For each change deliver, under {wt}.out/A and {wt}.out/B (create these directories; they are outside the worktree):
  patch.diff   - `git diff` of the change against the worktree's HEAD (only production code, no test files)
  demo_test.go (or a small main program) + RUN.md - a demonstration that FAILS with the change applied and PASSES without it, with the exact commands to run it both ways and the package directory the test file must be placed in
  meta.json    - {{"property": "{pid}", "what": "<one paragraph: what was changed and why it breaks the property>", "needs": "<what specific input/sequence/interleaving is needed for it to manifest>", "ran": "<commands you ran and their outcomes>"}}

How to build and test here (offline): `cd {wt} && export GOFLAGS=-mod=mod GOPROXY=off` then `go build ./... ` / `go test -vet=off -count=1 ./PVM/... ./internal/utilities/... ./internal/types/... ` etc. Do not set GOTOOLCHAIN or GOSUMDB. IMPORTANT: the submodule pkg/Rust-VRF is empty and pkg/erasure_coding needs an absent Rust library, so packages importing them (internal/safrole, blockchain, stf, accumulation, extrinsic, statistics, recent_history, authorization, fuzz, work_package, merklization, ...) only compile with pure-Go stand-ins injected by an overlay: run `/tmp/mut_support/mkov.sh {wt}` once, then pass `-overlay {wt}.overlay.json` to go build / go test for those packages. "The existing test suite passes" means: `cd {wt} && go test -vet=off -count=1 ./... 2>&1 | grep -E "^(ok|FAIL|---)"` shows no NEW failure compared with the unmodified worktree (several packages fail to build without the overlay and a few tests fail even unmodified: TestSignExtend/InvalidInput*, TestSingleInitializer, TestSkip, TestExtrinsicGuaranteeSerialization, TestHeaderSerialization, TestSerializeWorkPackage, TestWorkReportSerialization, TestWorkResultSerialization - ignore those). Run the suite on the unmodified worktree first to get your baseline, and again with each change.

Never use `git stash` (the stash is shared by all worktrees of the repository and other agents work in sibling worktrees): keep your changes as patch files and use `git apply` / `git apply -R` / `git checkout -- .`. Verify everything yourself: the change compiles, the suite shows no new failure, the demo fails with the change and passes without it. Keep the worktree clean at the end (git checkout -- . ; remove untracked files you added), leaving only the deliverables under {wt}.out/. Report a short summary of A and B.""")
