#!/usr/bin/env python3
"""add_finding.py <Cxx> <finding-id> "<what fails>"  — append an OPEN finding to KNOWN_FINDINGS.json (atomic)."""
import fcntl, json, os, sys
ROOT = os.path.dirname(os.path.dirname(os.path.abspath(__file__)))
pid, fid, what = sys.argv[1], sys.argv[2], sys.argv[3]
p = os.path.join(ROOT, "KNOWN_FINDINGS.json")
os.makedirs(os.path.join(ROOT, ".build"), exist_ok=True)
with open(os.path.join(ROOT, ".build", "findings.lock"), "w") as lk:
    fcntl.flock(lk, fcntl.LOCK_EX)
    d = json.load(open(p))
    d["findings"] = [f for f in d["findings"] if f["id"] != fid]
    d["findings"].append(dict(property=pid, id=fid, status="open", what=what))
    json.dump(d, open(p, "w"), indent=1)
print("added", fid)
