#!/bin/sh
# Runs the repository's pinned baseline (guard OFF: no overlay, no tags) and compares with BASELINE.json.
cd /repo || exit 2
export GOFLAGS=-mod=mod GOPROXY=off
OUT=$(mktemp)
go test -mod=mod -json -vet=off -count=1 -timeout 25m ./... > "$OUT" 2>/dev/null
python3 - "$OUT" <<'PY'
import json,sys
passed=set()
for l in open(sys.argv[1]):
    try: e=json.loads(l)
    except Exception: continue
    if e.get('Action')=='pass' and e.get('Test'):
        passed.add(e['Package']+'::'+e['Test'])
base=json.load(open('/root/.vp/BASELINE.json'))['stable_pass']
missing=[t for t in base if t not in passed]
print("baseline: %d/%d stable tests pass"%(len(base)-len(missing),len(base)))
for m in missing: print("MISSING",m)
sys.exit(1 if missing else 0)
PY
rc=$?
rm -f "$OUT"
exit $rc
