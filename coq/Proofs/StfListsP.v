(* Lemmas about the shared list vocabulary of C24 / C25 / C35. *)
From JamV Require Import Base.Bytes Proofs.BytesP Model.StfLists.
From Coq Require Import ZifyBool ZifyNat ZifyN Sorted Permutation.
Local Open Scope N_scope.

(* ---------- lastn ---------- *)
Lemma lastn_length {A} n (l : list A) : length (lastn n l) = Nat.min n (length l).
Proof. unfold lastn. rewrite skipn_length. lia. Qed.

Lemma lastn_le {A} n (l : list A) : (length (lastn n l) <= n)%nat.
Proof. rewrite lastn_length. lia. Qed.

Lemma lastn_all {A} n (l : list A) : (length l <= n)%nat -> lastn n l = l.
Proof. intros. unfold lastn. replace (length l - n)%nat with 0%nat by lia. reflexivity. Qed.

Lemma lastn_app_one_full {A} n (l : list A) x : length l = n -> (0 < n)%nat -> lastn n (l ++ [x]) = tl l ++ [x].
Proof.
  intros Hl Hn. unfold lastn. rewrite app_length. cbn [length].
  replace (length l + 1 - n)%nat with 1%nat by lia.
  destruct l; [cbn in Hl; lia|]. reflexivity.
Qed.

Lemma lastn_suffix {A} n (l : list A) : exists p, l = p ++ lastn n l /\ length p = (length l - n)%nat.
Proof.
  exists (firstn (length l - n) l). split.
  - unfold lastn. symmetry. apply firstn_skipn.
  - rewrite firstn_length. lia.
Qed.

(* ---------- remove_first ---------- *)
Lemma remove_first_length_le x l : (length (remove_first x l) <= length l)%nat.
Proof. induction l as [|y t IH]; cbn; [lia|]. destruct (x =? y); cbn; lia. Qed.

Lemma remove_first_absent x l : ~ In x l -> remove_first x l = l.
Proof.
  induction l as [|y t IH]; cbn; intros H; [reflexivity|].
  destruct (N.eqb_spec x y) as [->|Hne]; [exfalso; apply H; now left|].
  f_equal. apply IH. intros Hin. apply H. now right.
Qed.

Lemma remove_first_leftmost x l1 l2 : ~ In x l1 -> remove_first x (l1 ++ x :: l2) = l1 ++ l2.
Proof.
  induction l1 as [|y t IH]; cbn; intros H.
  - now rewrite N.eqb_refl.
  - destruct (N.eqb_spec x y) as [->|Hne]; [exfalso; apply H; now left|].
    f_equal. apply IH. intros Hin. apply H. now right.
Qed.

Lemma remove_first_present_length x l : In x l -> S (length (remove_first x l)) = length l.
Proof.
  induction l as [|y t IH]; cbn; intros H; [contradiction|].
  destruct (N.eqb_spec x y) as [->|Hne]; [reflexivity|].
  cbn. f_equal. apply IH. destruct H; [congruence|assumption].
Qed.

Lemma remove_first_incl x l y : In y (remove_first x l) -> In y l.
Proof.
  induction l as [|z t IH]; cbn; [tauto|].
  destruct (x =? z); cbn; intuition.
Qed.

(* ---------- upd_nth / zip_with ---------- *)
Lemma upd_nth_length {A} n (f : A -> A) l : length (upd_nth n f l) = length l.
Proof. revert n; induction l as [|x t IH]; intros [|n]; cbn; auto. Qed.

Lemma upd_nth_nth_error {A} n (f : A -> A) l c :
  nth_error (upd_nth n f l) c = if Nat.eqb n c then option_map f (nth_error l c) else nth_error l c.
Proof.
  revert n c; induction l as [|x t IH]; intros n c.
  - destruct n, c; cbn; try reflexivity; destruct (Nat.eqb _ _); reflexivity.
  - destruct n as [|n], c as [|c]; cbn; try reflexivity. apply IH.
Qed.

Lemma zip_with_length {A B C} (f : A -> B -> C) l m : length (zip_with f l m) = Nat.min (length l) (length m).
Proof. revert m; induction l as [|x t IH]; intros [|y m]; cbn; auto. Qed.

Lemma zip_with_nth_error {A B C} (f : A -> B -> C) l m c :
  nth_error (zip_with f l m) c =
  match nth_error l c, nth_error m c with Some a, Some b => Some (f a b) | _, _ => None end.
Proof.
  revert m c; induction l as [|x t IH]; intros [|y m] [|c]; cbn; try reflexivity.
  - destruct (nth_error t c); reflexivity.
  - apply IH.
Qed.

Lemma Forall_zip_with {A B C} (P : C -> Prop) (f : A -> B -> C) l m :
  (forall a b, In a l -> In b m -> P (f a b)) -> Forall P (zip_with f l m).
Proof.
  revert m; induction l as [|x t IH]; intros [|y m] H; cbn; constructor.
  - apply H; now left.
  - apply IH. intros a b Ha Hb. apply H; now right.
Qed.

(* ---------- the byte order is a strict total order ---------- *)
Lemma bytes_ltb_irrefl a : bytes_ltb a a = false.
Proof. induction a as [|x t IH]; cbn; [reflexivity|]. rewrite N.ltb_irrefl, N.eqb_refl, IH. reflexivity. Qed.

Lemma bytes_ltb_trans a b c : bytes_ltb a b = true -> bytes_ltb b c = true -> bytes_ltb a c = true.
Proof.
  revert b c; induction a as [|x a IH]; intros [|y b] [|z c]; cbn; try congruence.
  intros H1 H2.
  apply Bool.orb_true_iff in H1. apply Bool.orb_true_iff in H2. apply Bool.orb_true_iff.
  destruct H1 as [H1|H1], H2 as [H2|H2].
  - left. lia.
  - apply Bool.andb_true_iff in H2 as [H2 _]. left. lia.
  - apply Bool.andb_true_iff in H1 as [H1 _]. left. lia.
  - apply Bool.andb_true_iff in H1 as [H1 H1']. apply Bool.andb_true_iff in H2 as [H2 H2'].
    right. apply Bool.andb_true_iff. split; [lia|]. eapply IH; eassumption.
Qed.

Lemma bytes_ltb_total a b : bytes_ltb a b = false -> bytes_ltb b a = false -> a = b.
Proof.
  revert b; induction a as [|x a IH]; intros [|y b]; cbn; try congruence.
  intros H1 H2.
  apply Bool.orb_false_iff in H1 as [H1 H1']. apply Bool.orb_false_iff in H2 as [H2 H2'].
  assert (x = y) by lia. subst y. rewrite N.eqb_refl in *. cbn in *. f_equal. now apply IH.
Qed.

Lemma bytes_ltb_asym a b : bytes_ltb a b = true -> bytes_ltb b a = false.
Proof.
  intros H. destruct (bytes_ltb b a) eqn:E; [|reflexivity].
  pose proof (bytes_ltb_trans _ _ _ H E) as C. now rewrite bytes_ltb_irrefl in C.
Qed.

Lemma bytes_ltb_neq a b : bytes_ltb a b = true -> a <> b.
Proof. intros H ->. now rewrite bytes_ltb_irrefl in H. Qed.

Lemma mem_bytes_In x l : mem_bytes x l = true <-> In x l.
Proof.
  unfold mem_bytes. rewrite existsb_exists. split.
  - intros (y & Hy & E). apply bytes_eqb_eq in E. now subst.
  - intros H. exists x. split; [assumption|]. now apply bytes_eqb_eq.
Qed.

Lemma mem_bytes_false x l : mem_bytes x l = false <-> ~ In x l.
Proof. rewrite <- mem_bytes_In. destruct (mem_bytes x l); split; congruence. Qed.

(* ---------- strict sortedness ---------- *)
Definition blt (a b : bytes) : Prop := bytes_ltb a b = true.
Definition ssorted (l : list bytes) : Prop := StronglySorted blt l.

Lemma strictly_sortedb_iff l : strictly_sortedb l = true <-> ssorted l.
Proof.
  unfold ssorted. induction l as [|x t IH]; [split; [constructor|reflexivity]|].
  cbn [strictly_sortedb]. destruct t as [|y t'].
  - split; [intros _; repeat constructor|reflexivity].
  - rewrite Bool.andb_true_iff, IH. split.
    + intros [Hxy Hs]. constructor; [assumption|].
      inversion Hs as [|? ? Hs' Hall]; subst. constructor; [exact Hxy|].
      eapply Forall_impl; [|exact Hall]. intros z Hz. eapply bytes_ltb_trans; eassumption.
    + intros Hs. inversion Hs as [|? ? Hs' Hall]; subst. split; [|assumption].
      now inversion Hall.
Qed.

Lemma ssorted_NoDup l : ssorted l -> NoDup l.
Proof.
  induction 1 as [|x t Hs IH Hall]; constructor; [|assumption].
  intros Hin. rewrite Forall_forall in Hall. specialize (Hall _ Hin).
  unfold blt in Hall. now rewrite bytes_ltb_irrefl in Hall.
Qed.

(* ---------- insertion sort ---------- *)
Section SortBy.
  Context {A : Type} (key : A -> bytes).

  Lemma insert_by_perm x l : Permutation (x :: l) (insert_by key x l).
  Proof.
    induction l as [|y t IH]; cbn; [reflexivity|].
    destruct (bytes_ltb (key y) (key x)); [|reflexivity].
    rewrite perm_swap. now constructor.
  Qed.

  Lemma sort_by_perm l : Permutation l (sort_by key l).
  Proof.
    induction l as [|x t IH]; cbn; [constructor|].
    etransitivity; [|apply insert_by_perm]. now constructor.
  Qed.

  Lemma sort_by_length l : length (sort_by key l) = length l.
  Proof. symmetry. apply Permutation_length, sort_by_perm. Qed.

  Lemma sort_by_In x l : In x (sort_by key l) <-> In x l.
  Proof. split; apply Permutation_in; [symmetry|]; apply sort_by_perm. Qed.

  (* weak sortedness: never a strictly decreasing adjacent pair, at any distance *)
  Definition kle (a b : A) : Prop := bytes_ltb (key b) (key a) = false.

  Lemma insert_by_sorted x l : StronglySorted kle l -> StronglySorted kle (insert_by key x l).
  Proof.
    induction 1 as [|y t Hs IH Hall]; cbn; [repeat constructor|].
    destruct (bytes_ltb (key y) (key x)) eqn:E.
    - constructor; [assumption|].
      rewrite Forall_forall in *. intros z Hz.
      apply (Permutation_in _ (Permutation_sym (insert_by_perm x t))) in Hz.
      destruct Hz as [<-|Hz]; [unfold kle; now apply bytes_ltb_asym|now apply Hall].
    - constructor; [now constructor|].
      constructor; [exact E|].
      rewrite Forall_forall in *. intros z Hz. specialize (Hall _ Hz). unfold kle in *.
      destruct (bytes_ltb (key z) (key x)) eqn:E2; [|reflexivity].
      (* key z < key x and not (key y < key x) and not (key z < key y): then key y <= key z < key x *)
      destruct (bytes_ltb (key y) (key z)) eqn:E3.
      + rewrite (bytes_ltb_trans _ _ _ E3 E2) in E. discriminate.
      + pose proof (bytes_ltb_total _ _ E3 Hall) as Heq. rewrite Heq in E. congruence.
  Qed.

  Lemma sort_by_sorted l : StronglySorted kle (sort_by key l).
  Proof. induction l; cbn; [constructor|now apply insert_by_sorted]. Qed.

  (* sorting a list that is already sorted is the identity (stability is not needed for this) *)
  Lemma insert_by_head x l : Forall (kle x) l -> insert_by key x l = x :: l.
  Proof.
    destruct l as [|y t]; cbn; [reflexivity|]. intros H. inversion H; subst.
    unfold kle in *. now rewrite H2.
  Qed.

  Lemma sort_by_id l : StronglySorted kle l -> sort_by key l = l.
  Proof.
    induction 1 as [|x t Hs IH Hall]; [reflexivity|].
    unfold sort_by in *. cbn [fold_right]. rewrite IH. now apply insert_by_head.
  Qed.
End SortBy.

(* strictly sorted result when the keys are pairwise distinct *)
Lemma sort_bytes_ssorted (l : list bytes) : NoDup l -> ssorted (sort_by (fun x => x) l).
Proof.
  intros Hnd.
  assert (Hnd' : NoDup (sort_by (fun x => x) l)).
  { eapply Permutation_NoDup; [apply sort_by_perm|assumption]. }
  pose proof (sort_by_sorted (fun x : bytes => x) l) as Hs.
  induction Hs as [|x t Hs IH Hall]; [constructor|].
  inversion Hnd' as [|? ? Hnin Hnd'']; subst.
  constructor; [now apply IH|].
  rewrite Forall_forall in *. intros z Hz. specialize (Hall _ Hz). unfold kle in Hall. unfold blt.
  destruct (bytes_ltb x z) eqn:E; [reflexivity|].
  exfalso. apply Hnin. rewrite (bytes_ltb_total _ _ E Hall). exact Hz.
Qed.

Lemma ssorted_kle (l : list bytes) : ssorted l -> StronglySorted (kle (fun x => x)) l.
Proof.
  induction 1 as [|x t Hs IH Hall]; constructor; [assumption|].
  eapply Forall_impl; [|exact Hall]. intros z Hz. unfold kle. now apply bytes_ltb_asym.
Qed.
