(* Lemmas about Model/PvmMem.v: access checks, loads, stores (all-or-nothing), fault address, sbrk. *)
From JamV Require Import Model.PvmMem.
From Coq Require Import ZifyBool ZifyNat ZifyN.
Local Open Scope Z_scope.
Ltac Zify.zify_post_hook ::= Z.div_mod_to_equations.

(* ---- association lists ---- *)
Lemma aget_aset_same : forall {A} k (v : A) l, aget k (aset k v l) = Some v.
Proof.
  intros A k v l; induction l as [|[k' v'] t IH]; cbn.
  - rewrite Z.eqb_refl; reflexivity.
  - destruct (k' =? k) eqn:E; cbn; [rewrite Z.eqb_refl; reflexivity|rewrite E; exact IH].
Qed.

Lemma aget_aset_other : forall {A} k k' (v : A) l, k' <> k -> aget k' (aset k v l) = aget k' l.
Proof.
  intros A k k' v l H; induction l as [|[k0 v0] t IH]; cbn.
  - destruct (k =? k') eqn:E; [lia|reflexivity].
  - destruct (k0 =? k) eqn:E; cbn.
    + assert (k0 = k) by lia; subst. destruct (k =? k') eqn:E2; [lia|reflexivity].
    + destruct (k0 =? k'); [reflexivity|exact IH].
Qed.

Definition mapped (m : memory) (i : Z) : bool :=
  match get_page m i with Some _ => true | None => false end.

(* ---- one byte ---- *)
Lemma split_addr : forall a x, x / PAGE = a / PAGE -> x mod PAGE = a mod PAGE -> x = a.
Proof. unfold PAGE; intros; lia. Qed.

Lemma wr_byte_hp : forall m a v, m_hp (wr_byte m a v) = m_hp m /\ m_hl (wr_byte m a v) = m_hl m.
Proof. intros; unfold wr_byte; destruct (get_page m (a / PAGE)); cbn; auto. Qed.

Lemma wr_byte_get_page : forall m a v i,
  get_page (wr_byte m a v) i =
  match get_page m (a / PAGE) with
  | Some pg => if i =? a / PAGE
               then Some {| p_acc := p_acc pg; p_dat := aset (a mod PAGE) v (p_dat pg) |}
               else get_page m i
  | None => get_page m i
  end.
Proof.
  intros. unfold wr_byte. destruct (get_page m (a / PAGE)) as [pg|] eqn:E; [|reflexivity].
  unfold get_page; cbn [m_pages].
  destruct (i =? a / PAGE) eqn:Ei.
  - assert (i = a / PAGE) by lia; subst. apply aget_aset_same.
  - apply aget_aset_other. lia.
Qed.

Lemma wr_byte_acc : forall m a v x, acc_at (wr_byte m a v) x = acc_at m x.
Proof.
  intros. unfold acc_at. rewrite wr_byte_get_page.
  destruct (get_page m (a / PAGE)) as [pg|] eqn:E; [|reflexivity].
  destruct (x / PAGE =? a / PAGE) eqn:Ex; [|reflexivity].
  assert (x / PAGE = a / PAGE) as -> by lia. rewrite E. reflexivity.
Qed.

Lemma wr_byte_mapped : forall m a v i, mapped (wr_byte m a v) i = mapped m i.
Proof.
  intros. unfold mapped. rewrite wr_byte_get_page.
  destruct (get_page m (a / PAGE)) as [pg|] eqn:E; [|reflexivity].
  destruct (i =? a / PAGE) eqn:Ex; [|reflexivity].
  assert (i = a / PAGE) as -> by lia. rewrite E. reflexivity.
Qed.

Lemma wr_byte_rd_other : forall m a v x, x <> a -> rd_byte (wr_byte m a v) x = rd_byte m x.
Proof.
  intros m a v x H. unfold rd_byte. rewrite wr_byte_get_page.
  destruct (get_page m (a / PAGE)) as [pg|] eqn:E; [|reflexivity].
  destruct (x / PAGE =? a / PAGE) eqn:Ex; [|reflexivity].
  assert (Hp : x / PAGE = a / PAGE) by lia. rewrite Hp, E.
  unfold byte_of; cbn [p_dat]. rewrite aget_aset_other; [reflexivity|].
  intro Hm. apply H. apply split_addr; assumption.
Qed.

Lemma wr_byte_rd_same : forall m a v, mapped m (a / PAGE) = true -> rd_byte (wr_byte m a v) a = v.
Proof.
  intros m a v H. unfold rd_byte, mapped in *. rewrite wr_byte_get_page.
  destruct (get_page m (a / PAGE)) as [pg|] eqn:E; [|discriminate].
  rewrite Z.eqb_refl. unfold byte_of; cbn [p_dat]. rewrite aget_aset_same. reflexivity.
Qed.

Lemma writable_mapped : forall m a, writable m a = true -> mapped m (a / PAGE) = true.
Proof. intros m a; unfold writable, acc_at, mapped. destruct (get_page m (a / PAGE)); [reflexivity|discriminate]. Qed.

Lemma readable_mapped : forall m a, readable m a = true -> mapped m (a / PAGE) = true.
Proof. intros m a; unfold readable, acc_at, mapped. destruct (get_page m (a / PAGE)); [reflexivity|discriminate]. Qed.

(* ---- many bytes ---- *)
Lemma wr_bytes_hp : forall xs m v, m_hp (wr_bytes m xs v) = m_hp m /\ m_hl (wr_bytes m xs v) = m_hl m.
Proof.
  induction xs as [|x t IH]; intros; cbn [wr_bytes]; [auto|].
  destruct (IH (wr_byte m x (v mod 256)) (v / 256)) as [A B].
  destruct (wr_byte_hp m x (v mod 256)) as [C D]. split; congruence.
Qed.

Lemma wr_bytes_acc : forall xs m v x, acc_at (wr_bytes m xs v) x = acc_at m x.
Proof.
  induction xs as [|y t IH]; intros; cbn [wr_bytes]; [reflexivity|].
  rewrite IH. apply wr_byte_acc.
Qed.

Lemma wr_bytes_mapped : forall xs m v i, mapped (wr_bytes m xs v) i = mapped m i.
Proof.
  induction xs as [|y t IH]; intros; cbn [wr_bytes]; [reflexivity|].
  rewrite IH. apply wr_byte_mapped.
Qed.

Lemma wr_bytes_rd_other : forall xs m v x, ~ In x xs -> rd_byte (wr_bytes m xs v) x = rd_byte m x.
Proof.
  induction xs as [|y t IH]; intros m v x H; cbn [wr_bytes]; [reflexivity|].
  rewrite IH by (intro; apply H; right; assumption).
  apply wr_byte_rd_other. intro; apply H; left; auto.
Qed.

Lemma wr_bytes_rd_nth : forall xs m v i, NoDup xs -> (i < length xs)%nat ->
  (forall x, In x xs -> mapped m (x / PAGE) = true) ->
  rd_byte (wr_bytes m xs v) (nth i xs 0) = (v / 256 ^ Z.of_nat i) mod 256.
Proof.
  induction xs as [|y t IH]; intros m v i Hnd Hi Hm; cbn [wr_bytes]; [cbn in Hi; lia|].
  inversion Hnd as [|? ? Hy Ht]; subst.
  destruct i as [|i]; cbn [nth].
  - rewrite wr_bytes_rd_other by assumption.
    rewrite wr_byte_rd_same by (apply Hm; left; reflexivity).
    change (256 ^ Z.of_nat 0) with 1. rewrite Z.div_1_r. reflexivity.
  - rewrite IH; [|assumption|cbn in Hi; lia|].
    + replace (Z.of_nat (S i)) with (1 + Z.of_nat i) by lia.
      rewrite Z.pow_add_r by lia. change (256 ^ 1) with 256.
      rewrite Z.div_div by lia. reflexivity.
    + intros x Hx. rewrite wr_byte_mapped. apply Hm; right; assumption.
Qed.

(* ---- the touched addresses ---- *)
Lemma addrs_length : forall a n, length (addrs a n) = n.
Proof. intros; unfold addrs; rewrite map_length, seq_length; reflexivity. Qed.

Lemma nth_map_lt : forall {A B} (f : A -> B) l i d d', (i < length l)%nat -> nth i (map f l) d = f (nth i l d').
Proof.
  intros A B f l; induction l as [|x t IH]; intros i d d' H; cbn in *; [lia|].
  destruct i; [reflexivity|]. apply IH; lia.
Qed.

Lemma addrs_nth : forall a n i, (i < n)%nat -> nth i (addrs a n) 0 = (a + Z.of_nat i) mod ADDR.
Proof.
  intros a n i H. unfold addrs.
  rewrite (nth_map_lt _ _ i 0 0%nat) by (rewrite seq_length; lia).
  rewrite seq_nth by lia. reflexivity.
Qed.

Lemma addrs_in : forall a n x, In x (addrs a n) <-> exists i, (i < n)%nat /\ x = (a + Z.of_nat i) mod ADDR.
Proof.
  intros; unfold addrs; rewrite in_map_iff; split.
  - intros [i [E H]]. rewrite in_seq in H. exists i; split; [lia|auto].
  - intros [i [H E]]. exists i; split; [auto|rewrite in_seq; lia].
Qed.

Lemma addrs_range : forall a n x, In x (addrs a n) -> 0 <= x < ADDR.
Proof. intros a n x H. apply addrs_in in H. destruct H as [i [_ ->]]. unfold ADDR; lia. Qed.

Lemma NoDup_map_inj_in : forall {A B} (f : A -> B) l,
  (forall x y, In x l -> In y l -> f x = f y -> x = y) -> NoDup l -> NoDup (map f l).
Proof.
  intros A B f l; induction l as [|x t IH]; intros Hinj Hnd; cbn; [constructor|].
  inversion Hnd as [|? ? Hx Ht]; subst. constructor.
  - intro I. apply in_map_iff in I. destruct I as [y [E Iy]].
    assert (y = x) by (apply Hinj; [right; assumption|left; reflexivity|assumption]). subst. contradiction.
  - apply IH; [|assumption]. intros; apply Hinj; try (right; assumption); assumption.
Qed.

Lemma addrs_nodup : forall a n, Z.of_nat n <= ADDR -> NoDup (addrs a n).
Proof.
  intros a n Hn. unfold addrs. apply NoDup_map_inj_in; [|apply seq_NoDup].
  intros i j Hi Hj E. rewrite in_seq in Hi, Hj. unfold ADDR in *. lia.
Qed.

(* with no touched address below 2^16 (and at most 2^16 of them) the access does not wrap *)
Lemma addrs_no_wrap : forall a n, 0 <= a < ADDR -> Z.of_nat n <= LOW ->
  (forall x, In x (addrs a n) -> LOW <= x) ->
  forall i, (i < n)%nat -> (a + Z.of_nat i) mod ADDR = a + Z.of_nat i.
Proof.
  intros a n Ha Hn Hlow i Hi.
  destruct (Z_lt_ge_dec (a + Z.of_nat i) ADDR) as [L|G]; [apply Z.mod_small; lia|].
  exfalso.
  (* the first wrapping index lands on address 0 *)
  assert (Hk : (Z.to_nat (ADDR - a) < n)%nat) by (unfold ADDR, LOW in *; lia).
  specialize (Hlow ((a + Z.of_nat (Z.to_nat (ADDR - a))) mod ADDR)).
  assert (In ((a + Z.of_nat (Z.to_nat (ADDR - a))) mod ADDR) (addrs a n))
    by (apply addrs_in; eexists; split; [exact Hk|reflexivity]).
  specialize (Hlow H). rewrite Z2Nat.id in Hlow by lia.
  replace (a + (ADDR - a)) with ADDR in Hlow by lia. rewrite Z.mod_same in Hlow by (unfold ADDR; lia).
  unfold LOW in Hlow; lia.
Qed.

(* ---- check ---- *)
Lemma list_min_in : forall l d, In (list_min d l) (d :: l).
Proof.
  induction l as [|x t IH]; intros d; cbn [list_min]; [left; reflexivity|].
  destruct (IH (Z.min d x)) as [E|I].
  - destruct (Z.min_spec d x) as [[_ M]|[_ M]]; rewrite M in *; [left|right; left]; auto.
  - right; right; assumption.
Qed.

Lemma list_min_le : forall l d x, In x (d :: l) -> list_min d l <= x.
Proof.
  induction l as [|y t IH]; intros d x H; cbn [list_min].
  - destruct H as [H|[]]; lia.
  - pose proof (IH (Z.min d y) (Z.min d y) (or_introl eq_refl)).
    destruct H as [H1|[H1|H1]]; [lia|lia|].
    apply IH; right; assumption.
Qed.

Lemma check_ok : forall ok m a n,
  check ok m a n = MOk tt <->
  (forall x, In x (addrs a n) -> LOW <= x /\ ok m x = true).
Proof.
  intros ok m a n. unfold check.
  destruct (existsb (fun x => x <? LOW) (addrs a n)) eqn:E.
  - split; [discriminate|]. intros H. apply existsb_exists in E. destruct E as [x [I L]].
    destruct (H x I). lia.
  - destruct (filter (fun x => negb (ok m x)) (addrs a n)) as [|y t] eqn:F.
    + split; [|reflexivity]. intros _ x I. split.
      * destruct (Z_lt_ge_dec x LOW) as [L|G]; [|lia].
        assert (existsb (fun x => x <? LOW) (addrs a n) = true)
          by (apply existsb_exists; exists x; split; [assumption|lia]). congruence.
      * destruct (ok m x) eqn:O; [reflexivity|].
        assert (In x (filter (fun x => negb (ok m x)) (addrs a n)))
          by (apply filter_In; split; [assumption|rewrite O; reflexivity]).
        rewrite F in H. destruct H.
    + split; [discriminate|]. intros H.
      assert (In y (filter (fun x => negb (ok m x)) (addrs a n))) by (rewrite F; left; reflexivity).
      apply filter_In in H0. destruct H0 as [I O]. destruct (H y I) as [_ O']. rewrite O' in O. discriminate.
Qed.

Lemma check_panic : forall ok m a n,
  check ok m a n = MPanic <-> exists x, In x (addrs a n) /\ x < LOW.
Proof.
  intros ok m a n. unfold check.
  destruct (existsb (fun x => x <? LOW) (addrs a n)) eqn:E.
  - split; [|reflexivity]. intros _. apply existsb_exists in E. destruct E as [x [I L]]. exists x; split; [assumption|lia].
  - split.
    + destruct (filter (fun x => negb (ok m x)) (addrs a n)); discriminate.
    + intros [x [I L]].
      assert (existsb (fun x => x <? LOW) (addrs a n) = true)
        by (apply existsb_exists; exists x; split; [assumption|lia]). congruence.
Qed.

Lemma check_fault : forall ok m a n f,
  check ok m a n = MFault f ->
  (forall x, In x (addrs a n) -> LOW <= x) /\
  exists x, In x (addrs a n) /\ ok m x = false /\ f = PAGE * (x / PAGE) /\
            (forall y, In y (addrs a n) -> ok m y = false -> x <= y).
Proof.
  intros ok m a n f. unfold check.
  destruct (existsb (fun x => x <? LOW) (addrs a n)) eqn:E; [discriminate|].
  destruct (filter (fun x => negb (ok m x)) (addrs a n)) as [|y t] eqn:F; [discriminate|].
  intros H; inversion H; subst; clear H. split.
  - intros x I. destruct (Z_lt_ge_dec x LOW) as [L|G]; [|lia].
    assert (existsb (fun x => x <? LOW) (addrs a n) = true)
      by (apply existsb_exists; exists x; split; [assumption|lia]). congruence.
  - exists (list_min y t). pose proof (list_min_in t y) as I. rewrite <- F in I.
    apply filter_In in I. destruct I as [I O]. repeat split; try assumption.
    + destruct (ok m (list_min y t)); [discriminate|reflexivity].
    + intros z Iz Oz. apply list_min_le. rewrite <- F. apply filter_In. split; [assumption|rewrite Oz; reflexivity].
Qed.

(* the literal Gray Paper rule coincides with [check] when nothing below 2^16 is accessible *)
Lemma check_gp_agrees : forall ok m a n,
  (forall x, 0 <= x < LOW -> ok m x = false) -> check_gp ok m a n = check ok m a n.
Proof.
  intros ok m a n Hlow. unfold check_gp.
  destruct (check ok m a n) as [[]| |f] eqn:C.
  - rewrite check_ok in C.
    destruct (filter (fun x => negb (ok m x)) (addrs a n)) as [|y t] eqn:F; [reflexivity|].
    assert (I : In y (filter (fun x => negb (ok m x)) (addrs a n))) by (rewrite F; left; reflexivity).
    apply filter_In in I. destruct I as [I O]. destruct (C y I) as [_ O']. rewrite O' in O; discriminate.
  - rewrite check_panic in C. destruct C as [x [I L]].
    pose proof (addrs_range a n x I) as R.
    assert (O : ok m x = false) by (apply Hlow; lia).
    destruct (filter (fun x => negb (ok m x)) (addrs a n)) as [|y t] eqn:F.
    + assert (In x (filter (fun x => negb (ok m x)) (addrs a n))) by (apply filter_In; rewrite O; auto).
      rewrite F in H; destruct H.
    + assert (list_min y t <= x).
      { apply list_min_le. rewrite <- F. apply filter_In; rewrite O; auto. }
      destruct (list_min y t <? LOW) eqn:E; [reflexivity|lia].
  - pose proof C as C'. apply check_fault in C'. destruct C' as [Hl [x [I [O [-> Hm]]]]].
    unfold check in C.
    destruct (existsb (fun x => x <? LOW) (addrs a n)); [discriminate|].
    destruct (filter (fun x => negb (ok m x)) (addrs a n)) as [|y t] eqn:F; [discriminate|].
    pose proof (list_min_in t y) as I2. rewrite <- F in I2. apply filter_In in I2. destruct I2 as [I2 _].
    specialize (Hl _ I2). destruct (list_min y t <? LOW) eqn:E2; [lia|exact C].
Qed.

(* ---- loads and stores ---- *)
Lemma load_only_readable : forall m a n v, load m a n = MOk v ->
  (forall x, In x (addrs a n) -> LOW <= x /\ readable m x = true) /\
  v = le_val (map (rd_byte m) (addrs a n)).
Proof.
  intros m a n v H. unfold load in H.
  destruct (check readable m a n) as [[]| |f] eqn:C; try discriminate.
  inversion H; subst. split; [|reflexivity]. apply check_ok; assumption.
Qed.

Lemma store_only_writable : forall m a n v m', store m a n v = MOk m' ->
  (forall x, In x (addrs a n) -> LOW <= x /\ writable m x = true) /\ m' = wr_bytes m (addrs a n) v.
Proof.
  intros m a n v m' H. unfold store in H.
  destruct (check writable m a n) as [[]| |f] eqn:C; try discriminate.
  inversion H; subst. split; [|reflexivity]. apply check_ok; assumption.
Qed.

Lemma low_address_panics : forall m a n v,
  (exists x, In x (addrs a n) /\ x < LOW) -> load m a n = MPanic /\ store m a n v = MPanic.
Proof.
  intros m a n v H. unfold load, store.
  rewrite (proj2 (check_panic readable m a n) H), (proj2 (check_panic writable m a n) H). auto.
Qed.

(* a store succeeds exactly when every touched byte is writable (and none is below 2^16):
   one unwritable byte, on either page, and nothing at all is written *)
Lemma store_all_or_nothing : forall m a n v,
  (exists m', store m a n v = MOk m') <->
  (forall x, In x (addrs a n) -> LOW <= x /\ writable m x = true).
Proof.
  intros m a n v. unfold store. split.
  - intros [m' H]. destruct (check writable m a n) as [[]| |f] eqn:C; try discriminate.
    apply check_ok; assumption.
  - intros H. apply check_ok in H. rewrite H. eexists; reflexivity.
Qed.

Lemma store_effect : forall m a n v m', Z.of_nat n <= ADDR -> store m a n v = MOk m' ->
  (forall i, (i < n)%nat -> rd_byte m' ((a + Z.of_nat i) mod ADDR) = (v / 256 ^ Z.of_nat i) mod 256) /\
  (forall x, ~ In x (addrs a n) -> rd_byte m' x = rd_byte m x) /\
  (forall x, acc_at m' x = acc_at m x) /\ (forall i, mapped m' i = mapped m i) /\
  m_hp m' = m_hp m /\ m_hl m' = m_hl m.
Proof.
  intros m a n v m' Hn H. apply store_only_writable in H. destruct H as [W ->].
  repeat split.
  - intros i Hi. rewrite <- (addrs_nth a n i Hi).
    apply wr_bytes_rd_nth; [apply addrs_nodup; assumption|rewrite addrs_length; assumption|].
    intros x I. apply writable_mapped. apply W; assumption.
  - intros; apply wr_bytes_rd_other; assumption.
  - intros; apply wr_bytes_acc.
  - intros; apply wr_bytes_mapped.
  - apply wr_bytes_hp.
  - apply wr_bytes_hp.
Qed.

(* page-fault address: the start of a page holding a touched, inaccessible byte; hence between
   the start of the page of the first touched byte and the last touched byte *)
Lemma fault_bounds_check : forall ok m a n f, 0 <= a < ADDR -> Z.of_nat n <= LOW ->
  check ok m a n = MFault f -> PAGE * (a / PAGE) <= f <= a + Z.of_nat n - 1.
Proof.
  intros ok m a n f Ha Hn C. apply check_fault in C. destruct C as [Hl [x [I [_ [-> _]]]]].
  apply addrs_in in I. destruct I as [i [Hi ->]].
  rewrite (addrs_no_wrap a n Ha Hn Hl i Hi). unfold PAGE in *. lia.
Qed.

Lemma load_fault_bounds : forall m a n f, 0 <= a < ADDR -> Z.of_nat n <= LOW ->
  load m a n = MFault f -> PAGE * (a / PAGE) <= f <= a + Z.of_nat n - 1.
Proof.
  intros m a n f Ha Hn H. unfold load in H.
  destruct (check readable m a n) as [[]| |f'] eqn:C; try discriminate. inversion H; subst.
  eapply fault_bounds_check; eassumption.
Qed.

Lemma store_fault_bounds : forall m a n v f, 0 <= a < ADDR -> Z.of_nat n <= LOW ->
  store m a n v = MFault f -> PAGE * (a / PAGE) <= f <= a + Z.of_nat n - 1.
Proof.
  intros m a n v f Ha Hn H. unfold store in H.
  destruct (check writable m a n) as [[]| |f'] eqn:C; try discriminate. inversion H; subst.
  eapply fault_bounds_check; eassumption.
Qed.

(* ---- sbrk ---- *)
Lemma map_fresh_get : forall n ps i k,
  aget k (map_fresh ps i n) =
  match aget k ps with
  | Some pg => Some pg
  | None => if (i <=? k) && (k <? i + Z.of_nat n) then Some zero_page else None
  end.
Proof.
  induction n as [|n IH]; intros ps i k; cbn [map_fresh].
  - destruct (aget k ps); [reflexivity|].
    destruct (i <=? k) eqn:E, (k <? i + Z.of_nat 0) eqn:E2; cbn [andb]; try reflexivity; lia.
  - rewrite IH. destruct (aget i ps) as [pi|] eqn:Ei.
    + destruct (aget k ps) as [pk|] eqn:Ek; [reflexivity|].
      destruct (Z.eq_dec k i) as [->|Hne]; [congruence|].
      destruct (i <=? k) eqn:A, (i + 1 <=? k) eqn:B, (k <? i + 1 + Z.of_nat n) eqn:C,
               (k <? i + Z.of_nat (S n)) eqn:D; cbn [andb]; try reflexivity; lia.
    + destruct (Z.eq_dec k i) as [->|Hne].
      * rewrite aget_aset_same, Ei.
        destruct (i <=? i) eqn:A, (i <? i + Z.of_nat (S n)) eqn:D; cbn [andb]; try reflexivity; lia.
      * rewrite aget_aset_other by assumption.
        destruct (aget k ps); [reflexivity|].
        destruct (i <=? k) eqn:A, (i + 1 <=? k) eqn:B, (k <? i + 1 + Z.of_nat n) eqn:C,
                 (k <? i + Z.of_nat (S n)) eqn:D; cbn [andb]; try reflexivity; lia.
Qed.

Lemma sbrk_heap : forall m req v m', sbrk m req = (v, m') -> 0 <= req ->
  m_hl m' = m_hl m /\ m_hp m <= m_hp m' /\ (m_hp m <= m_hl m -> m_hp m' <= m_hl m') /\
  (v = 0 \/ v = m_hp m').
Proof.
  intros m req v m' H Hr. unfold sbrk in H.
  destruct (req =? 0) eqn:E0.
  - inversion H; subst. repeat split; try lia; auto.
  - destruct ((18446744073709551616 <=? m_hp m + req) || (m_hl m <? m_hp m + req)) eqn:E1.
    + inversion H; subst. repeat split; try lia; auto.
    + inversion H; subst; cbn [m_hp m_hl]. repeat split; try lia; auto.
Qed.

(* pages mapped before sbrk are untouched; pages it maps are read-write and all zero *)
Lemma sbrk_pages : forall m req v m' i, sbrk m req = (v, m') ->
  match get_page m i with
  | Some pg => get_page m' i = Some pg
  | None => get_page m' i = None \/ get_page m' i = Some zero_page
  end.
Proof.
  intros m req v m' i H. unfold sbrk in H.
  destruct (req =? 0).
  { inversion H; subst. destruct (get_page m' i); auto. }
  destruct ((18446744073709551616 <=? m_hp m + req) || (m_hl m <? m_hp m + req)).
  { inversion H; subst. destruct (get_page m' i); auto. }
  inversion H; subst; clear H. unfold get_page; cbn [m_pages].
  destruct (page_up (m_hp m) <? m_hp m + req).
  - rewrite map_fresh_get. destruct (aget i (m_pages m)); [reflexivity|].
    destruct ((m_hp m / PAGE <=? i) && _); auto.
  - destruct (aget i (m_pages m)); auto.
Qed.

Lemma rd_byte_zero_page : forall m i x, get_page m i = Some zero_page -> x / PAGE = i -> rd_byte m x = 0.
Proof. intros m i x H E. unfold rd_byte. rewrite E, H. reflexivity. Qed.
