(* C14: the allocation account of the strict decoder is linear in the input length. *)
From JamV Require Import Base.Bytes Model.NatCodec Model.Codec Proofs.BytesP Proofs.NatCodecP Proofs.CodecP.
From Coq Require Import ZifyBool ZifyNat ZifyN.
Local Open Scope N_scope.

(* bytes consumed by a run of f (all of the input when it fails) *)
Definition used {A} (f : bytes -> option (A * bytes)) (bs : bytes) : N :=
  match f bs with
  | Some (_, r) => N.of_nat (length bs - length r)
  | None => N.of_nat (length bs)
  end.

Definition shrinks {A} (f : bytes -> option (A * bytes)) (m : nat) : Prop :=
  forall bs v r, f bs = Some (v, r) -> (length r + m <= length bs)%nat.

Definition bounded (f : decoder) (a : accountant) (K C : N) : Prop :=
  forall bs, a bs <= K * used f bs + C.

Lemma used_le {A} (f : bytes -> option (A * bytes)) bs : used f bs <= N.of_nat (length bs).
Proof. unfold used. destruct (f bs) as [[? r]|]; lia. Qed.

Lemma shrinks_weaken {A} (f : bytes -> option (A * bytes)) m m' : (m' <= m)%nat -> shrinks f m -> shrinks f m'.
Proof. intros Hm H bs v r E. specialize (H _ _ _ E). lia. Qed.

(* ------------------------------------------------------------------------------------------ *)
(* every successful decode consumes at least min_size bytes (no well-formedness of bytes needed) *)

Lemma rep_shrinks f m k : shrinks f m ->
  forall bs vs r, rep f k bs = Some (vs, r) -> (length r + k * m <= length bs)%nat.
Proof.
  intros Hf. induction k as [|k IH]; intros bs vs r H; cbn [rep] in H.
  - some_inv H. lia.
  - destruct (f bs) as [[v r1]|] eqn:F; [|discriminate].
    destruct (rep f k r1) as [[vs' r2]|] eqn:R; [|discriminate]. some_inv H.
    specialize (Hf _ _ _ F). specialize (IH _ _ _ R). lia.
Qed.

Lemma pair_shrinks f1 f2 m1 m2 : shrinks f1 m1 -> shrinks f2 m2 -> shrinks (pair_dec f1 f2) (m1 + m2).
Proof.
  intros H1 H2 bs v r H. unfold pair_dec in H.
  destruct (f1 bs) as [[a r1]|] eqn:F1; [|discriminate].
  destruct (f2 r1) as [[c r2]|] eqn:F2; [|discriminate]. some_inv H.
  specialize (H1 _ _ _ F1). specialize (H2 _ _ _ F2). lia.
Qed.

Lemma dec_counted_shrinks f lim : shrinks f 0 -> shrinks (dec_counted f lim) 1.
Proof.
  intros Hf bs vs r H. unfold dec_counted in H.
  destruct (dec_nat bs) as [[n r0]|] eqn:D; [|discriminate].
  destruct (_ && _); [|discriminate].
  pose proof (dec_nat_shrinks _ _ _ D). pose proof (rep_shrinks f 0 _ Hf _ _ _ H). lia.
Qed.

Theorem dec_shrinks d : shrinks (dec d) (min_size d).
Proof.
  induction d as [w|bd|n| | |n|lim d IH|n d IH|d IH|alts IH|k v IHk IHv|ds IH] using desc_ind';
    intros bs val r H; cbn [dec min_size] in *.
  - destruct (Nat.ltb_spec (length bs) w); [discriminate|]. some_inv H. rewrite skipn_length. lia.
  - destruct (dec_nat bs) as [[x r0]|] eqn:D; [|discriminate]. destruct (_ <? _); [|discriminate]. some_inv H.
    pose proof (dec_nat_shrinks _ _ _ D). lia.
  - destruct (Nat.ltb_spec (length bs) n); [discriminate|]. some_inv H. rewrite skipn_length. lia.
  - destruct (dec_nat bs) as [[x r0]|] eqn:D; [|discriminate]. destruct (count_fits _ _); [|discriminate]. some_inv H.
    pose proof (dec_nat_shrinks _ _ _ D). rewrite skipn_length. lia.
  - destruct (dec_nat bs) as [[x0 r0]|] eqn:D0; [|discriminate].
    destruct (dec_nat r0) as [[x r1]|] eqn:D1; [|discriminate]. destruct (_ && _); [|discriminate]. some_inv H.
    pose proof (dec_nat_shrinks _ _ _ D0). pose proof (dec_nat_shrinks _ _ _ D1). rewrite skipn_length. lia.
  - cbn zeta in H. destruct (Nat.ltb_spec (length bs) (nbytes n)); [discriminate|].
    destruct (_ <? _); [|discriminate]. some_inv H. rewrite skipn_length. lia.
  - destruct (dec_counted (dec d) lim bs) as [[vs r0]|] eqn:D; [|discriminate]. some_inv H.
    apply (dec_counted_shrinks _ _ (shrinks_weaken _ _ 0%nat ltac:(lia) IH) _ _ _ D).
  - destruct (rep (dec d) n bs) as [[vs r0]|] eqn:D; [|discriminate]. some_inv H.
    apply (rep_shrinks _ _ _ IH _ _ _ D).
  - destruct bs as [|t r0]; [discriminate|]. destruct (t =? 0).
    + some_inv H. cbn [length]. lia.
    + destruct (t =? 1); [|discriminate]. destruct (dec d r0) as [[a r1]|] eqn:D; [|discriminate]. some_inv H.
      specialize (IH _ _ _ D). cbn [length]. lia.
  - destruct bs as [|t r0]; [discriminate|]. rewrite assoc_map in H.
    destruct (assoc t alts) as [da|] eqn:A; [|discriminate]. cbn [option_map] in H.
    destruct (dec da r0) as [[a r1]|] eqn:D; [|discriminate]. some_inv H.
    rewrite Forall_forall in IH. pose proof (IH _ (assoc_In _ _ _ A) _ _ _ D). cbn [length]. lia.
  - destruct (dec_counted _ unlimited bs) as [[es r0]|] eqn:D; [|discriminate].
    destruct (strict_sorted _); [|discriminate]. some_inv H.
    refine (dec_counted_shrinks _ _ _ _ _ _ D).
    apply (shrinks_weaken _ (min_size k + min_size v)%nat 0%nat); [lia|]. now apply pair_shrinks.
  - destruct (seq_all (map dec ds) bs) as [[vs r0]|] eqn:D; [|discriminate]. some_inv H.
    revert bs vs D. induction IH as [|d0 ds Hd _ IHds]; intros bs vs D; cbn [map seq_all list_sum fold_right] in *.
    + some_inv D. lia.
    + destruct (dec d0 bs) as [[v0 r1]|] eqn:D0; [|discriminate].
      destruct (seq_all (map dec ds) r1) as [[vs' r2]|] eqn:D1; [|discriminate]. some_inv D.
      specialize (Hd _ _ _ D0). specialize (IHds _ _ D1). unfold list_sum in IHds. lia.
Qed.

(* ------------------------------------------------------------------------------------------ *)
(* accounting lemmas for the combinators *)

Lemma rep_alloc_bound f a K C k : shrinks f 0 -> bounded f a K C ->
  forall bs, rep_alloc f a k bs <= K * used (rep f k) bs + N.of_nat k * C.
Proof.
  intros Hs Hb. induction k as [|k IH]; intros bs.
  - cbn [rep_alloc]. lia.
  - cbn [rep_alloc]. specialize (Hb bs). unfold used in *. cbn [rep].
    destruct (f bs) as [[v r1]|] eqn:F.
    + specialize (IH r1). pose proof (Hs _ _ _ F) as L1.
      destruct (rep f k r1) as [[vs r2]|] eqn:R.
      * pose proof (rep_shrinks f 0 k Hs _ _ _ R) as L2.
        replace (N.of_nat (length bs - length r2)) with
          (N.of_nat (length bs - length r1) + N.of_nat (length r1 - length r2)) by lia.
        lia.
      * replace (N.of_nat (length bs)) with (N.of_nat (length bs - length r1) + N.of_nat (length r1)) by lia.
        lia.
    + lia.
Qed.

Lemma pair_alloc_bound f1 f2 a1 a2 K1 K2 C1 C2 :
  shrinks f1 0 -> shrinks f2 0 -> bounded f1 a1 K1 C1 -> bounded f2 a2 K2 C2 ->
  bounded (pair_dec f1 f2)
          (fun bs => a1 bs + match f1 bs with Some (_, r) => a2 r | None => 0 end)
          (K1 + K2) (C1 + C2).
Proof.
  intros S1 S2 B1 B2 bs. specialize (B1 bs). unfold used, pair_dec in *.
  destruct (f1 bs) as [[a r1]|] eqn:F1.
  - specialize (B2 r1). pose proof (S1 _ _ _ F1) as L1.
    destruct (f2 r1) as [[c r2]|] eqn:F2.
    + pose proof (S2 _ _ _ F2) as L2. unfold used in B2. rewrite F2 in B2.
      replace (N.of_nat (length bs - length r2)) with
        (N.of_nat (length bs - length r1) + N.of_nat (length r1 - length r2)) by lia.
      set (X := N.of_nat (length bs - length r1)) in *. set (Y := N.of_nat (length r1 - length r2)) in *.
      clearbody X Y. pose proof (N.le_0_l (K1 * Y)). pose proof (N.le_0_l (K2 * X)). lia.
    + unfold used in B2. rewrite F2 in B2.
      replace (N.of_nat (length bs)) with (N.of_nat (length bs - length r1) + N.of_nat (length r1)) by lia.
      set (X := N.of_nat (length bs - length r1)) in *. set (Y := N.of_nat (length r1)) in *.
      clearbody X Y. pose proof (N.le_0_l (K1 * Y)). pose proof (N.le_0_l (K2 * X)). lia.
  - set (X := N.of_nat (length bs)) in *. clearbody X. pose proof (N.le_0_l (K2 * X)). lia.
Qed.

Lemma counted_alloc_bound f a esz lim K C m :
  shrinks f m -> (1 <= m)%nat -> bounded f a K C ->
  forall bs, counted_alloc true f a esz lim bs <= (esz + C + K) * used (dec_counted f lim) bs.
Proof.
  intros Hs Hm Hb bs. unfold counted_alloc, used, dec_counted.
  destruct (dec_nat bs) as [[n r]|] eqn:D; [|lia].
  pose proof (dec_nat_shrinks _ _ _ D) as L0. cbn [andb].
  destruct ((n <=? lim) && count_fits n r) eqn:Chk; cbn [negb]; [|lia].
  apply andb_true_iff in Chk. destruct Chk as [_ Hf]. unfold count_fits in Hf. apply N.leb_le in Hf.
  assert (Hr : reach n r = N.to_nat n) by (unfold reach; lia). rewrite Hr.
  assert (Hs0 : shrinks f 0) by (eapply shrinks_weaken; [|exact Hs]; lia).
  pose proof (rep_alloc_bound f a K C (N.to_nat n) Hs0 Hb r) as B. unfold used in B.
  rewrite N2Nat.id in B.
  destruct (rep f (N.to_nat n) r) as [[vs r']|] eqn:R.
  - pose proof (rep_shrinks f m _ Hs _ _ _ R) as L1.
    set (X := N.of_nat (length r - length r')) in *.
    assert (HnX : n <= X) by (unfold X; nia).
    assert (HX : X <= N.of_nat (length bs - length r')) by (unfold X; lia).
    assert (M1 : n * esz <= esz * X) by (rewrite (N.mul_comm n esz); now apply N.mul_le_mono_l).
    assert (M2 : n * C <= C * X) by (rewrite (N.mul_comm n C); now apply N.mul_le_mono_l).
    assert (M3 : (esz + C + K) * X <= (esz + C + K) * N.of_nat (length bs - length r')) by now apply N.mul_le_mono_l.
    lia.
  - set (X := N.of_nat (length r)) in *.
    assert (M1 : n * esz <= esz * X) by (rewrite (N.mul_comm n esz); now apply N.mul_le_mono_l).
    assert (M2 : n * C <= C * X) by (rewrite (N.mul_comm n C); now apply N.mul_le_mono_l).
    assert (M3 : (esz + C + K) * X <= (esz + C + K) * N.of_nat (length bs)) by (apply N.mul_le_mono_l; unfold X; lia).
    lia.
Qed.

Lemma nmax_in {A} (F : A -> N) x l : In x l -> F x <= nmax (map F l).
Proof.
  induction l as [|a t IH]; [contradiction|]. intros [->|H]; cbn [map nmax fold_right].
  - lia.
  - specialize (IH H). unfold nmax in IH. lia.
Qed.

(* ------------------------------------------------------------------------------------------ *)
(* the bound, for every well-formed descriptor, in its consumption-sensitive form *)

Theorem alloc_bounded d : wf_desc d = true -> bounded (dec d) (alloc true d) (kconst d) (cfix d).
Proof.
  induction d as [w|bd|n| | |n|lim d IH|n d IH|d IH|alts IH|k v IHk IHv|ds IH] using desc_ind';
    intros Hwf bs; cbn [alloc kconst cfix wf_desc] in *; try lia.
  - (* DBlob *)
    unfold used. cbn [dec andb]. destruct (dec_nat bs) as [[n r]|] eqn:D; [|lia].
    pose proof (dec_nat_shrinks _ _ _ D). unfold count_fits.
    destruct (N.leb_spec n (N.of_nat (length r))); cbn [negb]; [|lia]. rewrite skipn_length. lia.
  - (* DBlob2 *)
    unfold used. cbn [dec andb]. destruct (dec_nat bs) as [[n0 r0]|] eqn:D0; [|lia].
    destruct (dec_nat r0) as [[n r]|] eqn:D1; [|lia].
    pose proof (dec_nat_shrinks _ _ _ D0). pose proof (dec_nat_shrinks _ _ _ D1). unfold count_fits.
    destruct (n0 =? n); cbn [andb negb]; [|lia].
    destruct (N.leb_spec n (N.of_nat (length r))); cbn [negb]; [|lia]. rewrite skipn_length. lia.
  - (* DSeq *)
    apply andb_true_iff in Hwf. destruct Hwf as [Hwf Hd]. apply andb_true_iff in Hwf. destruct Hwf as [_ Hm].
    apply Nat.leb_le in Hm.
    pose proof (counted_alloc_bound (dec d) (alloc true d) (msize d) lim _ _ _ (dec_shrinks d) Hm (IH Hd) bs) as B.
    assert (U : used (dec (DSeq lim d)) bs = used (dec_counted (dec d) lim) bs).
    { unfold used. cbn [dec]. destruct (dec_counted (dec d) lim bs) as [[? ?]|]; reflexivity. }
    rewrite U. lia.
  - (* DVec *)
    pose proof (rep_alloc_bound (dec d) (alloc true d) _ _ n
                  (shrinks_weaken _ _ 0%nat ltac:(lia) (dec_shrinks d)) (IH Hwf) bs) as B.
    assert (U : used (dec (DVec n d)) bs = used (rep (dec d) n) bs).
    { unfold used. cbn [dec]. destruct (rep (dec d) n bs) as [[? ?]|]; reflexivity. }
    rewrite U. lia.
  - (* DOpt *)
    destruct bs as [|t r]; [lia|]. destruct (N.eqb_spec t 1) as [->|]; [|lia].
    specialize (IH Hwf r). unfold used in *. cbn [dec N.eqb Pos.eqb].
    destruct (dec d r) as [[a r1]|] eqn:D.
    + pose proof (dec_shrinks d _ _ _ D). cbn [length].
      replace (N.of_nat (S (length r) - length r1)) with (1 + N.of_nat (length r - length r1)) by lia.
      set (X := N.of_nat (length r - length r1)) in *. clearbody X.
      pose proof (N.le_0_l (msize d * X)). lia.
    + cbn [length]. replace (N.of_nat (S (length r))) with (1 + N.of_nat (length r)) by lia.
      set (X := N.of_nat (length r)) in *. clearbody X.
      pose proof (N.le_0_l (msize d * X)). lia.
  - (* DVar *)
    destruct bs as [|t r]; [lia|]. rewrite assoc_map.
    destruct (assoc t alts) as [da|] eqn:A; cbn [option_map]; [|lia].
    pose proof (assoc_In _ _ _ A) as Hin. rewrite Forall_forall in IH. rewrite forallb_forall in Hwf.
    pose proof (IH _ Hin (Hwf _ Hin) r) as B. cbn [snd] in B.
    pose proof (nmax_in (fun a => kconst (snd a)) _ _ Hin) as MK. cbn [snd] in MK.
    pose proof (nmax_in (fun a => cfix (snd a)) _ _ Hin) as MC. cbn [snd] in MC.
    unfold used in *. cbn [dec]. rewrite assoc_map, A. cbn [option_map].
    destruct (dec da r) as [[a r1]|] eqn:D.
    + pose proof (dec_shrinks da _ _ _ D). cbn [length].
      set (X := N.of_nat (length r - length r1)) in *.
      assert (M : kconst da * X <= nmax (map (fun a0 => kconst (snd a0)) alts) * N.of_nat (S (length r) - length r1)).
      { apply N.mul_le_mono; [exact MK|unfold X; lia]. }
      lia.
    + cbn [length]. set (X := N.of_nat (length r)) in *.
      assert (M : kconst da * X <= nmax (map (fun a0 => kconst (snd a0)) alts) * N.of_nat (S (length r))).
      { apply N.mul_le_mono; [exact MK|unfold X; lia]. }
      lia.
  - (* DMap *)
    apply andb_true_iff in Hwf. destruct Hwf as [Hwf Hv]. apply andb_true_iff in Hwf. destruct Hwf as [Hm Hk].
    apply Nat.leb_le in Hm.
    pose proof (pair_alloc_bound (dec k) (dec v) (alloc true k) (alloc true v) _ _ _ _
                  (shrinks_weaken _ _ 0%nat ltac:(lia) (dec_shrinks k))
                  (shrinks_weaken _ _ 0%nat ltac:(lia) (dec_shrinks v)) (IHk Hk) (IHv Hv)) as PB.
    pose proof (counted_alloc_bound _ _ (msize k + msize v + 16) unlimited _ _ _
                  (pair_shrinks _ _ _ _ (dec_shrinks k) (dec_shrinks v)) Hm PB bs) as B.
    assert (U : used (dec_counted (pair_dec (dec k) (dec v)) unlimited) bs <= used (dec (DMap k v)) bs).
    { unfold used. cbn [dec]. destruct (dec_counted _ unlimited bs) as [[es r]|]; [|lia].
      destruct (strict_sorted _); lia. }
    set (KK := msize k + msize v + 16 + (cfix k + cfix v) + (kconst k + kconst v)) in *.
    assert (M : KK * used (dec_counted (pair_dec (dec k) (dec v)) unlimited) bs <= KK * used (dec (DMap k v)) bs)
      by now apply N.mul_le_mono_l.
    lia.
  - (* DStruct *)
    assert (U : used (dec (DStruct ds)) bs = used (seq_all (map dec ds)) bs).
    { unfold used. cbn [dec]. destruct (seq_all (map dec ds) bs) as [[? ?]|]; reflexivity. }
    rewrite U. clear U. revert bs.
    induction IH as [|d0 ds Hd _ IHds]; intros bs; cbn [map seq_alloc seq_all nmax nsum fold_right forallb] in *.
    + lia.
    + apply andb_true_iff in Hwf. destruct Hwf as [Hw0 Hws].
      specialize (Hd Hw0 bs). specialize (IHds Hws). unfold used in *. cbn [seq_all].
      fold (nmax (map kconst ds)) in *. fold (nsum (map cfix ds)) in *.
      set (Kt := nmax (map kconst ds)) in *. set (Ct := nsum (map cfix ds)) in *.
      set (M := N.max (kconst d0) Kt).
      assert (M0 : kconst d0 <= M) by (unfold M; lia). assert (Mt : Kt <= M) by (unfold M; lia).
      destruct (dec d0 bs) as [[v0 r1]|] eqn:D0.
      * specialize (IHds r1). pose proof (dec_shrinks d0 _ _ _ D0) as L1.
        set (X := N.of_nat (length bs - length r1)) in *.
        assert (A0 : kconst d0 * X <= M * X) by now apply N.mul_le_mono_r.
        destruct (seq_all (map dec ds) r1) as [[vs r2]|] eqn:D1.
        -- assert (L2 : (length r2 <= length r1)%nat).
           { clear -D1. revert r1 vs D1. induction ds as [|d1 ds IHd]; intros r1 vs D1; cbn [map seq_all] in D1.
             - some_inv D1. lia.
             - destruct (dec d1 r1) as [[v1 r3]|] eqn:E; [|discriminate].
               destruct (seq_all (map dec ds) r3) as [[vs' r4]|] eqn:E'; [|discriminate]. some_inv D1.
               pose proof (dec_shrinks d1 _ _ _ E). specialize (IHd _ _ E'). lia. }
           set (Y := N.of_nat (length r1 - length r2)) in *.
           assert (A1 : Kt * Y <= M * Y) by now apply N.mul_le_mono_r.
           replace (N.of_nat (length bs - length r2)) with (X + Y) by (unfold X, Y; lia). lia.
        -- set (Y := N.of_nat (length r1)) in *.
           assert (A1 : Kt * Y <= M * Y) by now apply N.mul_le_mono_r.
           replace (N.of_nat (length bs)) with (X + Y) by (unfold X, Y; lia). lia.
      * set (X := N.of_nat (length bs)) in *.
        assert (A0 : kconst d0 * X <= M * X) by now apply N.mul_le_mono_r. lia.
Qed.

(* C14, model level: what the strict decoder allocates is at most kconst d bytes per input byte plus
   the fixed-size part of d, whatever the input *)
Theorem dec_alloc_bound d bs :
  wf_desc d = true -> alloc true d bs <= kconst d * N.of_nat (length bs) + cfix d.
Proof.
  intros Hwf. pose proof (alloc_bounded d Hwf bs) as B. pose proof (used_le (dec d) bs) as U.
  assert (M : kconst d * used (dec d) bs <= kconst d * N.of_nat (length bs)) by now apply N.mul_le_mono_l.
  lia.
Qed.

(* the decoder without the count-against-remaining-input check: nine bytes make it allocate 2^64-1 *)
Theorem alloc_unchecked_refuted :
  exists bs, (length bs = 9%nat) /\ (wf_bytes bs = true) /\ (dec DBlob bs = None) /\
             (kconst DBlob * N.of_nat (length bs) + cfix DBlob < alloc false DBlob bs) /\
             (alloc false DBlob bs = 18446744073709551615).
Proof. exists [255; 255; 255; 255; 255; 255; 255; 255; 255]. vm_compute. repeat split; reflexivity. Qed.

(* the same input against a sequence of 32-byte hashes: 2^64-1 elements of 32 bytes *)
Theorem alloc_unchecked_seq_refuted :
  exists bs, (length bs = 9%nat) /\
             (alloc false (DSeq unlimited (DFix 32)) bs = 18446744073709551615 * 32) /\
             (alloc true (DSeq unlimited (DFix 32)) bs = 0).
Proof. exists [255; 255; 255; 255; 255; 255; 255; 255; 255]. vm_compute. repeat split; reflexivity. Qed.

(* frames *)
Theorem frame_alloc_bound d bs :
  wf_desc d = true -> frame_alloc true d bs <= (1 + kconst d) * N.of_nat (length bs) + cfix d.
Proof.
  intros Hwf. unfold frame_alloc. destruct (Nat.ltb_spec (length bs) 4); [lia|].
  unfold count_fits. set (L := le_dec (firstn 4 bs)). set (r := skipn 4 bs).
  destruct (N.leb_spec L (N.of_nat (length r))) as [Hf|]; [|lia].
  pose proof (dec_alloc_bound d (firstn (N.to_nat L) r) Hwf) as B.
  assert (Lr : (length r <= length bs)%nat) by (unfold r; rewrite skipn_length; lia).
  assert (Lf : N.of_nat (length (firstn (N.to_nat L) r)) <= N.of_nat (length bs)) by (rewrite firstn_length; lia).
  assert (M : kconst d * N.of_nat (length (firstn (N.to_nat L) r)) <= kconst d * N.of_nat (length bs))
    by now apply N.mul_le_mono_l.
  lia.
Qed.

(* the frame reader that allocates (L-1) mod 2^32 before reading: a zero length field in a 5-byte
   input allocates 2^32-1 bytes *)
Theorem frame_alloc_unchecked_refuted d :
  exists bs, (length bs = 5%nat) /\ (frame_alloc false d bs = 4294967295) /\
             ((1 + kconst d) * 5 + cfix d < 4294967295 -> (1 + kconst d) * N.of_nat (length bs) + cfix d < frame_alloc false d bs).
Proof. exists [0; 0; 0; 0; 0]. repeat split. intros H. exact H. Qed.
