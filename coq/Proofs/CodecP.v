(* Proofs about the generic codec of Model/Codec.v, once for every well-formed descriptor. *)
From JamV Require Import Base.Bytes Model.NatCodec Model.Codec Proofs.BytesP Proofs.NatCodecP Proofs.CodecOrdP.
From Coq Require Import ZifyBool ZifyNat ZifyN Permutation Sorted.
Local Open Scope N_scope.
Ltac Zify.zify_post_hook ::= Z.div_mod_to_equations.

(* ------------------------------------------------------------------------------------------ *)
(* induction principle for the nested inductive [desc] (lists of descriptors inside DVar, DStruct) *)
Section DescInd.
  Variable P : desc -> Prop.
  Hypothesis HU : forall w, P (DU w).
  Hypothesis HNat : forall b, P (DNat b).
  Hypothesis HFix : forall n, P (DFix n).
  Hypothesis HBlob : P DBlob.
  Hypothesis HBlob2 : P DBlob2.
  Hypothesis HBits : forall n, P (DBits n).
  Hypothesis HSeq : forall lim d, P d -> P (DSeq lim d).
  Hypothesis HVec : forall n d, P d -> P (DVec n d).
  Hypothesis HOpt : forall d, P d -> P (DOpt d).
  Hypothesis HVar : forall alts, Forall (fun a => P (snd a)) alts -> P (DVar alts).
  Hypothesis HMap : forall k v, P k -> P v -> P (DMap k v).
  Hypothesis HStruct : forall ds, Forall P ds -> P (DStruct ds).

  Fixpoint desc_ind' (d : desc) : P d :=
    match d with
    | DU w => HU w
    | DNat b => HNat b
    | DFix n => HFix n
    | DBlob => HBlob
    | DBlob2 => HBlob2
    | DBits n => HBits n
    | DSeq lim d' => HSeq lim d' (desc_ind' d')
    | DVec n d' => HVec n d' (desc_ind' d')
    | DOpt d' => HOpt d' (desc_ind' d')
    | DVar alts =>
        HVar alts ((fix go (l : list (N * desc)) : Forall (fun a => P (snd a)) l :=
                      match l with
                      | [] => Forall_nil _
                      | a :: t => Forall_cons a (desc_ind' (snd a)) (go t)
                      end) alts)
    | DMap k v => HMap k v (desc_ind' k) (desc_ind' v)
    | DStruct ds =>
        HStruct ds ((fix go (l : list desc) : Forall P l :=
                       match l with
                       | [] => Forall_nil _
                       | a :: t => Forall_cons a (desc_ind' a) (go t)
                       end) ds)
    end.
End DescInd.

Lemma Some_inj {A} (a b : A) : Some a = Some b -> a = b.
Proof. congruence. Qed.
Lemma pair_inj {A B} (a c : A) (b d : B) : (a, b) = (c, d) -> a = c /\ b = d.
Proof. intros H. split; congruence. Qed.
Ltac some_inv H :=
  apply Some_inj in H;
  try (let H1 := fresh in let H2 := fresh in apply pair_inj in H; destruct H as [H1 H2]); subst.

(* ------------------------------------------------------------------------------------------ *)
(* small facts *)

Lemma two64_eq : two64 = 18446744073709551616. Proof. reflexivity. Qed.
Lemma unlimited_eq : unlimited = 18446744073709551615. Proof. reflexivity. Qed.

Lemma enc_nat_nonempty x : (1 <= length (enc_nat x))%nat.
Proof. rewrite enc_nat_length. lia. Qed.

Lemma pow256_pow2 k : 256 ^ N.of_nat k = 2 ^ (8 * N.of_nat k).
Proof. rewrite N.pow_mul_r. reflexivity. Qed.

Lemma nbytes_bits n : 2 ^ N.of_nat n <= 256 ^ N.of_nat (nbytes n).
Proof.
  rewrite pow256_pow2. apply N.pow_le_mono_r; [discriminate|].
  unfold nbytes. lia.
Qed.

Lemma le_dec_enc_small w x : x < 256 ^ N.of_nat w -> le_dec (le_enc w x) = x.
Proof. intros H. rewrite le_dec_enc. now apply N.mod_small. Qed.

Lemma le_dec_firstn_lt w bs :
  wf_bytes bs = true -> (w <= length bs)%nat -> le_dec (firstn w bs) < 256 ^ N.of_nat w.
Proof.
  intros Hwf Hl. assert (E : length (firstn w bs) = w) by (rewrite firstn_length; lia).
  rewrite <- E at 2. apply le_dec_lt. now apply wf_bytes_firstn.
Qed.

Lemma le_enc_dec_firstn w bs :
  wf_bytes bs = true -> (w <= length bs)%nat -> le_enc w (le_dec (firstn w bs)) = firstn w bs.
Proof.
  intros Hwf Hl. assert (E : length (firstn w bs) = w) by (rewrite firstn_length; lia).
  rewrite <- E at 1. apply le_enc_dec. now apply wf_bytes_firstn.
Qed.

Lemma assoc_map {A B} (F : A -> B) t (l : list (N * A)) :
  assoc t (map (fun a => (fst a, F (snd a))) l) = option_map F (assoc t l).
Proof.
  induction l as [|[t' a] l IH]; [reflexivity|]. cbn [map assoc fst snd].
  destruct (t =? t'); [reflexivity|exact IH].
Qed.

Lemma assoc_In {A} t (l : list (N * A)) a : assoc t l = Some a -> In (t, a) l.
Proof.
  induction l as [|[t' a'] l IH]; [discriminate|]. cbn [assoc].
  destruct (N.eqb_spec t t') as [->|_]; intros H.
  - some_inv H. now left.
  - right. now apply IH.
Qed.

Lemma dec_nat_shrinks bs x r : dec_nat bs = Some (x, r) -> (length r < length bs)%nat.
Proof.
  destruct bs as [|b t]; [discriminate|]. cbn [dec_nat].
  destruct (Nat.ltb_spec (length t) (lead_ones b)) as [|Hl]; [discriminate|].
  destruct (N.leb _ _); [|discriminate]. intros E. inversion E; subst.
  rewrite skipn_length. cbn [length]. lia.
Qed.

(* ------------------------------------------------------------------------------------------ *)
(* every encoding is at least min_size long, and consists of bytes *)

Lemma enc_all_min (g : val -> option bytes) m vs :
  (forall v b, g v = Some b -> (m <= length b)%nat) ->
  forall b, enc_all g vs = Some b -> (length vs * m <= length b)%nat.
Proof.
  intros Hg. induction vs as [|v t IH]; intros b H; cbn [enc_all] in H.
  - some_inv H. cbn. lia.
  - destruct (g v) as [a|] eqn:Ga; [|discriminate]. destruct (enc_all g t) as [b'|]; [|discriminate].
    some_inv H. rewrite app_length. cbn [length]. specialize (Hg _ _ Ga). specialize (IH _ eq_refl). lia.
Qed.

Lemma pair_enc_min g1 g2 m1 m2 :
  (forall v b, g1 v = Some b -> (m1 <= length b)%nat) ->
  (forall v b, g2 v = Some b -> (m2 <= length b)%nat) ->
  forall e b, pair_enc g1 g2 e = Some b -> (m1 + m2 <= length b)%nat.
Proof.
  intros H1 H2 e b H. destruct e as [| |l| |]; try discriminate.
  destruct l as [|a [|c [|? ?]]]; try discriminate. cbn [pair_enc] in H.
  destruct (g1 a) as [x|] eqn:E1; [|discriminate]. destruct (g2 c) as [y|] eqn:E2; [|discriminate].
  some_inv H. rewrite app_length. specialize (H1 _ _ E1). specialize (H2 _ _ E2). lia.
Qed.

Lemma enc_min_size d : forall v b, enc d v = Some b -> (min_size d <= length b)%nat.
Proof.
  induction d as [w|bd|n| | |n|lim d IH|n d IH|d IH|alts IH|k v IHk IHv|ds IH] using desc_ind';
    intros val b H; cbn [enc min_size] in *.
  - destruct val; try discriminate. destruct (_ <? _); [|discriminate]. some_inv H.
    rewrite le_enc_length. lia.
  - destruct val; try discriminate. destruct (_ && _); [|discriminate]. some_inv H.
    apply enc_nat_nonempty.
  - destruct val; try discriminate. destruct (Nat.eqb_spec (length b0) n); cbn [andb] in H; [|discriminate].
    destruct (wf_bytes b0); [|discriminate]. some_inv H. lia.
  - destruct val; try discriminate. destruct (_ && _); [|discriminate]. some_inv H.
    rewrite app_length. pose proof (enc_nat_nonempty (N.of_nat (length b0))). lia.
  - destruct val; try discriminate. destruct (_ && _); [|discriminate]. some_inv H.
    rewrite !app_length. pose proof (enc_nat_nonempty (N.of_nat (length b0))). lia.
  - destruct val; try discriminate. destruct (_ <? _); [|discriminate]. some_inv H.
    rewrite le_enc_length. lia.
  - destruct val; try discriminate. destruct (_ && _); [|discriminate].
    destruct (enc_all _ _); [|discriminate]. some_inv H.
    rewrite app_length. pose proof (enc_nat_nonempty (N.of_nat (length l))). lia.
  - destruct val; try discriminate. destruct (Nat.eqb_spec (length l) n); [|discriminate]. subst n.
    eapply enc_all_min; [exact IH|exact H].
  - destruct val as [| | |o|]; try discriminate. destruct o as [a|].
    + destruct (enc d a); [|discriminate]. some_inv H. cbn. lia.
    + some_inv H. cbn. lia.
  - destruct val; try discriminate. destruct (_ <? _); [|discriminate].
    destruct (assoc _ _) as [f|]; [|discriminate]. destruct (f val); [|discriminate].
    some_inv H. cbn. lia.
  - destruct val; try discriminate. destruct (_ && _); [|discriminate].
    destruct (enc_all _ _); [|discriminate]. some_inv H.
    rewrite app_length. pose proof (enc_nat_nonempty (N.of_nat (length l))). lia.
  - destruct val as [| |vs| |]; try discriminate. revert vs b H.
    induction IH as [|d0 ds Hd _ IHds]; intros vs b H; cbn [map enc_zip list_sum fold_right] in *.
    + destruct vs; [|discriminate]. some_inv H. cbn. lia.
    + destruct vs as [|v0 vs]; [discriminate|].
      destruct (enc d0 v0) as [a|] eqn:E0; [|discriminate].
      destruct (enc_zip (map enc ds) vs) as [b'|] eqn:E1; [|discriminate].
      some_inv H. rewrite app_length. specialize (Hd _ _ E0). specialize (IHds _ _ E1).
      unfold list_sum in IHds. lia.
Qed.

Lemma enc_all_wf (g : val -> option bytes) vs :
  (forall v b, g v = Some b -> wf_bytes b = true) ->
  forall b, enc_all g vs = Some b -> wf_bytes b = true.
Proof.
  intros Hg. induction vs as [|v t IH]; intros b H; cbn [enc_all] in H.
  - some_inv H. reflexivity.
  - destruct (g v) as [a|] eqn:Ga; [|discriminate]. destruct (enc_all g t) as [b'|]; [|discriminate].
    some_inv H. apply wf_bytes_app. split; [eapply Hg; eassumption|now apply IH].
Qed.

Lemma pair_enc_wf g1 g2 :
  (forall v b, g1 v = Some b -> wf_bytes b = true) ->
  (forall v b, g2 v = Some b -> wf_bytes b = true) ->
  forall e b, pair_enc g1 g2 e = Some b -> wf_bytes b = true.
Proof.
  intros H1 H2 e b H. destruct e as [| |l| |]; try discriminate.
  destruct l as [|a [|c [|? ?]]]; try discriminate. cbn [pair_enc] in H.
  destruct (g1 a) as [x|] eqn:E1; [|discriminate]. destruct (g2 c) as [y|] eqn:E2; [|discriminate].
  some_inv H. apply wf_bytes_app. split; [eapply H1|eapply H2]; eassumption.
Qed.

Lemma enc_nat_wf' x : x < two64 -> wf_bytes (enc_nat x) = true.
Proof. apply enc_nat_wf. Qed.

Lemma enc_wf d : forall v b, enc d v = Some b -> wf_bytes b = true.
Proof.
  induction d as [w|bd|n| | |n|lim d IH|n d IH|d IH|alts IH|k v IHk IHv|ds IH] using desc_ind';
    intros val b H; cbn [enc] in *.
  - destruct val; try discriminate. destruct (_ <? _); [|discriminate]. some_inv H. apply le_enc_wf.
  - destruct val; try discriminate. destruct (x <? bd); cbn [andb] in H; [|discriminate].
    destruct (N.ltb_spec x two64); [|discriminate]. some_inv H. now apply enc_nat_wf'.
  - destruct val; try discriminate. destruct (Nat.eqb _ _); cbn [andb] in H; [|discriminate].
    destruct (wf_bytes b0) eqn:W; [|discriminate]. some_inv H. exact W.
  - destruct val; try discriminate. destruct (N.ltb_spec (N.of_nat (length b0)) two64); cbn [andb] in H; [|discriminate].
    destruct (wf_bytes b0) eqn:W; [|discriminate]. some_inv H.
    apply wf_bytes_app. split; [now apply enc_nat_wf'|exact W].
  - destruct val; try discriminate. destruct (N.ltb_spec (N.of_nat (length b0)) two64); cbn [andb] in H; [|discriminate].
    destruct (wf_bytes b0) eqn:W; [|discriminate]. some_inv H.
    apply wf_bytes_app. split; [now apply enc_nat_wf'|]. apply wf_bytes_app. split; [now apply enc_nat_wf'|exact W].
  - destruct val; try discriminate. destruct (_ <? _); [|discriminate]. some_inv H. apply le_enc_wf.
  - destruct val; try discriminate. destruct (_ <=? _); cbn [andb] in H; [|discriminate].
    destruct (N.ltb_spec (N.of_nat (length l)) two64); [|discriminate].
    destruct (enc_all _ _) as [b'|] eqn:E; [|discriminate]. some_inv H.
    apply wf_bytes_app. split; [now apply enc_nat_wf'|]. eapply enc_all_wf; [exact IH|exact E].
  - destruct val; try discriminate. destruct (Nat.eqb _ _); [|discriminate].
    eapply enc_all_wf; [exact IH|exact H].
  - destruct val as [| | |o|]; try discriminate. destruct o as [a|].
    + destruct (enc d a) as [b'|] eqn:E; [|discriminate]. some_inv H.
      apply wf_bytes_cons. split; [lia|]. eapply IH; exact E.
    + some_inv H. reflexivity.
  - destruct val; try discriminate. destruct (N.ltb_spec tag 256); [|discriminate].
    rewrite assoc_map in H. destruct (assoc tag alts) as [da|] eqn:A; [|discriminate]. cbn [option_map] in H.
    destruct (enc da val) as [b'|] eqn:E; [|discriminate]. some_inv H.
    apply wf_bytes_cons. split; [assumption|].
    rewrite Forall_forall in IH. apply (IH _ (assoc_In _ _ _ A)) in E. exact E.
  - destruct val; try discriminate. destruct (N.ltb_spec (N.of_nat (length l)) two64); cbn [andb] in H; [|discriminate].
    destruct (strict_sorted _); [|discriminate].
    destruct (enc_all _ _) as [b'|] eqn:E; [|discriminate]. some_inv H.
    apply wf_bytes_app. split; [now apply enc_nat_wf'|].
    eapply enc_all_wf; [|exact E]. apply pair_enc_wf; assumption.
  - destruct val as [| |vs| |]; try discriminate. revert vs b H.
    induction IH as [|d0 ds Hd _ IHds]; intros vs b H; cbn [map enc_zip] in *.
    + destruct vs; [|discriminate]. some_inv H. reflexivity.
    + destruct vs as [|v0 vs]; [discriminate|].
      destruct (enc d0 v0) as [a|] eqn:E0; [|discriminate].
      destruct (enc_zip (map enc ds) vs) as [b'|] eqn:E1; [|discriminate].
      some_inv H. apply wf_bytes_app. split; [eapply Hd; exact E0|eapply IHds; exact E1].
Qed.

(* ------------------------------------------------------------------------------------------ *)
(* round trip *)

Definition rt (g : val -> option bytes) (f : decoder) : Prop :=
  forall v b r, g v = Some b -> f (b ++ r) = Some (v, r).

Lemma rep_enc_all g f vs : rt g f ->
  forall b r, enc_all g vs = Some b -> rep f (length vs) (b ++ r) = Some (vs, r).
Proof.
  intros Hrt. induction vs as [|v t IH]; intros b r H; cbn [enc_all] in H.
  - some_inv H. reflexivity.
  - destruct (g v) as [a|] eqn:Ga; [|discriminate]. destruct (enc_all g t) as [b'|] eqn:E; [|discriminate].
    some_inv H. cbn [length rep]. rewrite <- app_assoc, (Hrt _ _ _ Ga), (IH _ _ eq_refl). reflexivity.
Qed.

Lemma pair_rt g1 g2 f1 f2 : rt g1 f1 -> rt g2 f2 -> rt (pair_enc g1 g2) (pair_dec f1 f2).
Proof.
  intros H1 H2 e b r H. destruct e as [| |l| |]; try discriminate.
  destruct l as [|a [|c [|? ?]]]; try discriminate. cbn [pair_enc] in H.
  destruct (g1 a) as [x|] eqn:E1; [|discriminate]. destruct (g2 c) as [y|] eqn:E2; [|discriminate].
  some_inv H. unfold pair_dec. rewrite <- app_assoc, (H1 _ _ _ E1), (H2 _ _ _ E2). reflexivity.
Qed.

Lemma dec_counted_enc g f m lim vs b r :
  rt g f -> (1 <= m)%nat -> (forall v b, g v = Some b -> (m <= length b)%nat) ->
  N.of_nat (length vs) <= lim -> N.of_nat (length vs) < two64 ->
  enc_all g vs = Some b ->
  dec_counted f lim ((enc_nat (N.of_nat (length vs)) ++ b) ++ r) = Some (vs, r).
Proof.
  intros Hrt Hm Hmin Hlim H64 E. unfold dec_counted.
  rewrite <- app_assoc, dec_enc by exact H64.
  pose proof (enc_all_min g m vs Hmin b E) as Hlen.
  unfold count_fits. rewrite app_length.
  destruct (N.leb_spec (N.of_nat (length vs)) lim); [|lia].
  destruct (N.leb_spec (N.of_nat (length vs)) (N.of_nat (length b + length r))); [|nia].
  cbn [andb]. rewrite Nat2N.id. now apply (rep_enc_all g f).
Qed.

Theorem roundtrip d : wf_desc d = true -> rt (enc d) (dec d).
Proof.
  induction d as [w|bd|n| | |n|lim d IH|n d IH|d IH|alts IH|k v IHk IHv|ds IH] using desc_ind';
    intros Hwf val b r H; cbn [enc dec wf_desc] in *.
  - (* DU *)
    destruct val; try discriminate. destruct (N.ltb_spec x (256 ^ N.of_nat w)); [|discriminate].
    some_inv H. rewrite app_length, le_enc_length.
    destruct (Nat.ltb_spec (w + length r) w); [lia|].
    rewrite firstn_app_exact, skipn_app_exact by apply le_enc_length.
    now rewrite le_dec_enc_small.
  - (* DNat *)
    destruct val; try discriminate. destruct (N.ltb_spec x bd); cbn [andb] in H; [|discriminate].
    destruct (N.ltb_spec x two64); [|discriminate]. some_inv H.
    rewrite dec_enc by assumption. destruct (N.ltb_spec x bd); [reflexivity|lia].
  - (* DFix *)
    destruct val; try discriminate. destruct (Nat.eqb_spec (length b0) n); cbn [andb] in H; [|discriminate].
    destruct (wf_bytes b0); [|discriminate]. some_inv H. rewrite app_length.
    destruct (Nat.ltb_spec (length b + length r) (length b)); [lia|].
    now rewrite firstn_app_exact, skipn_app_exact.
  - (* DBlob *)
    destruct val; try discriminate. destruct (N.ltb_spec (N.of_nat (length b0)) two64); cbn [andb] in H; [|discriminate].
    destruct (wf_bytes b0); [|discriminate]. some_inv H.
    rewrite <- app_assoc, dec_enc by assumption. unfold count_fits. rewrite app_length.
    destruct (N.leb_spec (N.of_nat (length b0)) (N.of_nat (length b0 + length r))); [|lia].
    rewrite Nat2N.id. now rewrite firstn_app_exact, skipn_app_exact.
  - (* DBlob2 *)
    destruct val; try discriminate. destruct (N.ltb_spec (N.of_nat (length b0)) two64); cbn [andb] in H; [|discriminate].
    destruct (wf_bytes b0); [|discriminate]. some_inv H.
    rewrite <- !app_assoc, dec_enc by assumption. rewrite dec_enc by assumption.
    unfold count_fits. rewrite app_length, N.eqb_refl.
    destruct (N.leb_spec (N.of_nat (length b0)) (N.of_nat (length b0 + length r))); [|lia].
    cbn [andb]. rewrite Nat2N.id. now rewrite firstn_app_exact, skipn_app_exact.
  - (* DBits *)
    destruct val; try discriminate. destruct (N.ltb_spec x (2 ^ N.of_nat n)) as [Hx|]; [|discriminate].
    some_inv H. cbn zeta. rewrite app_length, le_enc_length.
    destruct (Nat.ltb_spec (nbytes n + length r) (nbytes n)); [lia|].
    rewrite firstn_app_exact, skipn_app_exact by apply le_enc_length.
    pose proof (nbytes_bits n).
    rewrite le_dec_enc_small by lia. destruct (N.ltb_spec x (2 ^ N.of_nat n)); [reflexivity|lia].
  - (* DSeq *)
    destruct val as [| |vs| |]; try discriminate.
    apply andb_true_iff in Hwf. destruct Hwf as [Hwf Hd]. apply andb_true_iff in Hwf. destruct Hwf as [Hl Hm].
    destruct (N.leb_spec (N.of_nat (length vs)) lim); cbn [andb] in H; [|discriminate].
    destruct (N.ltb_spec (N.of_nat (length vs)) two64); [|discriminate].
    destruct (enc_all (enc d) vs) as [b'|] eqn:E; [|discriminate]. some_inv H.
    erewrite dec_counted_enc; [reflexivity|exact (IH Hd)| |apply enc_min_size|assumption|assumption|exact E].
    apply Nat.leb_le in Hm. exact Hm.
  - (* DVec *)
    destruct val as [| |vs| |]; try discriminate. destruct (Nat.eqb_spec (length vs) n); [|discriminate]. subst n.
    erewrite rep_enc_all; [reflexivity|exact (IH Hwf)|exact H].
  - (* DOpt *)
    destruct val as [| | |o|]; try discriminate. destruct o as [a|].
    + destruct (enc d a) as [b'|] eqn:E; [|discriminate]. some_inv H. cbn [app N.eqb].
      now rewrite (IH Hwf _ _ _ E).
    + some_inv H. reflexivity.
  - (* DVar *)
    destruct val; try discriminate. destruct (N.ltb_spec tag 256); [|discriminate].
    rewrite assoc_map in H. destruct (assoc tag alts) as [da|] eqn:A; [|discriminate]. cbn [option_map] in H.
    destruct (enc da val) as [b'|] eqn:E; [|discriminate]. some_inv H. cbn [app].
    rewrite assoc_map, A. cbn [option_map].
    pose proof (assoc_In _ _ _ A) as Hin. rewrite Forall_forall in IH. rewrite forallb_forall in Hwf.
    now rewrite (IH _ Hin (Hwf _ Hin) _ _ _ E).
  - (* DMap *)
    destruct val as [| |es| |]; try discriminate.
    apply andb_true_iff in Hwf. destruct Hwf as [Hwf Hv]. apply andb_true_iff in Hwf. destruct Hwf as [Hm Hk].
    destruct (N.ltb_spec (N.of_nat (length es)) two64) as [H64|]; cbn [andb] in H; [|discriminate].
    destruct (strict_sorted (map entry_key es)) eqn:Hs; [|discriminate].
    destruct (enc_all _ es) as [b'|] eqn:E; [|discriminate]. some_inv H.
    erewrite dec_counted_enc with (m := (min_size k + min_size v)%nat);
      [rewrite Hs; reflexivity|apply pair_rt; [exact (IHk Hk)|exact (IHv Hv)]| | | |assumption|exact E].
    + apply Nat.leb_le in Hm. exact Hm.
    + apply pair_enc_min; apply enc_min_size.
    + rewrite unlimited_eq. rewrite two64_eq in H64. lia.
  - (* DStruct *)
    destruct val as [| |vs| |]; try discriminate.
    assert (G : seq_all (map dec ds) (b ++ r) = Some (vs, r)); [|now rewrite G].
    revert vs b H. induction IH as [|d0 ds Hd _ IHds]; intros vs b H; cbn [map enc_zip seq_all forallb] in *.
    + destruct vs; [|discriminate]. some_inv H. reflexivity.
    + destruct vs as [|v0 vs]; [discriminate|].
      apply andb_true_iff in Hwf. destruct Hwf as [Hw0 Hws].
      destruct (enc d0 v0) as [a|] eqn:E0; [|discriminate].
      destruct (enc_zip (map enc ds) vs) as [b'|] eqn:E1; [|discriminate].
      some_inv H. rewrite <- app_assoc, (Hd Hw0 _ _ _ E0), (IHds Hws _ _ E1). reflexivity.
Qed.
