(* C17 — proofs about Model/StateKV.v: import is a right inverse of export on key-value sets. *)
From JamV Require Import Base.Bytes Proofs.BytesP Model.StateKV.
From Coq Require Import Permutation.
From Coq Require Import ZifyBool ZifyNat ZifyN.
Local Open Scope N_scope.

(* ---------------------------------------------------------------------------------------------- *)
(* generic list facts *)

Lemma NoDup_app_intro {A} (a b : list A) :
  NoDup a -> NoDup b -> (forall x, In x a -> In x b -> False) -> NoDup (a ++ b).
Proof.
  induction a as [|x a IH]; intros Ha Hb Hd; cbn; [assumption|].
  inversion Ha; subst. constructor.
  - rewrite in_app_iff. intros [?|?]; [contradiction|]. eapply Hd; [left; reflexivity|eassumption].
  - apply IH; auto. intros y Hy. apply Hd. now right.
Qed.

Lemma NoDup_flat_map_intro {A B} (f : A -> list B) (l : list A) :
  NoDup l -> (forall x, In x l -> NoDup (f x)) ->
  (forall x y b, In x l -> In y l -> x <> y -> In b (f x) -> In b (f y) -> False) ->
  NoDup (flat_map f l).
Proof.
  induction l as [|x l IH]; intros Hl Hf Hd; cbn; [constructor|].
  inversion Hl; subst. apply NoDup_app_intro.
  - apply Hf. now left.
  - apply IH; auto.
    + intros y Hy. apply Hf. now right.
    + intros y z b Hy Hz. apply Hd; now right.
  - intros b Hb Hb'. apply in_flat_map in Hb'. destruct Hb' as [y [Hy Hby]].
    apply (Hd x y b); auto; [now left|now right|]. intros ->. contradiction.
Qed.

Lemma NoDup_map_inj_in {A B} (f : A -> B) (l : list A) :
  NoDup l -> (forall x y, In x l -> In y l -> f x = f y -> x = y) -> NoDup (map f l).
Proof.
  induction l as [|x l IH]; intros Hl Hi; cbn; [constructor|].
  inversion Hl; subst. constructor.
  - rewrite in_map_iff. intros [y [Hy Hin]]. assert (y = x) by (apply Hi; auto; [now right|now left]).
    subst. contradiction.
  - apply IH; auto. intros y z Hy Hz. apply Hi; now right.
Qed.

Lemma NoDup_map_fst_fun {A B} (l : list (A * B)) k v v' :
  NoDup (map fst l) -> In (k, v) l -> In (k, v') l -> v = v'.
Proof.
  induction l as [|[k0 v0] l IH]; cbn; intros Hn H1 H2; [contradiction|].
  inversion Hn; subst.
  destruct H1 as [E1|H1], H2 as [E2|H2].
  - congruence.
  - inversion E1; subst. exfalso. apply H3. apply in_map_iff. exists (k, v'). auto.
  - inversion E2; subst. exfalso. apply H3. apply in_map_iff. exists (k, v). auto.
  - eauto.
Qed.

Lemma NoDup_map_fst_NoDup {A B} (l : list (A * B)) : NoDup (map fst l) -> NoDup l.
Proof.
  induction l as [|[k v] l IH]; cbn; intros Hn; [constructor|].
  inversion Hn; subst. constructor; auto.
  intros Hin. apply H1. apply in_map_iff. exists (k, v). auto.
Qed.

Lemma forallb_false_ex {A} (f : A -> bool) (l : list A) :
  forallb f l = false -> exists x, In x l /\ f x = false.
Proof.
  induction l as [|x l IH]; cbn; [discriminate|].
  destruct (f x) eqn:E; cbn.
  - intros Hf. destruct (IH Hf) as [y [Hy Ey]]. exists y. auto.
  - intros _. exists x. auto.
Qed.

(* ---------------------------------------------------------------------------------------------- *)
(* keys *)

Lemma le_enc4_shape s : exists n0 n1 n2 n3, le_enc 4 s = [n0; n1; n2; n3].
Proof. cbn [le_enc]. eauto. Qed.

Lemma le_dec_enc4 s : s < 2 ^ 32 -> le_dec (le_enc 4 s) = s.
Proof.
  intros Hs. rewrite le_dec_enc. change (256 ^ N.of_nat 4) with (2 ^ 32). now apply N.mod_small.
Qed.

Lemma le_enc4_inj s s' : s < 2 ^ 32 -> s' < 2 ^ 32 -> le_enc 4 s = le_enc 4 s' -> s = s'.
Proof. intros Hs Hs' E. rewrite <- (le_dec_enc4 s Hs), <- (le_dec_enc4 s' Hs'). now rewrite E. Qed.

Lemma zeros_all n : bytes_eqb (zeros n) (zeros n) = true.
Proof. now apply bytes_eqb_eq. Qed.

Lemma idx16_in i : In i idx16 <-> 1 <= i <= 16.
Proof.
  unfold idx16. cbn [In]. split.
  - intros Hi. repeat (destruct Hi as [<-|Hi]; [lia|]). contradiction.
  - intros Hi.
    assert (i = 1 \/ i = 2 \/ i = 3 \/ i = 4 \/ i = 5 \/ i = 6 \/ i = 7 \/ i = 8 \/ i = 9 \/ i = 10 \/
            i = 11 \/ i = 12 \/ i = 13 \/ i = 14 \/ i = 15 \/ i = 16) as Hd by lia.
    repeat (destruct Hd as [->|Hd]; [tauto|]). subst. tauto.
Qed.

Lemma idx16_nodup : NoDup idx16.
Proof.
  unfold idx16. repeat (constructor; [cbn [In]; intros Hc; repeat (destruct Hc as [Hc|Hc]; [discriminate|]); contradiction|]).
  constructor.
Qed.

Lemma fixed_index_some k i : fixed_index k = Some i -> k = key_fixed i /\ 1 <= i <= 16.
Proof.
  destruct k as [|j t]; cbn [fixed_index]; [discriminate|].
  destruct ((1 <=? j) && (j <=? 16) && bytes_eqb t (zeros 30)) eqn:E; [|discriminate].
  intros [= <-]. apply andb_true_iff in E. destruct E as [E Et]. apply andb_true_iff in E.
  apply bytes_eqb_eq in Et. subst t. split; [reflexivity|lia].
Qed.

Lemma fixed_index_key_fixed i : 1 <= i <= 16 -> fixed_index (key_fixed i) = Some i.
Proof.
  intros Hi. unfold key_fixed. cbn [fixed_index]. rewrite zeros_all.
  replace (1 <=? i) with true by lia. replace (i <=? 16) with true by lia. reflexivity.
Qed.

Lemma key_fixed_inj i j : key_fixed i = key_fixed j -> i = j.
Proof. unfold key_fixed. congruence. Qed.

Lemma info_sid_some k s : info_sid k = Some s -> k = key_svc_idx 255 s /\ s < 2 ^ 32.
Proof.
  destruct k as [|k0 [|n0 [|z0 [|n1 [|z1 [|n2 [|z2 [|n3 t]]]]]]]]; cbn [info_sid]; try discriminate.
  destruct ((k0 =? 255) && (z0 =? 0) && (z1 =? 0) && (z2 =? 0) && bytes_eqb t (zeros 23) && wf_bytes [n0; n1; n2; n3]) eqn:E;
    [|discriminate].
  intros [= <-].
  repeat (apply andb_true_iff in E; let E' := fresh "E" in destruct E as [E E']).
  apply bytes_eqb_eq in E1. subst t.
  apply N.eqb_eq in E, E4, E3, E2. subst.
  pose proof (le_enc_dec [n0; n1; n2; n3] E0) as Hr. cbn [length] in Hr.
  pose proof (le_dec_lt [n0; n1; n2; n3] E0) as Hl. cbn [length] in Hl.
  change (256 ^ N.of_nat 4) with (2 ^ 32) in Hl.
  split; [|exact Hl].
  change (255 :: n0 :: 0 :: n1 :: 0 :: n2 :: 0 :: n3 :: zeros 23 = key_svc_idx 255 (le_dec [n0; n1; n2; n3])).
  unfold key_svc_idx. rewrite Hr. reflexivity.
Qed.

Lemma info_sid_key s : s < 2 ^ 32 -> info_sid (key_svc_idx 255 s) = Some s.
Proof.
  intros Hs. unfold key_svc_idx.
  pose proof (le_enc_wf 4 s) as Hw. pose proof (le_dec_enc4 s Hs) as Hd.
  destruct (le_enc4_shape s) as (n0 & n1 & n2 & n3 & E). rewrite E in *.
  cbn [app info_sid]. rewrite Hw, zeros_all. cbn. now rewrite <- Hd.
Qed.

Lemma fixed_index_info_key s : fixed_index (key_svc_idx 255 s) = None.
Proof.
  unfold key_svc_idx. destruct (le_enc4_shape s) as (n0 & n1 & n2 & n3 & E). rewrite E.
  reflexivity.
Qed.

Lemma info_sid_key_fixed i : i <= 16 -> info_sid (key_fixed i) = None.
Proof.
  intros Hi. unfold key_fixed. cbn. replace (i =? 255) with false by lia. reflexivity.
Qed.

Lemma key_svc_idx_inj s s' : s < 2 ^ 32 -> s' < 2 ^ 32 -> key_svc_idx 255 s = key_svc_idx 255 s' -> s = s'.
Proof.
  intros Hs Hs' E. pose proof (info_sid_key s Hs) as E1. rewrite E, (info_sid_key s' Hs') in E1. congruence.
Qed.

Ltac perm_mid :=
  rewrite <- ?app_assoc; cbn [app]; rewrite <- ?app_assoc;
  first [reflexivity | symmetry; apply Permutation_middle | apply Permutation_middle].

Section StateKVProofs.
  Variable H : bytes -> bytes.
  Variable comp : Type.
  Variable enc_comp : N -> comp -> bytes.
  Variable dec_comp : N -> bytes -> option comp.
  Variable zero_comp : N -> comp.
  Variable sinfo : Type.
  Variable enc_info : sinfo -> bytes.
  Variable dec_info : bytes -> option sinfo.
  Variable zero_info : sinfo.
  Variable tslots : Type.
  Variable enc_ts : tslots -> bytes.
  Variable dec_ts : bytes -> option tslots.

  (* which values the encoders are defined on (well-typed values; a partial encoder is made total by
     any junk outside) *)
  Variable comp_ok : N -> comp -> Prop.
  Variable sinfo_ok : sinfo -> Prop.
  Variable ts_ok : tslots -> Prop.

  (* the codec facts used (C11 round trip on well-typed values, C13 canonicity: an accepted input is the
     encoding of the well-typed value it decodes to), as hypotheses of the section *)
  Hypothesis comp_rt : forall i c, comp_ok i c -> dec_comp i (enc_comp i c) = Some c.
  Hypothesis comp_canon : forall i b c, dec_comp i b = Some c -> b = enc_comp i c /\ comp_ok i c.
  Hypothesis info_rt : forall x, sinfo_ok x -> dec_info (enc_info x) = Some x.
  Hypothesis info_canon : forall b x, dec_info b = Some x -> b = enc_info x /\ sinfo_ok x.
  Hypothesis ts_rt : forall t, ts_ok t -> dec_ts (enc_ts t) = Some t.
  Hypothesis ts_canon : forall b t, dec_ts b = Some t -> b = enc_ts t /\ ts_ok t.

  Notation account := (account sinfo tslots).
  Notation state := (state comp sinfo tslots).
  Notation pacc := (pacc sinfo tslots).
  Notation pstate := (pstate comp sinfo tslots).
  Notation key_svc_hash := (key_svc_hash H).
  Notation serialize := (serialize H enc_comp enc_info enc_ts).
  Notation svc_kvs := (svc_kvs H enc_info enc_ts).
  Notation parse := (parse H dec_comp zero_comp dec_info zero_info dec_ts).
  Notation step := (step H dec_comp dec_info (tslots := tslots)).
  Notation phase1 := (phase1 H dec_comp dec_info (tslots := tslots)).
  Notation attach_pre := (attach_pre H dec_ts).
  Notation attach_all := (attach_all H dec_ts (sinfo := sinfo)).
  Notation finalize := (finalize zero_comp zero_info (tslots := tslots)).
  Notation finalize_acc := (finalize_acc zero_info (tslots := tslots)).
  Notation comp_kv := (comp_kv enc_comp).
  Notation info_kv := (info_kv enc_info).
  Notation sto_kv := (sto_kv H).
  Notation pre_kv := (pre_kv H).
  Notation lk_kv := (lk_kv H enc_ts).
  Notation upd_acc := (upd_acc (sinfo := sinfo) (tslots := tslots)).
  Notation empty_pacc := (empty_pacc (sinfo := sinfo) (tslots := tslots)).

  (* ============================================================================================ *)
  (* Part A: whatever is imported, re-exporting the parsed state next to the raw entries gives back
     the imported key-values (no assumption on the hash). *)

  Definition emit_comps (f : N -> option comp) (l : list N) : list kv :=
    flat_map (fun i => match f i with Some c => [comp_kv i c] | None => [] end) l.

  Definition emit_pacc (sa : N * pacc) : list kv :=
    (match p_info (snd sa) with Some x => [info_kv (fst sa) x] | None => [] end)
    ++ map (pre_kv (fst sa)) (p_pre (snd sa)) ++ map (lk_kv (fst sa)) (p_lk (snd sa)).

  Definition emit (ps : pstate) : list kv :=
    emit_comps (ps_comp ps) idx16 ++ flat_map emit_pacc (ps_delta ps).

  Fixpoint lookup_acc (s : N) (d : list (N * pacc)) : option pacc :=
    match d with
    | [] => None
    | (s', a) :: t => if s' =? s then Some a else lookup_acc s t
    end.

  Lemma emit_comps_ext f g l : (forall j, In j l -> f j = g j) -> emit_comps f l = emit_comps g l.
  Proof.
    induction l as [|i l IH]; intros Hfg; cbn; [reflexivity|].
    rewrite (Hfg i) by now left. f_equal. apply IH. intros j Hj. apply Hfg. now right.
  Qed.

  Lemma emit_comps_cons f j l :
    emit_comps f (j :: l) = (match f j with Some c => [comp_kv j c] | None => [] end) ++ emit_comps f l.
  Proof. reflexivity. Qed.

  Lemma emit_comps_set f i c l :
    NoDup l -> In i l -> f i = None ->
    Permutation (emit_comps (fun j => if j =? i then Some c else f j) l) (comp_kv i c :: emit_comps f l).
  Proof.
    induction l as [|j l IH]; intros Hn Hi Hf; [contradiction|].
    inversion Hn; subst. rewrite !emit_comps_cons.
    destruct (N.eqb_spec j i) as [->|Hne].
    - rewrite Hf. cbn [app].
      rewrite (emit_comps_ext _ f l); [reflexivity|].
      intros k Hk. destruct (N.eqb_spec k i) as [->|]; [contradiction|reflexivity].
    - destruct Hi as [->|Hi]; [contradiction|].
      rewrite (IH H3 Hi Hf). apply Permutation_sym, Permutation_middle.
  Qed.

  Lemma emit_pacc_empty s : emit_pacc (s, empty_pacc) = [].
  Proof. reflexivity. Qed.

  Lemma upd_acc_perm s f d new :
    (forall a, lookup_acc s d = Some a \/ (lookup_acc s d = None /\ a = empty_pacc) ->
               Permutation (emit_pacc (s, f a)) (new ++ emit_pacc (s, a))) ->
    Permutation (flat_map emit_pacc (upd_acc s f d)) (new ++ flat_map emit_pacc d).
  Proof.
    induction d as [|[s' a] d IH]; intros Hf.
    - cbn [upd_acc flat_map lookup_acc] in *. rewrite !app_nil_r.
      specialize (Hf empty_pacc (or_intror (conj eq_refl eq_refl))).
      rewrite emit_pacc_empty, app_nil_r in Hf. exact Hf.
    - cbn [upd_acc lookup_acc] in *. destruct (N.eqb_spec s' s) as [->|Hne].
      + cbn [flat_map]. rewrite (Hf a (or_introl eq_refl)). now rewrite app_assoc.
      + cbn [flat_map]. rewrite (IH Hf).
        rewrite !app_assoc. apply Permutation_app_tail, Permutation_app_comm.
  Qed.

  Lemma lookup_acc_in s d a : lookup_acc s d = Some a -> In (s, a) d.
  Proof.
    induction d as [|[s' a'] d IH]; cbn; [discriminate|].
    destruct (N.eqb_spec s' s) as [->|]; [intros [= ->]; now left|intros; right; auto].
  Qed.

  Lemma in_emit_delta sa d kvp : In sa d -> In kvp (emit_pacc sa) -> In kvp (flat_map emit_pacc d).
  Proof. intros. apply in_flat_map. eauto. Qed.

  Lemma emit_empty : emit empty_pstate = [].
  Proof. reflexivity. Qed.

  (* one key-value of the first loop *)
  Lemma step_perm k v ps un ps' un' :
    step k v ps un = Some (ps', un') ->
    ~ In k (map fst (emit ps)) ->
    Permutation (emit ps' ++ un') ((k, v) :: emit ps ++ un).
  Proof.
    unfold StateKV.step. intros Hs Hk.
    destruct (fixed_index k) as [i|] eqn:Ef.
    - destruct (dec_comp i v) as [c|] eqn:Ed; [|discriminate]. inversion Hs; subst; clear Hs.
      apply fixed_index_some in Ef. destruct Ef as [-> Hi].
      apply comp_canon in Ed. destruct Ed as [-> _].
      unfold emit. cbn [ps_comp ps_delta].
      assert (Hnone : ps_comp ps i = None).
      { destruct (ps_comp ps i) as [c0|] eqn:E0; [|reflexivity]. exfalso. apply Hk.
        unfold emit. rewrite map_app, in_app_iff. left.
        apply in_map_iff. exists (comp_kv i c0). split; [reflexivity|].
        unfold emit_comps. apply in_flat_map. exists i. split; [now apply idx16_in|]. rewrite E0. now left. }
      rewrite (emit_comps_set (ps_comp ps) i c idx16 idx16_nodup (proj2 (idx16_in i) Hi) Hnone).
      reflexivity.
    - destruct (info_sid k) as [s|] eqn:Ei.
      + destruct (dec_info v) as [x|] eqn:Ed; [|discriminate]. inversion Hs; subst; clear Hs.
        apply info_sid_some in Ei. destruct Ei as [-> Hs].
        apply info_canon in Ed. destruct Ed as [-> _].
        unfold emit. cbn [ps_comp ps_delta].
        rewrite (upd_acc_perm s (set_info x) (ps_delta ps) [info_kv s x]).
        * perm_mid.
        * intros a Ha. unfold emit_pacc. cbn [fst snd set_info p_info p_pre p_lk].
          assert (Hnone : p_info a = None).
          { destruct Ha as [Ha|[_ ->]]; [|reflexivity].
            destruct (p_info a) as [x0|] eqn:E0; [|reflexivity]. exfalso. apply Hk.
            unfold emit. rewrite map_app, in_app_iff. right.
            apply in_map_iff. exists (info_kv s x0). split; [reflexivity|].
            apply (in_emit_delta (s, a)); [now apply lookup_acc_in|].
            unfold emit_pacc. cbn [fst snd]. rewrite E0. now left. }
          rewrite Hnone. reflexivity.
      + destruct (bytes_eqb k (key_svc_hash (sid_type3 k) (pre_input (H v)))) eqn:Ep.
        * inversion Hs; subst; clear Hs. apply bytes_eqb_eq in Ep.
          unfold emit. cbn [ps_comp ps_delta].
          rewrite (upd_acc_perm (sid_type3 k) (add_pre (H v) v) (ps_delta ps) [(k, v)]).
          -- perm_mid.
          -- intros a _. unfold emit_pacc. cbn [fst snd add_pre p_info p_pre p_lk map].
             unfold StateKV.pre_kv at 1. cbn [fst snd]. rewrite <- Ep.
             perm_mid.
        * inversion Hs; subst; clear Hs. perm_mid.
  Qed.

  Lemma phase1_perm kvs : forall ps un ps' un',
    phase1 kvs ps un = Some (ps', un') ->
    NoDup (map fst kvs) ->
    (forall k, In k (map fst kvs) -> ~ In k (map fst (emit ps ++ un))) ->
    Permutation (emit ps' ++ un') (kvs ++ emit ps ++ un).
  Proof.
    induction kvs as [|[k v] t IH]; intros ps un ps' un' Hp Hn Hd.
    - cbn in Hp. inversion Hp; subst. reflexivity.
    - cbn [StateKV.phase1] in Hp. destruct (step k v ps un) as [[ps1 un1]|] eqn:Es; [|discriminate].
      cbn [map fst] in Hn. inversion Hn; subst.
      assert (Hk : ~ In k (map fst (emit ps))).
      { intros Hin. apply (Hd k); [now left|]. rewrite map_app, in_app_iff. now left. }
      pose proof (step_perm k v ps un ps1 un1 Es Hk) as P1.
      assert (Hd1 : forall k', In k' (map fst t) -> ~ In k' (map fst (emit ps1 ++ un1))).
      { intros k' Hk' Hin.
        apply (Permutation_in _ (Permutation_map fst P1)) in Hin.
        cbn [map fst] in Hin. destruct Hin as [<-|Hin]; [contradiction|].
        apply (Hd k'); [now right|assumption]. }
      rewrite (IH ps1 un1 ps' un' Hp H3 Hd1). rewrite P1.
      cbn [app]. apply Permutation_sym, Permutation_middle.
  Qed.

  (* second loop *)
  Lemma find_remove_perm k un v un' : find_remove k un = Some (v, un') -> Permutation un ((k, v) :: un').
  Proof.
    revert v un'. induction un as [|[k' w] t IH]; intros v un'; cbn [find_remove]; [discriminate|].
    destruct (bytes_eqb k' k) eqn:E.
    - intros [= -> ->]. apply bytes_eqb_eq in E. subst. reflexivity.
    - destruct (find_remove k t) as [[v' t']|]; [|discriminate].
      intros [= -> <-]. rewrite (IH v t' eq_refl). apply perm_swap.
  Qed.

  Lemma attach_pre_perm s pres : forall lks un lks' un',
    attach_pre s pres lks un = Some (lks', un') ->
    Permutation (map (lk_kv s) lks' ++ un') (map (lk_kv s) lks ++ un).
  Proof.
    induction pres as [|[h v] t IH]; intros lks un lks' un'; cbn [StateKV.attach_pre].
    - intros [= -> ->]. reflexivity.
    - destruct (find_remove (key_svc_hash s (lk_input (h, len32 v))) un) as [[lv un1]|] eqn:Ef.
      + destruct (dec_ts lv) as [ts|] eqn:Ed; [|discriminate].
        intros Ha. rewrite (IH _ _ _ _ Ha).
        apply ts_canon in Ed. destruct Ed as [-> _]. apply find_remove_perm in Ef. rewrite Ef.
        cbn [map]. unfold StateKV.lk_kv at 1. cbn [fst snd]. perm_mid.
      + apply IH.
  Qed.

  Definition same_shape (x y : N * pacc) : Prop :=
    fst x = fst y /\ p_info (snd x) = p_info (snd y) /\ p_pre (snd x) = p_pre (snd y).

  Lemma attach_all_perm d : forall un d' un',
    attach_all d un = Some (d', un') ->
    Permutation (flat_map emit_pacc d' ++ un') (flat_map emit_pacc d ++ un) /\ Forall2 same_shape d d'.
  Proof.
    induction d as [|[s a] t IH]; intros un d' un'; cbn [StateKV.attach_all].
    - intros [= <- <-]. split; [reflexivity|constructor].
    - destruct (attach_pre s (p_pre a) (p_lk a) un) as [[lks un1]|] eqn:Ea; [|discriminate].
      destruct (attach_all t un1) as [[d1 un2]|] eqn:Et; [|discriminate].
      intros [= <- <-]. destruct (IH _ _ _ Et) as [P1 F1]. apply attach_pre_perm in Ea.
      split; [|constructor; [repeat split|assumption]].
      cbn [flat_map]. unfold emit_pacc at 1 3. cbn [fst snd set_lk p_info p_pre p_lk].
      rewrite <- !app_assoc. apply Permutation_app_head. apply Permutation_app_head.
      rewrite P1. rewrite !app_assoc. rewrite (Permutation_app_comm (map (lk_kv s) lks)).
      rewrite (Permutation_app_comm (map (lk_kv s) (p_lk a))). rewrite <- !app_assoc.
      apply Permutation_app_head. exact Ea.
  Qed.

  (* export of the finalized state *)
  Lemma serialize_finalize ps :
    (forall i, In i idx16 -> ps_comp ps i <> None) ->
    (forall s a, In (s, a) (ps_delta ps) -> p_info a <> None) ->
    serialize (finalize ps) = emit ps.
  Proof.
    intros Hc Hi. unfold StateKV.serialize, emit. cbn [StateKV.finalize st_comp st_delta]. f_equal.
    - unfold emit_comps. induction idx16 as [|i l IH]; [reflexivity|].
      cbn [map flat_map]. destruct (ps_comp ps i) eqn:E; [|exfalso; apply (Hc i); [now left|assumption]].
      cbn [app]. f_equal. apply IH. intros j Hj. apply Hc. now right.
    - induction (ps_delta ps) as [|[s a] d IH]; [reflexivity|].
      cbn [map flat_map fst snd]. rewrite IH by (intros s' a' Hin; apply (Hi s' a'); now right). f_equal.
      unfold StateKV.svc_kvs, emit_pacc, StateKV.finalize_acc. cbn [fst snd a_info a_storage a_pre a_lk map app].
      destruct (p_info a) eqn:E; [reflexivity|]. exfalso. apply (Hi s a); [now left|assumption].
  Qed.

  (* components and service informations that are present among the imported keys are set *)
  Lemma step_comp_mono k v ps un ps' un' j :
    step k v ps un = Some (ps', un') -> ps_comp ps j <> None -> ps_comp ps' j <> None.
  Proof.
    unfold StateKV.step. intros Hs Hj.
    destruct (fixed_index k) as [i|].
    - destruct (dec_comp i v); [|discriminate]. inversion Hs; subst. cbn [ps_comp].
      destruct (j =? i); [discriminate|assumption].
    - destruct (info_sid k) as [s|].
      + destruct (dec_info v); [|discriminate]. inversion Hs; subst. exact Hj.
      + destruct (bytes_eqb _ _); inversion Hs; subst; exact Hj.
  Qed.

  Lemma phase1_comp kvs i : forall ps un ps' un',
    phase1 kvs ps un = Some (ps', un') -> 1 <= i <= 16 ->
    ps_comp ps i <> None \/ In (key_fixed i) (map fst kvs) -> ps_comp ps' i <> None.
  Proof.
    induction kvs as [|[k v] t IH]; intros ps un ps' un' Hp Hi Hor; cbn [StateKV.phase1] in Hp.
    - inversion Hp; subst. destruct Hor as [?|[]]. assumption.
    - destruct (step k v ps un) as [[ps1 un1]|] eqn:Es; [|discriminate].
      apply (IH _ _ _ _ Hp Hi).
      destruct Hor as [Hn|[Hk|Hin]]; [left; eapply step_comp_mono; eassumption| |now right].
      left. cbn [fst] in Hk. subst k. unfold StateKV.step in Es. rewrite (fixed_index_key_fixed i Hi) in Es.
      destruct (dec_comp i v); [|discriminate]. inversion Es; subst. cbn [ps_comp]. now rewrite N.eqb_refl.
  Qed.

  Definition has_info (s : N) (d : list (N * pacc)) : Prop :=
    exists a, lookup_acc s d = Some a /\ p_info a <> None.

  Lemma lookup_upd_same s f d :
    lookup_acc s (upd_acc s f d) = Some (f (match lookup_acc s d with Some a => a | None => empty_pacc end)).
  Proof.
    induction d as [|[s' a] d IH]; cbn [StateKV.upd_acc lookup_acc].
    - now rewrite N.eqb_refl.
    - destruct (N.eqb_spec s' s) as [->|Hne]; cbn [lookup_acc].
      + now rewrite N.eqb_refl.
      + destruct (N.eqb_spec s' s); [contradiction|]. exact IH.
  Qed.

  Lemma lookup_upd_other s s' f d : s' <> s -> lookup_acc s' (upd_acc s f d) = lookup_acc s' d.
  Proof.
    intros Hne. induction d as [|[s0 a] d IH]; cbn [StateKV.upd_acc lookup_acc].
    - destruct (N.eqb_spec s s'); [congruence|reflexivity].
    - destruct (N.eqb_spec s0 s) as [->|H0]; cbn [lookup_acc].
      + destruct (N.eqb_spec s s'); [congruence|reflexivity].
      + now rewrite IH.
  Qed.

  Lemma has_info_upd s' s f d :
    (forall a, p_info a <> None -> p_info (f a) <> None) -> has_info s' d -> has_info s' (upd_acc s f d).
  Proof.
    intros Hf [a [Hl Hi]]. destruct (N.eq_dec s' s) as [->|Hne].
    - exists (f a). rewrite lookup_upd_same, Hl. auto.
    - exists a. rewrite lookup_upd_other by assumption. auto.
  Qed.

  Lemma step_info_mono k v ps un ps' un' s :
    step k v ps un = Some (ps', un') -> has_info s (ps_delta ps) -> has_info s (ps_delta ps').
  Proof.
    unfold StateKV.step. intros Hs Hj.
    destruct (fixed_index k) as [i|].
    - destruct (dec_comp i v); [|discriminate]. inversion Hs; subst. exact Hj.
    - destruct (info_sid k) as [s0|].
      + destruct (dec_info v); [|discriminate]. inversion Hs; subst. cbn [ps_delta].
        apply has_info_upd; [|assumption]. intros a _. discriminate.
      + destruct (bytes_eqb _ _); inversion Hs; subst; [|exact Hj]. cbn [ps_delta].
        apply has_info_upd; [|assumption]. intros a Ha. exact Ha.
  Qed.

  Lemma phase1_info kvs s : forall ps un ps' un',
    phase1 kvs ps un = Some (ps', un') -> s < 2 ^ 32 ->
    has_info s (ps_delta ps) \/ In (key_svc_idx 255 s) (map fst kvs) -> has_info s (ps_delta ps').
  Proof.
    induction kvs as [|[k v] t IH]; intros ps un ps' un' Hp Hs Hor; cbn [StateKV.phase1] in Hp.
    - inversion Hp; subst. destruct Hor as [?|[]]. assumption.
    - destruct (step k v ps un) as [[ps1 un1]|] eqn:Es; [|discriminate].
      apply (IH _ _ _ _ Hp Hs).
      destruct Hor as [Hn|[Hk|Hin]]; [left; eapply step_info_mono; eassumption| |now right].
      left. cbn [fst] in Hk. subst k. unfold StateKV.step in Es.
      rewrite fixed_index_info_key, (info_sid_key s Hs) in Es.
      destruct (dec_info v) as [x|]; [|discriminate]. inversion Es; subst. cbn [ps_delta].
      exists (set_info x (match lookup_acc s (ps_delta ps) with Some a => a | None => empty_pacc end)).
      rewrite lookup_upd_same. split; [reflexivity|discriminate].
  Qed.

  (* the service identifiers of the accounts under construction stay pairwise different *)
  Lemma upd_acc_keys s f d : exists l, map fst (upd_acc s f d) = map fst d ++ l /\ (l = [] /\ In s (map fst d) \/ l = [s] /\ ~ In s (map fst d)).
  Proof.
    induction d as [|[s' a] d IH]; cbn [StateKV.upd_acc map fst].
    - exists [s]. split; [reflexivity|right; split; [reflexivity|intros []]].
    - destruct (N.eqb_spec s' s) as [->|Hne]; cbn [map fst].
      + exists []. rewrite app_nil_r. split; [reflexivity|left; split; [reflexivity|now left]].
      + destruct IH as [l [E Hl]]. exists l. rewrite E. split; [reflexivity|].
        destruct Hl as [[-> Hin]|[-> Hin]]; [left; split; [reflexivity|now right]|right; split; [reflexivity|]].
        intros [?|?]; [congruence|contradiction].
  Qed.

  Lemma upd_acc_nodup s f d : NoDup (map fst d) -> NoDup (map fst (upd_acc s f d)).
  Proof.
    intros Hn. destruct (upd_acc_keys s f d) as [l [E [[-> _]|[-> Hin]]]]; rewrite E.
    - now rewrite app_nil_r.
    - apply NoDup_app_intro; [assumption|repeat constructor; intros []|].
      intros x Hx [<-|[]]. contradiction.
  Qed.

  Lemma step_nodup k v ps un ps' un' :
    step k v ps un = Some (ps', un') -> NoDup (map fst (ps_delta ps)) -> NoDup (map fst (ps_delta ps')).
  Proof.
    unfold StateKV.step. intros Hs Hn.
    destruct (fixed_index k) as [i|].
    - destruct (dec_comp i v); [|discriminate]. inversion Hs; subst. exact Hn.
    - destruct (info_sid k) as [s0|].
      + destruct (dec_info v); [|discriminate]. inversion Hs; subst. now apply upd_acc_nodup.
      + destruct (bytes_eqb _ _); inversion Hs; subst; [now apply upd_acc_nodup|exact Hn].
  Qed.

  Lemma phase1_nodup kvs : forall ps un ps' un',
    phase1 kvs ps un = Some (ps', un') -> NoDup (map fst (ps_delta ps)) -> NoDup (map fst (ps_delta ps')).
  Proof.
    induction kvs as [|[k v] t IH]; intros ps un ps' un' Hp Hn; cbn [StateKV.phase1] in Hp.
    - inversion Hp; subst. exact Hn.
    - destruct (step k v ps un) as [[ps1 un1]|] eqn:Es; [|discriminate].
      eapply IH; [eassumption|]. eapply step_nodup; eassumption.
  Qed.

  Lemma lookup_acc_of_in s a d : NoDup (map fst d) -> In (s, a) d -> lookup_acc s d = Some a.
  Proof.
    induction d as [|[s' a'] d IH]; cbn [map fst lookup_acc]; intros Hn Hin; [contradiction|].
    inversion Hn; subst. destruct Hin as [[= -> ->]|Hin].
    - now rewrite N.eqb_refl.
    - destruct (N.eqb_spec s' s) as [->|]; [|auto].
      exfalso. apply H2. apply in_map_iff. exists (s, a). auto.
  Qed.

  Lemma same_shape_keys d d' : Forall2 same_shape d d' -> map fst d = map fst d'.
  Proof. induction 1 as [|x y l l' [E _] _ IH]; cbn; [reflexivity|]. now rewrite E, IH. Qed.

  Lemma same_shape_info d d' s a' :
    Forall2 same_shape d d' -> In (s, a') d' -> exists a, In (s, a) d /\ p_info a = p_info a'.
  Proof.
    induction 1 as [|[s0 a0] [s1 a1] l l' [E [Ei _]] _ IH]; cbn [In]; [intros []|].
    cbn [fst snd] in *. intros [[= -> ->]|Hin].
    - exists a0. subst. auto.
    - destruct (IH Hin) as [a [Ha Hi]]. eauto.
  Qed.

  Lemma finalize_sids ps : map fst (st_delta (finalize ps)) = map fst (ps_delta ps).
  Proof. cbn [StateKV.finalize st_delta]. rewrite map_map. reflexivity. Qed.

  (* Theorem A *)
  Theorem import_export_any kvs st raw :
    NoDup (map fst kvs) ->
    parse kvs = Some (st, raw) ->
    (forall i, In i idx16 -> In (key_fixed i) (map fst kvs)) ->
    (forall s, In s (map fst (st_delta st)) -> s < 2 ^ 32 /\ In (key_svc_idx 255 s) (map fst kvs)) ->
    Permutation (serialize st ++ raw) kvs.
  Proof.
    intros Hn Hp Hfix Hinfo. unfold StateKV.parse in Hp.
    destruct (phase1 kvs empty_pstate []) as [[ps un]|] eqn:E1; [|discriminate].
    destruct (attach_all (ps_delta ps) un) as [[d raw']|] eqn:E2; [|discriminate].
    inversion Hp; subst; clear Hp.
    pose proof (phase1_perm kvs _ _ _ _ E1 Hn) as P1.
    rewrite emit_empty in P1. cbn [app] in P1. rewrite app_nil_r in P1.
    specialize (P1 (fun k _ Hin => Hin)).
    destruct (attach_all_perm _ _ _ _ E2) as [P2 F2].
    pose proof (phase1_nodup kvs _ _ _ _ E1 (NoDup_nil _)) as Hnd.
    rewrite finalize_sids in Hinfo. cbn [ps_delta] in Hinfo.
    rewrite serialize_finalize; cbn [ps_comp ps_delta].
    - unfold emit. cbn [ps_comp ps_delta]. rewrite <- app_assoc. rewrite P2. rewrite app_assoc. exact P1.
    - intros i Hi. apply (phase1_comp kvs i _ _ _ _ E1); [now apply idx16_in|]. right. now apply Hfix.
    - intros s a' Hin.
      destruct (same_shape_info _ _ _ _ F2 Hin) as [a [Ha Ei]]. rewrite <- Ei.
      assert (Hs : In s (map fst d)) by (apply in_map_iff; exists (s, a'); auto).
      destruct (Hinfo s Hs) as [Hlt Hk].
      destruct (phase1_info kvs s _ _ _ _ E1 Hlt (or_intror Hk)) as [a0 [Hl Hi0]].
      rewrite (lookup_acc_of_in s a _ Hnd Ha) in Hl. inversion Hl; subst. exact Hi0.
  Qed.
  (* ============================================================================================ *)
  (* Part B: the export of a well-formed state has pairwise different keys and is imported without
     error, unless a hash coincidence shows among the inputs of that state. *)

  Hypothesis H_len : forall x, length (H x) = 32%nat.

  Notation H27 := (H27 H).
  Notation inputs := (inputs (sinfo := sinfo) (tslots := tslots)).
  Notation values := (values enc_ts (sinfo := sinfo)).
  Notation probes := (probes H enc_ts (sinfo := sinfo)).
  Notation wf_acc := (wf_acc enc_ts (sinfo := sinfo)).
  Notation wf_state := (wf_state enc_ts (comp := comp) (sinfo := sinfo)).
  Notation coll_free := (coll_free H enc_ts (comp := comp) (sinfo := sinfo)).
  Notation coincidence := (coincidence H enc_ts (comp := comp) (sinfo := sinfo)).

  Lemma H27_shape x : exists a0 a1 a2 a3 r, H27 x = a0 :: a1 :: a2 :: a3 :: r.
  Proof.
    assert (Hl : length (H27 x) = 27%nat).
    { unfold StateKV.H27. rewrite firstn_length, H_len. reflexivity. }
    destruct (H27 x) as [|a0 [|a1 [|a2 [|a3 r]]]]; try discriminate. eauto 6.
  Qed.

  Lemma key_svc_hash_eq s x : exists n0 n1 n2 n3 a0 a1 a2 a3 r,
    le_enc 4 s = [n0; n1; n2; n3] /\ H27 x = a0 :: a1 :: a2 :: a3 :: r /\
    key_svc_hash s x = [n0; a0; n1; a1; n2; a2; n3; a3] ++ r.
  Proof.
    destruct (le_enc4_shape s) as (n0 & n1 & n2 & n3 & E).
    destruct (H27_shape x) as (a0 & a1 & a2 & a3 & r & Ea).
    exists n0, n1, n2, n3, a0, a1, a2, a3, r. unfold StateKV.key_svc_hash. rewrite E, Ea. auto.
  Qed.

  Lemma key_svc_hash_inj s s' x y :
    s < 2 ^ 32 -> s' < 2 ^ 32 -> key_svc_hash s x = key_svc_hash s' y -> s = s' /\ H27 x = H27 y.
  Proof.
    intros Hs Hs' E.
    destruct (key_svc_hash_eq s x) as (n0 & n1 & n2 & n3 & a0 & a1 & a2 & a3 & r & En & Ea & Ek).
    destruct (key_svc_hash_eq s' y) as (m0 & m1 & m2 & m3 & b0 & b1 & b2 & b3 & r' & Em & Eb & Ek').
    rewrite Ek, Ek' in E. cbn [app] in E. inversion E; subst.
    split; [apply le_enc4_inj; congruence|congruence].
  Qed.

  Lemma sid_type3_key s x : s < 2 ^ 32 -> sid_type3 (key_svc_hash s x) = s.
  Proof.
    intros Hs.
    destruct (key_svc_hash_eq s x) as (n0 & n1 & n2 & n3 & a0 & a1 & a2 & a3 & r & En & Ea & Ek).
    rewrite Ek. unfold sid_type3. cbn [app nth]. rewrite <- En. now apply le_dec_enc4.
  Qed.

  (* what the exported list consists of *)
  Definition is_entry (s : N) (a : account) (k v : bytes) : Prop :=
    exists x, In x (inputs a) /\ k = key_svc_hash s x /\ In v (values a) /\
      ((exists e, In e (a_lk a) /\ v = enc_ts (snd e)) \/ (exists k0, x = sto_input k0) \/ (exists h0, x = pre_input h0)).

  Lemma in_svc_kvs s a k v :
    In (k, v) (svc_kvs (s, a)) -> (k, v) = info_kv s (a_info a) \/ is_entry s a k v.
  Proof.
    unfold StateKV.svc_kvs. cbn [In]. rewrite !in_app_iff, !in_map_iff.
    intros [E|[[e [E He]]|[[e [E He]]|[e [E He]]]]]; [left; now symmetry|right..];
      inversion E; subst; clear E; unfold is_entry, StateKV.inputs, StateKV.values.
    - exists (sto_input (fst e)). rewrite !in_app_iff, !in_map_iff. repeat split; eauto 7.
    - exists (pre_input (fst e)). rewrite !in_app_iff, !in_map_iff. repeat split; eauto 8.
    - exists (lk_input (fst e)). rewrite !in_app_iff, !in_map_iff. repeat split; eauto 8.
  Qed.

  Lemma in_serialize st k v :
    In (k, v) (serialize st) ->
    (exists i, In i idx16 /\ k = key_fixed i /\ v = enc_comp i (st_comp st i)) \/
    (exists s a, In (s, a) (st_delta st) /\ ((k, v) = info_kv s (a_info a) \/ is_entry s a k v)).
  Proof.
    unfold StateKV.serialize. rewrite in_app_iff, in_map_iff, in_flat_map.
    intros [[i [E Hi]]|[[s a] [Hin Hkv]]].
    - left. inversion E; subst. eauto.
    - right. exists s, a. split; [assumption|]. now apply in_svc_kvs.
  Qed.

  Lemma info_in_serialize st s a : In (s, a) (st_delta st) -> In (info_kv s (a_info a)) (serialize st).
  Proof.
    intros Hin. unfold StateKV.serialize. rewrite in_app_iff, in_flat_map. right.
    exists (s, a). split; [assumption|]. unfold StateKV.svc_kvs. now left.
  Qed.

  Definition no_coinc (st : state) : Prop :=
    forall s a, In (s, a) (st_delta st) -> forall x, In x (inputs a) ->
      reserved_shape (key_svc_hash s x) = false /\
      forall y, In y (inputs a ++ probes a) -> H27 x = H27 y -> x = y.

  Lemma coll_free_true st : coll_free st = true -> no_coinc st.
  Proof.
    unfold StateKV.coll_free, no_coinc. rewrite forallb_forall. intros Hc s a Hin x Hx.
    specialize (Hc (s, a) Hin). cbn [fst snd] in Hc. unfold StateKV.coll_free_acc in Hc.
    rewrite forallb_forall in Hc. specialize (Hc x Hx). apply andb_true_iff in Hc. destruct Hc as [Hr Hc].
    split; [now apply negb_true_iff in Hr|].
    intros y Hy E. rewrite forallb_forall in Hc. specialize (Hc y Hy).
    assert (Eb : bytes_eqb (H27 x) (H27 y) = true) by now apply bytes_eqb_eq.
    rewrite Eb in Hc. cbn in Hc. now apply bytes_eqb_eq.
  Qed.

  Lemma coll_free_false st : coll_free st = false -> coincidence st.
  Proof.
    unfold StateKV.coll_free, StateKV.coincidence. intros Hc.
    apply forallb_false_ex in Hc. destruct Hc as [[s a] [Hin Hc]]. cbn [fst snd] in Hc.
    unfold StateKV.coll_free_acc in Hc. apply forallb_false_ex in Hc. destruct Hc as [x [Hx Hc]].
    exists s, a, x. split; [assumption|split; [assumption|]].
    apply andb_false_iff in Hc. destruct Hc as [Hc|Hc].
    - left. now apply negb_false_iff in Hc.
    - right. apply forallb_false_ex in Hc. destruct Hc as [y [Hy Hc]]. exists y. split; [assumption|].
      destruct (bytes_eqb (H27 x) (H27 y)) eqn:E1; [|discriminate]. cbn in Hc.
      split; [|now apply bytes_eqb_eq].
      intros ->. assert (bytes_eqb y y = true) by now apply bytes_eqb_eq. congruence.
  Qed.

  (* the components, service informations and lookup values of the state are well-typed *)
  Definition valid_state (st : state) : Prop :=
    (forall i, In i idx16 -> comp_ok i (st_comp st i)) /\
    (forall s a, In (s, a) (st_delta st) -> sinfo_ok (a_info a) /\ forall e, In e (a_lk a) -> ts_ok (snd e)).

  Section OneState.
    Variable st : state.
    Hypothesis Hwf : wf_state st.
    Hypothesis Hval : valid_state st.
    Hypothesis Hnc : no_coinc st.

    Lemma wf_sid s a : In (s, a) (st_delta st) -> s < 2 ^ 32.
    Proof. intros Hin. destruct Hwf as [_ Hf]. rewrite Forall_forall in Hf. apply (Hf (s, a) Hin). Qed.

    Lemma wf_acc_of s a : In (s, a) (st_delta st) -> wf_acc a.
    Proof. intros Hin. destruct Hwf as [_ Hf]. rewrite Forall_forall in Hf. apply (Hf (s, a) Hin). Qed.

    Lemma same_acc s a a' : In (s, a) (st_delta st) -> In (s, a') (st_delta st) -> a = a'.
    Proof. destruct Hwf as [Hn _]. now apply NoDup_map_fst_fun. Qed.

    Lemma entry_unreserved s a k v :
      In (s, a) (st_delta st) -> is_entry s a k v -> fixed_index k = None /\ info_sid k = None.
    Proof.
      intros Hin (x & Hx & -> & _). destruct (Hnc s a Hin x Hx) as [Hr _].
      unfold reserved_shape in Hr. destruct (fixed_index _); [discriminate|]. destruct (info_sid _); [discriminate|]. auto.
    Qed.

    Lemma classify_unreserved k v :
      In (k, v) (serialize st) -> fixed_index k = None -> info_sid k = None ->
      exists s a, In (s, a) (st_delta st) /\ is_entry s a k v.
    Proof.
      intros Hin Hf Hi. apply in_serialize in Hin. destruct Hin as [(i & Hi16 & -> & _)|(s & a & Hsa & [E|He])].
      - rewrite fixed_index_key_fixed in Hf by now apply idx16_in. discriminate.
      - inversion E; subst. rewrite info_sid_key in Hi by (eapply wf_sid; eassumption). discriminate.
      - eauto.
    Qed.

    Lemma entry_sid s a k v : In (s, a) (st_delta st) -> is_entry s a k v -> sid_type3 k = s.
    Proof. intros Hin (x & _ & -> & _). apply sid_type3_key. eapply wf_sid; eassumption. Qed.

    (* B1: the exported keys are pairwise different *)
    Lemma svc_keys s a :
      map fst (svc_kvs (s, a)) = key_svc_idx 255 s :: map (key_svc_hash s) (inputs a).
    Proof.
      unfold StateKV.svc_kvs, StateKV.inputs. cbn [map fst StateKV.info_kv]. f_equal.
      rewrite !map_app, !map_map. reflexivity.
    Qed.

    Lemma serialize_keys :
      map fst (serialize st) = map key_fixed idx16 ++ flat_map (fun sa => map fst (svc_kvs sa)) (st_delta st).
    Proof.
      unfold StateKV.serialize. rewrite map_app, map_map. f_equal.
      induction (st_delta st) as [|sa d IH]; [reflexivity|]. cbn [flat_map]. now rewrite map_app, IH.
    Qed.

    Lemma export_keys_nodup : NoDup (map fst (serialize st)).
    Proof.
      rewrite serialize_keys. apply NoDup_app_intro.
      - apply NoDup_map_inj_in; [exact idx16_nodup|]. intros; now apply key_fixed_inj.
      - apply NoDup_flat_map_intro.
        + apply NoDup_map_fst_NoDup. apply Hwf.
        + intros [s a] Hin. rewrite svc_keys. constructor.
          * rewrite in_map_iff. intros [x [E Hx]]. destruct (Hnc s a Hin x Hx) as [Hr _].
            unfold reserved_shape in Hr. rewrite E, fixed_index_info_key, info_sid_key in Hr by (eapply wf_sid; eassumption).
            discriminate.
          * apply NoDup_map_inj_in; [apply (wf_acc_of s a Hin)|].
            intros x y Hx Hy E. apply key_svc_hash_inj in E; try (eapply wf_sid; eassumption).
            destruct (Hnc s a Hin x Hx) as [_ Hc]. apply Hc; [|tauto]. rewrite in_app_iff. now left.
        + intros [s a] [s' a'] k Hin Hin' Hne. rewrite !svc_keys. cbn [In]. rewrite !in_map_iff.
          pose proof (wf_sid s a Hin) as Hs. pose proof (wf_sid s' a' Hin') as Hs'.
          assert (Hss : s <> s') by (intros ->; apply Hne; f_equal; eapply same_acc; eassumption).
          intros [E|[x [E Hx]]] [E'|[y [E' Hy]]]; subst k.
          * apply Hss. now apply key_svc_idx_inj.
          * destruct (Hnc s' a' Hin' y Hy) as [Hr _]. unfold reserved_shape in Hr.
            rewrite E', fixed_index_info_key, info_sid_key in Hr by assumption. discriminate.
          * destruct (Hnc s a Hin x Hx) as [Hr _]. unfold reserved_shape in Hr.
            rewrite <- E', fixed_index_info_key, info_sid_key in Hr by assumption. discriminate.
          * apply Hss. symmetry in E'. now apply key_svc_hash_inj in E'.
      - intros k. rewrite in_map_iff, in_flat_map. intros [i [<- Hi]] [[s a] [Hin Hk]].
        rewrite svc_keys in Hk. cbn [In] in Hk. rewrite in_map_iff in Hk. destruct Hk as [E|[x [E Hx]]].
        + pose proof (fixed_index_info_key s) as Hf. rewrite E, fixed_index_key_fixed in Hf by now apply idx16_in.
          discriminate.
        + destruct (Hnc s a Hin x Hx) as [Hr _]. unfold reserved_shape in Hr.
          rewrite E, fixed_index_key_fixed in Hr by now apply idx16_in. discriminate.
    Qed.

    (* B2: import of the exported entries, in any order, raises no error *)
    Lemma step_total k v ps un :
      In (k, v) (serialize st) -> exists ps' un', step k v ps un = Some (ps', un').
    Proof.
      intros Hin. unfold StateKV.step.
      destruct (fixed_index k) as [i|] eqn:Ef.
      - apply fixed_index_some in Ef. destruct Ef as [-> Hi].
        apply in_serialize in Hin. destruct Hin as [(j & Hj & E & ->)|(s & a & Hsa & [E|He])].
        + apply key_fixed_inj in E. subst j. rewrite comp_rt by (apply Hval; assumption). eauto.
        + unfold StateKV.info_kv in E. injection E; intros; lia.
        + destruct (entry_unreserved s a _ v Hsa He) as [Hf _]. rewrite fixed_index_key_fixed in Hf by assumption.
          discriminate.
      - destruct (info_sid k) as [s0|] eqn:Ei.
        + apply in_serialize in Hin. destruct Hin as [(j & Hj & -> & ->)|(s & a & Hsa & [E|He])].
          * rewrite info_sid_key_fixed in Ei by (apply idx16_in in Hj; lia). discriminate.
          * inversion E; subst. rewrite info_rt by (apply (proj2 Hval s a Hsa)). eauto.
          * destruct (entry_unreserved s a _ v Hsa He) as [_ Hi]. congruence.
        + destruct (bytes_eqb _ _); eauto.
    Qed.

    Definition un_ok (un : list kv) : Prop :=
      forall k v, In (k, v) un -> In (k, v) (serialize st) /\ fixed_index k = None /\ info_sid k = None.

    Definition key_unres (k : bytes) : Prop := fixed_index k = None /\ info_sid k = None.

    Definition pre_ok (s' : N) (pres : list (bytes * bytes)) : Prop :=
      forall h v, In (h, v) pres -> h = H v /\
        exists k', In (k', v) (serialize st) /\ sid_type3 k' = s' /\ fixed_index k' = None /\ info_sid k' = None /\
                   k' = key_svc_hash s' (pre_input h).

    Definition lks_ok (s' : N) (lks : list ((bytes * N) * tslots)) : Prop :=
      forall e, In e lks -> key_unres (key_svc_hash s' (lk_input (fst e))).

    Definition acc_ok (s' : N) (a' : pacc) : Prop :=
      In (key_svc_idx 255 s') (map fst (serialize st)) /\ s' < 2 ^ 32 /\ pre_ok s' (p_pre a') /\ lks_ok s' (p_lk a') /\
      (forall x, p_info a' = Some x -> sinfo_ok x).

    Definition comps_ok (ps : pstate) : Prop := forall i c, ps_comp ps i = Some c -> comp_ok i c.

    Definition delta_ok (d : list (N * pacc)) : Prop := forall s' a', In (s', a') d -> acc_ok s' a'.

    Lemma upd_acc_ok s f d :
      delta_ok d -> (forall a, In (s, a) d -> acc_ok s (f a)) -> acc_ok s (f empty_pacc) -> delta_ok (upd_acc s f d).
    Proof.
      intros Hd Hf He. induction d as [|[s0 a0] d IH]; cbn [StateKV.upd_acc].
      - intros s' a' [[= <- <-]|[]]. exact He.
      - destruct (N.eqb_spec s0 s) as [->|Hne].
        + intros s' a' [[= <- <-]|Hin]; [apply Hf; now left|apply Hd; now right].
        + intros s' a' [[= <- <-]|Hin]; [apply Hd; now left|].
          apply IH; [intros s1 a1 H1; apply Hd; now right|intros a1 H1; apply Hf; now right|assumption].
    Qed.

    Lemma step_ok k v ps un ps' un' :
      In (k, v) (serialize st) -> step k v ps un = Some (ps', un') ->
      un_ok un -> delta_ok (ps_delta ps) -> comps_ok ps -> un_ok un' /\ delta_ok (ps_delta ps') /\ comps_ok ps'.
    Proof.
      intros Hin Hs Hu Hd Hc. unfold StateKV.step in Hs.
      destruct (fixed_index k) as [i|] eqn:Ef.
      - destruct (dec_comp i v) as [c|] eqn:Edc; [|discriminate]. inversion Hs; subst. split; [assumption|split; [assumption|]].
        intros j c' Hj. cbn [ps_comp] in Hj. destruct (j =? i) eqn:Eji.
        + apply N.eqb_eq in Eji. subst j. inversion Hj; subst. apply (comp_canon i v c' Edc).
        + now apply Hc.
      - destruct (info_sid k) as [s0|] eqn:Ei.
        + destruct (dec_info v) as [x|] eqn:Edi; [|discriminate]. inversion Hs; subst; clear Hs.
          split; [assumption|]. split; [|exact Hc].
          pose proof (proj2 (info_canon v x Edi)) as Hxok.
          cbn [ps_delta]. apply info_sid_some in Ei. destruct Ei as [-> Hs0].
          assert (Hk : In (key_svc_idx 255 s0) (map fst (serialize st))).
          { apply in_map_iff. exists (key_svc_idx 255 s0, v). auto. }
          apply upd_acc_ok; [assumption| |].
          * intros a Ha. destruct (Hd s0 a Ha) as (_ & _ & Hp & Hl & _).
            split; [assumption|split; [assumption|split; [exact Hp|split; [exact Hl|]]]].
            cbn [set_info p_info]. intros x0 [= <-]. exact Hxok.
          * split; [assumption|split; [assumption|split; [intros h w []|split; [intros e []|]]]].
            cbn [set_info p_info]. intros x0 [= <-]. exact Hxok.
        + destruct (bytes_eqb k (key_svc_hash (sid_type3 k) (pre_input (H v)))) eqn:Ep;
            inversion Hs; subst; clear Hs.
          * split; [assumption|]. split; [|exact Hc]. cbn [ps_delta].
            destruct (classify_unreserved k v Hin Ef Ei) as (s & a & Hsa & He).
            pose proof (entry_sid s a k v Hsa He) as Es. rewrite Es.
            assert (Hk : In (key_svc_idx 255 s) (map fst (serialize st))).
            { apply in_map_iff. exists (info_kv s (a_info a)). split; [reflexivity|now apply info_in_serialize]. }
            assert (Hnew : forall pres, pre_ok s pres -> pre_ok s ((H v, v) :: pres)).
            { intros pres Hp h w [[= <- <-]|Hw]; [|now apply Hp]. split; [reflexivity|]. exists k.
              apply bytes_eqb_eq in Ep. rewrite Es in Ep. auto 6. }
            apply upd_acc_ok; [assumption| |].
            -- intros a0 Ha0. destruct (Hd s a0 Ha0) as (_ & Hlt & Hp & Hl & Hio).
               split; [assumption|split; [assumption|split; [|split]]].
               ++ cbn [add_pre p_pre]. now apply Hnew.
               ++ exact Hl.
               ++ exact Hio.
            -- split; [assumption|split; [eapply wf_sid; eassumption|split; [|split]]].
               ++ cbn [add_pre p_pre StateKV.empty_pacc]. apply Hnew. intros h w [].
               ++ intros e [].
               ++ cbn. intros x0 Hx0. discriminate.
          * split; [|split; assumption]. intros k' v' [[= <- <-]|Hin']; [auto|now apply Hu].
    Qed.

    Lemma phase1_total kvs : forall ps un,
      (forall kvp, In kvp kvs -> In kvp (serialize st)) -> un_ok un -> delta_ok (ps_delta ps) -> comps_ok ps ->
      exists ps' un', phase1 kvs ps un = Some (ps', un') /\ un_ok un' /\ delta_ok (ps_delta ps') /\ comps_ok ps'.
    Proof.
      induction kvs as [|[k v] t IH]; intros ps un Hall Hu Hd Hc; cbn [StateKV.phase1].
      - eauto 6.
      - assert (Hin : In (k, v) (serialize st)) by (apply Hall; now left).
        destruct (step_total k v ps un Hin) as (ps1 & un1 & Es). rewrite Es.
        destruct (step_ok k v ps un ps1 un1 Hin Es Hu Hd Hc) as (Hu1 & Hd1 & Hc1).
        apply IH; auto. intros kvp Hk. apply Hall. now right.
    Qed.

    Lemma find_remove_in k un v un' :
      find_remove k un = Some (v, un') -> In (k, v) un /\ (forall kvp, In kvp un' -> In kvp un).
    Proof.
      intros Hf. apply find_remove_perm in Hf. split.
      - apply (Permutation_in _ (Permutation_sym Hf)). now left.
      - intros kvp Hin. apply (Permutation_in _ (Permutation_sym Hf)). now right.
    Qed.

    Lemma le_enc4_prefix n t a b c d t' :
      le_enc 4 n ++ t = [a; b; c; d] ++ t' -> n < 2 ^ 32 -> n = le_dec [a; b; c; d].
    Proof.
      intros E Hn. destruct (le_enc4_shape n) as (n0 & n1 & n2 & n3 & En). rewrite En in E.
      cbn [app] in E. inversion E; subst. rewrite <- En. symmetry. now apply le_dec_enc4.
    Qed.

    Lemma len32_wf v : wf_val v -> len32 v = N.of_nat (length v) /\ len32 v < 2 ^ 32 - 2.
    Proof.
      unfold StateKV.wf_val, len32. intros Hv. rewrite N.mod_small; [auto|].
      eapply N.lt_trans; [exact Hv|]. reflexivity.
    Qed.

    (* the entry found for a probed lookup key decodes *)
    Lemma probe_decodes s' k' v lk lv :
      In (k', v) (serialize st) -> fixed_index k' = None -> info_sid k' = None -> sid_type3 k' = s' ->
      In (lk, lv) (serialize st) -> fixed_index lk = None -> info_sid lk = None ->
      lk = key_svc_hash s' (lk_input (H v, len32 v)) -> s' < 2 ^ 32 ->
      exists ts, dec_ts lv = Some ts.
    Proof.
      intros Hin' Hf' Hi' Hs' Hin Hf Hi Elk Hlt.
      destruct (classify_unreserved k' v Hin' Hf' Hi') as (s2 & a2 & Hsa2 & He2).
      destruct (classify_unreserved lk lv Hin Hf Hi) as (s & a & Hsa & He).
      pose proof (entry_sid s2 a2 k' v Hsa2 He2) as E2. rewrite Hs' in E2. subst s2.
      destruct He as (x & Hx & Ek & Hlv & Hkind).
      rewrite Elk in Ek. apply key_svc_hash_inj in Ek; [|assumption|eapply wf_sid; eassumption].
      destruct Ek as [<- EH].
      assert (a2 = a) by (eapply same_acc; eassumption). subst a2.
      destruct He2 as (_ & _ & _ & Hv & _).
      destruct Hkind as [[e [He ->]]|Hkind];
        [rewrite ts_rt by (apply (proj2 (proj2 Hval _ a Hsa) e He)); eauto|]. exfalso.
      set (y := lk_input (H v, len32 v)) in *.
      assert (Hy : In y (inputs a ++ probes a)).
      { rewrite in_app_iff. right. unfold StateKV.probes. apply in_map_iff. exists v. auto. }
      destruct (Hnc s' a Hsa x Hx) as [_ Hc]. specialize (Hc y Hy (eq_sym EH)).
      destruct (wf_acc_of s' a Hsa) as [_ Hvals]. rewrite Forall_forall in Hvals.
      destruct (len32_wf v (Hvals v Hv)) as [_ Hl].
      assert (Hl' : len32 v < 2 ^ 32) by (eapply N.lt_trans; [exact Hl|reflexivity]).
      subst y. unfold lk_input in Hc. cbn [fst snd] in Hc.
      destruct Hkind as [[k0 ->]|[h0 ->]]; unfold sto_input, pre_input in Hc; symmetry in Hc;
        apply le_enc4_prefix in Hc; try assumption; rewrite Hc in Hl; vm_compute in Hl; discriminate.
    Qed.

    Lemma attach_pre_total s' pres : forall lks un,
      s' < 2 ^ 32 -> pre_ok s' pres -> un_ok un -> lks_ok s' lks ->
      exists lks' un', attach_pre s' pres lks un = Some (lks', un') /\ un_ok un' /\ lks_ok s' lks'.
    Proof.
      induction pres as [|[h v] t IH]; intros lks un Hlt Hp Hu Hl; cbn [StateKV.attach_pre].
      - eauto.
      - assert (Hp' : pre_ok s' t) by (intros h' v' Hin; apply Hp; now right).
        destruct (Hp h v (or_introl eq_refl)) as (-> & k' & Hin' & Hs' & Hf' & Hi' & _).
        destruct (find_remove (key_svc_hash s' (lk_input (H v, len32 v))) un) as [[lv un1]|] eqn:Ef.
        + apply find_remove_in in Ef. destruct Ef as [Hin Hsub].
          destruct (Hu _ _ Hin) as (Hser & Hf & Hi).
          destruct (probe_decodes s' k' v _ lv Hin' Hf' Hi' Hs' Hser Hf Hi eq_refl Hlt) as [ts ->].
          apply IH; auto.
          * intros k0 v0 H0. apply Hu. now apply Hsub.
          * intros e [<-|He]; [split; assumption|now apply Hl].
        + apply IH; auto.
    Qed.

    Lemma attach_all_total d : forall un,
      delta_ok d -> un_ok un -> exists d' un', attach_all d un = Some (d', un') /\ un_ok un' /\ delta_ok d'.
    Proof.
      induction d as [|[s' a'] t IH]; intros un Hd Hu; cbn [StateKV.attach_all].
      - exists [], un. split; [reflexivity|split; [assumption|]]. intros s a [].
      - destruct (Hd s' a' (or_introl eq_refl)) as (Hk & Hlt & Hp & Hl & Hio).
        destruct (attach_pre_total s' (p_pre a') (p_lk a') un Hlt Hp Hu Hl) as (lks & un1 & -> & Hu1 & Hl1).
        destruct (IH un1) as (d' & un2 & -> & Hu2 & Hd2); [intros s1 a1 H1; apply Hd; now right|assumption|].
        exists ((s', set_lk lks a') :: d'), un2. split; [reflexivity|split; [assumption|]].
        intros s1 a1 [[= <- <-]|H1]; [|now apply Hd2].
        split; [assumption|split; [assumption|split; [exact Hp|split; [exact Hl1|exact Hio]]]].
    Qed.

    (* the entries of a finalized account have unreserved keys *)
    Lemma finalize_entry_unres s' pa k v :
      acc_ok s' pa -> is_entry s' (finalize_acc pa) k v -> key_unres k.
    Proof.
      intros (_ & _ & Hp & Hl & _) (x & Hx & -> & _).
      unfold StateKV.inputs, StateKV.finalize_acc in Hx. cbn [a_storage a_pre a_lk map app] in Hx.
      rewrite in_app_iff, !in_map_iff in Hx. destruct Hx as [[[h w] [<- He]]|[e [<- He]]].
      - destruct (Hp h w He) as (_ & k' & _ & _ & Hf & Hi & ->). cbn [fst]. split; assumption.
      - now apply Hl.
    Qed.

    (* what the import recovers: the round trip, every component, exactly the services of the state with
       their service information; the raw entries are service entries of the state *)
    Definition recovered (kvs : list kv) (st' : state) (raw : list kv) : Prop :=
      Permutation (serialize st' ++ raw) kvs /\
      (forall i, In i idx16 -> st_comp st' i = st_comp st i) /\
      (forall s a, In (s, a) (st_delta st) -> exists a', In (s, a') (st_delta st') /\ a_info a' = a_info a) /\
      (forall s a', In (s, a') (st_delta st') -> exists a, In (s, a) (st_delta st)) /\
      (forall k v, In (k, v) raw -> exists s a, In (s, a) (st_delta st) /\ is_entry s a k v).

    Theorem roundtrip_no_coincidence kvs :
      Permutation kvs (serialize st) ->
      exists st' raw, parse kvs = Some (st', raw) /\ recovered kvs st' raw.
    Proof.
      intros P.
      assert (Hall : forall kvp, In kvp kvs -> In kvp (serialize st)) by (intros kvp; apply Permutation_in; assumption).
      destruct (phase1_total kvs empty_pstate [] Hall) as (ps & un & E1 & Hu & Hd & Hco);
        [intros k v []|intros s a []|intros i c; discriminate|].
      destruct (attach_all_total (ps_delta ps) un Hd Hu) as (d & raw & E2 & Hu2 & Hd2).
      set (st' := finalize {| ps_comp := ps_comp ps; ps_delta := d |}).
      assert (Hp : parse kvs = Some (st', raw)).
      { unfold StateKV.parse. now rewrite E1, E2. }
      exists st', raw. split; [exact Hp|].
      pose proof export_keys_nodup as Hnd.
      assert (P' : Permutation (serialize st' ++ raw) kvs).
      { apply import_export_any; [| exact Hp | |].
        - apply (Permutation_NoDup (Permutation_map fst (Permutation_sym P))). exact Hnd.
        - intros i Hi. apply (Permutation_in _ (Permutation_map fst (Permutation_sym P))).
          rewrite serialize_keys, in_app_iff. left. now apply in_map.
        - intros s Hs. unfold st' in Hs. rewrite finalize_sids in Hs. cbn [ps_delta] in Hs.
          apply in_map_iff in Hs. destruct Hs as [[s0 a0] [<- Hin]]. cbn [fst].
          destruct (Hd2 s0 a0 Hin) as (Hk & Hlt & _). split; [assumption|].
          apply (Permutation_in _ (Permutation_map fst (Permutation_sym P))). exact Hk. }
      assert (Hsub : forall kvp, In kvp (serialize st' ++ raw) -> In kvp (serialize st)).
      { intros kvp Hin. apply (Permutation_in _ P). apply (Permutation_in _ P'). exact Hin. }
      assert (Hdelta : forall s a', In (s, a') (st_delta st') -> exists pa, In (s, pa) d /\ a' = finalize_acc pa).
      { unfold st'. cbn [StateKV.finalize st_delta ps_delta]. intros s a' Hin. apply in_map_iff in Hin.
        destruct Hin as [[s0 pa] [E Hin]]. cbn [fst snd] in E. inversion E; subst. eauto. }
      split; [exact P'|]. split; [|split; [|split]].
      - intros i Hi.
        assert (H1 : In (key_fixed i, enc_comp i (st_comp st' i)) (serialize st)).
        { apply Hsub. rewrite in_app_iff. left. unfold StateKV.serialize. rewrite in_app_iff. left.
          apply in_map_iff. exists i. auto. }
        assert (H2 : In (key_fixed i, enc_comp i (st_comp st i)) (serialize st)).
        { unfold StateKV.serialize. rewrite in_app_iff. left. apply in_map_iff. exists i. auto. }
        pose proof (NoDup_map_fst_fun _ _ _ _ Hnd H1 H2) as E.
        assert (Hok' : comp_ok i (st_comp st' i)).
        { unfold st'. cbn [StateKV.finalize st_comp ps_comp].
          pose proof (phase1_comp kvs i _ _ _ _ E1 (proj1 (idx16_in i) Hi)) as Hset.
          destruct (ps_comp ps i) as [c|] eqn:Ec; [now apply (Hco i c)|].
          exfalso. apply Hset; [|reflexivity]. right.
          apply (Permutation_in _ (Permutation_map fst (Permutation_sym P))).
          rewrite serialize_keys, in_app_iff. left. now apply in_map. }
        pose proof (comp_rt i (st_comp st' i) Hok') as R1. rewrite E, comp_rt in R1 by (apply Hval; assumption). congruence.
      - intros s a Hsa.
        assert (H1 : In (info_kv s (a_info a)) (serialize st' ++ raw)).
        { apply (Permutation_in _ (Permutation_sym P')). apply (Permutation_in _ (Permutation_sym P)).
          now apply info_in_serialize. }
        pose proof (wf_sid s a Hsa) as Hs.
        rewrite in_app_iff in H1. destruct H1 as [H1|H1].
        + apply in_serialize in H1. destruct H1 as [(i & Hi & E & _)|(s' & a' & Hsa' & [E|He])].
          * pose proof (fixed_index_info_key s) as Hf. unfold StateKV.info_kv in E. cbn [fst] in E.
            rewrite E, fixed_index_key_fixed in Hf by now apply idx16_in. discriminate.
          * destruct (Hdelta s' a' Hsa') as (pa & Hpa & ->). destruct (Hd2 s' pa Hpa) as (_ & Hs' & _).
            pose proof (f_equal fst E) as Ek. pose proof (f_equal snd E) as Ev. cbn [fst snd StateKV.info_kv] in Ek, Ev.
            apply key_svc_idx_inj in Ek; try assumption. subst s'.
            exists (finalize_acc pa). split; [assumption|].
            assert (Hok' : sinfo_ok (a_info (finalize_acc pa))).
            { destruct (attach_all_perm _ _ _ _ E2) as [_ F2].
              destruct (same_shape_info _ _ _ _ F2 Hpa) as [a0 [Ha0 Ei0]].
              destruct (Hd2 s pa Hpa) as (Hk & _ & _ & _ & Hio).
              assert (Hk' : In (key_svc_idx 255 s) (map fst kvs))
                by (apply (Permutation_in _ (Permutation_map fst (Permutation_sym P))); exact Hk).
              destruct (phase1_info kvs s _ _ _ _ E1 Hs (or_intror Hk')) as [a1 [Hl1 Hi1]].
              rewrite (lookup_acc_of_in s a0 _ (phase1_nodup kvs _ _ _ _ E1 (NoDup_nil _)) Ha0) in Hl1.
              inversion Hl1; subst a1. rewrite Ei0 in Hi1.
              unfold StateKV.finalize_acc. cbn [a_info].
              destruct (p_info pa) as [x|] eqn:Ex; [now apply Hio|contradiction]. }
            pose proof (info_rt (a_info (finalize_acc pa)) Hok') as R1.
            rewrite <- Ev, info_rt in R1 by (apply (proj2 Hval s a Hsa)). congruence.
          * destruct (Hdelta s' a' Hsa') as (pa & Hpa & ->).
            destruct (finalize_entry_unres s' pa _ _ (Hd2 s' pa Hpa) He) as [_ Hi].
            unfold StateKV.info_kv in Hi. cbn [fst] in Hi. rewrite info_sid_key in Hi by assumption. discriminate.
        + destruct (Hu2 _ _ H1) as (_ & _ & Hi). rewrite info_sid_key in Hi by assumption. discriminate.
      - intros s a' Hsa'. destruct (Hdelta s a' Hsa') as (pa & Hpa & ->).
        destruct (Hd2 s pa Hpa) as (Hk & Hs & _). apply in_map_iff in Hk. destruct Hk as [[k v] [Ek Hin]].
        cbn [fst] in Ek. subst k. apply in_serialize in Hin.
        destruct Hin as [(i & Hi & E & _)|(s0 & a0 & Hsa0 & [E|He])].
        + pose proof (fixed_index_info_key s) as Hf. rewrite E, fixed_index_key_fixed in Hf by now apply idx16_in.
          discriminate.
        + pose proof (f_equal fst E) as Ek. cbn [fst StateKV.info_kv] in Ek.
          apply key_svc_idx_inj in Ek; [subst s0; eauto|assumption|eapply wf_sid; eassumption].
        + destruct (entry_unreserved s0 a0 _ _ Hsa0 He) as [_ Hi]. rewrite info_sid_key in Hi by assumption. discriminate.
      - intros k v Hin. destruct (Hu2 k v Hin) as (Hser & Hf & Hi). now apply classify_unreserved.
    Qed.
  End OneState.

  (* the property: export, import in any order, export again *)
  Theorem export_import_recovers st kvs :
    wf_state st -> valid_state st -> Permutation kvs (serialize st) ->
    (exists st' raw, parse kvs = Some (st', raw) /\ recovered st kvs st' raw) \/ coincidence st.
  Proof.
    intros Hwf Hval P. destruct (coll_free st) eqn:E.
    - left. apply (roundtrip_no_coincidence st Hwf Hval (coll_free_true st E) kvs P).
    - right. now apply coll_free_false.
  Qed.

  Theorem export_import_roundtrip st kvs :
    wf_state st -> valid_state st -> Permutation kvs (serialize st) ->
    (exists st' raw, parse kvs = Some (st', raw) /\ Permutation (serialize st' ++ raw) kvs)
    \/ coincidence st.
  Proof.
    intros Hwf Hval P. destruct (export_import_recovers st kvs Hwf Hval P) as [(st' & raw & Hp & Hr & _)|Hc]; [left|now right].
    eauto.
  Qed.

  Theorem export_keys_distinct st :
    wf_state st -> NoDup (map fst (serialize st)) \/ coincidence st.
  Proof.
    intros Hwf. destruct (coll_free st) eqn:E.
    - left. exact (export_keys_nodup st Hwf (coll_free_true st E)).
    - right. now apply coll_free_false.
  Qed.

  (* hence the same state root, for every root function that does not depend on the order (C15) *)
  Theorem export_import_same_root (R : Type) (root : list kv -> R) st kvs :
    (forall l l', Permutation l l' -> root l = root l') ->
    wf_state st -> valid_state st -> Permutation kvs (serialize st) ->
    (exists st' raw, parse kvs = Some (st', raw) /\ root (serialize st' ++ raw) = root (serialize st))
    \/ coincidence st.
  Proof.
    intros Hroot Hwf Hval P. destruct (export_import_roundtrip st kvs Hwf Hval P) as [(st' & raw & Hp & P')|Hc]; [left|now right].
    exists st', raw. split; [assumption|]. apply Hroot. now rewrite P'.
  Qed.

  (* the result of the import does not depend on the order of the key-values, up to permutation of
     what it stands for *)
  Theorem import_order_independent st kvs kvs' :
    wf_state st -> valid_state st -> Permutation kvs (serialize st) -> Permutation kvs' kvs ->
    (exists st1 raw1 st2 raw2, parse kvs = Some (st1, raw1) /\ parse kvs' = Some (st2, raw2) /\
       Permutation (serialize st1 ++ raw1) (serialize st2 ++ raw2))
    \/ coincidence st.
  Proof.
    intros Hwf Hval P P'.
    destruct (export_import_roundtrip st kvs Hwf Hval P) as [(st1 & raw1 & Hp1 & P1)|Hc]; [|now right].
    destruct (export_import_roundtrip st kvs' Hwf Hval (perm_trans P' P)) as [(st2 & raw2 & Hp2 & P2)|Hc]; [|now right].
    left. exists st1, raw1, st2, raw2. repeat split; try assumption.
    rewrite P1, P2. now symmetry.
  Qed.
End StateKVProofs.
