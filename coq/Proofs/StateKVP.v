(* C17 — proofs about Model/StateKV.v: import is a right inverse of export on key-value sets. *)
From JamV Require Import Base.Bytes Proofs.BytesP Model.StateKV.
From Coq Require Import Permutation.
From Coq Require Import ZifyBool ZifyNat ZifyN.
Local Open Scope N_scope.

(* ---------------------------------------------------------------------------------------------- *)
(* generic list facts *)

Lemma NoDup_app_intro {A} (a b : list A) :
  NoDup a -> NoDup b -> (forall x, In x a -> In x b -> False) -> NoDup (a ++ b).
Proof.
  induction a as [|x a IH]; intros Ha Hb Hd; cbn; [assumption|].
  inversion Ha; subst. constructor.
  - rewrite in_app_iff. intros [?|?]; [contradiction|]. eapply Hd; [left; reflexivity|eassumption].
  - apply IH; auto. intros y Hy. apply Hd. now right.
Qed.

Lemma NoDup_flat_map_intro {A B} (f : A -> list B) (l : list A) :
  NoDup l -> (forall x, In x l -> NoDup (f x)) ->
  (forall x y b, In x l -> In y l -> x <> y -> In b (f x) -> In b (f y) -> False) ->
  NoDup (flat_map f l).
Proof.
  induction l as [|x l IH]; intros Hl Hf Hd; cbn; [constructor|].
  inversion Hl; subst. apply NoDup_app_intro.
  - apply Hf. now left.
  - apply IH; auto.
    + intros y Hy. apply Hf. now right.
    + intros y z b Hy Hz. apply Hd; now right.
  - intros b Hb Hb'. apply in_flat_map in Hb'. destruct Hb' as [y [Hy Hby]].
    apply (Hd x y b); auto; [now left|now right|]. intros ->. contradiction.
Qed.

Lemma NoDup_map_inj_in {A B} (f : A -> B) (l : list A) :
  NoDup l -> (forall x y, In x l -> In y l -> f x = f y -> x = y) -> NoDup (map f l).
Proof.
  induction l as [|x l IH]; intros Hl Hi; cbn; [constructor|].
  inversion Hl; subst. constructor.
  - rewrite in_map_iff. intros [y [Hy Hin]]. assert (y = x) by (apply Hi; auto; [now right|now left]).
    subst. contradiction.
  - apply IH; auto. intros y z Hy Hz. apply Hi; now right.
Qed.

Lemma NoDup_map_fst_fun {A B} (l : list (A * B)) k v v' :
  NoDup (map fst l) -> In (k, v) l -> In (k, v') l -> v = v'.
Proof.
  induction l as [|[k0 v0] l IH]; cbn; intros Hn H1 H2; [contradiction|].
  inversion Hn; subst.
  destruct H1 as [E1|H1], H2 as [E2|H2].
  - congruence.
  - inversion E1; subst. exfalso. apply H3. apply in_map_iff. exists (k, v'). auto.
  - inversion E2; subst. exfalso. apply H3. apply in_map_iff. exists (k, v). auto.
  - eauto.
Qed.

Lemma NoDup_map_fst_NoDup {A B} (l : list (A * B)) : NoDup (map fst l) -> NoDup l.
Proof.
  induction l as [|[k v] l IH]; cbn; intros Hn; [constructor|].
  inversion Hn; subst. constructor; auto.
  intros Hin. apply H1. apply in_map_iff. exists (k, v). auto.
Qed.

Lemma forallb_false_ex {A} (f : A -> bool) (l : list A) :
  forallb f l = false -> exists x, In x l /\ f x = false.
Proof.
  induction l as [|x l IH]; cbn; [discriminate|].
  destruct (f x) eqn:E; cbn.
  - intros Hf. destruct (IH Hf) as [y [Hy Ey]]. exists y. auto.
  - intros _. exists x. auto.
Qed.

(* ---------------------------------------------------------------------------------------------- *)
(* keys *)

Lemma le_enc4_shape s : exists n0 n1 n2 n3, le_enc 4 s = [n0; n1; n2; n3].
Proof. cbn [le_enc]. eauto. Qed.

Lemma le_dec_enc4 s : s < 2 ^ 32 -> le_dec (le_enc 4 s) = s.
Proof.
  intros Hs. rewrite le_dec_enc. change (256 ^ N.of_nat 4) with (2 ^ 32). now apply N.mod_small.
Qed.

Lemma le_enc4_inj s s' : s < 2 ^ 32 -> s' < 2 ^ 32 -> le_enc 4 s = le_enc 4 s' -> s = s'.
Proof. intros Hs Hs' E. rewrite <- (le_dec_enc4 s Hs), <- (le_dec_enc4 s' Hs'). now rewrite E. Qed.

Lemma zeros_all n : bytes_eqb (zeros n) (zeros n) = true.
Proof. now apply bytes_eqb_eq. Qed.

Lemma idx16_in i : In i idx16 <-> 1 <= i <= 16.
Proof.
  unfold idx16. cbn [In]. split.
  - intros Hi. repeat (destruct Hi as [<-|Hi]; [lia|]). contradiction.
  - intros Hi.
    assert (i = 1 \/ i = 2 \/ i = 3 \/ i = 4 \/ i = 5 \/ i = 6 \/ i = 7 \/ i = 8 \/ i = 9 \/ i = 10 \/
            i = 11 \/ i = 12 \/ i = 13 \/ i = 14 \/ i = 15 \/ i = 16) as Hd by lia.
    repeat (destruct Hd as [->|Hd]; [tauto|]). subst. tauto.
Qed.

Lemma idx16_nodup : NoDup idx16.
Proof.
  unfold idx16. repeat (constructor; [cbn [In]; intros Hc; repeat (destruct Hc as [Hc|Hc]; [discriminate|]); contradiction|]).
  constructor.
Qed.

Lemma fixed_index_some k i : fixed_index k = Some i -> k = key_fixed i /\ 1 <= i <= 16.
Proof.
  destruct k as [|j t]; cbn [fixed_index]; [discriminate|].
  destruct ((1 <=? j) && (j <=? 16) && bytes_eqb t (zeros 30)) eqn:E; [|discriminate].
  intros [= <-]. apply andb_true_iff in E. destruct E as [E Et]. apply andb_true_iff in E.
  apply bytes_eqb_eq in Et. subst t. split; [reflexivity|lia].
Qed.

Lemma fixed_index_key_fixed i : 1 <= i <= 16 -> fixed_index (key_fixed i) = Some i.
Proof.
  intros Hi. unfold key_fixed. cbn [fixed_index]. rewrite zeros_all.
  replace (1 <=? i) with true by lia. replace (i <=? 16) with true by lia. reflexivity.
Qed.

Lemma key_fixed_inj i j : key_fixed i = key_fixed j -> i = j.
Proof. unfold key_fixed. congruence. Qed.

Lemma info_sid_some k s : info_sid k = Some s -> k = key_svc_idx 255 s /\ s < 2 ^ 32.
Proof.
  destruct k as [|k0 [|n0 [|z0 [|n1 [|z1 [|n2 [|z2 [|n3 t]]]]]]]]; cbn [info_sid]; try discriminate.
  destruct ((k0 =? 255) && (z0 =? 0) && (z1 =? 0) && (z2 =? 0) && bytes_eqb t (zeros 23) && wf_bytes [n0; n1; n2; n3]) eqn:E;
    [|discriminate].
  intros [= <-].
  repeat (apply andb_true_iff in E; let E' := fresh "E" in destruct E as [E E']).
  apply bytes_eqb_eq in E1. subst t.
  apply N.eqb_eq in E, E4, E3, E2. subst.
  pose proof (le_enc_dec [n0; n1; n2; n3] E0) as Hr. cbn [length] in Hr.
  pose proof (le_dec_lt [n0; n1; n2; n3] E0) as Hl. cbn [length] in Hl.
  change (256 ^ N.of_nat 4) with (2 ^ 32) in Hl.
  split; [|exact Hl].
  change (255 :: n0 :: 0 :: n1 :: 0 :: n2 :: 0 :: n3 :: zeros 23 = key_svc_idx 255 (le_dec [n0; n1; n2; n3])).
  unfold key_svc_idx. rewrite Hr. reflexivity.
Qed.

Lemma info_sid_key s : s < 2 ^ 32 -> info_sid (key_svc_idx 255 s) = Some s.
Proof.
  intros Hs. unfold key_svc_idx.
  pose proof (le_enc_wf 4 s) as Hw. pose proof (le_dec_enc4 s Hs) as Hd.
  destruct (le_enc4_shape s) as (n0 & n1 & n2 & n3 & E). rewrite E in *.
  cbn [app info_sid]. rewrite Hw, zeros_all. cbn. now rewrite <- Hd.
Qed.

Lemma fixed_index_info_key s : fixed_index (key_svc_idx 255 s) = None.
Proof.
  unfold key_svc_idx. destruct (le_enc4_shape s) as (n0 & n1 & n2 & n3 & E). rewrite E.
  reflexivity.
Qed.

Lemma info_sid_key_fixed i : i <= 16 -> info_sid (key_fixed i) = None.
Proof.
  intros Hi. unfold key_fixed. cbn. replace (i =? 255) with false by lia. reflexivity.
Qed.

Lemma key_svc_idx_inj s s' : s < 2 ^ 32 -> s' < 2 ^ 32 -> key_svc_idx 255 s = key_svc_idx 255 s' -> s = s'.
Proof.
  intros Hs Hs' E. pose proof (info_sid_key s Hs) as E1. rewrite E, (info_sid_key s' Hs') in E1. congruence.
Qed.

Ltac perm_mid :=
  rewrite <- ?app_assoc; cbn [app]; rewrite <- ?app_assoc;
  first [reflexivity | symmetry; apply Permutation_middle | apply Permutation_middle].

Section StateKVProofs.
  Variable H : bytes -> bytes.
  Variable comp : Type.
  Variable enc_comp : N -> comp -> bytes.
  Variable dec_comp : N -> bytes -> option comp.
  Variable zero_comp : N -> comp.
  Variable sinfo : Type.
  Variable enc_info : sinfo -> bytes.
  Variable dec_info : bytes -> option sinfo.
  Variable zero_info : sinfo.
  Variable tslots : Type.
  Variable enc_ts : tslots -> bytes.
  Variable dec_ts : bytes -> option tslots.

  (* the codec facts used (C11 round trip, C13 canonicity), as hypotheses of the section *)
  Hypothesis comp_rt : forall i c, dec_comp i (enc_comp i c) = Some c.
  Hypothesis comp_canon : forall i b c, dec_comp i b = Some c -> b = enc_comp i c.
  Hypothesis info_rt : forall x, dec_info (enc_info x) = Some x.
  Hypothesis info_canon : forall b x, dec_info b = Some x -> b = enc_info x.
  Hypothesis ts_rt : forall t, dec_ts (enc_ts t) = Some t.
  Hypothesis ts_canon : forall b t, dec_ts b = Some t -> b = enc_ts t.

  Notation account := (account sinfo tslots).
  Notation state := (state comp sinfo tslots).
  Notation pacc := (pacc sinfo tslots).
  Notation pstate := (pstate comp sinfo tslots).
  Notation key_svc_hash := (key_svc_hash H).
  Notation serialize := (serialize H enc_comp enc_info enc_ts).
  Notation svc_kvs := (svc_kvs H enc_info enc_ts).
  Notation parse := (parse H dec_comp zero_comp dec_info zero_info dec_ts).
  Notation step := (step H dec_comp dec_info (tslots := tslots)).
  Notation phase1 := (phase1 H dec_comp dec_info (tslots := tslots)).
  Notation attach_pre := (attach_pre H dec_ts).
  Notation attach_all := (attach_all H dec_ts (sinfo := sinfo)).
  Notation finalize := (finalize zero_comp zero_info (tslots := tslots)).
  Notation finalize_acc := (finalize_acc zero_info (tslots := tslots)).
  Notation comp_kv := (comp_kv enc_comp).
  Notation info_kv := (info_kv enc_info).
  Notation sto_kv := (sto_kv H).
  Notation pre_kv := (pre_kv H).
  Notation lk_kv := (lk_kv H enc_ts).
  Notation upd_acc := (upd_acc (sinfo := sinfo) (tslots := tslots)).
  Notation empty_pacc := (empty_pacc (sinfo := sinfo) (tslots := tslots)).

  (* ============================================================================================ *)
  (* Part A: whatever is imported, re-exporting the parsed state next to the raw entries gives back
     the imported key-values (no assumption on the hash). *)

  Definition emit_comps (f : N -> option comp) (l : list N) : list kv :=
    flat_map (fun i => match f i with Some c => [comp_kv i c] | None => [] end) l.

  Definition emit_pacc (sa : N * pacc) : list kv :=
    (match p_info (snd sa) with Some x => [info_kv (fst sa) x] | None => [] end)
    ++ map (pre_kv (fst sa)) (p_pre (snd sa)) ++ map (lk_kv (fst sa)) (p_lk (snd sa)).

  Definition emit (ps : pstate) : list kv :=
    emit_comps (ps_comp ps) idx16 ++ flat_map emit_pacc (ps_delta ps).

  Fixpoint lookup_acc (s : N) (d : list (N * pacc)) : option pacc :=
    match d with
    | [] => None
    | (s', a) :: t => if s' =? s then Some a else lookup_acc s t
    end.

  Lemma emit_comps_ext f g l : (forall j, In j l -> f j = g j) -> emit_comps f l = emit_comps g l.
  Proof.
    induction l as [|i l IH]; intros Hfg; cbn; [reflexivity|].
    rewrite (Hfg i) by now left. f_equal. apply IH. intros j Hj. apply Hfg. now right.
  Qed.

  Lemma emit_comps_cons f j l :
    emit_comps f (j :: l) = (match f j with Some c => [comp_kv j c] | None => [] end) ++ emit_comps f l.
  Proof. reflexivity. Qed.

  Lemma emit_comps_set f i c l :
    NoDup l -> In i l -> f i = None ->
    Permutation (emit_comps (fun j => if j =? i then Some c else f j) l) (comp_kv i c :: emit_comps f l).
  Proof.
    induction l as [|j l IH]; intros Hn Hi Hf; [contradiction|].
    inversion Hn; subst. rewrite !emit_comps_cons.
    destruct (N.eqb_spec j i) as [->|Hne].
    - rewrite Hf. cbn [app].
      rewrite (emit_comps_ext _ f l); [reflexivity|].
      intros k Hk. destruct (N.eqb_spec k i) as [->|]; [contradiction|reflexivity].
    - destruct Hi as [->|Hi]; [contradiction|].
      rewrite (IH H3 Hi Hf). apply Permutation_sym, Permutation_middle.
  Qed.

  Lemma emit_pacc_empty s : emit_pacc (s, empty_pacc) = [].
  Proof. reflexivity. Qed.

  Lemma upd_acc_perm s f d new :
    (forall a, lookup_acc s d = Some a \/ (lookup_acc s d = None /\ a = empty_pacc) ->
               Permutation (emit_pacc (s, f a)) (new ++ emit_pacc (s, a))) ->
    Permutation (flat_map emit_pacc (upd_acc s f d)) (new ++ flat_map emit_pacc d).
  Proof.
    induction d as [|[s' a] d IH]; intros Hf.
    - cbn [upd_acc flat_map lookup_acc] in *. rewrite !app_nil_r.
      specialize (Hf empty_pacc (or_intror (conj eq_refl eq_refl))).
      rewrite emit_pacc_empty, app_nil_r in Hf. exact Hf.
    - cbn [upd_acc lookup_acc] in *. destruct (N.eqb_spec s' s) as [->|Hne].
      + cbn [flat_map]. rewrite (Hf a (or_introl eq_refl)). now rewrite app_assoc.
      + cbn [flat_map]. rewrite (IH Hf).
        rewrite !app_assoc. apply Permutation_app_tail, Permutation_app_comm.
  Qed.

  Lemma lookup_acc_in s d a : lookup_acc s d = Some a -> In (s, a) d.
  Proof.
    induction d as [|[s' a'] d IH]; cbn; [discriminate|].
    destruct (N.eqb_spec s' s) as [->|]; [intros [= ->]; now left|intros; right; auto].
  Qed.

  Lemma in_emit_delta sa d kvp : In sa d -> In kvp (emit_pacc sa) -> In kvp (flat_map emit_pacc d).
  Proof. intros. apply in_flat_map. eauto. Qed.

  Lemma emit_empty : emit empty_pstate = [].
  Proof. reflexivity. Qed.

  (* one key-value of the first loop *)
  Lemma step_perm k v ps un ps' un' :
    step k v ps un = Some (ps', un') ->
    ~ In k (map fst (emit ps)) ->
    Permutation (emit ps' ++ un') ((k, v) :: emit ps ++ un).
  Proof.
    unfold StateKV.step. intros Hs Hk.
    destruct (fixed_index k) as [i|] eqn:Ef.
    - destruct (dec_comp i v) as [c|] eqn:Ed; [|discriminate]. inversion Hs; subst; clear Hs.
      apply fixed_index_some in Ef. destruct Ef as [-> Hi].
      apply comp_canon in Ed. subst v.
      unfold emit. cbn [ps_comp ps_delta].
      assert (Hnone : ps_comp ps i = None).
      { destruct (ps_comp ps i) as [c0|] eqn:E0; [|reflexivity]. exfalso. apply Hk.
        unfold emit. rewrite map_app, in_app_iff. left.
        apply in_map_iff. exists (comp_kv i c0). split; [reflexivity|].
        unfold emit_comps. apply in_flat_map. exists i. split; [now apply idx16_in|]. rewrite E0. now left. }
      rewrite (emit_comps_set (ps_comp ps) i c idx16 idx16_nodup (proj2 (idx16_in i) Hi) Hnone).
      reflexivity.
    - destruct (info_sid k) as [s|] eqn:Ei.
      + destruct (dec_info v) as [x|] eqn:Ed; [|discriminate]. inversion Hs; subst; clear Hs.
        apply info_sid_some in Ei. destruct Ei as [-> Hs].
        apply info_canon in Ed. subst v.
        unfold emit. cbn [ps_comp ps_delta].
        rewrite (upd_acc_perm s (set_info x) (ps_delta ps) [info_kv s x]).
        * perm_mid.
        * intros a Ha. unfold emit_pacc. cbn [fst snd set_info p_info p_pre p_lk].
          assert (Hnone : p_info a = None).
          { destruct Ha as [Ha|[_ ->]]; [|reflexivity].
            destruct (p_info a) as [x0|] eqn:E0; [|reflexivity]. exfalso. apply Hk.
            unfold emit. rewrite map_app, in_app_iff. right.
            apply in_map_iff. exists (info_kv s x0). split; [reflexivity|].
            apply (in_emit_delta (s, a)); [now apply lookup_acc_in|].
            unfold emit_pacc. cbn [fst snd]. rewrite E0. now left. }
          rewrite Hnone. reflexivity.
      + destruct (bytes_eqb k (key_svc_hash (sid_type3 k) (pre_input (H v)))) eqn:Ep.
        * inversion Hs; subst; clear Hs. apply bytes_eqb_eq in Ep.
          unfold emit. cbn [ps_comp ps_delta].
          rewrite (upd_acc_perm (sid_type3 k) (add_pre (H v) v) (ps_delta ps) [(k, v)]).
          -- perm_mid.
          -- intros a _. unfold emit_pacc. cbn [fst snd add_pre p_info p_pre p_lk map].
             unfold StateKV.pre_kv at 1. cbn [fst snd]. rewrite <- Ep.
             rewrite <- Permutation_middle. reflexivity.
        * inversion Hs; subst; clear Hs. rewrite <- Permutation_middle. reflexivity.
  Qed.

  Lemma phase1_perm kvs : forall ps un ps' un',
    phase1 kvs ps un = Some (ps', un') ->
    NoDup (map fst kvs) ->
    (forall k, In k (map fst kvs) -> ~ In k (map fst (emit ps ++ un))) ->
    Permutation (emit ps' ++ un') (kvs ++ emit ps ++ un).
  Proof.
    induction kvs as [|[k v] t IH]; intros ps un ps' un' Hp Hn Hd.
    - cbn in Hp. inversion Hp; subst. reflexivity.
    - cbn [StateKV.phase1] in Hp. destruct (step k v ps un) as [[ps1 un1]|] eqn:Es; [|discriminate].
      cbn [map fst] in Hn. inversion Hn; subst.
      assert (Hk : ~ In k (map fst (emit ps))).
      { intros Hin. apply (Hd k); [now left|]. rewrite map_app, in_app_iff. now left. }
      pose proof (step_perm k v ps un ps1 un1 Es Hk) as P1.
      assert (Hd1 : forall k', In k' (map fst t) -> ~ In k' (map fst (emit ps1 ++ un1))).
      { intros k' Hk' Hin.
        apply (Permutation_in _ (Permutation_map fst P1)) in Hin.
        cbn [map fst] in Hin. destruct Hin as [<-|Hin]; [contradiction|].
        apply (Hd k'); [now right|assumption]. }
      rewrite (IH ps1 un1 ps' un' Hp H3 Hd1). rewrite P1.
      cbn [app]. apply Permutation_sym, Permutation_middle.
  Qed.
End StateKVProofs.
