(* The Go-shaped uint64 arithmetic of the repaired code computes exactly the specification step on every
   state and call whose numbers are within the machine ranges (C08 "no balance wraps", C09 "no overflow"). *)
From JamV Require Import Base.Bytes Proofs.BytesP Model.Accounts Proofs.AccountsP Model.AccCalls Proofs.AccCallsP.
From Coq Require Import ZifyBool ZifyNat ZifyN.
Local Open Scope N_scope.

Definition small_acct (a : account) : Prop :=
  a_bal a < two64 /\ a_items a < 2147483648 /\ a_octets a < 4611686018427387904 /\ a_gratis a < two64.
Definition small_ctx (x : ctx) : Prop :=
  Forall (fun p => small_acct (snd p)) (c_accts x) /\ total x < two64.
Definition small_op (o : op) : Prop :=
  match o with
  | ONew _ l _ _ f _ => l < two32 /\ f < two64
  | OTransfer _ amt _ _ => amt < two64
  | OWrite k v => blen k < two32 /\ blen v < two32
  | OSolicit _ z => z < two32
  | OForget _ z => z < two32
  | _ => True
  end.

Lemma thr_small i o f :
  i <= 2147483650 -> o <= 4611686018427387904 + 17179869184 -> f < two64 ->
  threshold_go64 i o f = threshold_raw i o f.
Proof.
  intros. apply threshold_go64_fits; unfold two32, two64, threshold_raw, B_S, B_I, B_L in *; lia.
Qed.

Lemma thr_go_small a : small_acct a -> thr ar_go a = thr ar_exact a.
Proof.
  intros (Hb & Hi & Ho & Hf). unfold thr. cbn [ar_go ar_exact ar_thr]. apply thr_small; lia.
Qed.

Lemma thr_exact_lt a : small_acct a -> thr ar_exact a < two64.
Proof.
  intros (Hb & Hi & Ho & Hf). unfold thr. cbn [ar_exact ar_thr]. unfold threshold_raw, B_S, B_I, B_L, two64 in *. lia.
Qed.

Lemma get_del j i d : j <> i -> get j (al_del N.eqb i d) = get j d.
Proof.
  intros Hne. unfold get. induction d as [| [k' v'] t IH]; cbn [al_del al_get]; [reflexivity |].
  destruct (N.eqb_spec i k').
  - subst. destruct (N.eqb_spec j k'); [congruence | reflexivity].
  - cbn [al_get]. destruct (j =? k'); [reflexivity | exact IH].
Qed.

Lemma get_le_sum i a d : get i d = Some a -> a_bal a <= sum_bal d.
Proof. intros G. apply al_get_In in G. destruct G as (k & Hin & _). apply (bal_le_sum _ _ _ Hin). Qed.

Lemma two_le_sum i j a b d : get i d = Some a -> get j d = Some b -> j <> i -> a_bal a + a_bal b <= sum_bal d.
Proof.
  intros Gi Gj Hne. pose proof (sum_bal_del i d) as H. rewrite Gi in H. cbn [bal_of] in H.
  rewrite <- (get_del j i d Hne) in Gj. apply get_le_sum in Gj. lia.
Qed.

Section Refine.
  Variable e : env.

  Lemma get_small x i a : small_ctx x -> get i (c_accts x) = Some a -> small_acct a.
  Proof. intros [F _] G. apply (get_Forall small_acct _ _ _ F G). Qed.

  Lemma call_new_go x c l g m f i : small_ctx x -> l < two32 -> f < two64 ->
    call_new ar_go e x c l g m f i = call_new ar_exact e x c l g m f i.
  Proof.
    intros S Hl Hf. unfold call_new. destruct (get (e_self e) (c_accts x)) as [s |] eqn:G; [| reflexivity].
    pose proof (get_small _ _ _ S G) as Ss.
    assert (Ht : ar_thr ar_go 2 (look_fp l) f = ar_thr ar_exact 2 (look_fp l) f).
    { cbn [ar_go ar_exact ar_thr]. apply thr_small; unfold look_fp, two32 in *; lia. }
    unfold new_account. rewrite Ht. rewrite (thr_go_small _ Ss). cbn [a_bal].
    assert (Hd : ar_debit_new ar_go (a_bal s) (ar_thr ar_exact 2 (look_fp l) f) (thr ar_exact s)
                 = ar_debit_new ar_exact (a_bal s) (ar_thr ar_exact 2 (look_fp l) f) (thr ar_exact s)).
    { cbn [ar_go ar_exact ar_debit_new ar_thr]. apply debit_new_go_exact.
      - apply Ss.
      - unfold threshold_raw, look_fp, B_S, B_I, B_L, two32, two64 in *. lia.
      - apply (thr_exact_lt _ Ss). }
    rewrite Hd. reflexivity.
  Qed.

  Lemma call_transfer_go x d amt l memo : small_ctx x -> amt < two64 ->
    call_transfer ar_go e x d amt l memo = call_transfer ar_exact e x d amt l memo.
  Proof.
    intros S Ha. unfold call_transfer. destruct (get d (c_accts x)) as [ad |]; [| reflexivity].
    destruct (l <? a_m ad); [reflexivity |].
    destruct (get (e_self e) (c_accts x)) as [s |] eqn:G; [| reflexivity].
    pose proof (get_small _ _ _ S G) as Ss. rewrite (thr_go_small _ Ss).
    assert (Hd : ar_debit_xfer ar_go (a_bal s) amt (thr ar_exact s) = ar_debit_xfer ar_exact (a_bal s) amt (thr ar_exact s)).
    { cbn [ar_go ar_exact ar_debit_xfer]. apply debit_xfer_go_exact; [apply Ss | exact Ha | apply (thr_exact_lt _ Ss)]. }
    rewrite Hd. reflexivity.
  Qed.

  Lemma call_eject_go x d h : small_ctx x -> call_eject ar_go e x d h = call_eject ar_exact e x d h.
  Proof.
    intros S. unfold call_eject. destruct (get d (c_accts x)) as [ad |] eqn:Gd; [| reflexivity].
    destruct ((d =? e_self e) || negb (bytes_eqb (a_code ad) (le_enc 32 (e_self e)))) eqn:C; [reflexivity |].
    destruct (al_get lk_eqb (h, N.max 81 (a_octets ad) - 81) (a_lookups ad)) as [ts |]; [| reflexivity].
    destruct (negb (a_items ad =? 2)); [reflexivity |].
    destruct ts as [| t0 [| t1 [| t2 tr]]]; try reflexivity.
    destruct (t1 + e_D e <? e_slot e); [| reflexivity].
    destruct (get (e_self e) (c_accts x)) as [s |] eqn:Gs; [| reflexivity].
    apply orb_false_iff in C. destruct C as [Hne _]. apply N.eqb_neq in Hne.
    pose proof (two_le_sum _ _ _ _ _ Gs Gd Hne) as Hsum. destruct S as [_ T]. unfold total in T.
    cbn [ar_go ar_exact ar_add]. rewrite add_go_exact by lia. reflexivity.
  Qed.

  Lemma blen_cons b t : blen (b :: t) = blen t + 1.
  Proof. unfold blen. cbn [length]. lia. Qed.

  Lemma call_write_go x k v : small_ctx x -> blen k < two32 -> blen v < two32 ->
    call_write ar_go e x k v = call_write ar_exact e x k v.
  Proof.
    intros S Hk Hv. unfold call_write. destruct (get (e_self e) (c_accts x)) as [s |] eqn:G; [| reflexivity].
    pose proof (get_small _ _ _ S G) as (Hb & Hi & Ho & Hf). cbv zeta.
    destruct v as [| v0 vt].
    - match goal with |- (if a_bal ?a <? thr ar_go ?a then _ else _) = _ => assert (E : thr ar_go a = thr ar_exact a) end.
      { unfold thr. cbn [set_storage a_items a_octets a_gratis ar_go ar_exact ar_thr]. apply thr_small; lia. }
      rewrite E. reflexivity.
    - match goal with |- (if a_bal ?a <? thr ar_go ?a then _ else _) = _ => assert (E : thr ar_go a = thr ar_exact a) end.
      { unfold thr. cbn [set_storage a_items a_octets a_gratis ar_go ar_exact ar_thr].
        apply thr_small; unfold stor_fp, two32 in *; lia. }
      rewrite E. reflexivity.
  Qed.

  Lemma call_solicit_go x h z : small_ctx x -> z < two32 ->
    call_solicit ar_go e x h z = call_solicit ar_exact e x h z.
  Proof.
    intros S Hz. unfold call_solicit. destruct (get (e_self e) (c_accts x)) as [s |] eqn:G; [| reflexivity].
    pose proof (get_small _ _ _ S G) as (Hb & Hi & Ho & Hf).
    destruct (al_get lk_eqb (h, z) (a_lookups s)) as [ts |]; [reflexivity |]. cbv zeta.
    match goal with |- (if a_bal ?a <? thr ar_go ?a then _ else _) = _ => assert (E : thr ar_go a = thr ar_exact a) end.
    { unfold thr. cbn [set_lookups a_items a_octets a_gratis ar_go ar_exact ar_thr].
      apply thr_small; unfold look_fp, two32 in *; lia. }
    rewrite E. reflexivity.
  Qed.

  Lemma call_info_go x s : small_ctx x -> call_info ar_go e x s = call_info ar_exact e x s.
  Proof.
    intros S. unfold call_info. destruct (get _ (c_accts x)) as [a |] eqn:G; [| reflexivity].
    rewrite (thr_go_small _ (get_small _ _ _ S G)). reflexivity.
  Qed.

  Lemma go_step_refines o st : small_ctx (fst st) -> small_op o -> step ar_go e o st = step ar_exact e o st.
  Proof.
    destruct st as [x y]. cbn [fst]. intros S O. unfold step. destruct o; cbn [small_op] in O; try reflexivity.
    - destruct O. rewrite call_new_go by assumption. reflexivity.
    - rewrite call_transfer_go by assumption. reflexivity.
    - rewrite call_eject_go by assumption. reflexivity.
    - destruct O. rewrite call_write_go by assumption. reflexivity.
    - rewrite call_solicit_go by assumption. reflexivity.
    - rewrite call_info_go by assumption. reflexivity.
  Qed.

  (* incoming credit *)
  Lemma fold_add_go amts : forall acc, acc + sum_list amts < two64 -> fold_left add_go amts acc = acc + sum_list amts.
  Proof.
    induction amts as [| a t IH]; intros acc H; cbn [fold_left sum_list fold_right] in *; [lia |].
    rewrite add_go_exact by (unfold sum_list in *; lia). rewrite IH; unfold sum_list in *; lia.
  Qed.

  Lemma credit_go amts d : sum_bal d + sum_list amts < two64 -> credit ar_go e amts d = credit ar_exact e amts d.
  Proof.
    intros H. unfold credit. destruct (get (e_self e) d) as [s |] eqn:G; [| reflexivity].
    pose proof (get_le_sum _ _ _ G). cbn [ar_go ar_exact ar_add].
    rewrite fold_add_go by lia.
    assert (fold_left N.add amts 0 = sum_list amts) as ->.
    { clear. assert (forall acc, fold_left N.add amts acc = acc + sum_list amts) as F.
      { induction amts as [| a t IH]; intros acc; cbn [fold_left sum_list fold_right]; [lia |]. rewrite IH. unfold sum_list. lia. }
      apply F. }
    rewrite add_go_exact by lia. reflexivity.
  Qed.

  (* a whole run, as long as the specification's own states stay within the machine ranges *)
  Fixpoint small_run (ops : list op) (st : state) : Prop :=
    match ops with
    | [] => True
    | o :: r => small_ctx (fst st) /\ small_op o /\ small_run r (step_st ar_exact e st o)
    end.

  Lemma go_run_refines ops : forall st, small_run ops st -> run ar_go e ops st = run ar_exact e ops st.
  Proof.
    unfold run. induction ops as [| o r IH]; intros st H; cbn [fold_left]; [reflexivity |].
    destruct H as (S & O & R). unfold step_st at 2 4. rewrite (go_step_refines _ _ S O). apply IH. exact R.
  Qed.
End Refine.
