(* C23 — proofs about Model/Tickets.v *)
From JamV Require Import Base.Bytes Model.Tickets.
From Coq Require Import ZifyBool ZifyNat ZifyN Permutation Sorted.
Local Open Scope N_scope.
Ltac Zify.zify_post_hook ::= Z.div_mod_to_equations.

(* ------------------------------------------------------------------------------------------ *)
(* 1. the lexicographic order on identifiers is a strict total order                           *)

Lemma ltb_irrefl a : bytes_ltb a a = false.
Proof.
  induction a as [|x a IH]; cbn; [reflexivity|].
  rewrite N.ltb_irrefl, N.eqb_refl, IH. reflexivity.
Qed.

Lemma ltb_trans a b c : bytes_ltb a b = true -> bytes_ltb b c = true -> bytes_ltb a c = true.
Proof.
  revert b c; induction a as [|x a IH]; intros [|y b] [|z c]; cbn; try congruence.
  rewrite !orb_true_iff, !andb_true_iff, !N.ltb_lt, !N.eqb_eq.
  intros [H1|[H1 H2]] [H3|[H3 H4]].
  - left; lia.
  - left; lia.
  - left; lia.
  - right; split; [lia|]. eapply IH; eauto.
Qed.

Lemma ltb_total a b : bytes_ltb a b = false -> bytes_ltb b a = false -> a = b.
Proof.
  revert b; induction a as [|x a IH]; intros [|y b]; cbn; try congruence.
  rewrite !orb_false_iff, !andb_false_iff, !N.ltb_ge, !N.eqb_neq.
  intros [H1 H2] [H3 H4].
  assert (x = y) by lia. subst y. f_equal. apply IH.
  - destruct H2; [congruence|assumption].
  - destruct H4; [congruence|assumption].
Qed.

Lemma ltb_asym a b : bytes_ltb a b = true -> bytes_ltb b a = false.
Proof.
  intros H. destruct (bytes_ltb b a) eqn:E; [|reflexivity].
  pose proof (ltb_trans _ _ _ H E) as T. rewrite ltb_irrefl in T. discriminate.
Qed.

Lemma ltb_neq a b : bytes_ltb a b = true -> a <> b.
Proof. intros H ->. rewrite ltb_irrefl in H. discriminate. Qed.

Lemma eqb_eq a b : bytes_eqb a b = true <-> a = b.
Proof.
  revert b; induction a as [|x a IH]; intros [|y b]; cbn; try (split; congruence).
  rewrite andb_true_iff, N.eqb_eq, IH. split; [intros [-> ->]; reflexivity|intros E; inversion E; auto].
Qed.

Lemma eqb_neq a b : bytes_eqb a b = false <-> a <> b.
Proof. rewrite <- eqb_eq. destruct (bytes_eqb a b); split; congruence. Qed.

Lemma bytes_eq_dec (a b : bytes) : {a = b} + {a <> b}.
Proof. apply list_eq_dec, N.eq_dec. Qed.

(* le / lt transitivity mixtures *)
Lemma le_lt_trans a b c : bytes_ltb b a = false -> bytes_ltb b c = true -> bytes_ltb a c = true.
Proof.
  intros H1 H2. destruct (bytes_ltb a b) eqn:E.
  - eapply ltb_trans; eauto.
  - rewrite (ltb_total _ _ E H1). assumption.
Qed.

Lemma le_trans a b c : bytes_ltb b a = false -> bytes_ltb c b = false -> bytes_ltb c a = false.
Proof.
  intros H1 H2. destruct (bytes_ltb c a) eqn:E; [|reflexivity].
  (* c < a, a <= b  => c < b, contradiction with b <= c... *)
  destruct (bytes_ltb a b) eqn:F.
  - pose proof (ltb_trans _ _ _ E F). congruence.
  - pose proof (ltb_total _ _ F H1). subst b. congruence.
Qed.

(* ------------------------------------------------------------------------------------------ *)
(* 2. orders on tickets, sorting                                                               *)

Definition lt_t (a b : ticket) : Prop := bytes_ltb (tid a) (tid b) = true.
Definition le_t (a b : ticket) : Prop := bytes_ltb (tid b) (tid a) = false.

Lemma lt_t_trans a b c : lt_t a b -> lt_t b c -> lt_t a c.
Proof. unfold lt_t. apply ltb_trans. Qed.
Lemma le_t_trans a b c : le_t a b -> le_t b c -> le_t a c.
Proof. unfold le_t. intros. eapply le_trans; eauto. Qed.
Lemma lt_le a b : lt_t a b -> le_t a b.
Proof. unfold lt_t, le_t. apply ltb_asym. Qed.

Lemma insert_perm t l : Permutation (insert_t t l) (t :: l).
Proof.
  induction l as [|h r IH]; cbn; [reflexivity|].
  destruct (bytes_ltb (tid t) (tid h)); [reflexivity|].
  rewrite IH. apply perm_swap.
Qed.

Lemma sort_perm l : Permutation (sort_tickets l) l.
Proof.
  induction l as [|t l IH]; cbn; [reflexivity|].
  rewrite insert_perm. now constructor.
Qed.

Lemma insert_sorted t l : StronglySorted le_t l -> StronglySorted le_t (insert_t t l).
Proof.
  induction 1 as [|h r Hs IH Hall]; cbn.
  - repeat constructor.
  - destruct (bytes_ltb (tid t) (tid h)) eqn:E.
    + constructor; [constructor; assumption|].
      constructor; [apply lt_le; exact E|].
      eapply Forall_impl; [|exact Hall]. intros x Hx. eapply le_t_trans; [|exact Hx]. apply lt_le; exact E.
    + constructor; [assumption|].
      eapply Permutation_Forall; [symmetry; apply insert_perm|].
      constructor; [exact E|assumption].
Qed.

Lemma sort_sorted l : StronglySorted le_t (sort_tickets l).
Proof. induction l; cbn; [constructor|now apply insert_sorted]. Qed.

(* adjacent scans versus declarative orders *)
Lemma adj_ok_cons ok a b t : adj_ok ok (a :: b :: t) = ok (tid a) (tid b) && adj_ok ok (b :: t).
Proof. reflexivity. Qed.

Lemma order_ok_iff l : order_ok l = true <-> StronglySorted le_t l.
Proof.
  unfold order_ok. split.
  - intros H. apply Sorted_StronglySorted; [intros x y z; apply le_t_trans|].
    induction l as [|a [|b t] IH]; [constructor|repeat constructor|].
    rewrite adj_ok_cons, andb_true_iff in H. destruct H as [H1 H2].
    constructor; [apply IH; exact H2|]. constructor. unfold le_t, bytes_leb in *.
    now apply negb_true_iff in H1.
  - intros H. apply StronglySorted_Sorted in H.
    induction l as [|a [|b t] IH]; [reflexivity|reflexivity|].
    rewrite adj_ok_cons, andb_true_iff. inversion H as [|? ? Hs Hr]; subst. split; [|apply IH; exact Hs].
    inversion Hr; subst. unfold le_t, bytes_leb in *. now apply negb_true_iff.
Qed.

Lemma strict_iff l : StronglySorted lt_t l <-> order_ok l = true /\ nodup_adj l = true.
Proof.
  unfold order_ok, nodup_adj. split.
  - intros H. apply StronglySorted_Sorted in H.
    induction l as [|a [|b t] IH]; [split; reflexivity|split; reflexivity|].
    inversion H as [|? ? Hs Hr]; subst. inversion Hr as [|? ? Hab]; subst.
    destruct (IH Hs) as [I1 I2]. rewrite !adj_ok_cons, I1, I2, !andb_true_r.
    unfold lt_t in Hab. split.
    + unfold bytes_leb. now rewrite (ltb_asym _ _ Hab).
    + apply negb_true_iff, eqb_neq, ltb_neq. exact Hab.
  - intros [H1 H2]. apply Sorted_StronglySorted; [intros x y z; apply lt_t_trans|].
    induction l as [|a [|b t] IH]; [constructor|repeat constructor|].
    rewrite adj_ok_cons, andb_true_iff in H1, H2. destruct H1 as [H1 H1'], H2 as [H2 H2'].
    constructor; [apply IH; assumption|]. constructor. unfold lt_t.
    apply negb_true_iff in H1. apply negb_true_iff, eqb_neq in H2. unfold bytes_leb in H1.
    destruct (bytes_ltb (tid a) (tid b)) eqn:E; [reflexivity|].
    exfalso. apply H2. apply ltb_total; [exact E|]. unfold bytes_leb in H1. exact H1.
Qed.

Lemma strict_NoDup l : StronglySorted lt_t l -> NoDup (map tid l).
Proof.
  induction 1 as [|a l Hs IH Hall]; cbn; constructor; [|assumption].
  intros Hin. apply in_map_iff in Hin. destruct Hin as [x [Hx Hi]].
  rewrite Forall_forall in Hall. specialize (Hall x Hi). unfold lt_t in Hall.
  rewrite Hx, ltb_irrefl in Hall. discriminate.
Qed.

Lemma NoDup_nodup_adj l : NoDup (map tid l) -> nodup_adj l = true.
Proof.
  unfold nodup_adj. induction l as [|a [|b t] IH]; intros H; [reflexivity|reflexivity|].
  rewrite adj_ok_cons. cbn [map] in H. inversion H as [|? ? Hn Hd]; subst.
  rewrite IH by exact Hd. rewrite andb_true_r. apply negb_true_iff, eqb_neq.
  intros E. apply Hn. left. symmetry. exact E.
Qed.

Lemma sorted_strict_of_NoDup l : StronglySorted le_t l -> NoDup (map tid l) -> StronglySorted lt_t l.
Proof.
  intros H1 H2. apply strict_iff. split; [apply order_ok_iff; exact H1|apply NoDup_nodup_adj; exact H2].
Qed.

(* the duplicate scan of the sorted union succeeds exactly when all identifiers are distinct *)
Lemma nodup_sort_iff l : nodup_adj (sort_tickets l) = true <-> NoDup (map tid l).
Proof.
  split.
  - intros H. assert (S : StronglySorted lt_t (sort_tickets l)).
    { apply strict_iff. split; [apply order_ok_iff, sort_sorted|exact H]. }
    apply strict_NoDup in S. eapply Permutation_NoDup; [|exact S].
    apply Permutation_map, sort_perm.
  - intros H. apply NoDup_nodup_adj. eapply Permutation_NoDup; [|exact H].
    apply Permutation_map. symmetry. apply sort_perm.
Qed.

Lemma NoDup_app_iff {A} (a b : list A) :
  NoDup (a ++ b) <-> NoDup a /\ NoDup b /\ (forall x, In x a -> In x b -> False).
Proof.
  induction a as [|x a IH]; cbn.
  - split; [intros H; repeat split; [constructor|exact H|tauto]|tauto].
  - split.
    + intros H. inversion H as [|? ? Hn Hd]; subst. apply IH in Hd. destruct Hd as [Ha [Hb Hx]].
      repeat split; [constructor; [|exact Ha]|exact Hb|].
      * intros Hi. apply Hn, in_or_app. now left.
      * intros y [->|Hy] Hyb; [apply Hn, in_or_app; now right|eapply Hx; eauto].
    + intros [Ha [Hb Hx]]. inversion Ha as [|? ? Hn Hd]; subst. constructor.
      * intros Hi. apply in_app_or in Hi. destruct Hi as [Hi|Hi]; [tauto|]. eapply Hx; [left; reflexivity|exact Hi].
      * apply IH. repeat split; [exact Hd|exact Hb|]. intros y Hy. apply Hx. now right.
Qed.

(* ------------------------------------------------------------------------------------------ *)
(* 3. the accumulator step                                                                     *)

Definition acc_ok (P : params) (l : list ticket) : Prop :=
  StronglySorted lt_t l /\ NoDup (map tid l) /\ (length l <= pE P)%nat.

Lemma acc_step_accept_bool P tau tau' ga ext :
  fst (acc_step P tau tau' ga ext) = Accept <->
  window_ok P tau' ext = true /\ attempts_ok P ext = true /\ proofs_ok ext = true /\
  order_ok (map body ext) = true /\ nodup_adj (map body ext) = true /\
  nodup_adj (sort_tickets (map body ext ++ carried P tau tau' ga)) = true.
Proof.
  unfold acc_step.
  destruct (window_ok P tau' ext); cbn [negb]; [|cbn; split; [discriminate|intros [? _]; discriminate]].
  destruct (attempts_ok P ext); cbn [negb]; [|cbn; split; [discriminate|intros [_ [? _]]; discriminate]].
  destruct (proofs_ok ext); cbn [negb]; [|cbn; split; [discriminate|intros [_ [_ [? _]]]; discriminate]].
  destruct (order_ok (map body ext)); cbn [negb]; [|cbn; split; [discriminate|intros [_ [_ [_ [? _]]]]; discriminate]].
  destruct (nodup_adj (map body ext)); cbn [negb]; [|cbn; split; [discriminate|intros [_ [_ [_ [_ [? _]]]]]; discriminate]].
  destruct (nodup_adj (sort_tickets _)); cbn; split; try tauto; try discriminate.
  intros [_ [_ [_ [_ [_ ?]]]]]; discriminate.
Qed.

Lemma acc_step_reject_unchanged P tau tau' ga ext :
  fst (acc_step P tau tau' ga ext) <> Accept -> snd (acc_step P tau tau' ga ext) = ga.
Proof.
  unfold acc_step.
  repeat match goal with |- context [if negb ?b then _ else _] => destruct b; cbn [negb fst snd] end;
    try reflexivity. congruence.
Qed.

Lemma acc_step_accept_value P tau tau' ga ext :
  fst (acc_step P tau tau' ga ext) = Accept ->
  snd (acc_step P tau tau' ga ext) = firstn (pE P) (sort_tickets (map body ext ++ carried P tau tau' ga)).
Proof.
  unfold acc_step.
  repeat match goal with |- context [if negb ?b then _ else _] => destruct b; cbn [negb fst snd] end;
    try discriminate. reflexivity.
Qed.

Lemma carried_reset P tau tau' ga : epoch_of P tau < epoch_of P tau' -> carried P tau tau' ga = [].
Proof. unfold carried. intros H. apply N.ltb_lt in H. now rewrite H. Qed.
Lemma carried_same P tau tau' ga : epoch_of P tau' <= epoch_of P tau -> carried P tau tau' ga = ga.
Proof. unfold carried. intros H. apply N.ltb_ge in H. now rewrite H. Qed.

Lemma StronglySorted_firstn {A} (R : A -> A -> Prop) n l : StronglySorted R l -> StronglySorted R (firstn n l).
Proof.
  revert n; induction l as [|a l IH]; intros [|n] H; cbn; try constructor.
  - apply IH. now inversion H.
  - inversion H as [|? ? _ Hall]; subst. rewrite Forall_forall in *. intros x Hx. apply Hall.
    rewrite <- (firstn_skipn n l). apply in_or_app. now left.
Qed.

Lemma StronglySorted_app_lt {A} (R : A -> A -> Prop) l1 l2 :
  StronglySorted R (l1 ++ l2) -> forall x y, In x l1 -> In y l2 -> R x y.
Proof.
  induction l1 as [|a l1 IH]; cbn; intros H x y Hx Hy; [contradiction|].
  inversion H as [|? ? Hs Hall]; subst. destruct Hx as [->|Hx].
  - rewrite Forall_forall in Hall. apply Hall, in_or_app. now right.
  - eapply IH; eauto.
Qed.

(* acc_spec: the accepted accumulator is firstn E of the sorted union, i.e. exactly the E lowest identifiers *)
Lemma acc_spec P tau tau' ga ext ga' :
  acc_step P tau tau' ga ext = (Accept, ga') ->
  let c := carried P tau tau' ga in
  let u := map body ext ++ c in
  ga' = firstn (pE P) (sort_tickets u) /\
  (epoch_of P tau < epoch_of P tau' -> c = []) /\ (epoch_of P tau' <= epoch_of P tau -> c = ga) /\
  StronglySorted lt_t ga' /\
  (forall t, In t ga' -> In t u) /\
  (forall t, In t u -> In t ga' \/ (length ga' = pE P /\ forall x, In x ga' -> lt_t x t)) /\
  length ga' = Nat.min (pE P) (length u).
Proof.
  intros H c u.
  assert (Hf : fst (acc_step P tau tau' ga ext) = Accept) by now rewrite H.
  pose proof (acc_step_accept_value _ _ _ _ _ Hf) as Hv. rewrite H in Hv. cbn [snd] in Hv.
  apply acc_step_accept_bool in Hf. destruct Hf as [_ [_ [_ [_ [_ Hd]]]]].
  fold c in Hv, Hd. fold u in Hv, Hd.
  assert (S : StronglySorted lt_t (sort_tickets u)).
  { apply strict_iff. split; [apply order_ok_iff, sort_sorted|exact Hd]. }
  split; [exact Hv|]. split; [apply carried_reset|]. split; [apply carried_same|].
  subst ga'. split; [apply StronglySorted_firstn; exact S|].
  split.
  { intros t Ht. eapply Permutation_in; [apply sort_perm|].
    rewrite <- (firstn_skipn (pE P) (sort_tickets u)). apply in_or_app. now left. }
  split.
  { intros t Ht. assert (Hs : In t (sort_tickets u)) by (eapply Permutation_in; [symmetry; apply sort_perm|exact Ht]).
    rewrite <- (firstn_skipn (pE P) (sort_tickets u)) in Hs. apply in_app_or in Hs. destruct Hs as [Hs|Hs]; [now left|right].
    split.
    - rewrite firstn_length. apply Nat.min_l.
      destruct (Nat.le_gt_cases (pE P) (length (sort_tickets u))) as [L|L]; [exact L|].
      rewrite skipn_all2 in Hs by lia. contradiction.
    - intros x Hx. rewrite <- (firstn_skipn (pE P) (sort_tickets u)) in S.
      eapply StronglySorted_app_lt; eauto. }
  rewrite firstn_length. f_equal. apply Permutation_length, sort_perm.
Qed.

Lemma acc_step_inv P tau tau' ga ext ga' : acc_step P tau tau' ga ext = (Accept, ga') -> acc_ok P ga'.
Proof.
  intros H. destruct (acc_spec _ _ _ _ _ _ H) as [_ [_ [_ [S [_ [_ L]]]]]].
  split; [exact S|]. split; [apply strict_NoDup; exact S|]. rewrite L. apply Nat.le_min_l.
Qed.

(* --- acceptance conditions, declaratively --- *)
Definition in_window (P : params) (tau' : N) (ext : list envelope) : Prop :=
  (slot_of P tau' < pY P /\ (length ext <= pK P)%nat) \/ (pY P <= slot_of P tau' /\ ext = []).
Definition after_window (P : params) (tau' : N) (ext : list envelope) : Prop := pY P <= slot_of P tau' /\ ext <> [].
Definition oversize (P : params) (tau' : N) (ext : list envelope) : Prop := slot_of P tau' < pY P /\ (pK P < length ext)%nat.
Definition over_attempted (P : params) (ext : list envelope) : Prop := exists e, In e ext /\ pN P <= eatt e.
Definition bad_proof (ext : list envelope) : Prop := exists e, In e ext /\ evalid e = false.
Definition elt (a b : envelope) : Prop := bytes_ltb (eid a) (eid b) = true.
Definition ele (a b : envelope) : Prop := bytes_ltb (eid b) (eid a) = false.
Definition strictly_ascending (ext : list envelope) : Prop := StronglySorted elt ext.
Definition unsorted (ext : list envelope) : Prop := ~ StronglySorted ele ext.
Definition duplicated (ext : list envelope) : Prop := ~ NoDup (map eid ext).
Definition clash (ext : list envelope) (c : list ticket) : Prop := exists e t, In e ext /\ In t c /\ eid e = tid t.

Lemma window_ok_iff P tau' ext : window_ok P tau' ext = true <-> in_window P tau' ext.
Proof.
  unfold window_ok, in_window. destruct (N.ltb_spec (slot_of P tau') (pY P)).
  - rewrite Nat.leb_le. split; [left; tauto|intros [[_ ?]|[? _]]; [assumption|lia]].
  - destruct ext; split; try discriminate; try (right; split; [assumption|reflexivity]); try reflexivity.
    intros [[? _]|[_ ?]]; [lia|discriminate].
Qed.

Lemma window_bad_iff P tau' ext : window_ok P tau' ext = false <-> after_window P tau' ext \/ oversize P tau' ext.
Proof.
  unfold window_ok, after_window, oversize. destruct (N.ltb_spec (slot_of P tau') (pY P)).
  - rewrite Nat.leb_gt. split; [right; tauto|intros [[? _]|[_ ?]]; [lia|assumption]].
  - destruct ext; split; try discriminate; try reflexivity.
    + intros [[_ ?]|[? _]]; [congruence|lia].
    + intros _. left. split; [assumption|discriminate].
Qed.

Lemma forallb_false {A} (f : A -> bool) l : forallb f l = false <-> exists x, In x l /\ f x = false.
Proof.
  induction l as [|a l IH]; cbn.
  - split; [discriminate|intros [? [[] _]]].
  - rewrite andb_false_iff, IH. split.
    + intros [H|[x [Hx Hf]]]; [exists a; auto|exists x; auto].
    + intros [x [[->|Hx] Hf]]; [now left|right; exists x; auto].
Qed.

Lemma attempts_ok_iff P ext : attempts_ok P ext = true <-> forall e, In e ext -> eatt e < pN P.
Proof. unfold attempts_ok. rewrite forallb_forall. split; intros H e He; specialize (H e He); now apply N.ltb_lt. Qed.
Lemma attempts_bad_iff P ext : attempts_ok P ext = false <-> over_attempted P ext.
Proof.
  unfold attempts_ok, over_attempted. rewrite forallb_false.
  split; intros [e [He Hf]]; exists e; split; auto; now apply N.ltb_ge.
Qed.
Lemma proofs_ok_iff ext : proofs_ok ext = true <-> forall e, In e ext -> evalid e = true.
Proof. unfold proofs_ok. apply forallb_forall. Qed.
Lemma proofs_bad_iff ext : proofs_ok ext = false <-> bad_proof ext.
Proof. unfold proofs_ok, bad_proof. apply forallb_false. Qed.

Lemma StronglySorted_map {A B} (f : A -> B) (R : B -> B -> Prop) l :
  StronglySorted R (map f l) <-> StronglySorted (fun a b => R (f a) (f b)) l.
Proof.
  induction l as [|a l IH]; cbn; split; intros H; try constructor; inversion H; subst.
  - now apply IH.
  - rewrite Forall_forall in *. intros x Hx. match goal with H : forall _, In _ (map f l) -> _ |- _ => apply H end. now apply in_map.
  - now apply IH.
  - rewrite Forall_forall in *. intros y Hy. apply in_map_iff in Hy. destruct Hy as [x [<- Hx]]. auto.
Qed.

Lemma body_lt_iff ext : StronglySorted lt_t (map body ext) <-> strictly_ascending ext.
Proof. unfold strictly_ascending. rewrite StronglySorted_map. reflexivity. Qed.
Lemma body_le_iff ext : StronglySorted le_t (map body ext) <-> StronglySorted ele ext.
Proof. rewrite StronglySorted_map. reflexivity. Qed.
Lemma body_ids ext : map tid (map body ext) = map eid ext.
Proof. rewrite map_map. reflexivity. Qed.

(* strictly ascending = sorted and duplicate-free *)
Lemma strictly_ascending_iff ext : strictly_ascending ext <-> StronglySorted ele ext /\ NoDup (map eid ext).
Proof.
  rewrite <- body_lt_iff, <- body_le_iff, <- body_ids. split.
  - intros H. split; [|apply strict_NoDup; exact H]. apply strict_iff in H. apply order_ok_iff. tauto.
  - intros [H1 H2]. apply sorted_strict_of_NoDup; assumption.
Qed.

Lemma no_clash_iff ext c :
  ~ clash ext c <-> (forall x, In x (map tid (map body ext)) -> In x (map tid c) -> False).
Proof.
  unfold clash. rewrite body_ids. split.
  - intros H x Hx Hc. apply in_map_iff in Hx, Hc. destruct Hx as [e [<- He]], Hc as [t [Ht Hi]].
    apply H. exists e, t. auto.
  - intros H [e [t [He [Ht E]]]]. apply (H (eid e)); [now apply in_map|rewrite E; now apply in_map].
Qed.

Lemma clash_dec ext c : clash ext c \/ ~ clash ext c.
Proof.
  unfold clash. induction ext as [|e ext IH].
  - right. intros [? [? [[] _]]].
  - destruct (in_dec bytes_eq_dec (eid e) (map tid c)) as [Hi|Hn].
    + left. apply in_map_iff in Hi. destruct Hi as [t [Ht Hi]]. exists e, t. cbn. auto.
    + destruct IH as [[e' [t [He [Ht E]]]]|IH].
      * left. exists e', t. cbn. auto.
      * right. intros [e' [t [[<-|He] [Ht E]]]].
        -- apply Hn. rewrite E. now apply in_map.
        -- apply IH. exists e', t. auto.
Qed.

(* accept_iff: a block's tickets are accepted exactly under the stated conditions *)
Lemma accept_iff P tau tau' ga ext :
  NoDup (map tid (carried P tau tau' ga)) ->
  (fst (acc_step P tau tau' ga ext) = Accept <->
   in_window P tau' ext /\ (forall e, In e ext -> eatt e < pN P) /\ (forall e, In e ext -> evalid e = true) /\
   strictly_ascending ext /\ ~ clash ext (carried P tau tau' ga)).
Proof.
  intros Hc. rewrite acc_step_accept_bool, window_ok_iff, attempts_ok_iff, proofs_ok_iff, nodup_sort_iff.
  rewrite map_app, NoDup_app_iff, no_clash_iff. rewrite <- body_lt_iff, strict_iff.
  split.
  - intros [H1 [H2 [H3 [H4 [H5 [H6 [H7 H8]]]]]]]. tauto.
  - intros [H1 [H2 [H3 [[H4 H5] H6]]]]. repeat split; try assumption.
    apply strict_NoDup, strict_iff. tauto.
Qed.

(* reject_iff: rejected iff after the window / oversize / over-attempted / bad proof / unsorted / duplicated / clash *)
Lemma reject_iff P tau tau' ga ext :
  NoDup (map tid (carried P tau tau' ga)) ->
  (fst (acc_step P tau tau' ga ext) <> Accept <->
   after_window P tau' ext \/ oversize P tau' ext \/ over_attempted P ext \/ bad_proof ext \/
   unsorted ext \/ duplicated ext \/ clash ext (carried P tau tau' ga)).
Proof.
  intros Hc. split.
  - intros Hr. rewrite acc_step_accept_bool in Hr.
    destruct (window_ok P tau' ext) eqn:E1.
    2:{ apply window_bad_iff in E1. tauto. }
    destruct (attempts_ok P ext) eqn:E2.
    2:{ apply attempts_bad_iff in E2. tauto. }
    destruct (proofs_ok ext) eqn:E3.
    2:{ apply proofs_bad_iff in E3. tauto. }
    destruct (order_ok (map body ext)) eqn:E4.
    2:{ right; right; right; right; left. unfold unsorted. rewrite <- body_le_iff, <- order_ok_iff. congruence. }
    destruct (nodup_adj (map body ext)) eqn:E5.
    2:{ right; right; right; right; right; left. unfold duplicated. intros Hn. rewrite <- body_ids in Hn.
        apply NoDup_nodup_adj in Hn. congruence. }
    right; right; right; right; right; right.
    destruct (clash_dec ext (carried P tau tau' ga)) as [Hcl|Hcl]; [exact Hcl|exfalso].
    apply Hr. repeat split; try reflexivity.
    apply nodup_sort_iff. rewrite map_app. apply NoDup_app_iff. repeat split; [|exact Hc|apply no_clash_iff; exact Hcl].
    apply strict_NoDup, strict_iff. tauto.
  - intros Hd Ha. apply (accept_iff _ _ _ _ _ Hc) in Ha. destruct Ha as [H1 [H2 [H3 [H4 H5]]]].
    apply strictly_ascending_iff in H4. destruct H4 as [H4 H4'].
    destruct Hd as [[Hy Hn]|[[Hy Hn]|[[e [He Hn]]|[[e [He Hn]]|[Hn|[Hn|Hn]]]]]].
    + destruct H1 as [[? _]|[_ ?]]; [lia|congruence].
    + destruct H1 as [[_ ?]|[? _]]; lia.
    + specialize (H2 e He). lia.
    + specialize (H3 e He). congruence.
    + apply Hn, H4.
    + apply Hn, H4'.
    + apply H5, Hn.
Qed.

(* which class is reported: the classes follow the order of the checks in the Go code *)
Lemma reject_class_sound P tau tau' ga ext :
  match fst (acc_step P tau tau' ga ext) with
  | Accept => True
  | RejSlot => False
  | RejTail => after_window P tau' ext \/ oversize P tau' ext
  | RejAttempt => over_attempted P ext
  | RejProof => bad_proof ext
  | RejOrder => unsorted ext
  | RejDup => duplicated ext \/ (NoDup (map tid (carried P tau tau' ga)) -> clash ext (carried P tau tau' ga))
  end.
Proof.
  unfold acc_step.
  destruct (window_ok P tau' ext) eqn:E1; cbn [negb fst]; [|apply window_bad_iff; exact E1].
  destruct (attempts_ok P ext) eqn:E2; cbn [negb fst]; [|apply attempts_bad_iff; exact E2].
  destruct (proofs_ok ext) eqn:E3; cbn [negb fst]; [|apply proofs_bad_iff; exact E3].
  destruct (order_ok (map body ext)) eqn:E4; cbn [negb fst].
  2:{ unfold unsorted. rewrite <- body_le_iff, <- order_ok_iff. congruence. }
  destruct (nodup_adj (map body ext)) eqn:E5; cbn [negb fst].
  2:{ left. unfold duplicated. intros Hn. rewrite <- body_ids in Hn. apply NoDup_nodup_adj in Hn. congruence. }
  destruct (nodup_adj (sort_tickets _)) eqn:E6; cbn [negb fst]; [exact I|].
  right. intros Hc. destruct (clash_dec ext (carried P tau tau' ga)) as [Hcl|Hcl]; [exact Hcl|exfalso].
  assert (T : nodup_adj (sort_tickets (map body ext ++ carried P tau tau' ga)) = true); [|congruence].
  apply nodup_sort_iff. rewrite map_app. apply NoDup_app_iff. repeat split; [|exact Hc|apply no_clash_iff; exact Hcl].
  apply strict_NoDup, strict_iff. tauto.
Qed.

(* ------------------------------------------------------------------------------------------ *)
(* 4. outside-in sequencer                                                                     *)
Local Close Scope N_scope.
Local Open Scope nat_scope.

Lemma even_half i : Nat.even i = true -> i = 2 * (i / 2).
Proof. intros H. apply Nat.even_spec in H. destruct H as [k ->]. rewrite Nat.mul_comm, Nat.div_mul by discriminate. lia. Qed.
Lemma odd_half i : Nat.even i = false -> i = 2 * (i / 2) + 1.
Proof.
  intros H. assert (O : Nat.odd i = true) by (rewrite <- Nat.negb_even, H; reflexivity).
  apply Nat.odd_spec in O. destruct O as [k ->].
  replace (2 * k + 1) with (1 + k * 2) at 2 by lia. rewrite Nat.div_add by discriminate. cbn. lia.
Qed.

Lemma oi_index_even E i : oi_index E (2 * i) = i.
Proof.
  unfold oi_index. replace (Nat.even (2 * i)) with true.
  - rewrite Nat.mul_comm, Nat.div_mul by discriminate. reflexivity.
  - symmetry. apply Nat.even_spec. exists i. reflexivity.
Qed.
Lemma oi_index_odd E i : oi_index E (2 * i + 1) = E - 1 - i.
Proof.
  unfold oi_index. replace (Nat.even (2 * i + 1)) with false.
  - replace (2 * i + 1) with (1 + i * 2) by lia. rewrite Nat.div_add by discriminate. reflexivity.
  - symmetry. rewrite <- Nat.negb_odd. apply negb_false_iff, Nat.odd_spec. exists i. reflexivity.
Qed.

Lemma oi_index_lt E i : i < E -> oi_index E i < E.
Proof.
  intros H. destruct (Nat.even i) eqn:Ev.
  - pose proof (even_half _ Ev) as Hh. rewrite Hh, oi_index_even. lia.
  - pose proof (odd_half _ Ev) as Hh. rewrite Hh, oi_index_odd. lia.
Qed.

Lemma oi_index_inj E i j : i < E -> j < E -> oi_index E i = oi_index E j -> i = j.
Proof.
  intros Hi Hj.
  destruct (Nat.even i) eqn:Ei; [pose proof (even_half _ Ei) as Hh|pose proof (odd_half _ Ei) as Hh];
  destruct (Nat.even j) eqn:Ej; [pose proof (even_half _ Ej) as Hk|pose proof (odd_half _ Ej) as Hk| |];
  try pose proof (even_half _ Ej) as Hk; try pose proof (odd_half _ Ej) as Hk;
  rewrite Hh, Hk; rewrite ?oi_index_even, ?oi_index_odd; lia.
Qed.

Lemma NoDup_map_inj_on {A B} (f : A -> B) l :
  (forall x y, In x l -> In y l -> f x = f y -> x = y) -> NoDup l -> NoDup (map f l).
Proof.
  induction l as [|a l IH]; intros Hinj Hn; cbn; [constructor|].
  inversion Hn as [|? ? Ha Hl]; subst. constructor.
  - intros Hi. apply in_map_iff in Hi. destruct Hi as [x [Hx Hi]].
    assert (x = a) by (apply Hinj; [now right|now left|exact Hx]). subst. contradiction.
  - apply IH; [|exact Hl]. intros x y Hx Hy. apply Hinj; now right.
Qed.

Lemma oi_index_perm E : Permutation (map (oi_index E) (seq 0 E)) (seq 0 E).
Proof.
  apply NoDup_Permutation_bis.
  - apply NoDup_map_inj_on; [|apply seq_NoDup].
    intros x y Hx Hy. apply in_seq in Hx, Hy. apply oi_index_inj; lia.
  - rewrite map_length. lia.
  - intros x Hx. apply in_map_iff in Hx. destruct Hx as [i [<- Hi]]. apply in_seq in Hi.
    apply in_seq. pose proof (oi_index_lt E i). lia.
Qed.

Lemma map_nth_seq {A} (l : list A) d : map (fun i => nth i l d) (seq 0 (length l)) = l.
Proof.
  induction l as [|a l IH]; [reflexivity|].
  cbn [length seq map nth]. f_equal. rewrite <- seq_shift, map_map. exact IH.
Qed.

Lemma outside_in_length {A} E (a : list A) : length a = E -> length (outside_in E a) = E.
Proof.
  intros H. destruct a as [|d a]; cbn in *; [exact H|].
  rewrite map_length, seq_length. reflexivity.
Qed.

Lemma outside_in_nth {A} E (a : list A) i :
  length a = E -> i < E -> nth_error (outside_in E a) i = nth_error a (oi_index E i).
Proof.
  intros H Hi. destruct a as [|d a]; [cbn in H; lia|].
  unfold outside_in. remember (d :: a) as l.
  rewrite (nth_error_nth' _ d) by (rewrite map_length, seq_length; exact Hi).
  rewrite (nth_error_nth' l d) by (rewrite H; apply oi_index_lt; exact Hi).
  f_equal. rewrite (nth_indep _ d (nth (oi_index E 0) l d)) by (rewrite map_length, seq_length; exact Hi).
  rewrite (map_nth (fun i => nth (oi_index E i) l d)). rewrite seq_nth by exact Hi. reflexivity.
Qed.

Lemma outside_in_perm {A} E (a : list A) : length a = E -> Permutation (outside_in E a) a.
Proof.
  intros H. destruct a as [|d a]; [reflexivity|].
  unfold outside_in. remember (d :: a) as l.
  assert (Q : map (fun i => nth i l d) (seq 0 E) = l) by (rewrite <- H; apply map_nth_seq).
  apply Permutation_trans with (map (fun i => nth i l d) (seq 0 E)); [|rewrite Q; reflexivity].
  rewrite <- (map_map (oi_index E) (fun i => nth i l d)).
  apply Permutation_map, oi_index_perm.
Qed.

(* Z[2i] = a[i], Z[2i+1] = a[E-1-i], and Z(a) is a permutation of a, for a full accumulator *)
Lemma outside_in_spec {A} E (a : list A) :
  length a = E ->
  length (outside_in E a) = E /\
  (forall i, 2 * i < E -> nth_error (outside_in E a) (2 * i) = nth_error a i) /\
  (forall i, 2 * i + 1 < E -> nth_error (outside_in E a) (2 * i + 1) = nth_error a (E - 1 - i)) /\
  Permutation (outside_in E a) a.
Proof.
  intros H. split; [apply outside_in_length; exact H|]. split; [|split; [|apply outside_in_perm; exact H]].
  - intros i Hi. rewrite outside_in_nth, oi_index_even by assumption. reflexivity.
  - intros i Hi. rewrite outside_in_nth, oi_index_odd by assumption. reflexivity.
Qed.

(* ------------------------------------------------------------------------------------------ *)
(* 5. fallback key sequence, sealer selection, histories                                       *)
Section WithHash.
Variable H : bytes -> bytes.

Lemma fallback_spec P eta keys :
  length keys = N.to_nat (pV P) -> (0 < pV P)%N ->
  length (fallback H P eta keys) = pE P /\
  (forall i, i < pE P ->
     fallback_index H P eta i < length keys /\
     fallback_index H P eta i = N.to_nat (le_dec (firstn 4 (H (eta ++ le_enc 4 (N.of_nat i)))) mod pV P) /\
     nth_error (fallback H P eta keys) i = nth_error keys (fallback_index H P eta i)) /\
  (forall k, In k (fallback H P eta keys) -> In k keys).
Proof.
  intros HL HV.
  assert (B : forall i, fallback_index H P eta i < length keys).
  { intros i. unfold fallback_index. rewrite HL.
    pose proof (N.mod_lt (le_dec (firstn 4 (H (eta ++ le_enc 4 (N.of_nat i))))) (pV P)). lia. }
  split; [unfold fallback; rewrite map_length, seq_length; reflexivity|]. split.
  - intros i Hi. split; [apply B|]. split; [reflexivity|].
    unfold fallback.
    pose (d := @nil N).
    rewrite (nth_error_nth' (map (fun i0 : nat => nth (fallback_index H P eta i0) keys []) (seq 0 (pE P))) d)
      by (rewrite map_length, seq_length; exact Hi).
    rewrite (nth_error_nth' keys d) by apply B. f_equal.
    rewrite (nth_indep _ d (nth (fallback_index H P eta 0) keys [])) by (rewrite map_length, seq_length; exact Hi).
    rewrite (map_nth (fun i => nth (fallback_index H P eta i) keys [])). rewrite seq_nth by exact Hi. reflexivity.
  - intros k Hk. unfold fallback in Hk. apply in_map_iff in Hk. destruct Hk as [i [<- _]].
    apply nth_In, B.
Qed.

Definition st_iota (s : state) (b : block) : state := set_iota s (b_iota b).

Lemma set_iota_ga s o : s_ga (set_iota s o) = s_ga s.
Proof. destruct o; reflexivity. Qed.
Lemma set_iota_gs s o : s_gs (set_iota s o) = s_gs s.
Proof. destruct o; reflexivity. Qed.
Lemma set_iota_tau s o : s_tau (set_iota s o) = s_tau s.
Proof. destruct o; reflexivity. Qed.
Lemma set_iota_eta1 s o : s_eta1 (set_iota s o) = s_eta1 s.
Proof. destruct o; reflexivity. Qed.
Lemma set_iota_gk s o : s_gk (set_iota s o) = s_gk s.
Proof. destruct o; reflexivity. Qed.

(* a step either rejects and keeps the Safrole state, or accepts with the accumulator of acc_step *)
Lemma step_cases P s b :
  let s1 := set_iota s (b_iota b) in
  (fst (step H P s b) <> Accept /\ snd (step H P s b) = s1) \/
  (fst (step H P s b) = Accept /\ s_tau s < b_slot b /\
   acc_step P (s_tau s) (b_slot b) (s_ga s) (b_ext b) = (Accept, s_ga (snd (step H P s b))) /\
   s_tau (snd (step H P s b)) = b_slot b /\
   s_gs (snd (step H P s b)) =
     next_sealer H P (s_tau s) (b_slot b) (s_ga s) (s_gs s)
       (if epoch_of P (s_tau s) <? epoch_of P (b_slot b) then s_eta1 s else s_eta2 s1)%N
       (if epoch_of P (s_tau s) <? epoch_of P (b_slot b) then s_gk s else s_kappa s1)%N)%N.
Proof.
  intros s1. unfold step. fold s1.
  assert (T : s_tau s1 = s_tau s) by apply set_iota_tau.
  assert (G : s_ga s1 = s_ga s) by apply set_iota_ga.
  assert (S : s_gs s1 = s_gs s) by apply set_iota_gs.
  assert (E1 : s_eta1 s1 = s_eta1 s) by apply set_iota_eta1.
  assert (K : s_gk s1 = s_gk s) by apply set_iota_gk.
  rewrite T, G, S, E1, K.
  destruct (N.leb_spec (b_slot b) (s_tau s)) as [L|L].
  - left. cbn. split; [discriminate|reflexivity].
  - destruct (acc_step P (s_tau s) (b_slot b) (s_ga s) (b_ext b)) as [v ga'] eqn:A.
    destruct v; cbn [fst snd]; try (left; split; [discriminate|reflexivity]).
    right. cbn. repeat split; try reflexivity. exact L.
Qed.

(* over any block history the accumulator stays strictly increasing, duplicate-free and at most E long *)
Lemma run_acc_inv P bs : forall s, acc_ok P (s_ga s) -> acc_ok P (s_ga (run H P s bs)).
Proof.
  induction bs as [|b bs IH]; intros s Hs; cbn [run]; [exact Hs|].
  apply IH. destruct (step_cases P s b) as [[_ E]|[_ [_ [A _]]]].
  - rewrite E, set_iota_ga. exact Hs.
  - eapply acc_step_inv. exact A.
Qed.

(* sealer sequences: outside-in ordering of a full, strictly increasing accumulator, or fallback keys *)
Definition sealer_ok (P : params) (g : sealer) : Prop :=
  match g with
  | STickets l => exists a, acc_ok P a /\ length a = pE P /\ l = outside_in (pE P) a /\ Permutation l a
  | SKeys l => exists eta keys, l = fallback H P eta keys
  end.

Lemma next_sealer_ok P tau tau' ga gs eta kappa :
  acc_ok P ga -> sealer_ok P gs -> sealer_ok P (next_sealer H P tau tau' ga gs eta kappa).
Proof.
  intros Ha Hg. unfold next_sealer.
  destruct ((epoch_of P tau' =? epoch_of P tau + 1)%N && Nat.eqb (length ga) (pE P) && (pY P <=? slot_of P tau)%N) eqn:C.
  - apply andb_true_iff in C. destruct C as [C _]. apply andb_true_iff in C. destruct C as [_ C].
    apply Nat.eqb_eq in C. cbn. exists ga.
    split; [exact Ha|]. split; [exact C|]. split; [reflexivity|apply outside_in_perm; exact C].
  - destruct (epoch_of P tau' =? epoch_of P tau)%N; [exact Hg|]. cbn. eauto.
Qed.

Lemma run_sealer_inv P bs : forall s, acc_ok P (s_ga s) -> sealer_ok P (s_gs s) ->
  acc_ok P (s_ga (run H P s bs)) /\ sealer_ok P (s_gs (run H P s bs)).
Proof.
  induction bs as [|b bs IH]; intros s Ha Hg; cbn [run]; [split; assumption|].
  destruct (step_cases P s b) as [[_ E]|[_ [_ [A [_ G]]]]]; apply IH.
  - rewrite E, set_iota_ga. exact Ha.
  - rewrite E, set_iota_gs. exact Hg.
  - eapply acc_step_inv. exact A.
  - rewrite G. apply next_sealer_ok; assumption.
Qed.

(* GP 6.24 as far as the property states it *)
Lemma sealer_spec P s b :
  fst (step H P s b) = Accept ->
  let s' := snd (step H P s b) in
  let e := epoch_of P (s_tau s) in
  let e' := epoch_of P (b_slot b) in
  (e <= e')%N /\
  (e' = e -> s_gs s' = s_gs s) /\
  (e' = (e + 1)%N -> length (s_ga s) = pE P -> (pY P <= slot_of P (s_tau s))%N ->
     s_gs s' = STickets (outside_in (pE P) (s_ga s))) /\
  ((e < e')%N -> (e' <> (e + 1)%N \/ length (s_ga s) <> pE P \/ (slot_of P (s_tau s) < pY P)%N) ->
     s_gs s' = SKeys (fallback H P (s_eta1 s) (s_gk s))).
Proof.
  intros Hacc s' e e'.
  destruct (step_cases P s b) as [[Hr _]|[_ [L [_ [_ G]]]]]; [contradiction|].
  fold s' in G. fold e e' in G.
  assert (Le : (e <= e')%N).
  { unfold e, e', epoch_of. destruct (N.eq_dec (N.of_nat (pE P)) 0) as [Z|Z].
    - rewrite Z. destruct (s_tau s), (b_slot b); cbn; lia.
    - apply N.div_le_mono; lia. }
  split; [exact Le|]. unfold next_sealer in G. fold e e' in G.
  split; [|split].
  - intros E. rewrite G. replace (e' =? e + 1)%N with false by (symmetry; apply N.eqb_neq; lia).
    cbn. apply N.eqb_eq in E. rewrite E. reflexivity.
  - intros E HL HY. rewrite G. apply N.eqb_eq in E. rewrite E. apply Nat.eqb_eq in HL. rewrite HL.
    apply N.leb_le in HY. rewrite HY. reflexivity.
  - intros Hlt Hc. rewrite G.
    replace (e <? e')%N with true by (symmetry; apply N.ltb_lt; exact Hlt).
    replace (e' =? e)%N with false by (symmetry; apply N.eqb_neq; lia).
    destruct ((e' =? e + 1)%N && Nat.eqb (length (s_ga s)) (pE P) && (pY P <=? slot_of P (s_tau s))%N) eqn:C; [|reflexivity].
    exfalso. apply andb_true_iff in C. destruct C as [C C3]. apply andb_true_iff in C. destruct C as [C1 C2].
    apply N.eqb_eq in C1. apply Nat.eqb_eq in C2. apply N.leb_le in C3. lia.
Qed.

End WithHash.
