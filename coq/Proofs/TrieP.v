(* C15 — proofs about Model/Trie.v *)
From JamV Require Import Base.Bytes Model.Trie Proofs.BytesP.
From Coq Require Import Permutation ZifyBool ZifyNat ZifyN.
Local Open Scope N_scope.
Ltac Zify.zify_post_hook ::= Z.div_mod_to_equations.

(* ---------------------------------------------------------------------------------------- *)
(* generic list facts *)

Lemma perm_filter {A} (f : A -> bool) l l' : Permutation l l' -> Permutation (filter f l) (filter f l').
Proof.
  induction 1 as [|x l l' _ IH|x y l|l l' l'' _ IH1 _ IH2]; cbn [filter].
  - constructor.
  - destruct (f x); [constructor|]; exact IH.
  - destruct (f x), (f y); try apply Permutation_refl. apply perm_swap.
  - eapply Permutation_trans; eassumption.
Qed.

Lemma filter_all_true {A} (f : A -> bool) l : Forall (fun x => f x = true) l -> filter f l = l.
Proof. induction 1 as [|x l Hx _ IH]; cbn [filter]; [reflexivity|]. now rewrite Hx, IH. Qed.

Lemma filter_all_false {A} (f : A -> bool) l : Forall (fun x => f x = false) l -> filter f l = [].
Proof. induction 1 as [|x l Hx _ IH]; cbn [filter]; [reflexivity|]. now rewrite Hx, IH. Qed.

Lemma NoDup_map_filter {A B} (g : A -> B) (f : A -> bool) l :
  NoDup (map g l) -> NoDup (map g (filter f l)).
Proof.
  induction l as [|x l IH]; cbn [map filter]; intros Hn; [constructor|].
  inversion Hn as [|? ? Hin Hn']; subst.
  destruct (f x); cbn [map]; [constructor|]; auto.
  intros Hc. apply Hin. apply in_map_iff in Hc. destruct Hc as [y [Hy Hf]].
  apply filter_In in Hf. apply in_map_iff. exists y. tauto.
Qed.

(* ---------------------------------------------------------------------------------------- *)
(* index operations used by the swap loop *)

Lemma nth_mid (a : list entry) x r : nth (length a) (a ++ x :: r) dflt = x.
Proof. apply nth_middle. Qed.

Lemma skipn_mid (a : list entry) x r : skipn (S (length a)) (a ++ x :: r) = r.
Proof.
  replace (a ++ x :: r) with ((a ++ [x]) ++ r) by (rewrite <- app_assoc; reflexivity).
  apply skipn_app_exact. rewrite app_length. cbn [length]. lia.
Qed.

Lemma upd_mid (a : list entry) y r x : upd (a ++ y :: r) (length a) x = a ++ x :: r.
Proof.
  unfold upd. rewrite skipn_mid. now rewrite firstn_app_exact by reflexivity.
Qed.

Lemma swap_same (a : list entry) x r : swap (a ++ x :: r) (length a) (length a) = a ++ x :: r.
Proof. unfold swap. rewrite nth_mid. now rewrite !upd_mid. Qed.

Lemma nth_mid2 (a : list entry) b m x r :
  nth (length a + S (length m)) (a ++ b :: m ++ x :: r) dflt = x.
Proof.
  replace (a ++ b :: m ++ x :: r) with ((a ++ b :: m) ++ x :: r)
    by (rewrite <- app_assoc; reflexivity).
  replace (length a + S (length m))%nat with (length (a ++ b :: m))
    by (rewrite app_length; reflexivity).
  apply nth_mid.
Qed.

Lemma upd_mid2 (a : list entry) b m y r x :
  upd (a ++ b :: m ++ y :: r) (length a + S (length m)) x = a ++ b :: m ++ x :: r.
Proof.
  replace (a ++ b :: m ++ y :: r) with ((a ++ b :: m) ++ y :: r)
    by (rewrite <- app_assoc; reflexivity).
  replace (length a + S (length m))%nat with (length (a ++ b :: m))
    by (rewrite app_length; reflexivity).
  rewrite upd_mid. rewrite <- app_assoc. reflexivity.
Qed.

Lemma swap_apart (a : list entry) b m x r :
  swap (a ++ b :: m ++ x :: r) (length a) (length a + S (length m)) = a ++ x :: m ++ b :: r.
Proof.
  unfold swap. rewrite nth_mid, nth_mid2, upd_mid, upd_mid2. reflexivity.
Qed.

(* ---------------------------------------------------------------------------------------- *)
(* the Go partition loop: invariant  l = A ++ B ++ C, left = |A|, right = |A|+|B|,
   A all bit 0, B all bit 1; C is the unread suffix *)

Lemma bit0_false_bit1 d e : bit0 d e = false -> bit1 d e = true.
Proof. unfold bit0, bit1. now destruct (bit (fst e) d). Qed.
Lemma bit0_true_bit1 d e : bit0 d e = true -> bit1 d e = false.
Proof. unfold bit0, bit1. now destruct (bit (fst e) d). Qed.
Lemma bit1_true_bit0 d e : bit1 d e = true -> bit0 d e = false.
Proof. unfold bit0, bit1. now destruct (bit (fst e) d). Qed.

Lemma perm_swap_ends {A} (x b : A) m c : Permutation (x :: m ++ b :: c) (b :: m ++ x :: c).
Proof.
  eapply Permutation_trans; [apply perm_skip, Permutation_sym, Permutation_middle|].
  eapply Permutation_trans; [apply perm_swap|].
  apply perm_skip, Permutation_middle.
Qed.

Lemma part_loop_inv d : forall C A B l right left,
  l = A ++ B ++ C -> right = (length A + length B)%nat -> left = length A ->
  Forall (fun e => bit0 d e = true) A -> Forall (fun e => bit1 d e = true) B ->
  exists A' B',
    part_loop d (length C) right left l = (A' ++ B', length A') /\
    Forall (fun e => bit0 d e = true) A' /\ Forall (fun e => bit1 d e = true) B' /\
    Permutation (A' ++ B') (A ++ B ++ C).
Proof.
  induction C as [|x C IH]; intros A B l right left Hl Hr Hle HA HB.
  - exists A, B. cbn [length part_loop]. subst. rewrite app_nil_r. repeat split; auto.
  - cbn [length part_loop].
    assert (Hnth : nth right l dflt = x).
    { subst l right. rewrite app_assoc. rewrite <- app_length. apply nth_mid. }
    rewrite Hnth. destruct (bit0 d x) eqn:Hx.
    + destruct B as [|b B'].
      * (* left = right: the swap is the identity *)
        assert (Hs : swap l left right = (A ++ [x]) ++ [] ++ C).
        { subst. cbn [app length]. rewrite Nat.add_0_r. rewrite swap_same.
          rewrite <- app_assoc. reflexivity. }
        rewrite Hs.
        destruct (IH (A ++ [x]) [] ((A ++ [x]) ++ [] ++ C) (S right) (S left)) as [A' [B' [E [FA [FB P]]]]].
        -- reflexivity.
        -- subst. rewrite app_length. cbn [length]. lia.
        -- subst. rewrite app_length. cbn [length]. lia.
        -- apply Forall_app. split; [exact HA|]. constructor; [exact Hx|constructor].
        -- constructor.
        -- exists A', B'. repeat split; auto.
           eapply Permutation_trans; [exact P|]. subst. cbn [app]. rewrite <- app_assoc. apply Permutation_refl.
      * assert (Hs : swap l left right = (A ++ [x]) ++ (B' ++ [b]) ++ C).
        { subst. cbn [app length]. rewrite swap_apart. rewrite <- !app_assoc. reflexivity. }
        rewrite Hs.
        destruct (IH (A ++ [x]) (B' ++ [b]) ((A ++ [x]) ++ (B' ++ [b]) ++ C) (S right) (S left)) as [A' [B'' [E [FA [FB P]]]]].
        -- reflexivity.
        -- subst. rewrite !app_length. cbn [length]. lia.
        -- subst. rewrite app_length. cbn [length]. lia.
        -- apply Forall_app. split; [exact HA|]. constructor; [exact Hx|constructor].
        -- inversion HB; subst. apply Forall_app. split; [assumption|]. constructor; [assumption|constructor].
        -- exists A', B''. repeat split; auto.
           eapply Permutation_trans; [exact P|]. subst.
           rewrite <- !app_assoc. apply Permutation_app_head. cbn [app].
           apply perm_swap_ends.
    + destruct (IH A (B ++ [x]) l (S right) left) as [A' [B' [E [FA [FB P]]]]].
      * subst. rewrite <- app_assoc. reflexivity.
      * subst. rewrite app_length. cbn [length]. lia.
      * assumption.
      * assumption.
      * apply Forall_app. split; [assumption|]. constructor; [now apply bit0_false_bit1|constructor].
      * exists A', B'. repeat split; auto.
        eapply Permutation_trans; [exact P|]. rewrite <- app_assoc. apply Permutation_refl.
Qed.

Lemma go_partition_spec d l :
  exists A B, go_partition d l = (A, B) /\
    Forall (fun e => bit0 d e = true) A /\ Forall (fun e => bit1 d e = true) B /\
    Permutation (A ++ B) l.
Proof.
  destruct (part_loop_inv d l [] [] l 0%nat 0%nat) as [A [B [E [FA [FB P]]]]];
    try reflexivity; try constructor.
  exists A, B. unfold go_partition. rewrite E.
  rewrite firstn_app_exact by reflexivity. rewrite skipn_app_exact by reflexivity.
  repeat split; auto.
Qed.

Lemma go_partition_ok d l :
  Permutation (fst (go_partition d l)) (filter (bit0 d) l) /\
  Permutation (snd (go_partition d l)) (filter (bit1 d) l).
Proof.
  destruct (go_partition_spec d l) as [A [B [E [FA [FB P]]]]]. rewrite E. cbn [fst snd].
  assert (FA1 : Forall (fun e => bit1 d e = false) A)
    by (eapply Forall_impl; [|exact FA]; intros; now apply bit0_true_bit1).
  assert (FB0 : Forall (fun e => bit0 d e = false) B)
    by (eapply Forall_impl; [|exact FB]; intros; now apply bit1_true_bit0).
  split.
  - pose proof (perm_filter (bit0 d) _ _ P) as Q. rewrite filter_app in Q.
    rewrite (filter_all_true _ _ FA), (filter_all_false _ _ FB0), app_nil_r in Q. exact Q.
  - pose proof (perm_filter (bit1 d) _ _ P) as Q. rewrite filter_app in Q.
    rewrite (filter_all_false _ _ FA1), (filter_all_true _ _ FB) in Q. exact Q.
Qed.

(* the left part keeps the original relative order (the loop is stable on the 0 side) is not
   needed: only the multiset of each side matters, by trie_perm below. *)

(* ---------------------------------------------------------------------------------------- *)
Section WithH.
Variable H : bytes -> bytes.

Lemma trie_step f d e1 e2 t :
  trie H (S f) d (e1 :: e2 :: t) =
  match trie H f (S d) (filter (bit0 d) (e1 :: e2 :: t)), trie H f (S d) (filter (bit1 d) (e1 :: e2 :: t)) with
  | Some l, Some r => Some (H (branch l r))
  | _, _ => None
  end.
Proof. reflexivity. Qed.

Lemma merklize_step f d e1 e2 t :
  merklize H (S f) d (e1 :: e2 :: t) =
  let (l, r) := go_partition d (e1 :: e2 :: t) in
  match merklize H f (S d) l, merklize H f (S d) r with
  | Some a, Some b => Some (H (branch a b))
  | _, _ => None
  end.
Proof. reflexivity. Qed.

(* order independence of the specification, for every fuel and depth *)
Lemma trie_perm : forall f d l l', Permutation l l' -> trie H f d l = trie H f d l'.
Proof.
  induction f as [|f IH]; intros d l l' P.
  - destruct l as [|e1 [|e2 t]].
    + apply Permutation_nil in P. now subst.
    + apply Permutation_length_1_inv in P. now subst.
    + pose proof (Permutation_length P) as L.
      destruct l' as [|a [|b t']]; cbn [length] in L; try discriminate. reflexivity.
  - destruct l as [|e1 [|e2 t]].
    + apply Permutation_nil in P. now subst.
    + apply Permutation_length_1_inv in P. now subst.
    + pose proof (Permutation_length P) as L.
      destruct l' as [|a [|b t']]; cbn [length] in L; try discriminate.
      rewrite !trie_step.
      rewrite (IH (S d) _ _ (perm_filter (bit0 d) _ _ P)).
      rewrite (IH (S d) _ _ (perm_filter (bit1 d) _ _ P)). reflexivity.
Qed.

(* the Go-shaped model computes the specification, for every fuel, depth and entry list
   (including the out-of-fuel outcome) *)
Lemma merklize_eq_trie : forall f d es, merklize H f d es = trie H f d es.
Proof.
  induction f as [|f IH]; intros d es.
  - destruct es as [|e1 [|e2 t]]; reflexivity.
  - destruct es as [|e1 [|e2 t]]; try reflexivity.
    rewrite merklize_step, trie_step.
    destruct (go_partition_ok d (e1 :: e2 :: t)) as [PA PB].
    destruct (go_partition d (e1 :: e2 :: t)) as [A B]. cbn [fst snd] in PA, PB.
    rewrite !IH. rewrite (trie_perm f (S d) _ _ PA), (trie_perm f (S d) _ _ PB). reflexivity.
Qed.

(* ---------------------------------------------------------------------------------------- *)
(* distinct 31-byte keys never exhaust the fuel *)

Definition key_ok (e : entry) : Prop := length (fst e) = 31%nat /\ wf_bytes (fst e) = true.

Definition agree (d : nat) (es : list entry) : Prop :=
  forall e1 e2, In e1 es -> In e2 es -> forall i, (i < d)%nat -> bit (fst e1) i = bit (fst e2) i.

Lemma wf_nth_lt k n : wf_bytes k = true -> nth n k 0 < 256.
Proof.
  intros W. destruct (Nat.lt_ge_cases n (length k)) as [L|L].
  - unfold wf_bytes in W. rewrite forallb_forall in W.
    specialize (W _ (nth_In k 0 L)). lia.
  - rewrite nth_overflow by exact L. lia.
Qed.

Lemma small_high_bit x m : x < 256 -> 8 <= m -> N.testbit x m = false.
Proof.
  intros Hx Hm. destruct (N.eq_dec x 0) as [->|Hz]; [apply N.bits_0|].
  apply N.bits_above_log2.
  assert (N.log2 x < 8) by (apply N.log2_lt_pow2; [lia|exact Hx]). lia.
Qed.

Lemma key_ext k1 k2 :
  length k1 = 31%nat -> length k2 = 31%nat -> wf_bytes k1 = true -> wf_bytes k2 = true ->
  (forall i, (i < 248)%nat -> bit k1 i = bit k2 i) -> k1 = k2.
Proof.
  intros L1 L2 W1 W2 E. apply nth_ext with (d := 0) (d' := 0); [congruence|].
  intros n Hn. rewrite L1 in Hn. apply N.bits_inj. intros m.
  destruct (N.lt_ge_cases m 8) as [Hm|Hm].
  - specialize (E (8 * n + (7 - N.to_nat m))%nat). unfold bit in E.
    replace ((8 * n + (7 - N.to_nat m)) / 8)%nat with n in E by lia.
    replace (N.of_nat (7 - (8 * n + (7 - N.to_nat m)) mod 8)) with m in E by lia.
    apply E. lia.
  - rewrite !small_high_bit; auto using wf_nth_lt.
Qed.

Lemma agree_filter0 d es : agree d es -> agree (S d) (filter (bit0 d) es).
Proof.
  intros A e1 e2 I1 I2 i Hi. apply filter_In in I1, I2. destruct I1 as [I1 B1], I2 as [I2 B2].
  destruct (Nat.eq_dec i d) as [->|Hne].
  - unfold bit0 in B1, B2. destruct (bit (fst e1) d), (bit (fst e2) d); auto; discriminate.
  - apply A; auto. lia.
Qed.

Lemma agree_filter1 d es : agree d es -> agree (S d) (filter (bit1 d) es).
Proof.
  intros A e1 e2 I1 I2 i Hi. apply filter_In in I1, I2. destruct I1 as [I1 B1], I2 as [I2 B2].
  destruct (Nat.eq_dec i d) as [->|Hne].
  - unfold bit1 in B1, B2. congruence.
  - apply A; auto. lia.
Qed.

Lemma Forall_filter {A} (P : A -> Prop) f l : Forall P l -> Forall P (filter f l).
Proof.
  rewrite !Forall_forall. intros Hl x Hx. apply filter_In in Hx. apply Hl. tauto.
Qed.

Lemma trie_fuel : forall f d (es : list entry),
  (248 <= f + d)%nat -> NoDup (map fst es) -> Forall key_ok es -> agree d es ->
  trie H f d es <> None.
Proof.
  induction f as [|f IH]; intros d es Hfd ND KO AG.
  - destruct es as [|e1 [|e2 t]]; try discriminate.
    exfalso. inversion ND as [|? ? Hin _]; subst. apply Hin. left.
    inversion KO as [|? ? [L1 W1] KO']; subst. inversion KO' as [|? ? [L2 W2] _]; subst.
    symmetry. apply key_ext; auto. intros i Hi. apply AG; cbn [In]; auto. lia.
  - destruct es as [|e1 [|e2 t]]; try discriminate.
    rewrite trie_step.
    destruct (trie H f (S d) (filter (bit0 d) (e1 :: e2 :: t))) eqn:E0.
    + destruct (trie H f (S d) (filter (bit1 d) (e1 :: e2 :: t))) eqn:E1; [cbv beta iota; discriminate|].
      exfalso. revert E1. apply IH; [lia|now apply NoDup_map_filter|now apply Forall_filter|now apply agree_filter1].
    + exfalso. revert E0. apply IH; [lia|now apply NoDup_map_filter|now apply Forall_filter|now apply agree_filter0].
Qed.

Lemma agree_0 es : agree 0 es.
Proof. intros e1 e2 _ _ i Hi. lia. Qed.

Lemma root_defined es : NoDup (map fst es) -> Forall key_ok es -> root H es <> None.
Proof. intros ND KO. apply trie_fuel; auto using agree_0. lia. Qed.

Lemma merklize_refines es :
  NoDup (map fst es) -> Forall key_ok es -> go_root H es = root H es /\ root H es <> None.
Proof. intros ND KO. split; [apply merklize_eq_trie|now apply root_defined]. Qed.

Lemma root_perm l l' : Permutation l l' -> root H l = root H l'.
Proof. apply trie_perm. Qed.

Lemma go_root_perm l l' : Permutation l l' -> go_root H l = go_root H l'.
Proof. intros P. unfold go_root. rewrite !merklize_eq_trie. now apply trie_perm. Qed.

Lemma root_set l l' : NoDup l -> NoDup l' -> (forall e, In e l <-> In e l') -> root H l = root H l'.
Proof. intros N1 N2 E. apply root_perm. now apply NoDup_Permutation. Qed.

(* ---------------------------------------------------------------------------------------- *)
(* node encodings *)

Lemma leaf_embedded k v : (length v <= 32)%nat ->
  leaf H k v = (128 + N.of_nat (length v)) :: k ++ v ++ zeros (32 - length v).
Proof. intros L. unfold leaf. now rewrite (proj2 (Nat.leb_le _ _) L). Qed.

Lemma leaf_hashed k v : (32 < length v)%nat -> leaf H k v = 192 :: k ++ H v.
Proof. intros L. unfold leaf. now rewrite (proj2 (Nat.leb_gt _ _) L). Qed.

Lemma testbit_div x n : N.testbit x n = negb ((x / 2 ^ n) mod 2 =? 0).
Proof.
  destruct (N.testbit x n) eqn:E.
  - apply N.testbit_true in E. rewrite E. reflexivity.
  - apply N.testbit_false in E. rewrite E. reflexivity.
Qed.

(* bit 6 of the first byte (the second bit of the node) distinguishes embedded from hashed leaves *)
Lemma embedded_iff k v : N.testbit (hd 0 (leaf H k v)) 6 = false <-> (length v <= 32)%nat.
Proof.
  unfold leaf. destruct (Nat.leb_spec (length v) 32) as [L|L]; cbn [hd].
  - split; [intros _; exact L|intros _]. rewrite testbit_div.
    change (2 ^ 6) with 64. apply negb_false_iff, N.eqb_eq. lia.
  - split; [intros E; vm_compute in E; discriminate|lia].
Qed.

Lemma leaf_msb k v : N.testbit (hd 0 (leaf H k v)) 7 = true.
Proof.
  unfold leaf. destruct (Nat.leb_spec (length v) 32) as [L|L]; cbn [hd]; [|reflexivity].
  rewrite testbit_div. change (2 ^ 7) with 128. apply negb_true_iff, N.eqb_neq. lia.
Qed.

(* the 6-bit length field of an embedded leaf *)
Lemma leaf_len_field k v : (length v <= 32)%nat -> hd 0 (leaf H k v) mod 64 = N.of_nat (length v).
Proof. intros L. rewrite leaf_embedded by exact L. cbn [hd]. lia. Qed.

Lemma branch_msb l r : N.testbit (hd 0 (branch l r)) 7 = false.
Proof. unfold branch. cbn [hd]. rewrite N.land_spec. change (N.testbit 127 7) with false. apply andb_false_r. Qed.

Lemma branch_low_bits l r i : i < 7 -> N.testbit (hd 0 (branch l r)) i = N.testbit (hd 0 l) i.
Proof.
  intros Hi. unfold branch. cbn [hd]. rewrite N.land_spec.
  replace (N.testbit 127 i) with true; [apply andb_true_r|].
  assert (i = 0 \/ i = 1 \/ i = 2 \/ i = 3 \/ i = 4 \/ i = 5 \/ i = 6) as D by lia.
  destruct D as [->|[->|[->|[->|[->|[->| ->]]]]]]; reflexivity.
Qed.

Lemma branch_length l r : length l = 32%nat -> length r = 32%nat -> length (branch l r) = 64%nat.
Proof.
  intros Ll Lr. unfold branch. destruct l as [|b t]; [discriminate|].
  cbn [tl length]. rewrite app_length. cbn [length] in Ll. lia.
Qed.

Lemma branch_tail l r : tl (branch l r) = tl l ++ r.
Proof. reflexivity. Qed.

Lemma leaf_length k v : length k = 31%nat -> (forall x, length (H x) = 32%nat) -> length (leaf H k v) = 64%nat.
Proof.
  intros Lk LH. unfold leaf. destruct (Nat.leb_spec (length v) 32) as [L|L];
    cbn [length]; rewrite !app_length; [unfold zeros; rewrite repeat_length|rewrite LH]; lia.
Qed.

Lemma empty_zero f d : trie H f d [] = Some (repeat 0 32).
Proof. destruct f; reflexivity. Qed.

Lemma single_leaf f d k v : trie H f d [(k, v)] = Some (H (leaf H k v)).
Proof. destruct f; reflexivity. Qed.

End WithH.
