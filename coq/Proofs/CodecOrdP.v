(* Order facts for dictionary keys (lexicographic order on list N) and uniqueness of sorting. *)
From JamV Require Import Base.Bytes Model.NatCodec Model.Codec.
From Coq Require Import ZifyBool ZifyNat ZifyN Permutation Sorted.
Local Open Scope N_scope.

Lemma ltb_irrefl a : bytes_ltb a a = false.
Proof.
  induction a as [|x a IH]; [reflexivity|]. cbn [bytes_ltb].
  rewrite N.ltb_irrefl, N.eqb_refl, IH. reflexivity.
Qed.

Lemma ltb_cons x a y b :
  bytes_ltb (x :: a) (y :: b) = true <-> x < y \/ (x = y /\ bytes_ltb a b = true).
Proof.
  cbn [bytes_ltb]. rewrite orb_true_iff, andb_true_iff, N.ltb_lt, N.eqb_eq. tauto.
Qed.

Lemma ltb_trans a : forall b c, bytes_ltb a b = true -> bytes_ltb b c = true -> bytes_ltb a c = true.
Proof.
  induction a as [|x a IH]; intros [|y b] [|z c] H1 H2; try discriminate; try reflexivity.
  apply ltb_cons in H1. apply ltb_cons in H2. apply ltb_cons.
  destruct H1 as [H1|[-> H1]]; destruct H2 as [H2|[-> H2]].
  - left; lia.
  - left; lia.
  - left; lia.
  - right; split; [reflexivity|]. eapply IH; eassumption.
Qed.

Lemma ltb_asym a b : bytes_ltb a b = true -> bytes_ltb b a = true -> False.
Proof.
  intros H1 H2. pose proof (ltb_trans _ _ _ H1 H2) as H. rewrite ltb_irrefl in H. discriminate.
Qed.

Lemma ltb_total a : forall b, bytes_ltb a b = false -> bytes_ltb b a = false -> a = b.
Proof.
  induction a as [|x a IH]; intros [|y b] H1 H2; try discriminate; [reflexivity|].
  cbn [bytes_ltb] in H1, H2.
  apply orb_false_iff in H1. apply orb_false_iff in H2.
  destruct H1 as [H1 H1']. destruct H2 as [H2 H2'].
  apply N.ltb_ge in H1. apply N.ltb_ge in H2.
  assert (x = y) by lia. subst y. rewrite N.eqb_refl in H1', H2'. cbn in H1', H2'.
  f_equal. now apply IH.
Qed.

(* ---- strict sortedness ---- *)

Definition klt (a b : val) : Prop := bytes_ltb (entry_key a) (entry_key b) = true.

Lemma klt_trans : Relations_1.Transitive klt.
Proof. intros a b c. unfold klt. apply ltb_trans. Qed.

Lemma strict_sorted_Sorted es : strict_sorted (map entry_key es) = true <-> Sorted klt es.
Proof.
  induction es as [|a t IH]; [split; constructor|].
  cbn [map strict_sorted]. destruct t as [|b t'].
  - cbn [map]. split; intros _; [repeat constructor|reflexivity].
  - cbn [map] in *. rewrite andb_true_iff, IH. split.
    + intros [H1 H2]. constructor; [assumption|]. constructor. exact H1.
    + intros H. inversion H as [|? ? Hs Hh]; subst. inversion Hh; subst. split; assumption.
Qed.

Lemma strict_sorted_Strongly es : strict_sorted (map entry_key es) = true -> StronglySorted klt es.
Proof. intros H. apply Sorted_StronglySorted; [exact klt_trans|]. now apply strict_sorted_Sorted. Qed.

(* two strictly sorted lists with the same elements are the same list *)
Lemma strongly_sorted_perm_eq l1 : forall l2,
  StronglySorted klt l1 -> StronglySorted klt l2 -> Permutation l1 l2 -> l1 = l2.
Proof.
  induction l1 as [|a t1 IH]; intros l2 S1 S2 P.
  - apply Permutation_nil in P. now subst.
  - destruct l2 as [|b t2]; [apply Permutation_sym, Permutation_nil in P; discriminate|].
    inversion S1 as [|? ? S1' F1]; subst. inversion S2 as [|? ? S2' F2]; subst.
    assert (Eab : a = b).
    { assert (Ia : In a (b :: t2)) by (eapply Permutation_in; [exact P|left; reflexivity]).
      assert (Ib : In b (a :: t1)) by (eapply Permutation_in; [apply Permutation_sym; exact P|left; reflexivity]).
      destruct Ia as [->|Ia]; [reflexivity|]. destruct Ib as [->|Ib]; [reflexivity|].
      rewrite Forall_forall in F1, F2. exfalso. eapply ltb_asym; [apply (F1 _ Ib)|apply (F2 _ Ia)]. }
    subst b. f_equal. apply IH; try assumption. eapply Permutation_cons_inv; exact P.
Qed.

(* ---- insertion sort ---- *)

Lemma insert_perm e l : Permutation (e :: l) (insert_entry e l).
Proof.
  induction l as [|a t IH]; [apply Permutation_refl|]. cbn [insert_entry].
  destruct (bytes_ltb _ _); [|apply Permutation_refl].
  eapply perm_trans; [apply perm_swap|]. now apply perm_skip.
Qed.

Lemma sort_perm l : Permutation l (sort_entries l).
Proof.
  induction l as [|e t IH]; [constructor|]. cbn [sort_entries].
  eapply perm_trans; [apply perm_skip; exact IH|apply insert_perm].
Qed.

(* keys pairwise distinct *)
Definition keys_nodup (l : list val) : Prop := NoDup (map entry_key l).

Lemma insert_sorted e l :
  StronglySorted klt l -> ~ In (entry_key e) (map entry_key l) -> StronglySorted klt (insert_entry e l).
Proof.
  induction l as [|a t IH]; intros S Hn.
  - cbn. constructor; constructor.
  - inversion S as [|? ? S' F]; subst. cbn [insert_entry].
    destruct (bytes_ltb (entry_key a) (entry_key e)) eqn:L.
    + constructor.
      * apply IH; [assumption|]. intros Hin. apply Hn. right. exact Hin.
      * rewrite Forall_forall in *. intros x Hx.
        apply (Permutation_in _ (Permutation_sym (insert_perm e t))) in Hx.
        destruct Hx as [<-|Hx]; [exact L|apply F; exact Hx].
    + assert (Lea : klt e a).
      { unfold klt. destruct (bytes_ltb (entry_key e) (entry_key a)) eqn:L2; [reflexivity|].
        exfalso. apply Hn. left. apply ltb_total; assumption. }
      constructor; [exact S|]. constructor; [exact Lea|].
      rewrite Forall_forall in *. intros x Hx. eapply klt_trans; [exact Lea|apply F; exact Hx].
Qed.

Lemma sort_sorted l : keys_nodup l -> StronglySorted klt (sort_entries l).
Proof.
  unfold keys_nodup. induction l as [|e t IH]; intros ND; [constructor|].
  cbn [map] in ND. inversion ND as [|? ? Hn ND']; subst. cbn [sort_entries].
  apply insert_sorted; [apply IH; exact ND'|].
  intros Hin. apply Hn.
  eapply Permutation_in; [apply Permutation_map, Permutation_sym, sort_perm|exact Hin].
Qed.

Lemma Sorted_strict_sorted es : StronglySorted klt es -> strict_sorted (map entry_key es) = true.
Proof. intros H. apply strict_sorted_Sorted. now apply StronglySorted_Sorted. Qed.

Theorem sort_entries_unique l l' :
  Permutation l l' -> keys_nodup l -> sort_entries l = sort_entries l'.
Proof.
  intros P ND.
  assert (ND' : keys_nodup l').
  { unfold keys_nodup in *. eapply Permutation_NoDup; [apply Permutation_map; exact P|exact ND]. }
  apply strongly_sorted_perm_eq; try (apply sort_sorted; assumption).
  eapply perm_trans; [apply Permutation_sym, sort_perm|].
  eapply perm_trans; [exact P|apply sort_perm].
Qed.
