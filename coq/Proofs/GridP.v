(* C29 — proofs about Model/Grid.v *)
From JamV Require Import Base.Bytes Model.Grid.
From Coq Require Import ZifyBool ZifyNat ZifyN Sorted.
Local Open Scope N_scope.
Ltac Zify.zify_post_hook ::= Z.div_mod_to_equations.

(* ------------------------------------------------------------------------------------------ *)
(* width = floor(sqrt v) *)
Lemma width_pos v : 0 < width v.
Proof.
  unfold width. destruct (N.eqb_spec v 0); [lia|].
  assert (1 <= N.sqrt v); [|lia]. change 1 with (N.sqrt 1). apply N.sqrt_le_mono. lia.
Qed.

Lemma width_sqrt v : 0 < v -> width v = N.sqrt v.
Proof. intros Hv. unfold width. destruct (N.eqb_spec v 0); [lia|reflexivity]. Qed.

Lemma width_floor_sqrt v : 0 < v -> width v * width v <= v < (width v + 1) * (width v + 1).
Proof.
  intros Hv. rewrite width_sqrt by exact Hv. pose proof (N.sqrt_spec v ltac:(lia)) as Hs.
  replace (N.sqrt v + 1) with (N.succ (N.sqrt v)) by lia. exact Hs.
Qed.

Lemma width_unique v w : w * w <= v < (w + 1) * (w + 1) -> N.sqrt v = w.
Proof. intros Hw. apply N.sqrt_unique. replace (N.succ w) with (w + 1) by lia. exact Hw. Qed.

Lemma width_z_of_N v : width_z (Z.of_N v) = width v.
Proof.
  unfold width_z, width. destruct (N.eqb_spec v 0) as [->|Hv]; [reflexivity|].
  destruct (Z.leb_spec (Z.of_N v) 0); [lia|]. rewrite N2Z.id. reflexivity.
Qed.

(* ------------------------------------------------------------------------------------------ *)
(* the in-epoch relation *)
Lemma neighbor_sym v a b : neighbor v a b = neighbor v b a.
Proof.
  unfold neighbor, neighbor_w. rewrite (N.eqb_sym a b), (N.eqb_sym (a / width v)), (N.eqb_sym (a mod width v)).
  destruct (a <? v), (b <? v); reflexivity.
Qed.

Lemma neighbor_irrefl v a : neighbor v a a = false.
Proof. unfold neighbor, neighbor_w. rewrite N.eqb_refl. cbn. rewrite !andb_false_r. reflexivity. Qed.

Lemma neighbor_iff v a b :
  neighbor v a b = true <->
  a < v /\ b < v /\ a <> b /\ (a / N.sqrt v = b / N.sqrt v \/ a mod N.sqrt v = b mod N.sqrt v).
Proof.
  unfold neighbor, neighbor_w.
  destruct (N.eq_dec v 0) as [->|Hv].
  - assert (Ha : a <? 0 = false) by (apply N.ltb_ge; lia). rewrite Ha. cbn. split; [discriminate | lia].
  - rewrite width_sqrt by lia.
    rewrite !andb_true_iff, orb_true_iff, negb_true_iff, !N.ltb_lt, !N.eqb_eq, N.eqb_neq. tauto.
Qed.

Lemma neighbor_in_range v a b : neighbor v a b = true -> a < v /\ b < v.
Proof. intros H. apply neighbor_iff in H. tauto. Qed.

(* ------------------------------------------------------------------------------------------ *)
(* the list of neighbour indices *)
Lemma in_idx_seq n x : In x (idx_seq n) <-> x < n.
Proof.
  unfold idx_seq. rewrite in_map_iff. split.
  - intros (i & <- & Hi). apply in_seq in Hi. lia.
  - intros Hx. exists (N.to_nat x). split; [lia|]. apply in_seq. lia.
Qed.

Lemma neighbor_indices_spec v a b : In b (neighbor_indices v a) <-> neighbor v a b = true.
Proof.
  unfold neighbor_indices. fold (neighbor v a). rewrite filter_In, in_idx_seq. split; [tauto|].
  intros H. split; [|exact H]. apply neighbor_in_range in H. tauto.
Qed.

Lemma idx_seq_from_sorted n s : StronglySorted N.lt (map N.of_nat (seq s n)).
Proof.
  revert s. induction n as [|n IH]; intros s; cbn; constructor.
  - apply IH.
  - apply Forall_forall. intros x Hx. apply in_map_iff in Hx. destruct Hx as (i & <- & Hi).
    apply in_seq in Hi. lia.
Qed.

Lemma filter_sorted {A} (R : A -> A -> Prop) f l : StronglySorted R l -> StronglySorted R (filter f l).
Proof.
  induction 1 as [|x l Hs IH Hx]; cbn; [constructor|].
  destruct (f x); [|exact IH]. constructor; [exact IH|].
  apply Forall_forall. intros y Hy. apply filter_In in Hy.
  rewrite Forall_forall in Hx. apply Hx. tauto.
Qed.

Lemma neighbor_indices_sorted v a : StronglySorted N.lt (neighbor_indices v a).
Proof. unfold neighbor_indices. apply filter_sorted, idx_seq_from_sorted. Qed.

(* ------------------------------------------------------------------------------------------ *)
(* three epochs *)
Lemma node_linked_sym v x y : node_linked v x y = node_linked v y x.
Proof.
  destruct x as [ex i], y as [ey j]. unfold node_linked.
  rewrite (neighbor_sym v i j), (N.eqb_sym i j).
  destruct (ex =? 1), (ey =? 1), (ex =? 0), (ex =? 2), (ey =? 0), (ey =? 2); reflexivity.
Qed.

Lemma node_linked_irrefl v x : node_linked v x x = false.
Proof.
  destruct x as [ex i]. unfold node_linked.
  destruct (N.eqb_spec ex 1) as [->|H1]; cbn; [apply neighbor_irrefl|reflexivity].
Qed.

Lemma node_linked_cur v i j : node_linked v (1, i) (1, j) = neighbor v i j.
Proof. reflexivity. Qed.

Lemma node_linked_cross v e i j : e = 0 \/ e = 2 -> (node_linked v (1, i) (e, j) = true <-> i = j).
Proof. intros [-> | ->]; cbn; apply N.eqb_eq. Qed.

Lemma node_linked_far v i j : node_linked v (0, i) (2, j) = false /\ node_linked v (0, i) (0, j) = false
                              /\ node_linked v (2, i) (2, j) = false.
Proof. repeat split; reflexivity. Qed.

Section Sets.
  Context {K : Type}.
  Variable keq : K -> K -> bool.
  Hypothesis keq_spec : forall a b, keq a b = true <-> a = b.

  Lemma in_at_index (l : list K) i k : In k (at_index l i) <-> nth_error l (N.to_nat i) = Some k.
  Proof.
    unfold at_index. destruct (nth_error l (N.to_nat i)) as [x|]; cbn.
    - split; [intros [->|[]]; reflexivity | intros [= ->]; left; reflexivity].
    - split; [intros [] | discriminate].
  Qed.

  Lemma all_neighbors_spec (g : @grid K) i k :
    In k (all_neighbors g i) <->
    (exists j, neighbor (vcount g) i j = true /\ nth_error (g_cur g) (N.to_nat j) = Some k)
    \/ nth_error (g_prev g) (N.to_nat i) = Some k
    \/ nth_error (g_next g) (N.to_nat i) = Some k.
  Proof.
    unfold all_neighbors. rewrite !in_app_iff, in_flat_map, !in_at_index.
    split.
    - intros [(j & Hj & Hk) | H]; [left | right; exact H].
      exists j. rewrite <- neighbor_indices_spec, <- in_at_index. tauto.
    - intros [(j & Hj & Hk) | H]; [left | right; exact H].
      exists j. rewrite neighbor_indices_spec, in_at_index. tauto.
  Qed.

  Lemma existsb_keq k l : existsb (keq k) l = true <-> In k l.
  Proof.
    rewrite existsb_exists. split.
    - intros (x & Hx & He). apply keq_spec in He. subst. exact Hx.
    - intros Hk. exists k. split; [exact Hk|]. apply keq_spec. reflexivity.
  Qed.

  (* the key-level decision agrees with the neighbour list *)
  Lemma is_neighbor_key_spec (g : @grid K) self k :
    is_neighbor_key keq g self k = true <-> In k (all_neighbors g self).
  Proof.
    unfold is_neighbor_key, same_index_cross, all_neighbors.
    rewrite !orb_true_iff, !in_app_iff, !existsb_keq, existsb_exists, in_flat_map.
    split.
    - intros [(j & Hj & Hk) | H]; [left | right; exact H]. exists j. rewrite <- existsb_keq. tauto.
    - intros [(j & Hj & Hk) | H]; [left | right; exact H]. exists j. rewrite existsb_keq. tauto.
  Qed.
End Sets.

(* ------------------------------------------------------------------------------------------ *)
(* preferred initiator *)
Lemma bytes_ltb_total a : forall b, a <> b -> bytes_ltb a b = negb (bytes_ltb b a).
Proof.
  induction a as [|x a IH]; intros [|y b] Hne; cbn; try reflexivity; [congruence|].
  destruct (N.lt_trichotomy x y) as [Hlt | [Heq | Hgt]].
  - assert (x <? y = true) by (apply N.ltb_lt; lia). assert (y <? x = false) by (apply N.ltb_ge; lia).
    assert (y =? x = false) by (apply N.eqb_neq; lia). rewrite H, H0, H1. reflexivity.
  - subst y. rewrite N.ltb_irrefl, N.eqb_refl. cbn. apply IH. congruence.
  - assert (x <? y = false) by (apply N.ltb_ge; lia). assert (y <? x = true) by (apply N.ltb_lt; lia).
    assert (x =? y = false) by (apply N.eqb_neq; lia). rewrite H, H0, H1. reflexivity.
Qed.

Lemma initiator_in_pair a b : initiator a b = a \/ initiator a b = b.
Proof. unfold initiator. destruct (xorb _ _); [left|right]; reflexivity. Qed.

Lemma initiator_agree a b : a <> b -> initiator a b = initiator b a.
Proof.
  intros Hne. unfold initiator. rewrite (bytes_ltb_total a b Hne).
  destruct (high_bit a), (high_bit b), (bytes_ltb b a); reflexivity.
Qed.

Lemma initiator_same a : initiator a a = a.
Proof. unfold initiator. destruct (xorb _ _); reflexivity. Qed.

(* both peers compute the same initiator, whatever the keys *)
Lemma initiator_agree_all a b : initiator a b = initiator b a.
Proof.
  destruct (list_eq_dec N.eq_dec a b) as [->|Hne]; [reflexivity|]. apply initiator_agree, Hne.
Qed.

(* ------------------------------------------------------------------------------------------ *)
(* the first-index-only decision procedure (manager.go before the repair) is sound but incomplete *)
Section FirstOnly.
  Context {K : Type}.
  Variable keq : K -> K -> bool.
  Hypothesis keq_spec : forall a b, keq a b = true <-> a = b.

  Lemma find_index_from_spec (l : list K) k : forall i j, find_index_from keq l k i = Some j ->
    i <= j /\ nth_error l (N.to_nat (j - i)) = Some k.
  Proof.
    induction l as [|x t IH]; intros i j; cbn; [discriminate|].
    destruct (keq x k) eqn:E.
    - intros [= <-]. apply keq_spec in E. subst x. rewrite N.sub_diag. split; [lia|reflexivity].
    - intros Hf. apply IH in Hf. destruct Hf as [Hle Hn]. split; [lia|].
      replace (N.to_nat (j - i)) with (S (N.to_nat (j - N.succ i))) by lia. exact Hn.
  Qed.

  Lemma first_only_sound (g : @grid K) self k :
    is_neighbor_first_only keq g self k = true -> is_neighbor_key keq g self k = true.
  Proof.
    unfold is_neighbor_first_only, is_neighbor_key, find_index.
    destruct (find_index_from keq (g_cur g) k 0) as [j|] eqn:E.
    - intros Hn. apply orb_true_iff. left. apply existsb_exists. exists j. split.
      + apply neighbor_indices_spec, Hn.
      + apply find_index_from_spec in E. destruct E as [_ E]. rewrite N.sub_0_r in E.
        unfold at_index. rewrite E. cbn. rewrite orb_false_r. apply keq_spec. reflexivity.
    - intros Hs. rewrite Hs. apply orb_true_r.
  Qed.
End FirstOnly.

(* ------------------------------------------------------------------------------------------ *)
(* the width just below, at and just above a perfect square (the points where a rounding error of a
   floating-point square root would show) *)
Lemma width_around_squares k : 1 <= k ->
  width (k * k) = k /\ width (k * k + 1) = k /\ (2 <= k -> width (k * k - 1) = k - 1).
Proof.
  intros Hk. repeat split.
  - rewrite width_sqrt by nia. apply N.sqrt_unique. nia.
  - rewrite width_sqrt by nia. apply N.sqrt_unique. nia.
  - intros H2. rewrite width_sqrt by nia. apply N.sqrt_unique.
    assert (E : k = N.succ (k - 1)) by lia. set (j := k - 1) in *. clearbody j. subst k. nia.
Qed.

(* the width is monotone, so it is constant between consecutive squares *)
Lemma width_between_squares k n : 1 <= k -> k * k <= n < (k + 1) * (k + 1) -> width n = k.
Proof.
  intros Hk Hn. rewrite width_sqrt by nia. apply N.sqrt_unique.
  replace (N.succ k) with (k + 1) by lia. exact Hn.
Qed.
