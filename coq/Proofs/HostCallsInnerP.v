(* C07 — the discipline clauses (frame, write after check, clean panics, no state change on error codes)
   for the six inner-machine host calls machine / peek / poke / pages / invoke / expunge, stated over the
   finished C33 model Model/InnerVm.v (imported, not edited) and proved by case analysis on [hostcall],
   reusing the range, write-back and isolation lemmas of Proofs/InnerVmP.v. *)
From JamV Require Import Model.InnerVm Proofs.PvmCodeP Proofs.PvmMemP Proofs.PvmStepP Proofs.PvmRunP
  Proofs.InnerVmSpec Proofs.InnerVmP.
From Coq Require Import ZifyBool ZifyNat ZifyN.
Local Open Scope Z_scope.

(* ---- the case walk over [hostcall c s = Some (e, s')] ---- *)
Ltac fin_eq Hh := first [ injection Hh as <- <- | unfold ret7 in Hh; injection Hh as <- <- ].

Ltac walk_call Hh :=
  unfold hostcall in Hh;
  match type of Hh with context [?g <? 0] => destruct (Z.ltb_spec g 0) as [Hoog | Hpaid] end;
  [ fin_eq Hh
  | match goal with c : call |- _ => destruct c end;
    [ (* machine *)
      injection Hh as Hh; unfold call_machine in Hh;
      destruct (range_ok readable (o_mem _) _ _) eqn:Erd; cbn [negb] in Hh;
      [ destruct (deblob _) eqn:Edb; fin_eq Hh | fin_eq Hh ]
    | (* peek *)
      injection Hh as Hh; unfold call_peek in Hh;
      destruct (range_ok writable (o_mem _) _ _) eqn:Ewr; cbn [negb] in Hh;
      [ destruct (aget _ (o_mach _)) as [mc |] eqn:Emc;
        [ destruct (range_ok readable (mc_mem mc) _ _) eqn:Ein; cbn [negb] in Hh; fin_eq Hh | fin_eq Hh ]
      | fin_eq Hh ]
    | (* poke *)
      injection Hh as Hh; unfold call_poke in Hh;
      destruct (range_ok readable (o_mem _) _ _) eqn:Erd; cbn [negb] in Hh;
      [ destruct (aget _ (o_mach _)) as [mc |] eqn:Emc;
        [ destruct (range_ok writable (mc_mem mc) _ _) eqn:Ein; cbn [negb] in Hh; fin_eq Hh | fin_eq Hh ]
      | fin_eq Hh ]
    | (* pages *)
      injection Hh as Hh; unfold call_pages in Hh;
      destruct (aget _ (o_mach _)) as [mc |] eqn:Emc;
      [ destruct (_ || _) eqn:Ebad; [ fin_eq Hh | destruct (_ && _) eqn:Ebad2; fin_eq Hh ] | fin_eq Hh ]
    | (* invoke *)
      unfold call_invoke in Hh;
      destruct (range_ok writable (o_mem _) _ 112) eqn:Ewr; cbn [negb] in Hh;
      [ destruct (aget _ (o_mach _)) as [mc |] eqn:Emc;
        [ destruct (inner_run _ _ _) as [[[ex pc'] st'] |] eqn:IR; [ fin_eq Hh | discriminate Hh ] | fin_eq Hh ]
      | fin_eq Hh ]
    | (* expunge *)
      injection Hh as Hh; unfold call_expunge in Hh;
      destruct (aget _ (o_mach _)) as [mc |] eqn:Emc; fin_eq Hh ] ];
  unfold upd; cbn [o_regs o_gas o_mem o_mach].

(* ---- registers ---- *)
Lemma invoke_regs_length r ex : length (invoke_regs r ex) = length r.
Proof. destruct ex; cbn [invoke_regs]; rewrite ?sreg_length; reflexivity. Qed.
Lemma invoke_regs_other r ex i : i <> 7%nat -> i <> 8%nat -> greg (invoke_regs r ex) i = greg r i.
Proof.
  intros H7 H8. destruct ex; cbn [invoke_regs]; rewrite ?greg_sreg_other by congruence; reflexivity.
Qed.
Lemma invoke_regs_w7 r ex : (8 < length r)%nat -> ex <> Continue -> 0 <= greg (invoke_regs r ex) 7 <= 4.
Proof.
  intros L NE. destruct ex; cbn [invoke_regs]; try congruence;
    rewrite ?greg_sreg_other by congruence; rewrite greg_sreg_same by lia;
    unfold I_HALT, I_PANIC, I_FAULT, I_HOST, I_OOG; lia.
Qed.

(* ---- the machine whose entry a call may change ---- *)
Definition touched (c : call) (s : istate) : option Z :=
  match c with
  | CMachine => Some (fresh_id (o_mach s))
  | CPeek => None
  | _ => Some (arg s 7)
  end.

(* ================= hc_frame ================= *)
Lemma inner_frame c s e s' : hostcall c s = Some (e, s') -> length (o_regs s) = 13%nat -> 0 <= arg s 8 ->
  (length (o_regs s') = 13%nat /\
   forall i, i <> 7%nat -> (i <> 8%nat \/ c <> CInvoke) -> greg (o_regs s') i = greg (o_regs s) i) /\
  o_gas s' = o_gas s - 10 /\
  (let '(a, z) := write_window c s in
   (forall x, ~ (a <= x < a + z) -> rd_byte (o_mem s') x = rd_byte (o_mem s) x) /\
   (forall x, acc_at (o_mem s') x = acc_at (o_mem s) x)) /\
  (forall k, Some k <> touched c s -> aget k (o_mach s') = aget k (o_mach s)).
Proof.
  intros Hc L A8.
  split; [| split; [| split; [exact (isolated_writes c s e s' Hc A8) |]]].
  - walk_call Hc;
      (split; [rewrite ?invoke_regs_length, ?sreg_length; exact L |]);
      intros i H7 H8; try reflexivity; try (rewrite greg_sreg_other by congruence; reflexivity).
    destruct H8 as [H8 | H8]; [| congruence]. apply invoke_regs_other; assumption.
  - walk_call Hc; reflexivity.
  - walk_call Hc; intros k Hk; cbn [touched] in Hk; unfold arg in Hk; try reflexivity;
      try (apply aget_aset_other; congruence); try (apply aget_adel_other; congruence).
Qed.

(* ================= hc_write_after_check ================= *)
(* the outer RAM changes only in peek and invoke, only in a call that continues, and only when the WHOLE
   write window passed the writability test (every address of it writable, inside 2^32) *)
Lemma inner_write_checked c s e s' : hostcall c s = Some (e, s') -> 0 <= arg s 8 ->
  o_mem s' <> o_mem s ->
  e = XCont /\ (c = CPeek \/ c = CInvoke) /\
  let '(a, z) := write_window c s in range_prop writable (o_mem s) a z.
Proof.
  intros Hc A8. walk_call Hc; intros Hne; try congruence; cbn [write_window]; unfold arg in *.
  - split; [reflexivity | split; [left; reflexivity |]]. apply range_ok_writable; assumption.
  - split; [reflexivity | split; [right; reflexivity |]]. apply range_ok_writable; assumption.
Qed.

(* a call that does not continue changed nothing but the gas *)
Lemma inner_stop_clean c s e s' : hostcall c s = Some (e, s') -> e <> XCont ->
  o_regs s' = o_regs s /\ o_gas s' = o_gas s - 10 /\ o_mem s' = o_mem s /\ o_mach s' = o_mach s.
Proof. intros Hc. walk_call Hc; intros Hne; try congruence; repeat split; reflexivity. Qed.

(* peek / invoke whose destination window is not wholly writable: panic, nothing changed *)
Lemma inner_unwritable_panics c s : 10 <= o_gas s -> 0 <= arg s 8 -> (c = CPeek \/ c = CInvoke) ->
  (let '(a, z) := write_window c s in ~ range_prop writable (o_mem s) a z) ->
  hostcall c s = Some (XPanic, upd s (o_regs s) (o_gas s - 10) (o_mem s) (o_mach s)).
Proof.
  intros G A8 [-> | ->] Hw; cbn [write_window] in Hw; unfold arg in *; unfold hostcall;
    (destruct (Z.ltb_spec (o_gas s - 10) 0); [lia |]).
  - unfold call_peek. destruct (range_ok writable (o_mem s) (greg (o_regs s) 8) (greg (o_regs s) 10)) eqn:E.
    + exfalso. apply Hw. apply range_ok_writable; assumption.
    + reflexivity.
  - unfold call_invoke. destruct (range_ok writable (o_mem s) (greg (o_regs s) 8) 112) eqn:E.
    + exfalso. apply Hw. apply range_ok_writable; assumption.
    + reflexivity.
Qed.

(* ================= hc_unreadable_panics_clean ================= *)
(* the input ranges of the outer RAM a call requires *)
Definition inner_inputs (c : call) (s : istate) : list (Z * Z) :=
  match c with
  | CMachine => [(arg s 7, arg s 8)]
  | CPoke => [(arg s 8, arg s 10)]
  | _ => []
  end.

Lemma inner_unreadable_panics c s a z : 10 <= o_gas s -> In (a, z) (inner_inputs c s) -> 0 <= a ->
  ~ range_prop readable (o_mem s) a z ->
  hostcall c s = Some (XPanic, upd s (o_regs s) (o_gas s - 10) (o_mem s) (o_mach s)).
Proof.
  intros G Hin A0 Hr. destruct c; unfold inner_inputs in Hin;
    repeat match goal with
           | Hh : In _ [] |- _ => destruct Hh
           | Hh : In _ (_ :: _) |- _ => destruct Hh as [Hh | Hh]
           end; injection Hin as <- <-; unfold arg in *; unfold hostcall;
    (destruct (Z.ltb_spec (o_gas s - 10) 0); [lia |]).
  - unfold call_machine. destruct (range_ok readable (o_mem s) (greg (o_regs s) 7) (greg (o_regs s) 8)) eqn:E.
    + exfalso. apply Hr. apply range_ok_readable; assumption.
    + reflexivity.
  - unfold call_poke. destruct (range_ok readable (o_mem s) (greg (o_regs s) 8) (greg (o_regs s) 10)) eqn:E.
    + exfalso. apply Hr. apply range_ok_readable; assumption.
    + reflexivity.
Qed.

(* ================= hc_error_no_state_change ================= *)
Definition inner_codes : list Z := [R_WHO; R_OOB; R_HUH].

(* a machine map of machine size whose stored counters are not themselves one of the codes: then neither a new
   machine identifier nor the counter returned by expunge can be mistaken for WHO / OOB / HUH *)
Definition inner_bounded (s : istate) : Prop :=
  Z.of_nat (length (o_mach s)) < R_HUH /\
  forall k mc, aget k (o_mach s) = Some mc -> ~ In (mc_pc mc) inner_codes.

Lemma fresh_id_le {A} (l : list (Z * A)) : 0 <= fresh_id l <= Z.of_nat (length l).
Proof. unfold fresh_id. destruct (min_free_spec l (length l) 0) as (R & _). lia. Qed.

Lemma not_code_small v : 0 <= v < R_HUH -> ~ In v inner_codes.
Proof. unfold inner_codes, R_WHO, R_OOB, R_HUH, W64. cbn [In]. lia. Qed.

Lemma inner_error_no_change c s e s' : hostcall c s = Some (e, s') -> length (o_regs s) = 13%nat ->
  inner_bounded s -> In (greg (o_regs s') 7) inner_codes ->
  o_mem s' = o_mem s /\ o_mach s' = o_mach s.
Proof.
  intros Hc L (Bn & Bp). walk_call Hc; intros Hin; try (split; reflexivity); exfalso; revert Hin;
    try rewrite greg_sreg_same by (rewrite L; lia).
  - (* machine: the new identifier *)
    apply not_code_small. pose proof (fresh_id_le (o_mach s)). lia.
  - (* peek OK *) apply not_code_small. unfold R_OK, R_HUH, W64. lia.
  - (* poke OK *) apply not_code_small. unfold R_OK, R_HUH, W64. lia.
  - (* pages OK *) apply not_code_small. unfold R_OK, R_HUH, W64. lia.
  - (* invoke: exit kind 0..4 *)
    apply not_code_small.
    assert (NE : ex <> Continue) by (eapply inner_run_exit; exact IR).
    pose proof (invoke_regs_w7 (o_regs s) ex ltac:(rewrite L; lia) NE). unfold R_HUH, W64. lia.
  - (* expunge: the stored counter *)
    eapply Bp. exact Emc.
Qed.

(* the codes are returned exactly where the Gray Paper says, and then nothing but omega_7 and the gas changed *)
Lemma inner_error_only_w7 c s e s' : hostcall c s = Some (e, s') -> length (o_regs s) = 13%nat ->
  inner_bounded s -> In (greg (o_regs s') 7) inner_codes -> e = XCont ->
  only_w7 s s' (greg (o_regs s') 7).
Proof.
  intros Hc L (Bn & Bp). unfold only_w7, paid.
  walk_call Hc; intros Hin He; try discriminate He;
    try (rewrite greg_sreg_same by (rewrite L; lia); repeat split; reflexivity); exfalso; revert Hin;
    try rewrite greg_sreg_same by (rewrite L; lia).
  - apply not_code_small. pose proof (fresh_id_le (o_mach s)). lia.
  - apply not_code_small. unfold R_OK, R_HUH, W64. lia.
  - apply not_code_small. unfold R_OK, R_HUH, W64. lia.
  - apply not_code_small. unfold R_OK, R_HUH, W64. lia.
  - apply not_code_small.
    assert (NE : ex <> Continue) by (eapply inner_run_exit; exact IR).
    pose proof (invoke_regs_w7 (o_regs s) ex ltac:(rewrite L; lia) NE). unfold R_HUH, W64. lia.
  - eapply Bp. exact Emc.
Qed.
