(* Lemmas about Model/PvmStep.v: one step keeps the state well formed, costs one unit of gas,
   faults without side effect, reports a fault address inside the access, keeps the heap below
   its limit, and changes the page map only through sbrk. *)
From JamV Require Import Model.PvmStep Proofs.PvmCodeP Proofs.PvmMemP Proofs.PvmAluP.
From Coq Require Import ZifyBool ZifyNat ZifyN.
Local Open Scope Z_scope.
Ltac Zify.zify_post_hook ::= Z.div_mod_to_equations.

(* ---- well-formed states ---- *)
Definition wf_regs (r : list Z) : Prop := length r = 13%nat /\ Forall u64 r.
Definition wf_mem (m : memory) : Prop := (forall x, 0 <= rd_byte m x < 256) /\ 0 <= m_hp m < W64.
Definition heap_ok (m : memory) : Prop := m_hp m <= m_hl m.
Definition wf_st (s : st) : Prop := wf_regs (regs s) /\ wf_mem (mem s).

Lemma greg_range : forall r i, wf_regs r -> u64 (greg r i).
Proof.
  intros r i [_ F]. unfold greg. destruct (Nat.lt_ge_cases i (length r)) as [L|G].
  - rewrite Forall_forall in F. apply F. apply nth_In; assumption.
  - rewrite nth_overflow by assumption. unfold u64, W64; lia.
Qed.

Lemma sreg_length : forall r i v, length (sreg r i v) = length r.
Proof. induction r as [|x t IH]; intros [|i] v; cbn; auto. Qed.

Lemma sreg_forall : forall (P : Z -> Prop) r i v, Forall P r -> P v -> Forall P (sreg r i v).
Proof.
  intros P; induction r as [|x t IH]; intros [|i] v F Pv; cbn; auto; inversion F; subst; constructor; auto.
Qed.

Lemma sreg_wf : forall r i v, wf_regs r -> u64 v -> wf_regs (sreg r i v).
Proof. intros r i v [L F] Hv. split; [rewrite sreg_length; assumption|apply sreg_forall; assumption]. Qed.

Lemma greg_sreg_same : forall r i v, (i < length r)%nat -> greg (sreg r i v) i = v.
Proof. unfold greg; induction r as [|x t IH]; intros [|i] v H; cbn in *; try lia; auto. apply IH; lia. Qed.

Lemma greg_sreg_other : forall r i j v, i <> j -> greg (sreg r i v) j = greg r j.
Proof.
  unfold greg; induction r as [|x t IH]; intros [|i] [|j] v H; cbn in *; try congruence; auto.
Qed.

(* ---- opcode, instruction and operand format agree ---- *)
Lemma opcode_at_range : forall p pc, 0 <= opcode_at p pc <= 230.
Proof.
  intros. unfold opcode_at. destruct (valid_op (zeta p pc)) eqn:E; [|lia].
  unfold valid_op in E. lia.
Qed.

Definition cat_of_instr (i : instr) : cat :=
  match i with
  | ITrap | IFallthrough => CNone
  | IEcalli => CImm
  | ILoadImm64 => CRegImm64
  | IStoreImm _ => CImmImm
  | IJump => COff
  | IJumpInd | ILoadImm | ILoad _ _ | IStore _ => CRegImm
  | IStoreImmInd _ => CRegImmImm
  | ILoadImmJump | IBranchImm _ => CRegImmOff
  | IMoveReg | ISbrk | IAlu2 _ => CRegReg
  | IStoreInd _ | ILoadInd _ _ | IAlu2i _ => CRegRegImm
  | IBranch _ => CRegRegOff
  | ILoadImmJumpInd => CRegRegImmImm
  | IAlu3 _ => CRegRegReg
  end.

Definition cat_eqb (a b : cat) : bool :=
  match a, b with
  | CNone, CNone | CImm, CImm | CRegImm64, CRegImm64 | CImmImm, CImmImm | COff, COff
  | CRegImm, CRegImm | CRegImmImm, CRegImmImm | CRegImmOff, CRegImmOff | CRegReg, CRegReg
  | CRegRegImm, CRegRegImm | CRegRegOff, CRegRegOff | CRegRegImmImm, CRegRegImmImm
  | CRegRegReg, CRegRegReg => true
  | _, _ => false
  end.

Lemma cat_eqb_eq : forall a b, cat_eqb a b = true -> a = b.
Proof. intros [] []; cbn; congruence. Qed.

Definition width_ok (w : nat) : bool := ((1 <=? w) && (w <=? 8))%nat.

Definition widths_ok (i : instr) : bool :=
  match i with
  | IStoreImm w | IStore w | IStoreImmInd w | IStoreInd w | ILoad w _ | ILoadInd w _ => width_ok w
  | _ => true
  end.

(* finite sweep over the opcode byte values 0..230 (the bound is in the statement) *)
Lemma instr_sweep :
  forallb (fun n => let o := Z.of_nat n in
                    cat_eqb (cat_of o) (cat_of_instr (instr_of o)) && widths_ok (instr_of o))
          (seq 0 231) = true.
Proof. vm_compute. reflexivity. Qed.

Lemma instr_facts : forall o, 0 <= o <= 230 ->
  cat_of o = cat_of_instr (instr_of o) /\ widths_ok (instr_of o) = true.
Proof.
  intros o H. pose proof instr_sweep as S. rewrite forallb_forall in S.
  specialize (S (Z.to_nat o)). rewrite Z2Nat.id in S by lia.
  assert (I : In (Z.to_nat o) (seq 0 231)) by (apply in_seq; lia).
  specialize (S I). cbv zeta in S. apply andb_prop in S. destruct S as [A B].
  split; [apply cat_eqb_eq; assumption|assumption].
Qed.

Lemma decode_instr : forall p pc,
  decode p pc = decode_cat (cat_of_instr (instr_of (opcode_at p pc))) p pc.
Proof.
  intros. unfold decode. rewrite (proj1 (instr_facts _ (opcode_at_range p pc))). reflexivity.
Qed.

Lemma instr_widths : forall p pc, widths_ok (instr_of (opcode_at p pc)) = true.
Proof. intros. apply (instr_facts _ (opcode_at_range p pc)). Qed.

(* ---- memory well-formedness is kept ---- *)
Lemma wr_byte_wf : forall m a v, wf_mem m -> 0 <= v < 256 -> wf_mem (wr_byte m a v).
Proof.
  intros m a v [H Hp] Hv. split; [|rewrite (proj1 (wr_byte_hp m a v)); assumption].
  intros x. destruct (Z.eq_dec x a) as [->|Hne].
  - destruct (mapped m (a / PAGE)) eqn:M.
    + rewrite wr_byte_rd_same by assumption. assumption.
    + unfold wr_byte. unfold mapped in M. destruct (get_page m (a / PAGE)); [discriminate|apply H].
  - rewrite wr_byte_rd_other by assumption. apply H.
Qed.

Lemma wr_bytes_wf : forall xs m v, wf_mem m -> wf_mem (wr_bytes m xs v).
Proof.
  induction xs as [|x t IH]; intros m v H; cbn [wr_bytes]; [assumption|].
  apply IH. apply wr_byte_wf; [assumption|lia].
Qed.

Lemma store_wf : forall m a n v m', wf_mem m -> store m a n v = MOk m' -> wf_mem m'.
Proof.
  intros m a n v m' H S. apply store_only_writable in S. destruct S as [_ ->]. apply wr_bytes_wf; assumption.
Qed.

Lemma sbrk_wf : forall m req v m', wf_mem m -> 0 <= req -> sbrk m req = (v, m') -> wf_mem m'.
Proof.
  intros m req v m' [H Hp] Hr S. split.
  - intros x. pose proof (sbrk_pages m req v m' (x / PAGE) S) as P.
    specialize (H x). unfold rd_byte in *.
    destruct (get_page m (x / PAGE)) as [pg|].
    + rewrite P. assumption.
    + destruct P as [-> | ->]; [lia|]. unfold byte_of, zero_page; cbn. lia.
  - unfold sbrk in S. destruct (req =? 0); [inversion S; subst; assumption|].
    destruct ((18446744073709551616 <=? m_hp m + req) || (m_hl m <? m_hp m + req)) eqn:E;
      inversion S; subst; cbn [m_hp]; [assumption|]. unfold W64 in *. lia.
Qed.

Lemma sbrk_value_u64 : forall m req v m', wf_mem m -> u64 req -> sbrk m req = (v, m') -> u64 v.
Proof.
  intros m req v m' [_ Hp] [R0 R1] S. unfold sbrk in S.
  destruct (req =? 0); [inversion S; subst; exact Hp|].
  destruct ((18446744073709551616 <=? m_hp m + req) || (m_hl m <? m_hp m + req)) eqn:E; inversion S; subst;
    unfold u64, W64 in *; lia.
Qed.

Lemma le_val_range : forall l, Forall (fun b => 0 <= b < 256) l -> 0 <= le_val l < 2 ^ (8 * Z.of_nat (length l)).
Proof.
  induction l as [|b t IH]; intros F; cbn [le_val length].
  - cbn. lia.
  - inversion F as [|? ? Hb Ht]; subst. specialize (IH Ht).
    replace (8 * Z.of_nat (S (length t))) with (8 + 8 * Z.of_nat (length t)) by lia.
    rewrite Z.pow_add_r by lia. change (2 ^ 8) with 256. lia.
Qed.

Lemma load_range : forall m a n v, wf_mem m -> load m a n = MOk v -> 0 <= v < 2 ^ (8 * Z.of_nat n).
Proof.
  intros m a n v H L. apply load_only_readable in L. destruct L as [_ ->].
  pose proof (le_val_range (map (rd_byte m) (addrs a n))) as R.
  rewrite map_length, addrs_length in R. apply R.
  apply Forall_forall. intros b I. apply in_map_iff in I. destruct I as [x [<- _]]. apply H.
Qed.

Lemma load_value_u64 : forall m a n v (sg : bool), wf_mem m -> width_ok n = true -> load m a n = MOk v ->
  u64 (if sg then sext (Z.of_nat n) v else v).
Proof.
  intros m a n v sg H W L. pose proof (load_range m a n v H L) as R.
  unfold width_ok in W.
  assert (2 ^ (8 * Z.of_nat n) <= 2 ^ 64) by (apply Z.pow_le_mono_r; lia).
  destruct sg.
  - apply sext_range; [lia|assumption].
  - unfold u64. rewrite W64_eq. lia.
Qed.

(* ---- exec: structure ---- *)
Definition is_mem_instr (i : instr) : bool :=
  match i with
  | IStoreImm _ | ILoad _ _ | IStore _ | IStoreImmInd _ | IStoreInd _ | ILoadInd _ _ => true
  | _ => false
  end.

Lemma do_load_cases : forall next r m a w sg dst e t r' m',
  do_load next r m a w sg dst = (e, t, r', m') ->
  m' = m /\
  ((exists v, load m a w = MOk v /\ e = Continue /\ t = next /\
              r' = sreg r dst (if sg then sext (Z.of_nat w) v else v)) \/
   (load m a w = MPanic /\ e = Panic /\ r' = r) \/
   (exists f, load m a w = MFault f /\ e = Fault f /\ r' = r)).
Proof.
  intros until m'. unfold do_load. destruct (load m a w) as [v| |f]; intros H; inversion H; subst; split; auto.
  - left. eauto.
  - right; right. eauto.
Qed.

Lemma do_store_cases : forall next r m a w v e t r' m',
  do_store next r m a w v = (e, t, r', m') ->
  r' = r /\
  ((store m a w (v mod wmod w) = MOk m' /\ e = Continue /\ t = next) \/
   (store m a w (v mod wmod w) = MPanic /\ e = Panic /\ m' = m) \/
   (exists f, store m a w (v mod wmod w) = MFault f /\ e = Fault f /\ m' = m)).
Proof.
  intros until m'. unfold do_store. destruct (store m a w (v mod wmod w)) as [m2| |f]; intros H; inversion H; subst; split; auto.
  right; right. eauto.
Qed.

Lemma branch_cases : forall p next target c e t, branch p next target c = (e, t) ->
  (e = Continue /\ (t = next \/ bb_start p t = true)) \/ (e = Panic /\ t = 0).
Proof.
  intros until t. unfold branch. destruct (negb c).
  - intros H; inversion H; auto.
  - destruct (bb_start p target) eqn:B; intros H; inversion H; subst; auto.
Qed.

Lemma djump_cases : forall p a e t, djump p a = (e, t) ->
  (e = Continue /\ bb_start p t = true) \/ (e = Panic /\ t = 0) \/ (e = Halt /\ t = 0).
Proof.
  intros until t. unfold djump. destruct (a =? HALT_ADDR); [intros H; inversion H; auto|].
  destruct ((a =? 0) || (jt_count p * 2 <? a) || negb (a mod 2 =? 0)); [intros H; inversion H; auto|].
  destruct (bb_start p (jt_entry p (a / 2 - 1))) eqn:B; intros H; inversion H; subst; auto.
Qed.

Lemma bb_start_range : forall p t, bb_start p t = true -> 0 <= t < code_len p.
Proof. intros p t H. unfold bb_start in H. lia. Qed.

(* ---- exec keeps registers and memory well formed ---- *)
Ltac exec_open H p pc :=
  unfold exec in H; rewrite (decode_instr p pc) in H;
  pose proof (instr_widths p pc) as HW;
  destruct (instr_of (opcode_at p pc)) eqn:EI; cbn [cat_of_instr widths_ok] in H, HW.

Lemma tuple4_inj : forall {A B C D} (a a' : A) (b b' : B) (c c' : C) (d d' : D),
  (a, b, c, d) = (a', b', c', d') -> a = a' /\ b = b' /\ c = c' /\ d = d'.
Proof. intros. inversion H. auto. Qed.

Lemma exec_wf : forall p pc r m e t r' m', wf_code p -> wf_regs r -> wf_mem m ->
  exec p pc r m = (e, t, r', m') -> wf_regs r' /\ wf_mem m'.
Proof.
  intros p pc r m e t r' m' Hc Hr Hm H.
  assert (GA : forall i, u64 (greg r i)) by (intros; apply greg_range; assumption).
  exec_open H p pc;
    try solve [ apply tuple4_inj in H; destruct H as (? & ? & ? & ?); subst; split; [|assumption];
                first [ assumption
                      | apply sreg_wf; [assumption|];
                        first [ apply decode_cat_vX; [assumption|reflexivity]
                              | apply GA
                              | apply eval_alu2_range; apply GA
                              | apply eval_alu2i_range; [apply GA|apply decode_cat_vX; [assumption|reflexivity]|apply GA]
                              | apply eval_alu3_range; apply GA ] ] ].
  - (* IStoreImm *) apply do_store_cases in H. destruct H as [-> [[S _]|[[_ [_ ->]]|[f [_ [_ ->]]]]]]; split; auto.
    eapply store_wf; eassumption.
  - (* IJump *) destruct (branch _ _ _ _) as [e0 t0]. apply tuple4_inj in H; destruct H as (? & ? & ? & ?); subst; auto.
  - (* IJumpInd *) destruct (djump _ _) as [e0 t0]. apply tuple4_inj in H; destruct H as (? & ? & ? & ?); subst; auto.
  - (* ILoad *) apply do_load_cases in H. destruct H as [-> [[v [L [_ [_ ->]]]]|[[_ [_ ->]]|[f [_ [_ ->]]]]]]; split; auto.
    apply sreg_wf; [assumption|]. eapply load_value_u64; eassumption.
  - (* IStore *) apply do_store_cases in H. destruct H as [-> [[S _]|[[_ [_ ->]]|[f [_ [_ ->]]]]]]; split; auto.
    eapply store_wf; eassumption.
  - (* IStoreImmInd *) apply do_store_cases in H. destruct H as [-> [[S _]|[[_ [_ ->]]|[f [_ [_ ->]]]]]]; split; auto.
    eapply store_wf; eassumption.
  - (* ILoadImmJump *) destruct (branch _ _ _ _) as [e0 t0]. apply tuple4_inj in H; destruct H as (? & ? & ? & ?); subst. split; [|assumption].
    apply sreg_wf; [assumption|]. apply decode_cat_vX; [assumption|reflexivity].
  - (* IBranchImm *) destruct (branch _ _ _ _) as [e0 t0]. apply tuple4_inj in H; destruct H as (? & ? & ? & ?); subst; auto.
  - (* ISbrk *) destruct (sbrk m _) as [v m2] eqn:S. apply tuple4_inj in H; destruct H as (? & ? & ? & ?); subst. split.
    + apply sreg_wf; [assumption|]. eapply sbrk_value_u64; [exact Hm|apply GA|exact S].
    + eapply sbrk_wf; [exact Hm|apply GA|exact S].
  - (* IStoreInd *) apply do_store_cases in H. destruct H as [-> [[S _]|[[_ [_ ->]]|[f [_ [_ ->]]]]]]; split; auto.
    eapply store_wf; eassumption.
  - (* ILoadInd *) apply do_load_cases in H. destruct H as [-> [[v [L [_ [_ ->]]]]|[[_ [_ ->]]|[f [_ [_ ->]]]]]]; split; auto.
    apply sreg_wf; [assumption|]. eapply load_value_u64; eassumption.
  - (* IBranch *) destruct (branch _ _ _ _) as [e0 t0]. apply tuple4_inj in H; destruct H as (? & ? & ? & ?); subst; auto.
  - (* ILoadImmJumpInd *) destruct (djump _ _) as [e0 t0]. apply tuple4_inj in H; destruct H as (? & ? & ? & ?); subst. split; [|assumption].
    apply sreg_wf; [assumption|]. apply decode_cat_vX; [assumption|reflexivity].
Qed.

(* ---- exec never reports out-of-gas, and names only legal next counters ---- *)
Ltac inj4 H := apply tuple4_inj in H; destruct H as (? & ? & ? & ?); subst.

Lemma exec_exit : forall p pc r m e t r' m', exec p pc r m = (e, t, r', m') ->
  e <> OutOfGas /\
  ((e = Continue \/ exists id, e = Host id) -> t = pc + 1 + skip p pc \/ bb_start p t = true).
Proof.
  intros p pc r m e t r' m' H.
  exec_open H p pc;
    try solve [ inj4 H; split; [discriminate|intros HH; first [ left; reflexivity | destruct HH as [?|[? ?]]; discriminate ]] ];
    try solve [ apply do_store_cases in H; destruct H as [_ [[_ [-> ->]]|[[_ [-> _]]|[f [_ [-> _]]]]]];
                (split; [discriminate|]); intros [?|[? ?]]; try discriminate; auto ];
    try solve [ apply do_load_cases in H; destruct H as [_ [[v [_ [-> [-> _]]]]|[[_ [-> _]]|[f [_ [-> _]]]]]];
                (split; [discriminate|]); intros [?|[? ?]]; try discriminate; auto ];
    try solve [ destruct (branch _ _ _ _) as [e0 t0] eqn:B; inj4 H; apply branch_cases in B;
                destruct B as [[-> [->|B]]|[-> ->]]; (split; [discriminate|]); intros [?|[? ?]]; try discriminate; auto ];
    try solve [ destruct (djump _ _) as [e0 t0] eqn:B; inj4 H; apply djump_cases in B;
                destruct B as [[-> B]|[[-> ->]|[-> ->]]]; (split; [discriminate|]); intros [?|[? ?]]; try discriminate; auto ].
  - (* ISbrk *) destruct (sbrk m _) as [v m2]. inj4 H. split; [discriminate|auto].
Qed.

Lemma exec_past_end : forall p pc r m, code_len p <= pc -> exec p pc r m = (Panic, 0, r, m).
Proof.
  intros p pc r m H. unfold exec, opcode_at. rewrite (zeta_past_end p pc H). reflexivity.
Qed.

(* ---- a faulting or panicking memory access changes nothing; the fault address lies inside the access ---- *)
Lemma width_small : forall w, width_ok w = true -> Z.of_nat w <= LOW.
Proof. intros w H. unfold width_ok, LOW in *. lia. Qed.

Lemma mod_addr_range : forall x, 0 <= x mod ADDR < ADDR.
Proof. intros; unfold ADDR; lia. Qed.

Lemma exec_fault : forall p pc r m a t r' m', exec p pc r m = (Fault a, t, r', m') ->
  r' = r /\ m' = m /\
  exists lo w, access_of (instr_of (opcode_at p pc)) (decode p pc) r = Some (lo, w) /\
               PAGE * (lo / PAGE) <= a <= lo + Z.of_nat w - 1.
Proof.
  intros p pc r m a t r' m' H. rewrite (decode_instr p pc).
  exec_open H p pc;
    try solve [ inj4 H; discriminate ];
    try solve [ apply do_store_cases in H;
                destruct H as [-> [[_ [E _]]|[[_ [E _]]|[f [S [E ->]]]]]]; try discriminate;
                injection E as <-; split; [reflexivity|split; [reflexivity|]];
                eexists; eexists; split; [reflexivity|];
                eapply store_fault_bounds; [apply mod_addr_range|apply width_small; exact HW|exact S] ];
    try solve [ apply do_load_cases in H;
                destruct H as [-> [[v [_ [E _]]]|[[_ [E _]]|[f [S [E ->]]]]]]; try discriminate;
                injection E as <-; split; [reflexivity|split; [reflexivity|]];
                eexists; eexists; split; [reflexivity|];
                eapply load_fault_bounds; [apply mod_addr_range|apply width_small; exact HW|exact S] ];
    try solve [ destruct (branch _ _ _ _) as [e0 t0] eqn:B; inj4 H; apply branch_cases in B;
                destruct B as [[? _]|[? _]]; discriminate ];
    try solve [ destruct (djump _ _) as [e0 t0] eqn:B; inj4 H; apply djump_cases in B;
                destruct B as [[? _]|[[? _]|[? _]]]; discriminate ].
  - destruct (sbrk m _) as [v m2]. inj4 H. discriminate.
Qed.

Lemma exec_mem_panic : forall p pc r m t r' m',
  is_mem_instr (instr_of (opcode_at p pc)) = true ->
  exec p pc r m = (Panic, t, r', m') -> r' = r /\ m' = m.
Proof.
  intros p pc r m t r' m' HI H.
  exec_open H p pc; try discriminate;
    try solve [ apply do_store_cases in H;
                destruct H as [-> [[_ [E _]]|[[_ [_ ->]]|[f [_ [E _]]]]]]; try discriminate; auto ];
    try solve [ apply do_load_cases in H;
                destruct H as [-> [[v [_ [E _]]]|[[_ [_ ->]]|[f [_ [E _]]]]]]; try discriminate; auto ].
Qed.

(* ---- the heap: limit constant, pointer monotone and never above the limit ---- *)
Lemma exec_heap : forall p pc r m e t r' m', wf_regs r -> exec p pc r m = (e, t, r', m') ->
  m_hl m' = m_hl m /\ m_hp m <= m_hp m' /\ (heap_ok m -> heap_ok m').
Proof.
  intros p pc r m e t r' m' Hr H. unfold heap_ok.
  exec_open H p pc;
    try solve [ inj4 H; repeat split; auto; lia ];
    try solve [ apply do_store_cases in H;
                destruct H as [_ [[S _]|[[_ [_ ->]]|[f [_ [_ ->]]]]]]; try (repeat split; auto; lia);
                apply store_effect in S; [|apply width_small in HW; unfold LOW, ADDR in *; lia];
                destruct S as (_ & _ & _ & _ & -> & ->); repeat split; auto; lia ];
    try solve [ apply do_load_cases in H; destruct H as [-> _]; repeat split; auto; lia ];
    try solve [ destruct (branch _ _ _ _) as [e0 t0]; inj4 H; repeat split; auto; lia ];
    try solve [ destruct (djump _ _) as [e0 t0]; inj4 H; repeat split; auto; lia ].
  - destruct (sbrk m _) as [v m2] eqn:S. inj4 H.
    pose proof (sbrk_heap _ _ _ _ S (proj1 (greg_range r _ Hr))) as (A & B & C & _). auto.
Qed.

(* ---- the page map changes only through sbrk ---- *)
Lemma exec_pages : forall p pc r m e t r' m',
  instr_of (opcode_at p pc) <> ISbrk -> exec p pc r m = (e, t, r', m') ->
  (forall i, mapped m' i = mapped m i) /\ (forall x, acc_at m' x = acc_at m x) /\ m_hp m' = m_hp m.
Proof.
  intros p pc r m e t r' m' HN H.
  exec_open H p pc; try congruence;
    try solve [ inj4 H; auto ];
    try solve [ apply do_store_cases in H;
                destruct H as [_ [[S _]|[[_ [_ ->]]|[f [_ [_ ->]]]]]]; auto;
                apply store_effect in S; [|apply width_small in HW; unfold LOW, ADDR in *; lia];
                destruct S as (_ & _ & A & B & C & _); auto ];
    try solve [ apply do_load_cases in H; destruct H as [-> _]; auto ];
    try solve [ destruct (branch _ _ _ _) as [e0 t0]; inj4 H; auto ];
    try solve [ destruct (djump _ _) as [e0 t0]; inj4 H; auto ].
Qed.

Lemma exec_sbrk_pages : forall p pc r m e t r' m' i,
  instr_of (opcode_at p pc) = ISbrk -> exec p pc r m = (e, t, r', m') ->
  match get_page m i with
  | Some pg => get_page m' i = Some pg
  | None => get_page m' i = None \/ get_page m' i = Some zero_page
  end.
Proof.
  intros p pc r m e t r' m' i HI H. unfold exec in H. rewrite HI in H.
  destruct (sbrk m _) as [v m2] eqn:S. inj4 H. eapply sbrk_pages; eassumption.
Qed.

Lemma instr_eq_sbrk : forall i : instr, {i = ISbrk} + {i <> ISbrk}.
Proof. intros []; try (right; discriminate). left; reflexivity. Qed.

(* ---- step ---- *)
Lemma step_oog : forall p pc s, gas s < 1 -> step p pc s = (OutOfGas, pc, s).
Proof. intros p pc s H. unfold step. destruct (gas s <? 1) eqn:E; [reflexivity|lia]. Qed.

Lemma step_exec : forall p pc s, 1 <= gas s ->
  exists e t r' m', exec p pc (regs s) (mem s) = (e, t, r', m') /\ e <> OutOfGas /\
    step p pc s =
    (e, match e with Continue | Host _ => t | Fault _ => pc | _ => 0 end,
     {| regs := r'; gas := gas s - 1; mem := m' |}).
Proof.
  intros p pc s H. destruct (exec p pc (regs s) (mem s)) as [[[e t] r'] m'] eqn:E.
  exists e, t, r', m'. pose proof (exec_exit _ _ _ _ _ _ _ _ E) as [NO _].
  split; [reflexivity|split; [assumption|]].
  unfold step. destruct (gas s <? 1) eqn:G; [lia|]. rewrite E.
  destruct e; try reflexivity. congruence.
Qed.

(* every executed instruction costs exactly one unit; out-of-gas exactly when less than one is left,
   and then nothing at all has changed *)
Lemma step_costs_one : forall p pc s e pc' s', step p pc s = (e, pc', s') ->
  (e = OutOfGas /\ gas s < 1 /\ s' = s /\ pc' = pc) \/
  (e <> OutOfGas /\ 1 <= gas s /\ gas s' = gas s - 1).
Proof.
  intros p pc s e pc' s' H. destruct (Z_lt_ge_dec (gas s) 1) as [L|G].
  - rewrite (step_oog p pc s L) in H. inversion H; subst. left; auto.
  - destruct (step_exec p pc s ltac:(lia)) as (e0 & t & r' & m' & _ & NO & St).
    rewrite St in H. inversion H; subst. right. cbn [gas]. repeat split; auto; lia.
Qed.

Lemma step_wf : forall p pc s e pc' s', wf_code p -> wf_st s -> step p pc s = (e, pc', s') -> wf_st s'.
Proof.
  intros p pc s e pc' s' Hc [Hr Hm] H. destruct (Z_lt_ge_dec (gas s) 1) as [L|G].
  - rewrite (step_oog p pc s L) in H. inversion H; subst. split; assumption.
  - destruct (step_exec p pc s ltac:(lia)) as (e0 & t & r' & m' & E & _ & St).
    rewrite St in H. inversion H; subst. unfold wf_st; cbn [regs mem].
    eapply exec_wf; eassumption.
Qed.

Lemma step_pc : forall p pc s e pc' s', code_len p + 25 <= ADDR -> 0 <= pc < ADDR ->
  step p pc s = (e, pc', s') -> 0 <= pc' < ADDR.
Proof.
  intros p pc s e pc' s' Hl Hpc H. destruct (Z_lt_ge_dec (gas s) 1) as [L|G].
  - rewrite (step_oog p pc s L) in H. inversion H; subst. assumption.
  - destruct (step_exec p pc s ltac:(lia)) as (e0 & t & r' & m' & E & _ & St).
    rewrite St in H. inversion H; subst. clear St H.
    destruct (Z_lt_ge_dec pc (code_len p)) as [In|Out].
    + pose proof (exec_exit _ _ _ _ _ _ _ _ E) as [_ T].
      pose proof (skip_le_24 p pc).
      destruct e; try (unfold ADDR; lia); try assumption.
      * destruct (T (or_introl eq_refl)) as [->|B]; [unfold ADDR in *; lia|].
        apply bb_start_range in B. unfold ADDR in *; lia.
      * destruct (T (or_intror (ex_intro _ id eq_refl))) as [->|B]; [unfold ADDR in *; lia|].
        apply bb_start_range in B. unfold ADDR in *; lia.
    + rewrite exec_past_end in E by lia. inversion E; subst. unfold ADDR; lia.
Qed.

Lemma step_gas_le : forall p pc s e pc' s', step p pc s = (e, pc', s') -> gas s' <= gas s.
Proof.
  intros. destruct (step_costs_one _ _ _ _ _ _ H) as [(_ & _ & -> & _)|(_ & _ & ->)]; lia.
Qed.

(* invalid opcode (and everything past the end of the code) = trap *)
Lemma invalid_opcode_is_trap : forall p pc s, valid_op (zeta p pc) = false -> 1 <= gas s ->
  step p pc s = (Panic, 0, {| regs := regs s; gas := gas s - 1; mem := mem s |}) /\
  instr_of (opcode_at p pc) = ITrap.
Proof.
  intros p pc s H G. unfold step. destruct (gas s <? 1) eqn:E; [lia|].
  unfold exec, opcode_at. rewrite H. cbn [instr_of]. split; reflexivity.
Qed.

(* ecalli hands the WHOLE sign-extended immediate to the host-call boundary *)
Lemma ecalli_full_immediate : forall p pc s, opcode_at p pc = 10 -> 1 <= gas s ->
  step p pc s = (Host (imm_at p (pc + 1) (Z.min 4 (skip p pc))), pc + 1 + skip p pc,
                 {| regs := regs s; gas := gas s - 1; mem := mem s |}).
Proof.
  intros p pc s H G. unfold step. destruct (gas s <? 1) eqn:E; [lia|].
  unfold exec, decode. rewrite H. reflexivity.
Qed.

(* page-fault exit: state untouched but for the gas charge, counter at the faulting instruction,
   address between the start of the page of the first accessed byte and the last accessed byte *)
Lemma step_fault : forall p pc s a pc' s', step p pc s = (Fault a, pc', s') ->
  pc' = pc /\ regs s' = regs s /\ mem s' = mem s /\ gas s' = gas s - 1 /\
  exists lo w, access_of (instr_of (opcode_at p pc)) (decode p pc) (regs s) = Some (lo, w) /\
               PAGE * (lo / PAGE) <= a <= lo + Z.of_nat w - 1.
Proof.
  intros p pc s a pc' s' H. destruct (Z_lt_ge_dec (gas s) 1) as [L|G].
  - rewrite (step_oog p pc s L) in H. discriminate.
  - destruct (step_exec p pc s ltac:(lia)) as (e0 & t & r' & m' & E & _ & St).
    rewrite St in H. inversion H; subst. cbn [regs mem gas].
    apply exec_fault in E. destruct E as (-> & -> & X). auto.
Qed.

(* a memory instruction that panics (address below 2^16) changes neither registers nor memory *)
Lemma step_mem_panic : forall p pc s pc' s',
  is_mem_instr (instr_of (opcode_at p pc)) = true -> step p pc s = (Panic, pc', s') ->
  regs s' = regs s /\ mem s' = mem s.
Proof.
  intros p pc s pc' s' HI H. destruct (Z_lt_ge_dec (gas s) 1) as [L|G].
  - rewrite (step_oog p pc s L) in H. discriminate.
  - destruct (step_exec p pc s ltac:(lia)) as (e0 & t & r' & m' & E & _ & St).
    rewrite St in H. inversion H; subst. cbn [regs mem].
    eapply exec_mem_panic; eassumption.
Qed.

Lemma step_heap : forall p pc s e pc' s', wf_regs (regs s) -> step p pc s = (e, pc', s') ->
  m_hl (mem s') = m_hl (mem s) /\ m_hp (mem s) <= m_hp (mem s') /\ (heap_ok (mem s) -> heap_ok (mem s')).
Proof.
  intros p pc s e pc' s' Hr H. destruct (Z_lt_ge_dec (gas s) 1) as [L|G].
  - rewrite (step_oog p pc s L) in H. inversion H; subst. repeat split; auto; lia.
  - destruct (step_exec p pc s ltac:(lia)) as (e0 & t & r' & m' & E & _ & St).
    rewrite St in H. inversion H; subst. cbn [mem]. eapply exec_heap; eassumption.
Qed.

Lemma step_pages : forall p pc s e pc' s',
  instr_of (opcode_at p pc) <> ISbrk -> step p pc s = (e, pc', s') ->
  (forall i, mapped (mem s') i = mapped (mem s) i) /\ (forall x, acc_at (mem s') x = acc_at (mem s) x) /\
  m_hp (mem s') = m_hp (mem s).
Proof.
  intros p pc s e pc' s' HN H. destruct (Z_lt_ge_dec (gas s) 1) as [L|G].
  - rewrite (step_oog p pc s L) in H. inversion H; subst. auto.
  - destruct (step_exec p pc s ltac:(lia)) as (e0 & t & r' & m' & E & _ & St).
    rewrite St in H. inversion H; subst. cbn [mem]. eapply exec_pages; eassumption.
Qed.

Lemma step_sbrk_pages : forall p pc s e pc' s' i,
  step p pc s = (e, pc', s') ->
  match get_page (mem s) i with
  | Some pg => mapped (mem s') i = true
  | None => get_page (mem s') i = None \/ get_page (mem s') i = Some zero_page
  end.
Proof.
  intros p pc s e pc' s' i H. destruct (Z_lt_ge_dec (gas s) 1) as [L|G].
  - rewrite (step_oog p pc s L) in H. inversion H; subst.
    unfold mapped. destruct (get_page (mem s') i); auto.
  - destruct (step_exec p pc s ltac:(lia)) as (e0 & t & r' & m' & E & _ & St).
    rewrite St in H. inversion H; subst. cbn [mem].
    destruct (instr_eq_sbrk (instr_of (opcode_at p pc))) as [IS|NS].
    + pose proof (exec_sbrk_pages _ _ _ _ _ _ _ _ i IS E) as P.
      destruct (get_page (mem s) i); [unfold mapped; rewrite P; reflexivity|assumption].
    + pose proof (exec_pages _ _ _ _ _ _ _ _ NS E) as (M & _ & _). specialize (M i).
      unfold mapped in *. destruct (get_page (mem s) i), (get_page m' i); try discriminate; auto.
Qed.

(* past the end of the code the zero-extended program holds trap: one unit of gas, then panic *)
Lemma step_past_end : forall p pc s, code_len p <= pc -> 1 <= gas s ->
  step p pc s = (Panic, 0, {| regs := regs s; gas := gas s - 1; mem := mem s |}).
Proof.
  intros p pc s H G. unfold step. destruct (gas s <? 1) eqn:E; [lia|].
  rewrite exec_past_end by assumption. reflexivity.
Qed.
