(* C28 — proofs about Model/Telemetry.v: the alignment invariant holds along every action list. *)
From Coq Require Import List NArith Bool Lia.
From Coq Require Import ZifyBool ZifyNat ZifyN.
From JamV Require Import Model.Telemetry.
Import ListNotations.
Local Open Scope N_scope.

(* ------------------------------------------------------------------------------------------- *)
(* 1. "aligned n evs drs m": the queued envelopes evs (FIFO) and the pending drop ranges drs, merged
      in id order, cover the ids n, n+1, ..., m-1 exactly once each. *)
Inductive aligned : N -> list env -> list (N * N) -> N -> Prop :=
| al_nil : forall n, aligned n [] [] n
| al_ev : forall n e evs drs m, e_seq e = n -> aligned (n + 1) evs drs m -> aligned n (e :: evs) drs m
| al_dr : forall n f c evs drs m, f = n -> 0 < c -> aligned (n + c) evs drs m -> aligned n evs ((f, c) :: drs) m.

Lemma aligned_le : forall n evs drs m, aligned n evs drs m -> n <= m.
Proof. induction 1; lia. Qed.

Lemma aligned_ev_in : forall n evs drs m, aligned n evs drs m ->
  forall e, In e evs -> n <= e_seq e /\ e_seq e < m.
Proof.
  induction 1; intros x Hx.
  - destruct Hx.
  - destruct Hx as [-> | Hx].
    + apply aligned_le in H0. lia.
    + apply IHaligned in Hx. lia.
  - apply IHaligned in Hx. lia.
Qed.

Lemma aligned_dr_in : forall n evs drs m, aligned n evs drs m ->
  forall f c, In (f, c) drs -> n <= f /\ f + c <= m /\ 0 < c.
Proof.
  induction 1; intros f' c' Hx.
  - destruct Hx.
  - apply IHaligned in Hx. lia.
  - destruct Hx as [Hx | Hx].
    + inversion Hx; subst. apply aligned_le in H1. lia.
    + apply IHaligned in Hx. lia.
Qed.

Lemma aligned_same_nil : forall n evs, aligned n evs [] n -> evs = [].
Proof.
  intros n evs H. destruct evs as [| e evs]; [reflexivity |].
  apply aligned_ev_in with (e := e) in H; [lia | now left].
Qed.

Lemma aligned_snoc_ev : forall n evs drs m e, aligned n evs drs m -> e_seq e = m ->
  aligned n (evs ++ [e]) drs (m + 1).
Proof.
  induction 1; intros He; cbn.
  - apply al_ev; [assumption | apply al_nil].
  - apply al_ev; auto.
  - apply al_dr; auto.
Qed.

Lemma aligned_snoc_dr : forall n evs drs m, aligned n evs drs m ->
  aligned n evs (drs ++ [(m, 1)]) (m + 1).
Proof.
  induction 1; cbn.
  - apply al_dr; [reflexivity | lia | apply al_nil].
  - apply al_ev; auto.
  - apply al_dr; auto.
Qed.

Lemma aligned_record : forall n evs drs m, aligned n evs drs m ->
  aligned n evs (record drs m) (m + 1).
Proof.
  induction 1.
  - cbn. apply al_dr; [reflexivity | lia | apply al_nil].
  - apply al_ev; auto.
  - subst f. destruct drs as [| [f2 c2] drs].
    + cbn [record]. destruct (m =? n + c) eqn:E.
      * apply N.eqb_eq in E. subst m.
        apply aligned_same_nil in H1. subst evs.
        apply al_dr; [reflexivity | lia |].
        replace (n + (c + 1)) with (n + c + 1) by lia. apply al_nil.
      * apply al_dr; [reflexivity | assumption |].
        apply (aligned_snoc_dr _ _ _ _ H1).
    + change (record ((n, c) :: (f2, c2) :: drs) m) with ((n, c) :: record ((f2, c2) :: drs) m).
      apply al_dr; auto.
Qed.

Lemma aligned_claim : forall n evs f c drs m, aligned n evs ((f, c) :: drs) m -> f = n ->
  aligned (n + c) evs drs m /\ 0 < c.
Proof.
  intros n evs f c drs m H Hf. inversion H; subst.
  - match goal with HA : aligned (e_seq ?e + 1) _ _ _ |- _ =>
      apply aligned_dr_in with (f := e_seq e) (c := c) in HA; [lia | now left] end.
  - split; assumption.
Qed.

Lemma aligned_write : forall n e evs drs m, aligned n (e :: evs) drs m -> e_seq e = n ->
  aligned (n + 1) evs drs m.
Proof.
  intros n e evs drs m H He. inversion H; subst.
  - assumption.
  - match goal with HA : aligned (_ + _) (e :: _) _ _ |- _ =>
      apply aligned_ev_in with (e := e) in HA; [lia | now left] end.
Qed.

(* drop ranges all end at or below the next id: record never panics and keeps the bound *)
Definition drops_le (m : N) (d : list (N * N)) : Prop := Forall (fun fc => fst fc + snd fc <= m) d.

Lemma record_ok_bound : forall d m, drops_le m d -> record_ok d m = true.
Proof.
  induction d as [| [f c] r IH]; intros m H; cbn; [reflexivity |].
  inversion H; subst. destruct r.
  - cbn in H2. apply N.leb_le. assumption.
  - apply IH. assumption.
Qed.

Lemma record_bound : forall d m, drops_le m d -> drops_le (m + 1) (record d m).
Proof.
  induction d as [| [f c] r IH]; intros m H.
  - cbn. repeat constructor. cbn. lia.
  - inversion H; subst. cbn in H2. destruct r as [| x r].
    + cbn [record]. destruct (m =? f + c) eqn:E.
      * apply N.eqb_eq in E. repeat constructor. cbn. lia.
      * repeat constructor; cbn; lia.
    + change (record ((f, c) :: x :: r) m) with ((f, c) :: record (x :: r) m).
      constructor; [cbn; lia | apply IH; assumption].
Qed.

Lemma drops_le_tail : forall m x d, drops_le m (x :: d) -> drops_le m d.
Proof. intros m x d H. inversion H; assumption. Qed.

(* ------------------------------------------------------------------------------------------- *)
(* 2. the oracle under growth of the emit log and of the wire *)

Lemma lookup_app_l : forall t res x r, lookup t res = Some r -> lookup t (res ++ x) = Some r.
Proof.
  unfold lookup. induction res as [| a res IH]; intros x r H; cbn in *; [discriminate |].
  destruct (r_tag a =? t); [assumption | apply IH; assumption].
Qed.

Definition tags_lt (res : list emitrec) : Prop :=
  Forall (fun r => r_tag r < N.of_nat (length res)) res.

Lemma lookup_app_r : forall t res x, Forall (fun r => r_tag r <> t) res -> lookup t (res ++ x) = lookup t x.
Proof.
  unfold lookup. induction res as [| a res IH]; intros x H; cbn; [reflexivity |].
  inversion H; subst. destruct (r_tag a =? t) eqn:E.
  - apply N.eqb_eq in E. contradiction.
  - apply IH. assumption.
Qed.

Lemma lookup_fresh : forall res r, tags_lt res -> r_tag r = N.of_nat (length res) ->
  lookup (N.of_nat (length res)) (res ++ [r]) = Some r.
Proof.
  intros res r H Hr. rewrite lookup_app_r.
  - unfold lookup. cbn. rewrite Hr, N.eqb_refl. reflexivity.
  - eapply Forall_impl; [| exact H]. cbn. intros a Ha. lia.
Qed.

Lemma tags_lt_snoc : forall res r, tags_lt res -> r_tag r = N.of_nat (length res) -> tags_lt (res ++ [r]).
Proof.
  intros res r H Hr. unfold tags_lt in *. rewrite app_length. cbn [length].
  apply Forall_app. split.
  - eapply Forall_impl; [| exact H]. cbn. intros a Ha. lia.
  - constructor; [lia | constructor].
Qed.

Lemma accepts_frames_mono : forall res x e w c,
  accepts_frames res e c w = true -> accepts_frames (res ++ x) e c w = true.
Proof.
  induction w as [| f w IH]; intros c H; cbn in *; [reflexivity |].
  destruct f as [| tag par | n]; [discriminate | | apply IH; assumption].
  destruct (lookup tag res) as [rc |] eqn:L; [| discriminate].
  rewrite (lookup_app_l _ _ x _ L).
  destruct (r_id rc) as [[ie iq] |]; [| discriminate].
  apply andb_true_iff in H. destruct H as [H1 H2]. rewrite H1. cbn. apply IH. assumption.
Qed.

Lemma accepts_conns_mono : forall res x conns e,
  accepts_conns res e conns = true -> accepts_conns (res ++ x) e conns = true.
Proof.
  induction conns as [| c conns IH]; intros e H; cbn in *; [reflexivity |].
  destruct c as [| f w]; [apply IH; assumption |].
  apply andb_true_iff in H. destruct H as [H H3]. apply andb_true_iff in H. destruct H as [H1 H2].
  rewrite H1, (accepts_frames_mono _ x _ _ _ H2), (IH _ H3). reflexivity.
Qed.

(* the receiver's counter after a list of frames *)
Fixpoint recv_count (fs : list frame) : N :=
  match fs with
  | [] => 0
  | FNode :: r => recv_count r
  | FEvent _ _ :: r => 1 + recv_count r
  | FDropped n :: r => n + recv_count r
  end.

Lemma accepts_frames_snoc : forall res e w c f,
  accepts_frames res e c w = true ->
  accepts_frames res e (c + recv_count w) [f] = true ->
  accepts_frames res e c (w ++ [f]) = true.
Proof.
  induction w as [| g w IH]; intros c f H Hf.
  - cbn in *. rewrite N.add_0_r in Hf. exact Hf.
  - cbn [app]. destruct g as [| tag par | n].
    + cbn in H. discriminate.
    + cbn [accepts_frames] in *.
      destruct (lookup tag res) as [rc |]; [| discriminate].
      destruct (r_id rc) as [[ie iq] |]; [| discriminate].
      apply andb_true_iff in H. destruct H as [H1 H2]. rewrite H1. cbn [andb].
      apply IH; [assumption |]. cbn [recv_count] in Hf.
      replace (c + 1 + recv_count w) with (c + (1 + recv_count w)) by lia. exact Hf.
    + cbn [accepts_frames] in *. apply IH; [assumption |]. cbn [recv_count] in Hf.
      replace (c + n + recv_count w) with (c + (n + recv_count w)) by lia. exact Hf.
Qed.

Lemma recv_count_snoc : forall w f, recv_count (w ++ [f]) = recv_count w + recv_count [f].
Proof.
  induction w as [| g w IH]; intros f; cbn [app].
  - cbn. lia.
  - specialize (IH f). remember (recv_count [f]) as k.
    destruct g; cbn [recv_count]; rewrite IH; lia.
Qed.

Lemma accepts_conns_snoc : forall res conns e c,
  accepts_conns res e (conns ++ [c]) =
  accepts_conns res e conns && accepts_conns res (conns_epoch e conns) [c].
Proof.
  induction conns as [| d conns IH]; intros e c.
  - reflexivity.
  - cbn [app]. destruct d as [| f w].
    + cbn [accepts_conns conns_epoch]. apply IH.
    + cbn [accepts_conns conns_epoch]. rewrite IH. rewrite !andb_assoc. reflexivity.
Qed.

Lemma conns_epoch_snoc : forall conns e c,
  conns_epoch e (conns ++ [c]) = conns_epoch (conns_epoch e conns) [c].
Proof.
  induction conns as [| d conns IH]; intros e c; [reflexivity |].
  cbn [app]. destruct d; cbn [conns_epoch]; apply IH.
Qed.

(* ids: strictly increasing along the log, all below the sequencer's next id *)
Definition id_bound (b : eid) (res : list emitrec) : Prop :=
  Forall (fun r => match r_id r with Some i => eid_ltb i b = true | None => True end) res.

Lemma eid_ltb_trans_le : forall i b b', eid_ltb i b = true ->
  (fst b < fst b' \/ (fst b = fst b' /\ snd b <= snd b')) -> eid_ltb i b' = true.
Proof. unfold eid_ltb. intros [i1 i2] [b1 b2] [c1 c2]; cbn. lia. Qed.

Lemma id_bound_weaken : forall b b' res, id_bound b res ->
  (fst b < fst b' \/ (fst b = fst b' /\ snd b <= snd b')) -> id_bound b' res.
Proof.
  intros b b' res H Hb. eapply Forall_impl; [| exact H]. cbn. intros r.
  destruct (r_id r); [| trivial]. intros Hi. eapply eid_ltb_trans_le; eassumption.
Qed.

Lemma ids_inc_snoc_none : forall res l t p, ids_inc l (res ++ [mkrec t None p]) = ids_inc l res.
Proof.
  induction res as [| r res IH]; intros l t p; cbn; [reflexivity |].
  destruct (r_id r); [rewrite IH |]; auto.
Qed.

Lemma ids_inc_snoc_some : forall res l t p i, ids_inc l res = true ->
  (forall x, l = Some x -> eid_ltb x i = true) -> id_bound i res ->
  ids_inc l (res ++ [mkrec t (Some i) p]) = true.
Proof.
  induction res as [| r res IH]; intros l t p i H Hl Hb; cbn.
  - destruct l as [x |]; [rewrite (Hl x eq_refl) |]; reflexivity.
  - inversion Hb; subst. cbn in H. destruct (r_id r) as [j |].
    + apply andb_true_iff in H. destruct H as [Ha Hb']. rewrite Ha. cbn.
      apply IH; [assumption | | assumption]. intros x Hx. inversion Hx; subst. assumption.
    + apply IH; assumption.
Qed.

Lemma followups_ok_snoc : forall res r, followups_ok (res ++ [r]) =
  followups_ok res && match r_id r, r_parent r with Some (e, _), Some (pe, _) => pe =? e | _, _ => true end.
Proof.
  intros res r. unfold followups_ok. rewrite forallb_app. cbn. rewrite andb_true_r. reflexivity.
Qed.
