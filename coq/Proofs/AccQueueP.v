(* C21 — proofs about Model/AccQueue.v *)
From JamV Require Import Base.Bytes Proofs.BytesP Model.AccQueue.
Local Open Scope nat_scope.

(* ---------------------------------------------------------------- basics *)
Lemma memb_In h x : memb h x = true <-> In h x.
Proof.
  unfold memb. rewrite existsb_exists. split.
  - intros [y [Hy He]]. apply bytes_eqb_eq in He. subst. exact Hy.
  - intros Hi. exists h. split; [exact Hi|]. apply bytes_eqb_eq. reflexivity.
Qed.

Lemma memb_false h x : memb h x = false <-> ~ In h x.
Proof.
  rewrite <- memb_In. destruct (memb h x); split; intros H; try congruence.
Qed.

Lemma negb_memb h x : negb (memb h x) = true <-> ~ In h x.
Proof. rewrite negb_true_iff. apply memb_false. Qed.

Lemma isnil_true {A} (l : list A) : isnil l = true <-> l = [].
Proof. destruct l; simpl; split; intros; congruence. Qed.

Lemma ready_iff e : ready e = true <-> rdeps e = [].
Proof. apply isnil_true. Qed.

Lemma filter_length_split {A} (p : A -> bool) l :
  length (filter p l) + length (filter (fun a => negb (p a)) l) = length l.
Proof. induction l as [|a l IH]; simpl; [reflexivity|]. destruct (p a); simpl; lia. Qed.

Lemma filter_length_mono {A} (p q : A -> bool) l :
  (forall a, In a l -> p a = true -> q a = true) -> length (filter p l) <= length (filter q l).
Proof.
  induction l as [|a l IH]; simpl; intros H; [lia|].
  assert (IH' : length (filter p l) <= length (filter q l)) by (apply IH; intros; apply H; auto).
  destruct (p a) eqn:Hp.
  - rewrite (H a (or_introl eq_refl) Hp). simpl. lia.
  - destruct (q a); simpl; lia.
Qed.

Lemma filter_length_le {A} (p : A -> bool) l : length (filter p l) <= length l.
Proof. induction l as [|a l IH]; simpl; [lia|]. destruct (p a); simpl; lia. Qed.

(* ---------------------------------------------------------------- E *)
Lemma strip_hash x e : rhash (strip x e) = rhash e. Proof. reflexivity. Qed.
Lemma strip_id x e : rid (strip x e) = rid e. Proof. reflexivity. Qed.
Lemma strip_deps x e d : In d (rdeps (strip x e)) <-> In d (rdeps e) /\ ~ In d x.
Proof. unfold strip; simpl. rewrite filter_In, negb_memb. tauto. Qed.

Lemma E_In r x e' : In e' (E r x) <-> exists e, In e r /\ ~ In (rhash e) x /\ e' = strip x e.
Proof.
  unfold E. rewrite in_map_iff. split.
  - intros [e [He Hi]]. apply filter_In in Hi. destruct Hi as [Hi Hn]. apply negb_memb in Hn.
    exists e. auto.
  - intros [e [Hi [Hn He]]]. exists e. split; [auto|]. apply filter_In. split; [auto|]. apply negb_memb. auto.
Qed.

Lemma E_length r x : length (E r x) <= length r.
Proof.
  unfold E. rewrite map_length. apply filter_length_le.
Qed.

Lemma E_hash_notin r x e : In e (E r x) -> ~ In (rhash e) x.
Proof. intros H. apply E_In in H. destruct H as [e0 [_ [Hn ->]]]. exact Hn. Qed.

Lemma E_dep_notin r x e d : In e (E r x) -> In d (rdeps e) -> ~ In d x.
Proof. intros H Hd. apply E_In in H. destruct H as [e0 [_ [_ ->]]]. apply strip_deps in Hd. tauto. Qed.

Lemma E_app r1 r2 x : E (r1 ++ r2) x = E r1 x ++ E r2 x.
Proof. unfold E. rewrite filter_app, map_app. reflexivity. Qed.

Lemma E_nil x : E [] x = []. Proof. reflexivity. Qed.

(* the ready entries are removed by E(r, P(ready entries)): the queue strictly shrinks *)
Lemma E_shrinks r : filter ready r <> [] -> length (E r (P (filter ready r))) < length r.
Proof.
  intros Hne. unfold E. rewrite map_length.
  set (g := filter ready r).
  pose proof (filter_length_split (fun e => memb (rhash e) (P g)) r) as Hs.
  assert (Hm : length (filter ready r) <= length (filter (fun e => memb (rhash e) (P g)) r)).
  { apply filter_length_mono. intros a Ha Hr. apply memb_In. unfold P. apply in_map. unfold g.
    apply filter_In. auto. }
  assert (0 < length (filter ready r)) by (destruct (filter ready r); [congruence|simpl; lia]).
  fold g in Hm, H. lia.
Qed.

(* ---------------------------------------------------------------- Q: termination, fuel independence *)
Lemma Qf_S f r : Qf (S f) r =
  if isnil (filter ready r) then Some []
  else match Qf f (E r (P (filter ready r))) with Some t => Some (filter ready r ++ t) | None => None end.
Proof. simpl. destruct (filter ready r); reflexivity. Qed.

Lemma Qf_some : forall f r, length r < f -> exists l, Qf f r = Some l.
Proof.
  induction f as [|f IH]; intros r Hl; [lia|]. rewrite Qf_S.
  destruct (filter ready r) as [|a g] eqn:Hg; cbn [isnil]; [eauto|].
  assert (Hne : filter ready r <> []) by congruence.
  pose proof (E_shrinks r Hne) as Hs. rewrite Hg in Hs.
  destruct (IH (E r (P (a :: g)))) as [t Ht]; [lia|]. rewrite Ht. eauto.
Qed.

Lemma Qf_mono : forall f r l, Qf f r = Some l -> forall f', f <= f' -> Qf f' r = Some l.
Proof.
  induction f as [|f IH]; intros r l H f' Hle; [discriminate|].
  destruct f' as [|f']; [lia|]. rewrite Qf_S in *.
  destruct (filter ready r) as [|a g]; cbn [isnil] in *; [exact H|].
  destruct (Qf f (E r (P (a :: g)))) as [t|] eqn:Ht; [|discriminate].
  rewrite (IH _ _ Ht f'); [exact H|lia].
Qed.

Lemma Q_fuel r f : length r < f -> Qf f r = Some (Q r).
Proof.
  intros Hl. unfold Q.
  destruct (Qf_some (S (length r)) r) as [l Hs]; [lia|]. rewrite Hs.
  apply (Qf_mono _ _ _ Hs). lia.
Qed.

Lemma Q_terminates_l r : exists l, Qf (S (length r)) r = Some l /\ forall f, length r < f -> Qf f r = Some l.
Proof.
  exists (Q r). split; [apply Q_fuel; lia|]. intros; apply Q_fuel; assumption.
Qed.

(* the Gray Paper equation (12.8) holds of the fuelled function *)
Lemma Q_eqn r :
  Q r = match filter ready r with [] => [] | g => g ++ Q (E r (P g)) end.
Proof.
  pose proof (Q_fuel r (S (length r)) (Nat.lt_succ_diag_r _)) as H. rewrite Qf_S in H.
  destruct (filter ready r) as [|a g] eqn:Hg; cbn [isnil] in H.
  - congruence.
  - assert (Hne : filter ready r <> []) by congruence.
    pose proof (E_shrinks r Hne) as Hs. rewrite Hg in Hs.
    rewrite (Q_fuel (E r (P (a :: g))) (length r) Hs) in H. congruence.
Qed.

(* ---------------------------------------------------------------- Q: ordering, soundness, completeness *)
(* every output entry stems from an input entry of the same hash and identity whose dependencies
   are all package hashes of strictly earlier output entries *)
Lemma Qf_order : forall f r out, Qf f r = Some out ->
  forall i w, nth_error out i = Some w ->
  exists w0, In w0 r /\ rhash w0 = rhash w /\ rid w0 = rid w /\ rdeps w = [] /\
             incl (rdeps w0) (P (firstn i out)).
Proof.
  induction f as [|f IH]; intros r out H i w Hn; [discriminate|]. rewrite Qf_S in H.
  destruct (filter ready r) as [|a g] eqn:Hg; cbn [isnil] in H.
  - inversion H; subst. destruct i; discriminate.
  - remember (a :: g) as gg eqn:Egg. clear Egg a g.
    destruct (Qf f (E r (P gg))) as [t|] eqn:Ht; [|discriminate].
    inversion H; subst out; clear H.
    destruct (Nat.lt_ge_cases i (length gg)) as [Hlt|Hge].
    + rewrite nth_error_app1 in Hn by exact Hlt.
      apply nth_error_In in Hn. rewrite <- Hg in Hn. apply filter_In in Hn. destruct Hn as [Hin Hr].
      apply ready_iff in Hr. exists w. repeat split; auto. rewrite Hr. intros d [].
    + rewrite nth_error_app2 in Hn by exact Hge.
      destruct (IH _ _ Ht _ _ Hn) as [w1 [Hin1 [Hh [Hi [Hd Hincl]]]]].
      apply E_In in Hin1. destruct Hin1 as [w0 [Hin0 [Hnot Heq]]]. subst w1.
      exists w0. repeat split; auto.
      intros d Hd0. rewrite firstn_app. unfold P. rewrite map_app. apply in_or_app.
      destruct (memb d (P gg)) eqn:Hm.
      * left. apply memb_In in Hm. rewrite firstn_all2 by lia. exact Hm.
      * right. apply memb_false in Hm. apply Hincl. apply strip_deps. auto.
Qed.

Lemma Q_order r i w : nth_error (Q r) i = Some w ->
  exists w0, In w0 r /\ rhash w0 = rhash w /\ rid w0 = rid w /\ rdeps w = [] /\
             incl (rdeps w0) (P (firstn i (Q r))).
Proof. apply (Qf_order (S (length r)) r). apply Q_fuel. lia. Qed.

Lemma Q_order_split r pre w post : Q r = pre ++ w :: post ->
  exists w0, In w0 r /\ rhash w0 = rhash w /\ rid w0 = rid w /\ incl (rdeps w0) (P pre).
Proof.
  intros H. destruct (Q_order r (length pre) w) as [w0 [H1 [H2 [H3 [_ H5]]]]].
  - rewrite H. rewrite nth_error_app2 by lia. rewrite Nat.sub_diag. reflexivity.
  - exists w0. repeat split; auto. rewrite H in H5. rewrite firstn_app_exact in H5 by reflexivity. exact H5.
Qed.

Lemma Q_hash_from r w : In w (Q r) -> exists w0, In w0 r /\ rhash w0 = rhash w /\ rid w0 = rid w.
Proof.
  intros H. apply In_nth_error in H. destruct H as [i Hi].
  destruct (Q_order r i w Hi) as [w0 [H1 [H2 [H3 _]]]]. eauto.
Qed.

(* completeness: whatever is left out still has a dependency that nothing chosen satisfies
   (or shares its package hash with a chosen entry and is therefore dropped by E) *)
Lemma Qf_complete : forall f r out, Qf f r = Some out ->
  forall w0, In w0 r -> In (rhash w0) (P out) \/ exists d, In d (rdeps w0) /\ ~ In d (P out).
Proof.
  induction f as [|f IH]; intros r out H w0 Hin; [discriminate|]. rewrite Qf_S in H.
  destruct (filter ready r) as [|a g] eqn:Hg; cbn [isnil] in H.
  - inversion H; subst. right.
    destruct (rdeps w0) as [|d ds] eqn:Hd.
    + exfalso. assert (Hx : In w0 (filter ready r)) by (apply filter_In; split; [auto|apply ready_iff; auto]).
      rewrite Hg in Hx. exact Hx.
    + exists d. split; [left; reflexivity|]. intros [].
  - remember (a :: g) as gg eqn:Egg. clear Egg a g.
    destruct (Qf f (E r (P gg))) as [t|] eqn:Ht; [|discriminate].
    inversion H; subst out; clear H. unfold P. rewrite map_app. fold (P gg). fold (P t).
    destruct (memb (rhash w0) (P gg)) eqn:Hm.
    + left. apply in_or_app. left. apply memb_In. exact Hm.
    + apply memb_false in Hm.
      assert (Hin1 : In (strip (P gg) w0) (E r (P gg))) by (apply E_In; eauto).
      destruct (IH _ _ Ht _ Hin1) as [Hl|[d [Hd Hn]]].
      * left. apply in_or_app. right. exact Hl.
      * right. apply strip_deps in Hd. destruct Hd as [Hd Hng]. exists d. split; [auto|].
        intros Hc. apply in_app_or in Hc. tauto.
Qed.

Lemma Q_complete r w0 : In w0 r -> In (rhash w0) (P (Q r)) \/ exists d, In d (rdeps w0) /\ ~ In d (P (Q r)).
Proof. apply (Qf_complete (S (length r))). apply Q_fuel. lia. Qed.

(* ---------------------------------------------------------------- W!, W_Q, W* *)
Lemma nodeps_iff w : nodeps w = true <-> wpre w = [] /\ wlook w = [].
Proof. unfold nodeps. rewrite andb_true_iff, !isnil_true. tauto. Qed.

Lemma nodeps_D w : nodeps w = true <-> rdeps (D w) = [].
Proof.
  rewrite nodeps_iff. simpl. split.
  - intros [-> ->]. reflexivity.
  - intros H. apply app_eq_nil in H. exact H.
Qed.

Lemma Wbang_In e avail : In e (Wbang avail) <-> exists w, In w avail /\ wpre w = [] /\ wlook w = [] /\ e = D w.
Proof.
  unfold Wbang. rewrite in_map_iff. split.
  - intros [w [He Hi]]. apply filter_In in Hi. destruct Hi as [Hi Hn]. apply nodeps_iff in Hn.
    exists w. intuition.
  - intros [w [Hi [H1 [H2 He]]]]. exists w. split; [auto|]. apply filter_In. split; [auto|].
    apply nodeps_iff. auto.
Qed.

Lemma Wbang_ready e avail : In e (Wbang avail) -> rdeps e = [].
Proof. intros H. apply Wbang_In in H. destruct H as [w [_ [H1 [H2 ->]]]]. simpl. rewrite H1, H2. reflexivity. Qed.

Lemma WQ_In e xs avail : In e (WQ xs avail) <->
  exists w, In w avail /\ (wpre w <> [] \/ wlook w <> []) /\ ~ In (whash w) xs /\ e = strip xs (D w).
Proof.
  unfold WQ. rewrite E_In. split.
  - intros [e0 [Hi [Hn He]]]. apply in_map_iff in Hi. destruct Hi as [w [Hw Hi]]. subst e0.
    apply filter_In in Hi. destruct Hi as [Hi Hd]. apply negb_true_iff in Hd.
    exists w. repeat split; auto.
    destruct (wpre w) eqn:H1; [|left; congruence]. destruct (wlook w) eqn:H2; [|right; congruence].
    exfalso. unfold nodeps in Hd. rewrite H1, H2 in Hd. discriminate.
  - intros [w [Hi [Hd [Hn He]]]]. exists (D w). repeat split; auto.
    apply in_map. apply filter_In. split; [auto|]. apply negb_true_iff.
    destruct (nodeps w) eqn:Hnd; [|reflexivity]. apply nodeps_iff in Hnd. destruct Hnd. destruct Hd; congruence.
Qed.

Lemma rot_In {A} m (l : list A) a : In a (rot m l) <-> In a l.
Proof.
  unfold rot. rewrite in_app_iff. rewrite <- (firstn_skipn m l) at 3. rewrite in_app_iff. tauto.
Qed.

Lemma concat_rot_In m (theta : list (list rr)) e : In e (concat (rot m theta)) <-> In e (concat theta).
Proof.
  rewrite !in_concat. split; intros [g [Hg He]]; exists g; (split; [|exact He]); apply (rot_In m); exact Hg.
Qed.

Lemma Wstar_shape m xi theta avail :
  Wstar_at m xi theta avail =
  Wbang avail ++ Q (E (concat (skipn m theta ++ firstn m theta) ++ WQ (concat xi) avail) (P (Wbang avail))).
Proof. reflexivity. Qed.

(* every chosen report stems from an available report or a queued record (same hash, same identity)
   all of whose dependencies are in the accumulated history or are hashes of EARLIER entries of W* *)
Lemma Wstar_order m xi theta avail i w :
  nth_error (Wstar_at m xi theta avail) i = Some w ->
  exists w0, In w0 (map D avail ++ concat theta) /\ rhash w0 = rhash w /\ rid w0 = rid w /\
    forall d, In d (rdeps w0) -> In d (concat xi) \/ In d (P (firstn i (Wstar_at m xi theta avail))).
Proof.
  unfold Wstar_at. intros Hn.
  destruct (Nat.lt_ge_cases i (length (Wbang avail))) as [Hlt|Hge].
  - rewrite nth_error_app1 in Hn by exact Hlt. apply nth_error_In in Hn.
    pose proof (Wbang_ready _ _ Hn) as Hr.
    apply Wbang_In in Hn. destruct Hn as [a [Ha [_ [_ ->]]]].
    exists (D a). repeat split; auto.
    + apply in_or_app. left. apply in_map. exact Ha.
    + rewrite Hr. intros d [].
  - rewrite nth_error_app2 in Hn by exact Hge.
    destruct (Q_order _ _ _ Hn) as [w1 [Hin1 [Hh [Hi [_ Hincl]]]]].
    unfold queue_in in Hin1. apply E_In in Hin1. destruct Hin1 as [w2 [Hin2 [Hnot ->]]].
    assert (Hlater : forall d, In d (rdeps w2) ->
              In d (P (firstn i (Wbang avail ++ Q (queue_in m xi theta avail))))).
    { intros d Hd. rewrite firstn_app. unfold P. rewrite map_app. apply in_or_app.
      rewrite firstn_all2 by lia.
      destruct (memb d (P (Wbang avail))) eqn:Hm.
      - left. apply memb_In. exact Hm.
      - right. apply memb_false in Hm. apply Hincl. apply strip_deps. auto. }
    apply in_app_or in Hin2. destruct Hin2 as [Hth|Hq].
    + apply concat_rot_In in Hth. exists w2. repeat split; auto.
      apply in_or_app. right. exact Hth.
    + apply WQ_In in Hq. destruct Hq as [a [Ha [_ [_ ->]]]].
      exists (D a). repeat split; auto.
      * apply in_or_app. left. apply in_map. exact Ha.
      * intros d Hd. destruct (memb d (concat xi)) eqn:Hm.
        -- left. apply memb_In. exact Hm.
        -- right. apply memb_false in Hm. apply Hlater. apply strip_deps. auto.
Qed.

Lemma Wstar_order_split m xi theta avail pre w post :
  Wstar_at m xi theta avail = pre ++ w :: post ->
  exists w0, In w0 (map D avail ++ concat theta) /\ rhash w0 = rhash w /\ rid w0 = rid w /\
    forall d, In d (rdeps w0) -> In d (concat xi) \/ In d (P pre).
Proof.
  intros H. destruct (Wstar_order m xi theta avail (length pre) w) as [w0 [H1 [H2 [H3 H4]]]].
  - rewrite H. rewrite nth_error_app2 by lia. rewrite Nat.sub_diag. reflexivity.
  - exists w0. repeat split; auto. rewrite H in H4. rewrite firstn_app_exact in H4 by reflexivity. exact H4.
Qed.

(* nothing satisfiable is left behind: a queued record / queued available report that is not chosen
   has a dependency that is neither accumulated earlier (for new reports) nor chosen in this block *)
Lemma Wstar_complete m xi theta avail w0 :
  In w0 (concat theta ++ WQ (concat xi) avail) ->
  In (rhash w0) (P (Wstar_at m xi theta avail)) \/
  exists d, In d (rdeps w0) /\ ~ In d (P (Wstar_at m xi theta avail)).
Proof.
  intros Hin. unfold Wstar_at, P. rewrite map_app. fold (P (Wbang avail)). fold (P (Q (queue_in m xi theta avail))).
  destruct (memb (rhash w0) (P (Wbang avail))) eqn:Hm.
  - left. apply in_or_app. left. apply memb_In. exact Hm.
  - apply memb_false in Hm.
    assert (Hq : In (strip (P (Wbang avail)) w0) (queue_in m xi theta avail)).
    { unfold queue_in. apply E_In. exists w0. repeat split; auto.
      apply in_app_or in Hin. apply in_or_app. destruct Hin; [left; apply concat_rot_In; auto|right; auto]. }
    destruct (Q_complete _ _ Hq) as [Hl|[d [Hd Hn]]].
    + left. apply in_or_app. right. exact Hl.
    + right. apply strip_deps in Hd. destruct Hd as [Hd Hnb]. exists d. split; [auto|].
      intros Hc. apply in_app_or in Hc. tauto.
Qed.

(* ---------------------------------------------------------------- invariant of the kept queue *)
(* no queued record is accumulated, and no queued record carries an accumulated dependency *)
Definition QInv (s : st) : Prop :=
  forall e, In e (concat (stheta s)) ->
    ~ In (rhash e) (concat (sxi s)) /\ forall d, In d (rdeps e) -> ~ In d (concat (sxi s)).

Lemma concat_skipn_In {A} n (l : list (list A)) a : In a (concat (skipn n l)) -> In a (concat l).
Proof.
  rewrite !in_concat. intros [g [Hg Ha]]. exists g. split; [|exact Ha].
  rewrite <- (firstn_skipn n l). apply in_or_app. right. exact Hg.
Qed.

Lemma xi_next_In xi xnew h : In h (concat (xi_next xi xnew)) -> In h (concat xi) \/ In h xnew.
Proof.
  unfold xi_next. rewrite concat_app. intros H. apply in_app_or in H. destruct H as [H|H].
  - left. eapply concat_skipn_In. exact H.
  - right. simpl in H. rewrite app_nil_r in H. exact H.
Qed.

Lemma nth_In_or_nil {A} j (l : list (list A)) a : In a (nth j l []) -> In a (concat l).
Proof.
  intros H. destruct (Nat.lt_ge_cases j (length l)) as [Hlt|Hge].
  - apply in_concat. exists (nth j l []). split; [apply nth_In; exact Hlt|exact H].
  - rewrite nth_overflow in H by exact Hge. destruct H.
Qed.

Lemma theta_next_In El m gap theta wq xnew e :
  In e (concat (theta_next El m gap theta wq xnew)) -> In e (E wq xnew) \/ In e (E (concat theta) xnew).
Proof.
  unfold theta_next. rewrite in_concat. intros [g [Hg He]]. apply in_map_iff in Hg.
  destruct Hg as [j [Hj _]]. subst g.
  destruct (Nat.eqb ((m + El - j) mod El) 0); [left; exact He|].
  destruct (N.ltb (N.of_nat ((m + El - j) mod El)) gap); [destruct He|].
  right. apply E_In in He. destruct He as [e0 [Hin [Hn ->]]]. apply E_In. exists e0. repeat split; auto.
  eapply nth_In_or_nil. exact Hin.
Qed.

Lemma QInv_step El s b : QInv s -> QInv (step El s b).
Proof.
  intros Hinv e He. unfold step in *. simpl in *.
  set (xnew := accumulated_now El s b) in *. clearbody xnew.
  apply theta_next_In in He.
  assert (Hold : ~ In (rhash e) (concat (sxi s)) /\ forall d, In d (rdeps e) -> ~ In d (concat (sxi s))).
  { destruct He as [He|He].
    - apply E_In in He. destruct He as [e0 [Hin [_ ->]]]. simpl.
      split.
      + eapply E_hash_notin. exact Hin.
      + intros d Hd. apply filter_In in Hd. destruct Hd as [Hd _]. eapply E_dep_notin; eauto.
    - apply E_In in He. destruct He as [e0 [Hin [_ ->]]]. simpl.
      destruct (Hinv e0 Hin) as [H1 H2]. split; [exact H1|].
      intros d Hd. apply filter_In in Hd. destruct Hd as [Hd _]. apply H2. exact Hd. }
  assert (Hnew : ~ In (rhash e) xnew /\ forall d, In d (rdeps e) -> ~ In d xnew).
  { destruct He as [He|He]; (split; [eapply E_hash_notin; exact He|intros d Hd; eapply E_dep_notin; eauto]). }
  destruct Hold as [Ho1 Ho2]. destruct Hnew as [Hn1 Hn2]. split.
  - intros Hc. apply xi_next_In in Hc. tauto.
  - intros d Hd Hc. apply xi_next_In in Hc. destruct Hc; [eapply Ho2|eapply Hn2]; eauto.
Qed.

Lemma QInv_history El bs : forall s, QInv s -> QInv (fold_left (step El) bs s).
Proof. induction bs as [|b bs IH]; simpl; intros s H; [exact H|]. apply IH. apply QInv_step. exact H. Qed.

Lemma QInv_empty_queue xi tau n : QInv (mkSt xi (repeat [] n) tau).
Proof.
  intros e He. simpl in He. exfalso. induction n; simpl in He; auto.
Qed.

(* [run] follows [fold_left step] *)
Lemma run_state El bs : forall s, snd (run El s bs) = fold_left (step El) bs s.
Proof.
  induction bs as [|b bs IH]; simpl; intros s; [reflexivity|].
  specialize (IH (step El s b)). destruct (run El (step El s b) bs). simpl in *. exact IH.
Qed.

Lemma run_outputs El bs : forall s k b, nth_error bs k = Some b ->
  nth_error (fst (run El s bs)) k = Some (Wstar El (fold_left (step El) (firstn k bs) s) b).
Proof.
  induction bs as [|b0 bs IH]; intros s k b Hk; [destruct k; discriminate|].
  simpl. specialize (IH (step El s b0)). destruct (run El (step El s b0) bs) as [ws s'] eqn:Hr. simpl in *.
  destruct k as [|k]; simpl in *.
  - inversion Hk; subst. reflexivity.
  - apply IH. exact Hk.
Qed.

Lemma run_model El bs s k b :
  snd (run El s bs) = fold_left (step El) bs s /\
  (nth_error bs k = Some b ->
   nth_error (fst (run El s bs)) k = Some (Wstar El (fold_left (step El) (firstn k bs) s) b)).
Proof. split; [apply run_state|apply run_outputs]. Qed.

(* ---------------------------------------------------------------- no re-accumulation *)
(* entries chosen from the queue are never in the accumulated history, given the queue invariant *)
Lemma no_reacc_queue m s avail w :
  QInv s -> In w (Q (queue_in m (sxi s) (stheta s) avail)) -> ~ In (rhash w) (concat (sxi s)).
Proof.
  intros Hinv Hw. apply Q_hash_from in Hw. destruct Hw as [w1 [Hin [Hh _]]]. rewrite <- Hh.
  unfold queue_in in Hin. apply E_In in Hin. destruct Hin as [w2 [Hin [_ ->]]]. simpl.
  apply in_app_or in Hin. destruct Hin as [Hth|Hq].
  - apply concat_rot_In in Hth. destruct (Hinv w2 Hth) as [H1 _]. exact H1.
  - unfold WQ in Hq. eapply E_hash_notin. exact Hq.
Qed.

(* with the upstream guarantee for new reports (11.38: a reported package is not in ©ξ) nothing in W* is *)
Lemma no_reacc_all m s avail w :
  QInv s -> (forall a, In a avail -> ~ In (whash a) (concat (sxi s))) ->
  In w (Wstar_at m (sxi s) (stheta s) avail) -> ~ In (rhash w) (concat (sxi s)).
Proof.
  intros Hinv Hfresh Hw. unfold Wstar_at in Hw. apply in_app_or in Hw. destruct Hw as [Hb|Hq].
  - apply Wbang_In in Hb. destruct Hb as [a [Ha [_ [_ ->]]]]. simpl. apply Hfresh. exact Ha.
  - eapply no_reacc_queue; eauto.
Qed.

(* without that guarantee a dependency-free report IS chosen again: the hypothesis is needed *)
Lemma Wbang_no_filter m xi theta a avail :
  In a avail -> wpre a = [] -> wlook a = [] -> In (D a) (Wstar_at m xi theta avail).
Proof.
  intros Ha H1 H2. unfold Wstar_at. apply in_or_app. left. apply Wbang_In. exists a. auto.
Qed.

(* along any history that starts in a state satisfying the invariant, at every block *)
Lemma history_no_reacc El s0 bs k b w :
  QInv s0 -> nth_error bs k = Some b ->
  let s := fold_left (step El) (firstn k bs) s0 in
  In w (Q (queue_in (slot_index El (bslot b)) (sxi s) (stheta s) (bavail b))) ->
  ~ In (rhash w) (concat (sxi s)).
Proof.
  intros Hinv Hk s Hw. eapply no_reacc_queue; [|exact Hw]. apply QInv_history. exact Hinv.
Qed.

(* ---------------------------------------------------------------- boolean observers agree with the Props *)
Lemma filter_nil_iff {A} (p : A -> bool) l : filter p l = [] <-> forall a, In a l -> p a = false.
Proof.
  induction l as [|a l IH]; simpl.
  - split; [intros _ a []|reflexivity].
  - destruct (p a) eqn:Hp.
    + split; [discriminate|]. intros H. specialize (H a (or_introl eq_refl)). congruence.
    + rewrite IH. split.
      * intros H b [<-|Hb]; auto.
      * intros H b Hb. apply H. right. exact Hb.
Qed.

Lemma qinv_b_iff s : qinv_b s = true <-> QInv s.
Proof.
  unfold qinv_b, count_bad. rewrite Nat.eqb_eq, length_zero_iff_nil, filter_nil_iff. unfold QInv, bad_entry.
  split; intros H e He; specialize (H e He).
  - apply orb_false_iff in H. destruct H as [H1 H2]. split; [apply memb_false; exact H1|].
    intros d Hd. apply memb_false.
    destruct (memb d (concat (sxi s))) eqn:Hm; [|reflexivity].
    assert (existsb (fun d => memb d (concat (sxi s))) (rdeps e) = true) by (apply existsb_exists; eauto).
    congruence.
  - destruct H as [H1 H2]. apply orb_false_iff. split; [apply memb_false; exact H1|].
    destruct (existsb (fun d => memb d (concat (sxi s))) (rdeps e)) eqn:Hx; [|reflexivity].
    apply existsb_exists in Hx. destruct Hx as [d [Hd Hm]]. apply memb_In in Hm. exfalso. eapply H2; eauto.
Qed.

Lemma count_in_zero x l : count_in x l = 0 <-> forall e, In e l -> ~ In (rhash e) x.
Proof.
  unfold count_in. rewrite length_zero_iff_nil, filter_nil_iff.
  split; intros H e He; specialize (H e He); apply memb_false; exact H.
Qed.
