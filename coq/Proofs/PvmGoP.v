(* Lemmas about Model/PvmGo.v (C03): the Go-shaped parsing glue never reaches a Go panic and never
   exhausts its fuel; what it requests from the allocator is bounded. *)
From JamV Require Import Model.PvmGo.
From Coq Require Import ZifyBool ZifyNat ZifyN.
Local Open Scope N_scope.
Ltac Zify.zify_post_hook ::= Z.div_mod_to_equations.

(* ---- vocabulary ---- *)
Definition good {A : Type} (r : res A) : Prop := match r with Ok _ | Rej => True | _ => False end.
Definition gwf (s : gslice) : Prop := g_len s <= gcap s.
Definition bytes_ok (l : bytes) : Prop := Forall (fun b => b < 256) l.
(* a is a window of the backing array of b *)
Definition within (a b : gslice) : Prop := exists k : nat, g_arr a = skipn k (g_arr b).

Lemma within_refl : forall a, within a a.
Proof. intros a; exists 0%nat; reflexivity. Qed.

Lemma skipn_skipn : forall (A : Type) (a b : nat) (l : list A), skipn a (skipn b l) = skipn (b + a) l.
Proof.
  intros A a b; revert a; induction b as [|b IH]; intros a l; [reflexivity|].
  destruct l as [|x l]; [destruct a; reflexivity|]. cbn [skipn Nat.add]. apply IH.
Qed.

Lemma within_trans : forall a b c, within a b -> within b c -> within a c.
Proof.
  intros a b c [k1 H1] [k2 H2]. exists (k2 + k1)%nat. rewrite H1, H2. apply skipn_skipn.
Qed.

Lemma Forall_skipn : forall (A : Type) (P : A -> Prop) k (l : list A), Forall P l -> Forall P (skipn k l).
Proof.
  intros A P k; induction k as [|k IH]; intros l H; [exact H|].
  destruct l as [|x l]; [constructor|]. inversion H; subst. cbn [skipn]. apply IH; assumption.
Qed.

Lemma within_bytes_ok : forall a b, within a b -> bytes_ok (g_arr b) -> bytes_ok (g_arr a).
Proof. intros a b [k H] Hb. unfold bytes_ok. rewrite H. apply Forall_skipn; exact Hb. Qed.

Lemma within_cap : forall a b, within a b -> gcap a <= gcap b.
Proof.
  intros a b [k H]. unfold gcap, nlen. rewrite H, skipn_length. lia.
Qed.

Lemma u32_small : forall x, x < 4294967296 -> u32 x = x.
Proof. intros x H. unfold u32. apply N.mod_small; exact H. Qed.

Lemma u64_small : forall x, x < 18446744073709551616 -> u64 x = x.
Proof. intros x H. unfold u64. apply N.mod_small; exact H. Qed.

Lemma good_bind : forall (A B : Type) (r : res A) (k : A -> res B),
  good r -> (forall a, r = Ok a -> good (k a)) -> good (bind r k).
Proof. intros A B r k H K. destruct r; cbn in *; auto. Qed.

(* ---- index and slice expressions that are in range ---- *)
Lemma idx_ok : forall (A : Type) (s : gslice) i (k : N -> res A), i < g_len s ->
  idx s i k = k (nth (N.to_nat i) (g_arr s) 0).
Proof.
  intros A s i k H. unfold idx, go_index. destruct (i <? g_len s) eqn:E; [reflexivity|lia].
Qed.

Definition sub_slice (s : gslice) (lo hi : N) : gslice :=
  {| g_arr := skipn (N.to_nat lo) (g_arr s); g_len := hi - lo |}.

Lemma slc_ok : forall (A : Type) (s : gslice) lo hi (k : gslice -> res A), lo <= hi -> hi <= gcap s ->
  slc s lo hi k = k (sub_slice s lo hi).
Proof.
  intros A s lo hi k H1 H2. unfold slc, go_slice.
  destruct ((lo <=? hi) && (hi <=? gcap s)) eqn:E; [reflexivity|lia].
Qed.

Lemma sub_cap : forall s lo hi, gcap (sub_slice s lo hi) = gcap s - lo.
Proof. intros s lo hi. unfold gcap, nlen, sub_slice; cbn [g_arr]. rewrite skipn_length. lia. Qed.

Lemma sub_wf : forall s lo hi, lo <= hi -> hi <= gcap s -> gwf (sub_slice s lo hi).
Proof. intros s lo hi H1 H2. unfold gwf. rewrite sub_cap. cbn [sub_slice g_len]. lia. Qed.

Lemma sub_within : forall s lo hi, within (sub_slice s lo hi) s.
Proof. intros s lo hi. exists (N.to_nat lo). reflexivity. Qed.

Lemma nth_bytes_ok : forall l i, bytes_ok l -> nth i l 0 < 256.
Proof.
  intros l i H. revert i; induction H as [|x l Hx _ IH]; intros i; destruct i; cbn; try lia; auto.
Qed.

(* ---- rd_loop ---- *)
Lemma rd_loop_ok : forall (A : Type) (Q : res A -> Prop) d off cnt i acc (k : N -> res A),
  i + N.of_nat cnt + off <= g_len d + (if (cnt =? 0)%nat then off + i else 0) ->
  (forall v, Q (k v)) -> Q (rd_loop d off cnt i acc k).
Proof.
  intros A Q d off cnt; induction cnt as [|c IH]; intros i acc k H K; cbn [rd_loop]; [apply K|].
  rewrite idx_ok by (cbn in H; lia). apply IH; [|exact K].
  destruct c; cbn in *; lia.
Qed.

(* with byte-sized elements the value read is below 256^cnt (stated through an accumulator bound) *)
Lemma rd_loop_val : forall (A : Type) (Q : res A -> Prop) d off cnt i acc (k : N -> res A),
  bytes_ok (g_arr d) ->
  i + N.of_nat cnt + off <= g_len d + (if (cnt =? 0)%nat then off + i else 0) ->
  acc < 2 ^ (8 * i) ->
  (forall v, v < 2 ^ (8 * (i + N.of_nat cnt)) -> Q (k v)) -> Q (rd_loop d off cnt i acc k).
Proof.
  intros A Q d off cnt; induction cnt as [|c IH]; intros i acc k Hb H Ha K; cbn [rd_loop].
  - apply K. replace (i + N.of_nat 0) with i by lia. exact Ha.
  - rewrite idx_ok by (cbn in H; lia).
    apply IH; [exact Hb|destruct c; cbn in *; lia| |].
    + pose proof (nth_bytes_ok (g_arr d) (N.to_nat (i + off)) Hb) as B.
      replace (8 * (i + 1)) with (8 * i + 8) by lia. rewrite N.pow_add_r.
      change (2 ^ 8) with 256. nia.
    + intros v Hv. apply K. replace (i + N.of_nat (S c)) with (i + 1 + N.of_nat c) by lia. exact Hv.
Qed.

(* ---- ReadUintVariable ---- *)
Definition ruv_post (d : gslice) (r : res (N * N)) : Prop :=
  match r with Ok (_, u) => 1 <= u <= g_len d | Rej => True | _ => False end.

Lemma ruv_fin_post : forall d l x, l + 1 <= g_len d -> ruv_post d (ruv_fin l x).
Proof. intros d l x H. unfold ruv_fin. destruct (x <? 2 ^ (7 * l)); cbn; [exact I|lia]. Qed.

Lemma ruv_good : forall d, gwf d -> ruv_post d (read_uint_variable d).
Proof.
  intros d W. unfold gwf in W. unfold read_uint_variable.
  destruct (g_len d <? 1) eqn:E1; [exact I|].
  rewrite idx_ok by lia. set (prefix := nth (N.to_nat 0) (g_arr d) 0). clearbody prefix.
  destruct (prefix <? 128) eqn:E2; [cbn; lia|].
  destruct (prefix =? 255) eqn:E3.
  { destruct (g_len d <? 9) eqn:E4; [exact I|]. rewrite slc_ok by lia.
    cbv zeta. match goal with |- context [if ?c then _ else _] => destruct c end; cbn; [exact I|lia]. }
  set (l := lead_ones8 prefix).
  assert (HL : 1 <= l <= 8).
  { unfold l, lead_ones8. rewrite E2.
    repeat match goal with |- context [if ?x <? ?y then _ else _] => destruct (x <? y) end; lia. }
  clearbody l. cbv zeta.
  destruct (g_len d <? l + 1) eqn:E5; [exact I|].
  assert (HC : l = 1 \/ l = 2 \/ l = 3 \/ l = 4 \/ l = 5 \/ l = 6 \/ l = 7 \/ l = 8) by lia.
  destruct HC as [->|[->|[->|[->|[->|[->|[->| ->]]]]]]]; cbn [N.eqb Pos.eqb].
  - rewrite idx_ok by lia. apply ruv_fin_post; lia.
  - rewrite slc_ok by lia. apply ruv_fin_post; lia.
  - destruct (5 <=? g_len d) eqn:E6.
    + rewrite slc_ok by lia. apply ruv_fin_post; lia.
    + rewrite !idx_ok by lia. apply ruv_fin_post; lia.
  - rewrite slc_ok by lia. apply ruv_fin_post; lia.
  - apply rd_loop_ok; [cbn; lia|intros v; apply ruv_fin_post; lia].
  - apply rd_loop_ok; [cbn; lia|intros v; apply ruv_fin_post; lia].
  - apply rd_loop_ok; [cbn; lia|intros v; apply ruv_fin_post; lia].
  - apply rd_loop_ok; [cbn; lia|intros v; apply ruv_fin_post; lia].
Qed.

(* ---- ReadUintFixed, ReadBytes: continuation-passing facts ---- *)
Lemma slc_from_ok : forall (A : Type) (s : gslice) lo (k : gslice -> res A), gwf s -> lo <= g_len s ->
  slc_from s lo k = k (sub_slice s lo (g_len s)).
Proof. intros A s lo k W H. unfold slc_from. apply slc_ok; [exact H|exact W]. Qed.

Lemma ruf_ok : forall (A : Type) (Q : res A -> Prop) d nb (k : N -> gslice -> res A),
  gwf d -> bytes_ok (g_arr d) -> 0 < nb -> Q Rej ->
  (forall v rest, v < 2 ^ (8 * nb) -> gwf rest -> within rest d -> g_len rest = g_len d - nb -> nb <= g_len d ->
                  Q (k v rest)) ->
  Q (read_uint_fixed d nb k).
Proof.
  intros A Q d nb k W Hb Hn HR K. unfold read_uint_fixed.
  destruct (g_len d <? nb) eqn:E; [exact HR|].
  apply rd_loop_val; [exact Hb| |cbn; lia|].
  - destruct (N.to_nat nb =? 0)%nat eqn:E0; lia.
  - intros v Hv. rewrite slc_from_ok by (try exact W; lia).
    apply K; [replace (0 + N.of_nat (N.to_nat nb)) with nb in Hv by lia; exact Hv
             |apply sub_wf; [lia|exact W]|apply sub_within|cbn; lia|lia].
Qed.

Lemma rb_ok : forall (A : Type) (Q : res A -> Prop) d n (k : gslice -> gslice -> res A),
  gwf d -> Q Rej ->
  (forall a b, gwf a -> gwf b -> within a d -> within b d -> g_len a = n -> g_len b = g_len d - n -> n <= g_len d ->
               g_arr a = g_arr d -> Q (k a b)) ->
  Q (read_bytes d n k).
Proof.
  intros A Q d n k W HR K. unfold read_bytes. unfold gwf in W.
  destruct (g_len d <? n) eqn:E; [exact HR|].
  rewrite slc_ok by lia. rewrite slc_from_ok by (try exact W; lia).
  apply K; try (apply sub_wf; lia); try apply sub_within; cbn; try lia. reflexivity.
Qed.

(* ---- MakeBitMasks ---- *)
Lemma mb_loop_ok : forall ins bm cnt i prev acc,
  g_len bm = g_len ins / 8 + (if 0 <? g_len ins mod 8 then 1 else 0) ->
  i + N.of_nat cnt = g_len ins -> (forall p, prev = Some p -> p < i) -> length acc = N.to_nat i ->
  exists m, mb_loop ins bm cnt i prev acc = Ok m /\ length m = N.to_nat (g_len ins).
Proof.
  intros ins bm cnt; induction cnt as [|c IH]; intros i prev acc Hbm Hi Hp Ha; cbn [mb_loop].
  - eexists; split; [reflexivity|]. rewrite rev_length. rewrite Ha. f_equal. lia.
  - assert (Hlt : i < g_len ins) by lia.
    rewrite idx_ok by (rewrite Hbm; destruct (0 <? g_len ins mod 8) eqn:E; lia).
    match goal with |- context [N.testbit ?b ?j] => destruct (N.testbit b j) end.
    + assert (F : forall after, exists m,
        (if (i =? 0) || after
         then idx ins i (fun oi => mb_loop ins bm c (i + 1) (Some i) ((if vop oi then 3 else 1) :: acc))
         else mb_loop ins bm c (i + 1) (Some i) (1 :: acc)) = Ok m /\ length m = N.to_nat (g_len ins)).
      { intros after. destruct ((i =? 0) || after).
        - rewrite idx_ok by lia. apply IH; [exact Hbm|lia|intros p E; inversion E; lia|cbn [length]; lia].
        - apply IH; [exact Hbm|lia|intros p E; inversion E; lia|cbn [length]; lia]. }
      destruct prev as [p|].
      * rewrite idx_ok by (specialize (Hp p eq_refl); lia). apply F.
      * apply F.
    + apply IH; [exact Hbm|lia|intros p E; specialize (Hp p E); lia|cbn [length]; lia].
Qed.

Lemma make_bitmasks_ok : forall ins bm,
  match make_bitmasks ins bm with
  | Ok m => length m = N.to_nat (g_len ins)
  | Rej => True
  | _ => False
  end.
Proof.
  intros ins bm. unfold make_bitmasks.
  destruct (g_len bm =? g_len ins / 8 + (if 0 <? g_len ins mod 8 then 1 else 0)) eqn:E; cbn [negb]; [|exact I].
  destruct (mb_loop_ok ins bm (N.to_nat (g_len ins)) 0 None []) as (m & H1 & H2);
    [lia|lia|discriminate|reflexivity|].
  rewrite H1. exact H2.
Qed.

(* ---- decodeOperands over the zero-extended code ---- *)
Lemma r12_lt : forall x, (r12 x <? 13) = true.
Proof. intros x. unfold r12. lia. Qed.

Ltac fin_regs :=
  eexists; split; [reflexivity|];
  cbv beta iota zeta delta [regs_ok cat_uses negb orb andb]; rewrite ?r12_lt; reflexivity.

Lemma decode_operands_ok : forall ze pc l op n,
  pc < n -> g_len ze = n + 32 -> gwf ze -> n + 64 < 4294967296 ->
  exists t, decode_operands ze pc l op = Ok t /\ regs_ok (cat_of op) t = true.
Proof.
  intros ze pc l op n Hpc Hl W Hn. unfold gwf in W. unfold decode_operands, none3.
  destruct (cat_of op); cbv zeta.
  - fin_regs.
  - fin_regs.
  - (* OneImm *) destruct (l <? 1); [fin_regs|].
    rewrite slc_ok by (unfold u32; lia). fin_regs.
  - (* OneRegExtImm *) rewrite idx_ok by (unfold u32; lia). destruct (u32 (pc + 10) <=? g_len ze).
    + rewrite slc_ok by (unfold u32; lia). fin_regs.
    + fin_regs.
  - (* TwoImm *) rewrite idx_ok by (unfold u32; lia). rewrite !slc_ok by (unfold u32; lia). fin_regs.
  - (* OneOffset *) rewrite slc_ok by (unfold u32; lia). fin_regs.
  - (* OneRegOneImm *) rewrite idx_ok by (unfold u32; lia). rewrite slc_ok by (unfold u32; lia). fin_regs.
  - (* OneRegTwoImm *) rewrite idx_ok by (unfold u32; lia). rewrite !slc_ok by (unfold u32; lia). fin_regs.
  - (* OneRegImmOff *) rewrite idx_ok by (unfold u32; lia). rewrite !slc_ok by (unfold u32; lia). fin_regs.
  - (* TwoReg *) destruct (g_len ze <=? u32 (pc + 1)) eqn:E; [unfold u32 in E; lia|].
    rewrite idx_ok by (unfold u32; lia). fin_regs.
  - (* TwoRegOneImm *) rewrite idx_ok by (unfold u32; lia). rewrite slc_ok by (unfold u32; lia). fin_regs.
  - (* TwoRegOneOff *) rewrite idx_ok by (unfold u32; lia). rewrite slc_ok by (unfold u32; lia). fin_regs.
  - (* TwoRegTwoImm *) rewrite !idx_ok by (unfold u32; lia). rewrite !slc_ok by (unfold u32; lia). fin_regs.
  - (* ThreeReg *) destruct (g_len ze <=? u32 (pc + 2)) eqn:E; [unfold u32 in E; lia|].
    rewrite !idx_ok by (unfold u32; lia). fin_regs.
Qed.

(* ---- preDecodeBlocks ---- *)
Lemma grow_facts : forall c, c + 1 <= grow c /\ 5 * c <= 4 * grow c /\ grow c <= 2 * c + 192.
Proof.
  intros c. unfold grow. destruct (c =? 0) eqn:E0; [lia|]. destruct (c <? 256) eqn:E1; lia.
Qed.

Definition pd_inv (n : N) (s : pd) : Prop :=
  pd_pc s <= n + 24 /\ pd_len s <= pd_pc s /\ pd_len s <= pd_cap s /\
  pd_cap s <= n / 4 + 2 * pd_len s + 192 /\
  pd_acct s <= 13 * n + 32 + 200 * pd_cap s + 32 * (pd_pc s + (if pd_in s then 1 else 0)) /\
  pd_rok s = true.

Definition pd_fin (n : N) (s : pd) : Prop :=
  pd_len s <= n + 25 /\ pd_cap s <= n / 4 + 2 * pd_len s + 192 /\
  pd_acct s <= 13 * n + 32 + 200 * pd_cap s + 32 * (n + 25) /\ pd_rok s = true.

Lemma pd_append_inv : forall n s X,
  pd_len s <= pd_cap s -> pd_cap s <= n / 4 + 2 * pd_len s + 192 -> pd_acct s <= X + 200 * pd_cap s ->
  pd_len (pd_append s) = pd_len s + 1 /\ pd_len (pd_append s) <= pd_cap (pd_append s) /\
  pd_cap (pd_append s) <= n / 4 + 2 * pd_len (pd_append s) + 192 /\
  pd_acct (pd_append s) <= X + 200 * pd_cap (pd_append s) /\
  pd_pc (pd_append s) = pd_pc s /\ pd_in (pd_append s) = pd_in s /\ pd_rok (pd_append s) = pd_rok s.
Proof.
  intros n s X H1 H2 H3. unfold pd_append. destruct (pd_len s <? pd_cap s) eqn:E; cbn [pd_pc pd_in pd_len pd_cap pd_acct pd_rok].
  - repeat split; lia.
  - pose proof (grow_facts (pd_cap s)) as (G1 & G2 & G3). unfold SZ_INSTR. repeat split; lia.
Qed.

Lemma skip_go_le : forall mask pc, skip_go mask pc <= 24.
Proof. intros. unfold skip_go. lia. Qed.

Lemma pd_loop_ok : forall ins ze mask n,
  g_len ins = n -> g_len ze = n + 32 -> gwf ze -> n + 64 < 4294967296 ->
  forall fuel s, pd_inv n s ->
    2 * (n + 25 - pd_pc s) + (if pd_in s then 0 else 1) < N.of_nat fuel ->
    exists s', pd_loop fuel ins ze mask n s = Ok s' /\ pd_fin n s'.
Proof.
  intros ins ze mask n Hins Hze Wze Hn. induction fuel as [|f IH]; intros s Inv Hf; [lia|].
  destruct Inv as (I1 & I2 & I3 & I4 & I5 & I6).
  cbn [pd_loop]. rewrite (u32_small n) by lia.
  destruct (pd_in s) eqn:Ein; cbn [negb].
  - (* inside a block *)
    destruct (n <=? pd_pc s) eqn:E1.
    + (* implicit trap past the end *)
      destruct (pd_append_inv n s (13 * n + 32 + 32 * (pd_pc s + 1))) as (A1 & A2 & A3 & A4 & A5 & A6 & A7); try lia.
      eexists; split; [reflexivity|]. unfold pd_fin; cbn [pd_len pd_cap pd_acct pd_rok].
      repeat split; try lia. congruence.
    + rewrite idx_ok by lia. set (op := nth (N.to_nat (pd_pc s)) (g_arr ins) 0). clearbody op.
      destruct (pd_pc s <? n) eqn:E2; [|lia]. cbn [negb].
      destruct (decode_operands_ok ze (pd_pc s) (skip_go mask (pd_pc s)) op n) as (t & D1 & D2); try assumption; try lia.
      rewrite D1. cbn [bind].
      pose proof (skip_go_le mask (pd_pc s)) as SK.
      destruct (pd_append_inv n s (13 * n + 32 + 32 * (pd_pc s + 1))) as (A1 & A2 & A3 & A4 & A5 & A6 & A7); try lia.
      rewrite u32_small by lia.
      apply IH.
      * unfold pd_inv; cbn [pd_pc pd_in pd_len pd_cap pd_acct pd_rok].
        repeat split; try lia.
        rewrite A7, I6, D2. reflexivity.
      * cbn [pd_pc pd_in]. destruct (negb (term op)); lia.
  - (* between blocks *)
    destruct (pd_pc s <? n) eqn:E1; cbn [negb].
    + destruct (is_start mask (pd_pc s)); cbn [negb].
      * apply IH.
        -- unfold pd_inv; cbn [pd_pc pd_in pd_len pd_cap pd_acct pd_rok]. unfold SZ_BLOCK. repeat split; try lia; assumption.
        -- cbn [pd_pc pd_in]. lia.
      * rewrite u32_small by lia. apply IH.
        -- unfold pd_inv; cbn [pd_pc pd_in pd_len pd_cap pd_acct pd_rok]. repeat split; try lia; assumption.
        -- cbn [pd_pc pd_in]. lia.
    + eexists; split; [reflexivity|]. unfold pd_fin. repeat split; try lia; assumption.
Qed.

Lemma predecode_ok : forall ins mask, gwf ins -> g_len ins + 64 < 4294967296 ->
  exists s, predecode ins mask = Ok s /\ pd_fin (g_len ins) s.
Proof.
  intros ins mask W Hn. unfold predecode.
  apply pd_loop_ok; try lia; try reflexivity.
  - unfold gwf, zero_ext, gcap, gbytes, nlen; cbn [g_arr g_len].
    rewrite app_length, repeat_length, firstn_length. unfold gwf, gcap, nlen in W. lia.
  - unfold pd_inv; cbn [pd_pc pd_in pd_len pd_cap pd_acct pd_rok]. unfold SZ_INSTR. repeat split; lia.
  - cbn [pd_pc pd_in]. lia.
Qed.

(* ---- DeBlobProgramCode (repaired shape) ---- *)
Definition gp_post (data : gslice) (g : gprog) : Prop :=
  gwf (gp_jt g) /\ g_len (gp_jt g) = gp_jl g * gp_js g /\ gp_jl g * gp_js g < 4294967296 /\
  gp_js g < 4294967296 /\ gp_jl g < 256 /\
  gp_rok g = true /\ length (gp_mask g) = N.to_nat (g_len (gp_ins g)) /\
  g_len (gp_ins g) <= g_len data /\ gp_alloc g <= 496 * g_len (gp_ins g) + 49232.

Definition deblob_post (data : gslice) (r : res gprog) : Prop :=
  match r with Ok g => gp_post data g | Rej => True | _ => False end.

Lemma deblob_ok : forall data, gwf data -> bytes_ok (g_arr data) -> gcap data + 64 < 4294967296 ->
  deblob_post data (deblob_go true true data).
Proof.
  intros data W Hb Hc. unfold deblob_go.
  pose proof (ruv_good data W) as R1.
  destruct (read_uint_variable data) as [[js used]| | |]; cbn [bind ruv_post] in *; try exact I; try contradiction.
  rewrite slc_from_ok by (try exact W; lia).
  set (data1 := sub_slice data used (g_len data)).
  assert (W1 : gwf data1) by (apply sub_wf; [lia|exact W]).
  assert (L1 : g_len data1 = g_len data - used) by reflexivity.
  assert (T1 : within data1 data) by apply sub_within.
  destruct (g_len data1 <? 1) eqn:E1; [exact I|].
  rewrite idx_ok by lia.
  assert (Hjl : nth (N.to_nat 0) (g_arr data1) 0 < 256)
    by (apply nth_bytes_ok; apply (within_bytes_ok _ _ T1 Hb)).
  set (jl := nth (N.to_nat 0) (g_arr data1) 0) in *. clearbody jl.
  rewrite slc_from_ok by (try exact W1; lia).
  set (data2 := sub_slice data1 1 (g_len data1)).
  assert (W2 : gwf data2) by (apply sub_wf; [lia|exact W1]).
  assert (L2 : g_len data2 = g_len data1 - 1) by reflexivity.
  assert (T2 : within data2 data) by (eapply within_trans; [apply sub_within|exact T1]).
  pose proof (ruv_good data2 W2) as R2.
  destruct (read_uint_variable data2) as [[isz used2]| | |]; cbn [bind ruv_post] in *; try exact I; try contradiction.
  rewrite slc_from_ok by (try exact W2; lia).
  set (data3 := sub_slice data2 used2 (g_len data2)).
  assert (W3 : gwf data3) by (apply sub_wf; [lia|exact W2]).
  assert (L3 : g_len data3 = g_len data2 - used2) by reflexivity.
  assert (T3 : within data3 data) by (eapply within_trans; [apply sub_within|exact T2]).
  cbn [andb].
  destruct (4294967296 <=? js) eqn:E2; cbn [orb]; [exact I|].
  assert (Htl : u64 (jl * js) = jl * js) by (apply u64_small; nia).
  rewrite Htl.
  destruct (4294967296 <=? jl * js) eqn:E3; [exact I|].
  apply rb_ok; [exact W3|exact I|].
  intros jt data4 Wjt W4 Tjt T4 Ljt L4 Hle _.
  destruct (g_len data4 <? isz) eqn:E4; [exact I|].
  assert (C4 : g_len data4 <= gcap data4) by exact W4.
  rewrite slc_ok by lia. rewrite slc_from_ok by (try exact W4; lia).
  set (ins := sub_slice data4 0 isz). set (bm := sub_slice data4 isz (g_len data4)).
  assert (Wi : gwf ins) by (apply sub_wf; lia).
  assert (Li : g_len ins = isz) by (cbn; lia).
  pose proof (make_bitmasks_ok ins bm) as MB.
  destruct (make_bitmasks ins bm) as [mask| | |]; cbn [bind]; try exact I; try contradiction.
  assert (Hi64 : g_len ins + 64 < 4294967296).
  { pose proof (within_cap _ _ T3). unfold gwf in *. lia. }
  destruct (predecode_ok ins mask Wi Hi64) as (s & P1 & P2 & P3 & P4 & P5).
  rewrite P1. cbn [bind deblob_post]. unfold gp_post.
  cbn [gp_jt gp_jl gp_js gp_rok gp_mask gp_ins gp_alloc].
  rewrite !u32_small by lia.
  repeat split; try assumption; try lia.
Qed.

(* ---- djump (repaired shape) on a program accepted by the repaired deblob ---- *)
Lemma djump_ok : forall data g a, gp_post data g -> exists j, djump_go true g a = Ok j.
Proof.
  intros data g a (Wj & Lj & Hp & Hs & Hl & _). unfold djump_go.
  destruct (a =? 4294901760); [eexists; reflexivity|].
  destruct ((a =? 0) || (u32 (gp_js g * 2) <? a) || negb (a mod 2 =? 0)) eqn:E; [eexists; reflexivity|].
  cbv zeta.
  assert (Hidx : a / 2 - 1 + 1 <= gp_js g) by (unfold u32 in E; lia).
  set (index := a / 2 - 1) in *. clearbody index.
  assert (Hoff : index * gp_jl g + gp_jl g <= gp_jl g * gp_js g) by nia.
  rewrite u32_small by lia.
  unfold gwf in Wj.
  rewrite slc_from_ok by (try exact Wj; lia).
  rewrite slc_ok by (try rewrite sub_cap; lia).
  match goal with |- context [if ?c then _ else _] => destruct c end; [|eexists; reflexivity].
  match goal with |- context [if ?c then _ else _] => destruct c end; eexists; reflexivity.
Qed.

(* ---- DecodeSerializedValues ---- *)
Definition sb_post (p : gslice) (b : sblob) : Prop :=
  gwf (sb_c b) /\ within (sb_c b) p /\ g_len (sb_c b) <= g_len p /\
  g_len (sb_o b) < 16777216 /\ g_len (sb_w b) < 16777216 /\ sb_z b < 65536 /\ sb_s b < 16777216.

Definition dsv_post (p : gslice) (r : res sblob) : Prop :=
  match r with Ok b => sb_post p b | Rej => True | _ => False end.

Lemma dsv_ok : forall p, gwf p -> bytes_ok (g_arr p) -> dsv_post p (decode_serialized_values p).
Proof.
  intros p W Hb. unfold decode_serialized_values.
  apply ruf_ok; [exact W|exact Hb|lia|exact I|]. intros olen p1 Ho W1 T1 L1 _.
  pose proof (within_bytes_ok _ _ T1 Hb) as B1.
  apply ruf_ok; [exact W1|exact B1|lia|exact I|]. intros wlen p2 Hw W2 T2 L2 _.
  pose proof (within_bytes_ok _ _ T2 B1) as B2.
  apply ruf_ok; [exact W2|exact B2|lia|exact I|]. intros z p3 Hz W3 T3 L3 _.
  pose proof (within_bytes_ok _ _ T3 B2) as B3.
  apply ruf_ok; [exact W3|exact B3|lia|exact I|]. intros s p4 Hs W4 T4 L4 _.
  pose proof (within_bytes_ok _ _ T4 B3) as B4.
  apply rb_ok; [exact W4|exact I|]. intros o p5 Wo W5 To T5 Lo L5 _ _.
  pose proof (within_bytes_ok _ _ T5 B4) as B5.
  apply rb_ok; [exact W5|exact I|]. intros w p6 Ww W6 Tw T6 Lw L6 _ _.
  pose proof (within_bytes_ok _ _ T6 B5) as B6.
  apply ruf_ok; [exact W6|exact B6|lia|exact I|]. intros clen p7 Hc W7 T7 L7 _.
  apply rb_ok; [exact W7|exact I|]. intros c p8 Wc W8 Tc T8 Lc L8 Hle _.
  destruct (g_len p8 =? 0); cbn [negb dsv_post]; [|exact I].
  unfold sb_post; cbn [sb_c sb_o sb_w sb_z sb_s].
  change (2 ^ (8 * 3)) with 16777216 in *. change (2 ^ (8 * 2)) with 65536 in *.
  repeat split; try lia; try assumption.
  eapply within_trans; [exact Tc|]. eapply within_trans; [exact T7|]. eapply within_trans; [exact T6|].
  eapply within_trans; [exact T5|]. eapply within_trans; [exact T4|]. eapply within_trans; [exact T3|].
  eapply within_trans; [exact T2|]. exact T1.
Qed.

(* ---- allocateMemorySegment / allocateStack ---- *)
Lemma m_add_made : forall m p, m_made (m_add m p) = m_made m + 1.
Proof. reflexivity. Qed.

Lemma seg_loop_ok : forall nilc e fuel addr m,
  e + zP <= 4294967296 -> (e - addr + zP - 1) / zP < N.of_nat fuel ->
  exists m', seg_loop fuel addr e nilc m = Ok m' /\ m_made m' <= m_made m + (e - addr + zP - 1) / zP.
Proof.
  intros nilc e. induction fuel as [|f IH]; intros addr m He Hf; [lia|].
  cbn [seg_loop]. destruct (addr <? e) eqn:E.
  - rewrite u32_small by (unfold zP in *; lia).
    set (m1 := if nilc && m_has m (addr / zP) then m else m_add m (addr / zP)).
    assert (M1 : m_made m1 <= m_made m + 1).
    { unfold m1. destruct (nilc && m_has m (addr / zP)); [lia|rewrite m_add_made; lia]. }
    clearbody m1.
    destruct (IH (addr + zP) m1 He) as (m' & R1 & R2); [unfold zP in *; lia|].
    exists m'. split; [exact R1|]. unfold zP in *. lia.
  - eexists; split; [reflexivity|lia].
Qed.

Lemma seg_ok : forall start e nilc m, e + zP <= 4294967296 ->
  exists m', seg start e nilc m = Ok m' /\ m_made m' <= m_made m + (e - start + zP - 1) / zP.
Proof.
  intros start e nilc m He. unfold seg. apply seg_loop_ok; [exact He|]. unfold zP in *. lia.
Qed.

Definition Zn (x : N) : N := zZ * ((x + zZ - 1) / zZ).

Lemma P32_eq : forall x, x < 2147483648 -> P32 x = Pn x.
Proof. intros x H. unfold P32, Pn, u32, zP. lia. Qed.

Lemma Z32_eq : forall x, x < 2147483648 -> Z32 x = Zn x.
Proof. intros x H. unfold Z32, Zn, u32, zZ. lia. Qed.
