(* Proofs about Model/AccCalls.v: token conservation (C08) and footprint accounting (C09). *)
From JamV Require Import Base.Bytes Proofs.BytesP Model.Accounts Proofs.AccountsP Model.AccCalls.
From Coq Require Import ZifyBool ZifyNat ZifyN.
Local Open Scope N_scope.
Ltac Zify.zify_post_hook ::= Z.div_mod_to_equations.

(* ------------------------------------------------------------------------------------------ *)
(* arithmetic: what conservation needs of it, and that both the exact and the repaired Go
   arithmetic provide it *)
Record ar_sound (ar : arith) : Prop := {
  snd_new : forall b amt t nb, ar_debit_new ar b amt t = Some nb -> nb + amt <= b;
  snd_xfer : forall b amt t nb, ar_debit_xfer ar b amt t = Some nb -> nb + amt <= b;
  snd_add : forall a b, ar_add ar a b <= a + b
}.

Lemma ar_exact_sound : ar_sound ar_exact.
Proof.
  split; cbn [ar_exact ar_debit_new ar_debit_xfer ar_add]; unfold debit_exact; intros.
  - destruct (N.ltb_spec b (amt + t)); inversion H; lia.
  - destruct (N.ltb_spec b (amt + t)); inversion H; lia.
  - lia.
Qed.

Lemma ar_go_sound : ar_sound ar_go.
Proof.
  split; cbn [ar_go ar_debit_new ar_debit_xfer ar_add]; unfold debit_new_go, debit_xfer_go, add_go, two64; intros.
  - destruct (N.ltb_spec b amt); cbn [orb] in H; [discriminate |].
    destruct (N.ltb_spec ((b + 18446744073709551616 - amt) mod 18446744073709551616) t); inversion H. lia.
  - destruct (N.ltb_spec ((b + 18446744073709551616 - amt) mod 18446744073709551616) t); cbn [orb] in H; [discriminate |].
    destruct (N.ltb_spec b amt); inversion H. lia.
  - lia.
Qed.

(* the repaired Go arithmetic is the exact arithmetic on uint64 operands *)
Lemma debit_new_go_exact b amt t :
  b < two64 -> amt < two64 -> t < two64 -> debit_new_go b amt t = debit_exact b amt t.
Proof.
  unfold debit_new_go, debit_exact, two64. intros.
  destruct (N.ltb_spec b amt); cbn [orb].
  - destruct (N.ltb_spec b (amt + t)); [reflexivity | lia].
  - assert ((b + 18446744073709551616 - amt) mod 18446744073709551616 = b - amt) as -> by lia.
    destruct (N.ltb_spec (b - amt) t); destruct (N.ltb_spec b (amt + t)); try reflexivity; lia.
Qed.

Lemma debit_xfer_go_exact b amt t :
  b < two64 -> amt < two64 -> t < two64 -> debit_xfer_go b amt t = debit_exact b amt t.
Proof.
  unfold debit_xfer_go, debit_exact, two64. intros.
  destruct (N.ltb_spec b amt).
  - rewrite orb_true_r. destruct (N.ltb_spec b (amt + t)); [reflexivity | lia].
  - rewrite orb_false_r.
    assert ((b + 18446744073709551616 - amt) mod 18446744073709551616 = b - amt) as -> by lia.
    destruct (N.ltb_spec (b - amt) t); destruct (N.ltb_spec b (amt + t)); try reflexivity; lia.
Qed.

Lemma add_go_exact a b : a + b < two64 -> add_go a b = a + b.
Proof. unfold add_go. intros. apply N.mod_small. assumption. Qed.

(* the unchanged Go arithmetic of [new]: a threshold above the balance wraps and is accepted *)
Lemma debit_new_go_orig_refuted :
  exists b amt t, b < two64 /\ amt < two64 /\ t < two64 /\ debit_exact b amt t = None /\
                  exists nb, debit_new_go_orig b amt t = Some nb /\ b < nb + amt.
Proof.
  exists 150, 211, 141. repeat split; try reflexivity.
  eexists. split; [vm_compute; reflexivity | vm_compute; reflexivity].
Qed.

(* the single wrapped-sum comparison b < (a_t + t) mod 2^64: exact while the sum fits, refuted beyond:
   (1) OK instead of CASH, the caller ends below its threshold; (2) the balance wraps, tokens are minted *)
Lemma debit_new_go_sum_exact b amt t :
  b < two64 -> amt + t < two64 -> debit_new_go_sum b amt t = debit_exact b amt t.
Proof.
  unfold debit_new_go_sum, debit_exact, two64. intros Hb Hs.
  rewrite (N.mod_small (amt + t)) by assumption.
  destruct (N.ltb_spec b (amt + t)); [reflexivity |]. f_equal. lia.
Qed.

Lemma debit_new_go_sum_refuted :
  (exists b amt t nb, b < two64 /\ amt < two64 /\ t < two64 /\ debit_exact b amt t = None /\
                      debit_new_go_sum b amt t = Some nb /\ nb < t) /\
  (exists b amt t nb, b < two64 /\ amt < two64 /\ t < two64 /\ debit_exact b amt t = None /\
                      debit_new_go_sum b amt t = Some nb /\ b < nb + amt).
Proof.
  split.
  - exists (two64 - 500), 2001, (two64 - 1000), (two64 - 2501). vm_compute. repeat split; reflexivity.
  - exists 2000, 2001, (two64 - 1), (two64 - 1). vm_compute. repeat split; reflexivity.
Qed.

(* ------------------------------------------------------------------------------------------ *)
(* service map lemmas *)
Definition bal_of (o : option account) : N := match o with Some a => a_bal a | None => 0 end.

Lemma sum_bal_put i a d : sum_bal (put i a d) + bal_of (get i d) = sum_bal d + a_bal a.
Proof.
  unfold put, get. induction d as [| [k' v'] t IH]; cbn [al_set al_get sum_bal bal_of]; [lia |].
  destruct (i =? k'); cbn [sum_bal bal_of]; lia.
Qed.

Lemma sum_bal_del i d : sum_bal (al_del N.eqb i d) + bal_of (get i d) = sum_bal d.
Proof.
  unfold get. induction d as [| [k' v'] t IH]; cbn [al_del al_get sum_bal bal_of]; [lia |].
  destruct (i =? k'); cbn [sum_bal bal_of]; lia.
Qed.

Lemma get_put j i a d : get j (put i a d) = if j =? i then Some a else get j d.
Proof.
  unfold put, get. induction d as [| [k' v'] t IH]; cbn [al_set al_get].
  - destruct (N.eqb_spec j i); reflexivity.
  - destruct (N.eqb_spec i k'); cbn [al_get].
    + subst. destruct (N.eqb_spec j k'); reflexivity.
    + destruct (N.eqb_spec j k'); [| exact IH].
      subst. destruct (N.eqb_spec k' i); [congruence | reflexivity].
Qed.

Lemma sum_amt_app l1 l2 : sum_amt (l1 ++ l2) = sum_amt l1 + sum_amt l2.
Proof. induction l1; cbn [app sum_amt]; lia. Qed.

Lemma bal_le_sum i a d : In (i, a) d -> a_bal a <= sum_bal d.
Proof.
  induction d as [| [k' v'] t IH]; cbn [In sum_bal]; [tauto |].
  intros [H | H]; [inversion H; subst; lia | specialize (IH H); lia].
Qed.

Lemma amt_le_sum t l : In t l -> x_amt t <= sum_amt l.
Proof.
  induction l as [| t' r IH]; cbn [In sum_amt]; [tauto |].
  intros [H | H]; [subst; lia | specialize (IH H); lia].
Qed.

(* ------------------------------------------------------------------------------------------ *)
(* invariants *)
Definition all_fp (x : ctx) : Prop := Forall (fun p => fp_ok (snd p)) (c_accts x).
Definition all_funded (x : ctx) : Prop := Forall (fun p => funded (snd p)) (c_accts x).

Lemma put_Forall (P : N * account -> Prop) i a d :
  (forall j, P (j, a)) -> Forall P d -> Forall P (put i a d).
Proof. intros. apply al_set_Forall; auto. Qed.

Lemma get_Forall (P : account -> Prop) i a d :
  Forall (fun p => P (snd p)) d -> get i d = Some a -> P a.
Proof.
  intros HF HG. apply al_get_In in HG. destruct HG as (k' & Hin & _).
  rewrite Forall_forall in HF. apply (HF _ Hin).
Qed.

Ltac break_match_hyp :=
  match goal with
  | H : context [match ?x with _ => _ end] |- _ =>
    lazymatch x with
    | context [match _ with _ => _ end] => fail
    | _ => destruct x eqn:?
    end
  end.
Ltac inv_pair := match goal with H : (_, _) = (_, _) |- _ => inversion H; subst; clear H end.

Section WithArith.
  Variable ar : arith.
  Variable e : env.

  (* ---- per-call facts: conservation, footprint preservation, rejection leaves the context ---- *)
  Definition rejected (r : ret) : Prop := r = RCash \/ r = RFull \/ r = RWho \/ r = RLow \/ r = RHuh.

  Lemma fp_ok_new_account c l g m f : fp_ok (new_account ar e c l g m f).
  Proof. unfold fp_ok, new_account, items_of, octets_of. cbn. unfold look_fp. lia. Qed.

  Lemma call_new_spec x c l g m f i r x' :
    call_new ar e x c l g m f i = (r, x') ->
    (ar_sound ar -> total x' <= total x) /\ (all_fp x -> all_fp x') /\ (rejected r -> x' = x).
  Proof.
    unfold call_new. intros H. set (nxt := check _ _ _) in H; clearbody nxt.
    repeat (break_match_hyp; try inv_pair);
      try (split; [intros; lia | split; [auto | reflexivity]]).
    - (* registrar path *)
      split; [| split].
      + intros S. unfold total; cbn [c_accts c_xfers].
        pose proof (snd_new _ S _ _ _ _ Heqo0).
        pose proof (sum_bal_put (e_self e) (set_bal a n) (put i (new_account ar e c l g m f) (c_accts x))).
        pose proof (sum_bal_put i (new_account ar e c l g m f) (c_accts x)).
        rewrite get_put in H0. rewrite Heqo1 in H1.
        destruct (e_self e =? i) eqn:E.
        * apply N.eqb_eq in E. rewrite E in Heqo. congruence.
        * rewrite Heqo in H0. cbn [bal_of set_bal a_bal] in *. lia.
      + intros F. unfold all_fp in *; cbn [c_accts].
        apply put_Forall; [intros; apply fp_ok_set_bal; apply (get_Forall fp_ok _ _ _ F Heqo) |].
        apply put_Forall; [intros; apply fp_ok_new_account | assumption].
      + unfold rejected. intros [R | [R | [R | [R | R]]]]; discriminate.
    - (* fresh identifier path *)
      split; [| split].
      + intros S. unfold total; cbn [c_accts c_xfers].
        pose proof (snd_new _ S _ _ _ _ Heqo0).
        pose proof (sum_bal_put (e_self e) (set_bal a n) (put (c_next x) (new_account ar e c l g m f) (c_accts x))).
        pose proof (sum_bal_put (c_next x) (new_account ar e c l g m f) (c_accts x)).
        rewrite get_put in H0.
        destruct (e_self e =? c_next x) eqn:E.
        * apply N.eqb_eq in E. rewrite <- E in H0, H1 |- *. rewrite Heqo in H1.
          cbn [bal_of set_bal a_bal] in *. lia.
        * rewrite Heqo in H0. cbn [bal_of set_bal a_bal] in *. lia.
      + intros F. unfold all_fp in *; cbn [c_accts].
        apply put_Forall; [intros; apply fp_ok_set_bal; apply (get_Forall fp_ok _ _ _ F Heqo) |].
        apply put_Forall; [intros; apply fp_ok_new_account | assumption].
      + unfold rejected. intros [R | [R | [R | [R | R]]]]; discriminate.
  Qed.

  Lemma call_upgrade_spec x c g m r x' :
    call_upgrade e x c g m = (r, x') ->
    (total x' <= total x) /\ (all_fp x -> all_fp x') /\ (rejected r -> x' = x).
  Proof.
    unfold call_upgrade. intros H. repeat (break_match_hyp; try inv_pair).
    - split; [| split].
      + unfold total; cbn [c_accts c_xfers].
        pose proof (sum_bal_put (e_self e) (set_code a c g m) (c_accts x)). rewrite Heqo in H.
        cbn [bal_of set_code a_bal] in *. lia.
      + intros F. unfold all_fp in *; cbn [c_accts].
        apply put_Forall; [intros; apply fp_ok_set_code; apply (get_Forall fp_ok _ _ _ F Heqo) | assumption].
      + unfold rejected. intros [R | [R | [R | [R | R]]]]; discriminate.
    - split; [lia | split; [auto | reflexivity]].
  Qed.

  Lemma call_transfer_spec x d amt l memo r x' :
    call_transfer ar e x d amt l memo = (r, x') ->
    (ar_sound ar -> total x' <= total x) /\ (all_fp x -> all_fp x') /\ (rejected r -> x' = x).
  Proof.
    unfold call_transfer. intros H.
    repeat (break_match_hyp; try inv_pair);
      try (split; [intros; lia | split; [auto | reflexivity]]).
    split; [| split].
    - intros S. unfold total; cbn [c_accts c_xfers].
      pose proof (snd_xfer _ S _ _ _ _ Heqo1).
      pose proof (sum_bal_put (e_self e) (set_bal a0 n) (c_accts x)). rewrite Heqo0 in H0.
      rewrite sum_amt_app. cbn [sum_amt x_amt bal_of set_bal a_bal] in *. lia.
    - intros F. unfold all_fp in *; cbn [c_accts].
      apply put_Forall; [intros; apply fp_ok_set_bal; apply (get_Forall fp_ok _ _ _ F Heqo0) | assumption].
    - unfold rejected. intros [R | [R | [R | [R | R]]]]; discriminate.
  Qed.

  Lemma call_eject_spec x d h r x' :
    call_eject ar e x d h = (r, x') ->
    (ar_sound ar -> total x' <= total x) /\ (all_fp x -> all_fp x') /\ (rejected r -> x' = x).
  Proof.
    unfold call_eject. intros H.
    repeat (break_match_hyp; try inv_pair);
      try (split; [intros; lia | split; [auto | reflexivity]]).
    split; [| split].
    - intros S. unfold total; cbn [c_accts c_xfers].
      pose proof (snd_add _ S (a_bal a0) (a_bal a)).
      pose proof (sum_bal_del d (put (e_self e) (set_bal a0 (ar_add ar (a_bal a0) (a_bal a))) (c_accts x))).
      pose proof (sum_bal_put (e_self e) (set_bal a0 (ar_add ar (a_bal a0) (a_bal a))) (c_accts x)).
      rewrite get_put in H0. apply orb_false_iff in Heqb. destruct Heqb as [Hne _].
      rewrite Hne in H0. rewrite Heqo in H0. rewrite Heqo1 in H1.
      cbn [bal_of set_bal a_bal] in *. lia.
    - intros F. unfold all_fp in *; cbn [c_accts].
      apply al_del_Forall.
      apply put_Forall; [intros; apply fp_ok_set_bal; apply (get_Forall fp_ok _ _ _ F Heqo1) | assumption].
    - unfold rejected. intros [R | [R | [R | [R | R]]]]; discriminate.
  Qed.

  (* footprint arithmetic of the three storage mutations *)
  Lemma fp_ok_write_del s k :
    fp_ok s ->
    fp_ok (set_storage s (a_items s - match al_get bytes_eqb k (a_storage s) with Some _ => 1 | None => 0 end)
                       (a_octets s - match al_get bytes_eqb k (a_storage s) with Some ov => stor_fp k ov | None => 0 end)
                       (al_del bytes_eqb k (a_storage s))).
  Proof.
    unfold fp_ok, items_of, octets_of. intros [Hi Ho]. cbn [set_storage a_items a_octets a_lookups a_storage].
    pose proof (al_del_length bytes_eqb k (a_storage s)). pose proof (stor_octets_del k (a_storage s)).
    destruct (al_get bytes_eqb k (a_storage s)); lia.
  Qed.

  Lemma fp_ok_write_set s k v :
    fp_ok s ->
    fp_ok (set_storage s (a_items s - match al_get bytes_eqb k (a_storage s) with Some _ => 1 | None => 0 end + 1)
                       (a_octets s - match al_get bytes_eqb k (a_storage s) with Some ov => stor_fp k ov | None => 0 end + stor_fp k v)
                       (al_set bytes_eqb k v (a_storage s))).
  Proof.
    unfold fp_ok, items_of, octets_of. intros [Hi Ho]. cbn [set_storage a_items a_octets a_lookups a_storage].
    pose proof (al_set_length bytes_eqb k v (a_storage s)). pose proof (stor_octets_set k v (a_storage s)).
    pose proof (al_del_length bytes_eqb k (a_storage s)). pose proof (stor_octets_del k (a_storage s)).
    destruct (al_get bytes_eqb k (a_storage s)); lia.
  Qed.

  Lemma fp_ok_look_add s h z ts p :
    fp_ok s -> al_get lk_eqb (h, z) (a_lookups s) = None ->
    fp_ok (set_lookups s (a_items s + 2) (a_octets s + look_fp z) (al_set lk_eqb (h, z) ts (a_lookups s)) p).
  Proof.
    unfold fp_ok, items_of, octets_of. intros [Hi Ho] G. cbn [set_lookups a_items a_octets a_lookups a_storage].
    pose proof (al_set_length lk_eqb (h, z) ts (a_lookups s)). pose proof (look_octets_set (h, z) ts (a_lookups s)).
    rewrite G in *. cbn [snd] in *. lia.
  Qed.

  Lemma fp_ok_look_upd s h z ts old p :
    fp_ok s -> al_get lk_eqb (h, z) (a_lookups s) = Some old ->
    fp_ok (set_lookups s (a_items s - 2 + 2) (a_octets s - look_fp z + look_fp z) (al_set lk_eqb (h, z) ts (a_lookups s)) p).
  Proof.
    unfold fp_ok, items_of, octets_of. intros [Hi Ho] G. cbn [set_lookups a_items a_octets a_lookups a_storage].
    pose proof (al_set_length lk_eqb (h, z) ts (a_lookups s)). pose proof (look_octets_set (h, z) ts (a_lookups s)).
    pose proof (al_del_length lk_eqb (h, z) (a_lookups s)). pose proof (look_octets_del (h, z) (a_lookups s)).
    rewrite G in *. cbn [snd] in *. lia.
  Qed.

  Lemma fp_ok_look_del s h z old p :
    fp_ok s -> al_get lk_eqb (h, z) (a_lookups s) = Some old ->
    fp_ok (set_lookups s (a_items s - 2) (a_octets s - look_fp z) (al_del lk_eqb (h, z) (a_lookups s)) p).
  Proof.
    unfold fp_ok, items_of, octets_of. intros [Hi Ho] G. cbn [set_lookups a_items a_octets a_lookups a_storage].
    pose proof (al_del_length lk_eqb (h, z) (a_lookups s)). pose proof (look_octets_del (h, z) (a_lookups s)).
    rewrite G in *. cbn [snd] in *. lia.
  Qed.

  Lemma total_put_same_bal x a a' :
    get (e_self e) (c_accts x) = Some a -> a_bal a' = a_bal a ->
    total (mkCtx (put (e_self e) a' (c_accts x)) (c_xfers x) (c_next x)) = total x.
  Proof.
    intros G B. unfold total; cbn [c_accts c_xfers].
    pose proof (sum_bal_put (e_self e) a' (c_accts x)). rewrite G in H. cbn [bal_of] in H. lia.
  Qed.

  Lemma call_write_spec x k v r x' :
    call_write ar e x k v = (r, x') ->
    (total x' <= total x) /\ (all_fp x -> all_fp x') /\ (rejected r -> x' = x).
  Proof.
    unfold call_write. intros H.
    destruct (get (e_self e) (c_accts x)) as [s |] eqn:G; [| inv_pair; split; [lia | split; [auto | reflexivity]]].
    destruct v as [| v0 vt].
    - cbv zeta in H. match type of H with (if ?c then _ else _) = _ => destruct c eqn:C end;
        inv_pair; [split; [lia | split; [auto | reflexivity]] |].
      split; [| split].
      + rewrite (total_put_same_bal _ _ _ G); [lia | reflexivity].
      + intros F. unfold all_fp in *; cbn [c_accts].
        apply put_Forall; [intros; cbn [snd]; apply fp_ok_write_del; apply (get_Forall fp_ok _ _ _ F G) | assumption].
      + unfold rejected. destruct (al_get bytes_eqb k (a_storage s)); intros [R | [R | [R | [R | R]]]]; discriminate.
    - cbv zeta in H. match type of H with (if ?c then _ else _) = _ => destruct c eqn:C end;
        inv_pair; [split; [lia | split; [auto | reflexivity]] |].
      split; [| split].
      + rewrite (total_put_same_bal _ _ _ G); [lia | reflexivity].
      + intros F. unfold all_fp in *; cbn [c_accts].
        apply put_Forall; [intros; cbn [snd]; apply fp_ok_write_set; apply (get_Forall fp_ok _ _ _ F G) | assumption].
      + unfold rejected. destruct (al_get bytes_eqb k (a_storage s)); intros [R | [R | [R | [R | R]]]]; discriminate.
  Qed.

  Lemma call_solicit_spec x h z r x' :
    call_solicit ar e x h z = (r, x') ->
    (total x' <= total x) /\ (all_fp x -> all_fp x') /\ (rejected r -> x' = x).
  Proof.
    unfold call_solicit. intros H.
    destruct (get (e_self e) (c_accts x)) as [s |] eqn:G; [| inv_pair; split; [lia | split; [auto | reflexivity]]].
    destruct (al_get lk_eqb (h, z) (a_lookups s)) as [ts |] eqn:L.
    - destruct ts as [| t0 [| t1 [| t2 tr]]]; inv_pair; try (split; [lia | split; [auto | reflexivity]]).
      split; [| split].
      + rewrite (total_put_same_bal _ _ _ G); [lia | reflexivity].
      + intros F. unfold all_fp in *; cbn [c_accts].
        apply put_Forall; [intros; cbn [snd]; eapply fp_ok_look_upd; [apply (get_Forall fp_ok _ _ _ F G) | exact L] | assumption].
      + unfold rejected. intros [R | [R | [R | [R | R]]]]; discriminate.
    - cbv zeta in H. match type of H with (if ?c then _ else _) = _ => destruct c eqn:C end;
        inv_pair; [split; [lia | split; [auto | reflexivity]] |].
      split; [| split].
      + rewrite (total_put_same_bal _ _ _ G); [lia | reflexivity].
      + intros F. unfold all_fp in *; cbn [c_accts].
        apply put_Forall; [intros; cbn [snd]; apply fp_ok_look_add; [apply (get_Forall fp_ok _ _ _ F G) | exact L] | assumption].
      + unfold rejected. intros [R | [R | [R | [R | R]]]]; discriminate.
  Qed.

  Lemma call_forget_spec x h z r x' :
    call_forget e x h z = (r, x') ->
    (total x' <= total x) /\ (all_fp x -> all_fp x') /\ (rejected r -> x' = x).
  Proof.
    unfold call_forget. intros H. cbv beta zeta in H.
    destruct (get (e_self e) (c_accts x)) as [s |] eqn:G; [| inv_pair; split; [lia | split; [auto | reflexivity]]].
    destruct (al_get lk_eqb (h, z) (a_lookups s)) as [ts |] eqn:L; [| inv_pair; split; [lia | split; [auto | reflexivity]]].
    assert (Hdrop : forall p, all_fp x ->
              all_fp (mkCtx (put (e_self e) (set_lookups s (a_items s - 2) (a_octets s - look_fp z)
                                 (al_del lk_eqb (h, z) (a_lookups s)) p) (c_accts x)) (c_xfers x) (c_next x))).
    { intros p F. unfold all_fp in *; cbn [c_accts].
      apply put_Forall; [intros; cbn [snd]; eapply fp_ok_look_del; [apply (get_Forall fp_ok _ _ _ F G) | exact L] | assumption]. }
    assert (Hupd : forall ts' p, all_fp x ->
              all_fp (mkCtx (put (e_self e) (set_lookups s (a_items s - 2 + 2) (a_octets s - look_fp z + look_fp z)
                                 (al_set lk_eqb (h, z) ts' (a_lookups s)) p) (c_accts x)) (c_xfers x) (c_next x))).
    { intros ts' p F. unfold all_fp in *; cbn [c_accts].
      apply put_Forall; [intros; cbn [snd]; eapply fp_ok_look_upd; [apply (get_Forall fp_ok _ _ _ F G) | exact L] | assumption]. }
    assert (Hnr : ~ rejected ROk) by (unfold rejected; intros [R | [R | [R | [R | R]]]]; discriminate).
    destruct ts as [| t0 [| t1 [| t2 [| t3 tr]]]].
    - inv_pair. split; [rewrite (total_put_same_bal _ _ _ G); [lia | reflexivity] | split; [apply Hdrop | tauto]].
    - inv_pair. split; [rewrite (total_put_same_bal _ _ _ G); [lia | reflexivity] | split; [apply Hupd | tauto]].
    - destruct (expired e t1); inv_pair.
      + split; [rewrite (total_put_same_bal _ _ _ G); [lia | reflexivity] | split; [apply Hdrop | tauto]].
      + split; [lia | split; [auto | reflexivity]].
    - destruct (expired e t1); inv_pair.
      + split; [rewrite (total_put_same_bal _ _ _ G); [lia | reflexivity] | split; [apply Hupd | tauto]].
      + split; [lia | split; [auto | reflexivity]].
    - inv_pair. split; [lia | split; [auto | reflexivity]].
  Qed.

  Lemma call_info_spec x s r x' : call_info ar e x s = (r, x') -> x' = x.
  Proof. unfold call_info. intros H. destruct (get _ (c_accts x)); inv_pair; reflexivity. Qed.

  (* ---- one step ---- *)
  Definition tot2 (st : state) : N := N.max (total (fst st)) (total (snd st)).
  Definition all_fp2 (st : state) : Prop := all_fp (fst st) /\ all_fp (snd st).

  Lemma step_spec o st r st' :
    step ar e o st = (r, st') ->
    (ar_sound ar -> total (fst st') <= total (fst st) /\ tot2 st' <= tot2 st)
    /\ (all_fp2 st -> all_fp2 st')
    /\ (rejected r -> st' = st).
  Proof.
    destruct st as [x y]. unfold step, tot2, all_fp2. cbn [fst snd].
    destruct o; intros H.
    - destruct (call_new ar e x c l g m f i) as [r0 x0] eqn:E. inv_pair. cbn [fst snd].
      destruct (call_new_spec _ _ _ _ _ _ _ _ _ E) as (T & F & R).
      split; [intros S; specialize (T S); lia | split; [tauto | intros; f_equal; auto]].
    - destruct (call_upgrade e x c g m) as [r0 x0] eqn:E. inv_pair. cbn [fst snd].
      destruct (call_upgrade_spec _ _ _ _ _ _ E) as (T & F & R).
      split; [intros S; lia | split; [tauto | intros; f_equal; auto]].
    - destruct (call_transfer ar e x d amt l memo) as [r0 x0] eqn:E. inv_pair. cbn [fst snd].
      destruct (call_transfer_spec _ _ _ _ _ _ _ E) as (T & F & R).
      split; [intros S; specialize (T S); lia | split; [tauto | intros; f_equal; auto]].
    - destruct (call_eject ar e x d h) as [r0 x0] eqn:E. inv_pair. cbn [fst snd].
      destruct (call_eject_spec _ _ _ _ _ E) as (T & F & R).
      split; [intros S; specialize (T S); lia | split; [tauto | intros; f_equal; auto]].
    - inv_pair. cbn [fst snd]. split; [intros; lia | split; [tauto |]].
      unfold rejected. intros [R | [R | [R | [R | R]]]]; discriminate.
    - destruct (call_write ar e x k v) as [r0 x0] eqn:E. inv_pair. cbn [fst snd].
      destruct (call_write_spec _ _ _ _ _ E) as (T & F & R).
      split; [intros S; lia | split; [tauto | intros; f_equal; auto]].
    - destruct (call_solicit ar e x h z) as [r0 x0] eqn:E. inv_pair. cbn [fst snd].
      destruct (call_solicit_spec _ _ _ _ _ E) as (T & F & R).
      split; [intros S; lia | split; [tauto | intros; f_equal; auto]].
    - destruct (call_forget e x h z) as [r0 x0] eqn:E. inv_pair. cbn [fst snd].
      destruct (call_forget_spec _ _ _ _ _ E) as (T & F & R).
      split; [intros S; lia | split; [tauto | intros; f_equal; auto]].
    - destruct (call_info ar e x s) as [r0 x0] eqn:E. inv_pair. cbn [fst snd].
      rewrite (call_info_spec _ _ _ _ E).
      split; [intros; lia | split; [tauto | reflexivity]].
  Qed.

  (* ---- every sequence ---- *)
  Lemma run_total ops : ar_sound ar -> forall st,
    total (fst (run ar e ops st)) <= total (fst st) /\ tot2 (run ar e ops st) <= tot2 st.
  Proof.
    intros S. unfold run. induction ops as [| o ops IH]; intros st; cbn [fold_left]; [lia |].
    unfold step_st at 2 4. destruct (step ar e o st) as [r st'] eqn:E. cbn [snd].
    destruct (step_spec _ _ _ _ E) as (T & _ & _). specialize (T S). specialize (IH st'). lia.
  Qed.

  Lemma run_fp ops : forall st, all_fp2 st -> all_fp2 (run ar e ops st).
  Proof.
    unfold run. induction ops as [| o ops IH]; intros st F; cbn [fold_left]; [assumption |].
    apply IH. unfold step_st. destruct (step ar e o st) as [r st'] eqn:E. cbn [snd].
    destruct (step_spec _ _ _ _ E) as (_ & P & _). auto.
  Qed.

  Lemma fold_add_le amts : ar_sound ar -> forall acc, fold_left (ar_add ar) amts acc <= acc + sum_list amts.
  Proof.
    intros S. induction amts as [| a t IH]; intros acc; cbn [fold_left sum_list fold_right]; [lia |].
    specialize (IH (ar_add ar acc a)). pose proof (snd_add _ S acc a). unfold sum_list in IH. lia.
  Qed.

  Lemma credit_total amts d : ar_sound ar -> sum_bal (credit ar e amts d) <= sum_bal d + sum_list amts.
  Proof.
    intros S. unfold credit. destruct (get (e_self e) d) as [s |] eqn:G; [| lia].
    pose proof (sum_bal_put (e_self e) (set_bal s (ar_add ar (a_bal s) (fold_left (ar_add ar) amts 0))) d).
    rewrite G in H. cbn [bal_of set_bal a_bal] in H.
    pose proof (snd_add _ S (a_bal s) (fold_left (ar_add ar) amts 0)).
    pose proof (fold_add_le amts S 0). lia.
  Qed.

  Lemma credit_fp amts d : Forall (fun p => fp_ok (snd p)) d -> Forall (fun p => fp_ok (snd p)) (credit ar e amts d).
  Proof.
    intros F. unfold credit. destruct (get (e_self e) d) as [s |] eqn:G; [| assumption].
    apply put_Forall; [intros; apply fp_ok_set_bal; apply (get_Forall fp_ok _ _ _ F G) | assumption].
  Qed.
End WithArith.

(* ------------------------------------------------------------------------------------------ *)
(* C08 *)
Lemma total_nonincreasing ar e : ar_sound ar -> forall ops st,
  total (fst (run ar e ops st)) <= total (fst st) /\ tot2 (run ar e ops st) <= tot2 st.
Proof. intros S ops st. apply run_total. exact S. Qed.

Lemma total_nonincreasing_step ar e : ar_sound ar -> forall o st,
  total (fst (snd (step ar e o st))) <= total (fst st).
Proof.
  intros S o st. destruct (step ar e o st) as [r st'] eqn:E. cbn [snd].
  destruct (step_spec _ _ _ _ _ _ E) as (T & _ & _). apply T. exact S.
Qed.

Lemma accumulate_total ar e : ar_sound ar -> forall amts ops d next,
  total (fst (accumulate ar e amts ops d next)) <= sum_bal d + sum_list amts.
Proof.
  intros S amts ops d next. unfold accumulate.
  pose proof (run_total ar e ops S (mkCtx (credit ar e amts d) [] next, mkCtx (credit ar e amts d) [] next)) as [H _].
  cbn [fst] in H. unfold total at 2 in H. cbn [c_accts c_xfers sum_amt] in H.
  pose proof (credit_total ar e amts d S). lia.
Qed.

(* no balance and no pending amount can reach 2^64 when the tokens present initially are < 2^64 *)
Lemma no_wrap ar e : ar_sound ar -> forall amts ops d next,
  sum_bal d + sum_list amts < two64 ->
  let x := fst (accumulate ar e amts ops d next) in
  (forall i a, In (i, a) (c_accts x) -> a_bal a < two64) /\ (forall t, In t (c_xfers x) -> x_amt t < two64).
Proof.
  intros S amts ops d next B x.
  pose proof (accumulate_total ar e S amts ops d next) as T. fold x in T. unfold total in T.
  split.
  - intros i a Hin. pose proof (bal_le_sum _ _ _ Hin). lia.
  - intros t Hin. pose proof (amt_le_sum _ _ Hin). lia.
Qed.

(* the same along an arbitrary run from an arbitrary pair of contexts *)
Lemma no_wrap_run ar e : ar_sound ar -> forall ops st, tot2 st < two64 ->
  let x := fst (run ar e ops st) in
  (forall i a, In (i, a) (c_accts x) -> a_bal a < two64) /\ (forall t, In t (c_xfers x) -> x_amt t < two64).
Proof.
  intros S ops st B x. destruct (run_total ar e ops S st) as [T _]. fold x in T. unfold tot2, total in *.
  split.
  - intros i a Hin. pose proof (bal_le_sum _ _ _ Hin). lia.
  - intros t Hin. pose proof (amt_le_sum _ _ Hin). lia.
Qed.

Lemma cash_no_change ar e o st st' : step ar e o st = (RCash, st') -> st' = st.
Proof. intros H. destruct (step_spec _ _ _ _ _ _ H) as (_ & _ & R). apply R. left. reflexivity. Qed.

Lemma full_no_change ar e o st st' : step ar e o st = (RFull, st') -> st' = st.
Proof. intros H. destruct (step_spec _ _ _ _ _ _ H) as (_ & _ & R). apply R. right. left. reflexivity. Qed.

Lemma rejected_no_change ar e o st r st' : step ar e o st = (r, st') -> rejected r -> st' = st.
Proof. intros H. destruct (step_spec _ _ _ _ _ _ H) as (_ & _ & R). exact R. Qed.

(* C09 *)
Lemma footprint_consistent ar e ops st : all_fp2 st -> all_fp2 (run ar e ops st).
Proof. apply run_fp. Qed.

Lemma footprint_consistent_accumulate ar e amts ops d next :
  Forall (fun p => fp_ok (snd p)) d ->
  all_fp2 (accumulate ar e amts ops d next).
Proof.
  intros F. unfold accumulate. apply run_fp. unfold all_fp2, all_fp. cbn [fst snd c_accts].
  split; apply credit_fp; assumption.
Qed.
