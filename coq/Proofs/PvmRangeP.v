From JamV Require Import Model.PvmRange.
From Coq Require Import Lia ZifyBool ZifyNat.
Local Open Scope Z_scope.
Ltac Zify.zify_post_hook ::= Z.div_mod_to_equations.

Lemma acc_page m a : acc_at m ((a / PAGE) * PAGE) = acc_at m a.
Proof. unfold acc_at, PAGE. replace (a / 4096 * 4096 / 4096) with (a / 4096) by lia. reflexivity. Qed.

Lemma in_pages_of_range start len p : 0 <= start -> 0 < len ->
  In p (pages_of_range start len) <-> start / PAGE <= p <= (start + len - 1) / PAGE.
Proof.
  intros Hs Hl. unfold pages_of_range. rewrite in_map_iff. split.
  - intros (k & <- & Hk). apply in_seq in Hk. unfold PAGE in *. lia.
  - intros H. exists (Z.to_nat (p - start / PAGE)). split; [lia|]. apply in_seq. unfold PAGE in *. lia.
Qed.

(* a non-empty range passes the test exactly when it lies inside the 32-bit space and EVERY address in it has
   the required access: in particular the last, possibly partial, page counts *)
Theorem range_ok_iff (ok : memory -> Z -> bool) m start len :
  (forall a, ok m ((a / PAGE) * PAGE) = ok m a) ->
  0 <= start -> 0 < len ->
  (range_ok ok m start len = true <->
   start + len <= ADDR /\ forall a, start <= a < start + len -> ok m a = true).
Proof.
  intros Hpg Hs Hl. unfold range_ok. destruct (Z.eqb_spec len 0); [lia|].
  destruct (Z.ltb_spec ADDR len) as [Hbig|Hbig]; cbn [orb].
  { split; [discriminate|]. unfold ADDR in *. lia. }
  destruct (Z.ltb_spec (ADDR - len) start) as [Hover|Hover]; cbn [orb].
  { split; [discriminate|]. unfold ADDR in *. lia. }
  rewrite forallb_forall. split.
  - intros Hall. split; [unfold ADDR in *; lia|]. intros a Ha. rewrite <- Hpg. apply Hall.
    apply in_pages_of_range; try lia. unfold PAGE. lia.
  - intros [_ Hall] p Hp. apply in_pages_of_range in Hp; try lia.
    (* the page p contains an address of the range *)
    set (a := Z.max start (p * PAGE)).
    assert (Ha : start <= a < start + len) by (unfold a, PAGE in *; lia).
    assert (Hpa : a / PAGE = p) by (unfold a, PAGE in *; lia).
    rewrite <- Hpa. rewrite Hpg. apply Hall. exact Ha.
Qed.

Corollary range_readable_iff m start len : 0 <= start -> 0 < len ->
  (range_ok readable m start len = true <->
   start + len <= ADDR /\ forall a, start <= a < start + len -> readable m a = true).
Proof. apply range_ok_iff. intros a. unfold readable. now rewrite acc_page. Qed.

Corollary range_writable_iff m start len : 0 <= start -> 0 < len ->
  (range_ok writable m start len = true <->
   start + len <= ADDR /\ forall a, start <= a < start + len -> writable m a = true).
Proof. apply range_ok_iff. intros a. unfold writable. now rewrite acc_page. Qed.
