(* Proofs of the statements of Proofs/InnerVmSpec.v about Model/InnerVm.v (inner PVM machines:
   machine, peek, poke, pages, invoke, expunge). *)
From JamV Require Import Model.InnerVm Proofs.PvmCodeP Proofs.PvmMemP Proofs.PvmAluP Proofs.PvmStepP Proofs.PvmRunP Proofs.InnerVmSpec.
From Coq Require Import ZifyBool ZifyNat ZifyN.
Local Open Scope Z_scope.
Ltac Zify.zify_post_hook ::= Z.div_mod_to_equations.

(* ================= address ranges ================= *)
Definition page_ok (ok : memory -> Z -> bool) : Prop :=
  forall m x y, x / PAGE = y / PAGE -> ok m x = ok m y.

Lemma readable_page_ok : page_ok readable.
Proof. intros m x y H. unfold readable, acc_at. rewrite H. reflexivity. Qed.

Lemma writable_page_ok : page_ok writable.
Proof. intros m x y H. unfold writable, acc_at. rewrite H. reflexivity. Qed.

Lemma pages_all_spec : forall ok m n pg,
  pages_all ok m pg n = true <-> forall k, pg <= k < pg + Z.of_nat n -> ok m (PAGE * k) = true.
Proof.
  intros ok m. induction n as [|n IH]; intros pg; cbn [pages_all].
  - split; [intros _ k Hk; lia|reflexivity].
  - rewrite andb_true_iff, IH. split.
    + intros [A B] k Hk. destruct (Z.eq_dec k pg) as [->|Hne]; [assumption|]. apply B. lia.
    + intros H. split; [apply H; lia|]. intros k Hk. apply H. lia.
Qed.

(* [ok] holds on mapped pages only *)
Definition ok_mapped (ok : memory -> Z -> bool) : Prop :=
  forall m x, ok m x = true -> In (x / PAGE) (map fst (m_pages m)).

Lemma aget_in_keys : forall {A} (l : list (Z * A)) k, aget k l <> None -> In k (map fst l).
Proof.
  intros A l k. induction l as [|[k' v] t IH]; cbn [aget map fst]; intros H; [congruence|].
  destruct (k' =? k) eqn:E; [left; lia|right; apply IH; assumption].
Qed.

Lemma readable_ok_mapped : ok_mapped readable.
Proof.
  intros m x H. apply aget_in_keys. apply readable_mapped in H. unfold mapped, get_page in H.
  destruct (aget (x / PAGE) (m_pages m)); [discriminate|discriminate H].
Qed.

Lemma writable_ok_mapped : ok_mapped writable.
Proof.
  intros m x H. apply aget_in_keys. apply writable_mapped in H. unfold mapped, get_page in H.
  destruct (aget (x / PAGE) (m_pages m)); [discriminate|discriminate H].
Qed.

(* pigeonhole: n distinct pages that are all [ok] are n mapped pages *)
Lemma range_count_le : forall ok, ok_mapped ok -> forall m pg n,
  (forall k, pg <= k < pg + Z.of_nat n -> ok m (PAGE * k) = true) -> (n <= length (m_pages m))%nat.
Proof.
  intros ok Hm m pg n H.
  assert (I : incl (map (fun i => pg + Z.of_nat i) (seq 0 n)) (map fst (m_pages m))).
  { intros x Hx. apply in_map_iff in Hx. destruct Hx as [i [<- Hi]]. apply in_seq in Hi.
    pose proof (Hm m (PAGE * (pg + Z.of_nat i)) (H (pg + Z.of_nat i) ltac:(lia))) as Q.
    replace (PAGE * (pg + Z.of_nat i) / PAGE) with (pg + Z.of_nat i) in Q by (unfold PAGE; lia). exact Q. }
  assert (N : NoDup (map (fun i => pg + Z.of_nat i) (seq 0 n))).
  { apply NoDup_map_inj_in; [|apply seq_NoDup]. intros; lia. }
  pose proof (NoDup_incl_length N I) as Len. rewrite !map_length, seq_length in Len. exact Len.
Qed.

Lemma range_ok_spec : forall ok, page_ok ok -> ok_mapped ok -> forall m a z,
  range_ok ok m a z = true <-> range_prop ok m a z.
Proof.
  intros ok Hok Hmp m a z. unfold range_ok, range_prop.
  destruct (z <=? 0) eqn:E.
  - split; [intros _; left; lia|reflexivity].
  - cbv zeta. rewrite !andb_true_iff, pages_all_spec. split.
    + intros [[A _] B]. right. split; [lia|]. intros x Hx.
      rewrite (Hok m x (PAGE * (x / PAGE))) by (unfold PAGE; lia).
      apply B. unfold PAGE; lia.
    + intros [H|[A B]]; [lia|].
      assert (P : forall k, a / PAGE <= k < a / PAGE + Z.of_nat (Z.to_nat ((a + z - 1) / PAGE - a / PAGE + 1)) ->
                            ok m (PAGE * k) = true).
      { intros k Hk.
        rewrite (Hok m (PAGE * k) (Z.max a (PAGE * k))) by (unfold PAGE in *; lia).
        apply B. unfold PAGE in *; lia. }
      split; [split; [lia|]|exact P].
      pose proof (range_count_le ok Hmp m _ _ P) as L. unfold PAGE in *; lia.
Qed.

Lemma range_ok_readable : range_ok_readable_stmt.
Proof. intros m a z _. apply range_ok_spec; [exact readable_page_ok|exact readable_ok_mapped]. Qed.

Lemma range_ok_writable : range_ok_writable_stmt.
Proof. intros m a z _. apply range_ok_spec; [exact writable_page_ok|exact writable_ok_mapped]. Qed.

(* a failed page test names a page *)
Lemma pages_all_false : forall ok m n pg, pages_all ok m pg n = false ->
  exists k, pg <= k < pg + Z.of_nat n /\ ok m (PAGE * k) = false.
Proof.
  intros ok m. induction n as [|n IH]; intros pg H; cbn [pages_all] in H; [discriminate|].
  destruct (ok m (PAGE * pg)) eqn:E; cbn [andb] in H.
  - destruct (IH _ H) as [k [Hk Ek]]. exists k. split; [lia|assumption].
  - exists pg. split; [lia|assumption].
Qed.

(* ================= machine identifiers ================= *)
Lemma min_free_spec : forall {A} (l : list (Z * A)) fuel n,
  n <= min_free l n fuel <= n + Z.of_nat fuel /\
  (forall k, n <= k < min_free l n fuel -> aget k l <> None) /\
  (min_free l n fuel < n + Z.of_nat fuel -> aget (min_free l n fuel) l = None).
Proof.
  intros A l. induction fuel as [|f IH]; intros n; cbn [min_free].
  - split; [lia|]. split; [intros k Hk; lia|intros; lia].
  - destruct (aget n l) as [v|] eqn:E.
    + destruct (IH (n + 1)) as (R & K & F). split; [lia|]. split.
      * intros k Hk. destruct (Z.eq_dec k n) as [->|Hne]; [congruence|]. apply K. lia.
      * intros H. apply F. lia.
    + split; [lia|]. split; [intros k Hk; lia|intros _; assumption].
Qed.

Lemma fresh_id_minimal : fresh_id_minimal_stmt.
Proof.
  intros ms. unfold fresh_id.
  destruct (min_free_spec ms (length ms) 0) as (R & K & F).
  split; [lia|]. split; [|intros k Hk; apply K; lia].
  destruct (Z_lt_ge_dec (min_free ms 0 (length ms)) (0 + Z.of_nat (length ms))) as [L|G]; [apply F; assumption|].
  assert (Eq : min_free ms 0 (length ms) = Z.of_nat (length ms)) by lia.
  rewrite Eq in *. clear Eq R F G.
  destruct (aget (Z.of_nat (length ms)) ms) as [v|] eqn:E; [exfalso|reflexivity].
  assert (I : incl (map Z.of_nat (seq 0 (S (length ms)))) (map fst ms)).
  { intros x Hx. apply in_map_iff in Hx. destruct Hx as [i [<- Hi]]. apply in_seq in Hi.
    apply aget_in_keys. destruct (Nat.eq_dec i (length ms)) as [->|Hne]; [congruence|]. apply K. lia. }
  assert (N : NoDup (map Z.of_nat (seq 0 (S (length ms))))).
  { apply NoDup_map_inj_in; [|apply seq_NoDup]. intros; lia. }
  pose proof (NoDup_incl_length N I) as Len.
  rewrite !map_length, seq_length in Len. lia.
Qed.

(* ================= reading and writing ranges ================= *)
Lemma rd_range_length : forall m a n, length (rd_range m a n) = n.
Proof. intros. unfold rd_range. rewrite map_length, seq_length. reflexivity. Qed.

Lemma rd_range_nth : forall m a n k, (k < n)%nat -> nth k (rd_range m a n) 0 = rd_byte m (a + Z.of_nat k).
Proof.
  intros m a n k H. unfold rd_range.
  rewrite (nth_map_lt _ _ _ 0 0%nat) by (rewrite seq_length; assumption).
  rewrite seq_nth by assumption. reflexivity.
Qed.

Lemma wr_range_frame : forall bs m a,
  (forall x, ~ (a <= x < a + Z.of_nat (length bs)) -> rd_byte (wr_range m a bs) x = rd_byte m x) /\
  (forall x, acc_at (wr_range m a bs) x = acc_at m x) /\
  (forall i, mapped (wr_range m a bs) i = mapped m i) /\
  m_hp (wr_range m a bs) = m_hp m /\ m_hl (wr_range m a bs) = m_hl m.
Proof.
  induction bs as [|b t IH]; intros m a; cbn [wr_range length].
  - repeat split; reflexivity.
  - destruct (IH (wr_byte m a b) (a + 1)) as (R & Ac & Mp & Hp & Hl).
    destruct (wr_byte_hp m a b) as [Hp' Hl'].
    split; [|split; [|split; [|split]]].
    + intros x Hx. rewrite R by lia. apply wr_byte_rd_other. lia.
    + intros x. rewrite Ac. apply wr_byte_acc.
    + intros i. rewrite Mp. apply wr_byte_mapped.
    + congruence.
    + congruence.
Qed.

Lemma wr_range_rd : forall bs m a,
  (forall x, a <= x < a + Z.of_nat (length bs) -> mapped m (x / PAGE) = true) ->
  forall x, a <= x < a + Z.of_nat (length bs) ->
  rd_byte (wr_range m a bs) x = nth (Z.to_nat (x - a)) bs 0.
Proof.
  induction bs as [|b t IH]; intros m a Hm x Hx; cbn [wr_range length] in *; [lia|].
  destruct (Z.eq_dec x a) as [->|Hne].
  - destruct (wr_range_frame t (wr_byte m a b) (a + 1)) as (R & _).
    rewrite R by lia. rewrite wr_byte_rd_same by (apply Hm; lia).
    replace (a - a) with 0 by lia. reflexivity.
  - rewrite IH.
    + replace (Z.to_nat (x - a)) with (S (Z.to_nat (x - (a + 1)))) by lia. reflexivity.
    + intros y Hy. rewrite wr_byte_mapped. apply Hm. lia.
    + lia.
Qed.

Lemma wr_range_written : forall bs m a z,
  z = Z.of_nat (length bs) ->
  (forall x, a <= x < a + z -> mapped m (x / PAGE) = true) ->
  ram_written m (wr_range m a bs) a z (fun x => nth (Z.to_nat (x - a)) bs 0).
Proof.
  intros bs m a z -> Hm. destruct (wr_range_frame bs m a) as (R & Ac & _ & Hp & Hl).
  unfold ram_written. split; [|auto]. intros x Hx. apply wr_range_rd; assumption.
Qed.

(* the addresses of a checked range are mapped *)
Lemma range_writable_mapped : forall m a z, range_ok writable m a z = true ->
  forall x, a <= x < a + z -> mapped m (x / PAGE) = true.
Proof.
  intros m a z H x Hx. apply (range_ok_spec _ writable_page_ok writable_ok_mapped) in H.
  destruct H as [H|[_ H]]; [lia|]. apply writable_mapped. apply H. assumption.
Qed.

(* ================= association lists: removal ================= *)
Lemma aget_adel_same : forall {A} k (l : list (Z * A)), aget k (adel k l) = None.
Proof.
  intros A k l. induction l as [|[k' v] t IH]; cbn [adel aget]; [reflexivity|].
  destruct (k' =? k) eqn:E; [assumption|]. cbn [aget]. rewrite E. assumption.
Qed.

Lemma aget_adel_other : forall {A} k k' (l : list (Z * A)), k' <> k -> aget k' (adel k l) = aget k' l.
Proof.
  intros A k k' l H. induction l as [|[k0 v] t IH]; cbn [adel aget]; [reflexivity|].
  destruct (k0 =? k) eqn:E.
  - destruct (k0 =? k') eqn:E2; [lia|assumption].
  - cbn [aget]. destruct (k0 =? k'); [reflexivity|assumption].
Qed.

Lemma mach_updated_aset : forall (ms : list (Z * machine)) n mc, mach_updated ms (aset n mc ms) n mc.
Proof.
  intros. split; [apply aget_aset_same|]. intros k Hk. apply aget_aset_other. assumption.
Qed.

(* ================= pages ================= *)
Lemma get_page_set_page : forall m i r j,
  get_page (set_page m i r) j =
  if j =? i
  then Some {| p_acc := acc_of_mode r;
               p_dat := if r <? 3 then [] else match get_page m i with Some pg => p_dat pg | None => [] end |}
  else get_page m j.
Proof.
  intros. unfold set_page, get_page at 1. cbn [m_pages].
  destruct (j =? i) eqn:E.
  - assert (j = i) as -> by lia. apply aget_aset_same.
  - apply aget_aset_other. lia.
Qed.

Lemma set_pages_spec : forall n m i r,
  (forall j, i <= j < i + Z.of_nat n ->
     get_page (set_pages m i n r) j =
     Some {| p_acc := acc_of_mode r;
             p_dat := if r <? 3 then [] else match get_page m j with Some pg => p_dat pg | None => [] end |}) /\
  (forall j, ~ (i <= j < i + Z.of_nat n) -> get_page (set_pages m i n r) j = get_page m j) /\
  m_hp (set_pages m i n r) = m_hp m /\ m_hl (set_pages m i n r) = m_hl m.
Proof.
  induction n as [|n IH]; intros m i r; cbn [set_pages].
  - split; [intros j Hj; lia|]. repeat split; reflexivity.
  - destruct (IH (set_page m i r) (i + 1) r) as (In & Out & Hp & Hl).
    split; [|split; [|split]].
    + intros j Hj. destruct (Z.eq_dec j i) as [->|Hne].
      * rewrite Out by lia. rewrite get_page_set_page, Z.eqb_refl. reflexivity.
      * rewrite In by lia. rewrite get_page_set_page.
        destruct (j =? i) eqn:E; [lia|reflexivity].
    + intros j Hj. rewrite Out by lia. rewrite get_page_set_page.
      destruct (j =? i) eqn:E; [lia|reflexivity].
    + rewrite Hp. reflexivity.
    + rewrite Hl. reflexivity.
Qed.

Lemma set_pages_pages_set : forall m p c r, 0 <= c -> pages_set m (set_pages m p (Z.to_nat c) r) p c r.
Proof.
  intros m p c r Hc. destruct (set_pages_spec (Z.to_nat c) m p r) as (In & Out & Hp & Hl).
  rewrite Z2Nat.id in In, Out by assumption.
  unfold pages_set. split; [|split; [|split; assumption]].
  - intros x Hx. unfold acc_at, rd_byte. rewrite (In _ Hx). cbn [p_acc]. split; [reflexivity|].
    unfold byte_of. cbn [p_dat]. destruct (r <? 3); [reflexivity|].
    destruct (get_page m (x / PAGE)); reflexivity.
  - intros x Hx. unfold acc_at, rd_byte. rewrite (Out _ Hx). split; reflexivity.
Qed.

(* ================= small facts ================= *)
Lemma empty_ram : empty_ram_stmt.
Proof. intros x. split; reflexivity. Qed.

Lemma oog : oog_stmt.
Proof.
  intros c s H. unfold hostcall. destruct (o_gas s - 10 <? 0) eqn:E; [|lia].
  eexists. split; [reflexivity|]. unfold only_gas, upd, paid; cbn [o_regs o_gas o_mem o_mach]. auto.
Qed.

(* ================= the inner run ================= *)
(* n steps, stopping at the first exit *)
Fixpoint runc (n : nat) (p : prog) (pc : Z) (s : st) : exit * Z * st :=
  match n with
  | O => (Continue, pc, s)
  | S n' =>
    let '(e, pc', s') := step p pc s in
    match e with
    | Continue => runc n' p pc' s'
    | _ => (e, pc', s')
    end
  end.

Lemma runc_add : forall a b p pc s,
  runc (a + b) p pc s =
  let '(e, pc', s') := runc a p pc s in
  match e with Continue => runc b p pc' s' | _ => (e, pc', s') end.
Proof.
  induction a as [|a IH]; intros b p pc s; cbn [runc Nat.add]; [reflexivity|].
  destruct (step p pc s) as [[e pc1] s1]. destruct e; try reflexivity. apply IH.
Qed.

Lemma run_pow_runc : forall k p pc s, run_pow k p pc s = runc (2 ^ k) p pc s.
Proof.
  induction k as [|k IH]; intros p pc s.
  - cbn [run_pow Nat.pow runc]. destruct (step p pc s) as [[e pc1] s1]. destruct e; reflexivity.
  - cbn [run_pow]. replace (2 ^ S k)%nat with (2 ^ k + 2 ^ k)%nat by (cbn [Nat.pow]; lia).
    rewrite runc_add, IH. destruct (runc (2 ^ k) p pc s) as [[e pc1] s1].
    destruct e; try reflexivity. apply IH.
Qed.

Lemma run_runc : forall n p pc s,
  run n p pc s = let '(e, pc', s') := runc n p pc s in
                 match e with Continue => None | _ => Some (e, pc', s') end.
Proof.
  induction n as [|n IH]; intros p pc s; cbn [run runc]; [reflexivity|].
  destruct (step p pc s) as [[e pc1] s1]. destruct e; try reflexivity. apply IH.
Qed.

Lemma run_mono : forall n p pc s r, run n p pc s = Some r ->
  forall m, (n <= m)%nat -> run m p pc s = Some r.
Proof.
  induction n as [|n IH]; intros p pc s r H m Hm; cbn [run] in H; [discriminate|].
  destruct m as [|m]; [lia|]. cbn [run].
  destruct (step p pc s) as [[e pc1] s1]. destruct e; try assumption. apply IH with (m := m) in H; [assumption|lia].
Qed.

Lemma pow_fuel_enough : forall g, (S (Z.to_nat g) <= 2 ^ S (Z.to_nat (Z.log2 g)))%nat.
Proof.
  intros g. apply Nat2Z.inj_le. rewrite Nat2Z.inj_pow. change (Z.of_nat 2) with 2.
  destruct (Z_le_gt_dec g 0) as [L|G].
  - rewrite Z.log2_nonpos by assumption. change (Z.to_nat 0) with 0%nat. change (2 ^ Z.of_nat 1) with 2. lia.
  - pose proof (Z.log2_spec g ltac:(lia)) as [_ U]. pose proof (Z.log2_nonneg g).
    replace (Z.of_nat (S (Z.to_nat (Z.log2 g)))) with (Z.succ (Z.log2 g)) by lia. lia.
Qed.

Lemma past_end_is_step : forall p pc s, code_len p <= pc -> step p pc s = past_end_step pc s.
Proof.
  intros p pc s H. unfold past_end_step. destruct (gas s <? 1) eqn:G.
  - apply step_oog. lia.
  - apply step_past_end; [assumption|lia].
Qed.

Lemma past_end_exit : forall pc s, fst (fst (past_end_step pc s)) <> Continue.
Proof. intros pc s. unfold past_end_step. destruct (gas s <? 1); cbn [fst]; discriminate. Qed.

Lemma inner_run_is_run : inner_run_is_run_stmt.
Proof.
  intros p pc s. unfold inner_run. destruct (code_len p <=? pc) eqn:PE.
  - split; [|discriminate]. cbn [run]. rewrite (past_end_is_step p pc s) by lia.
    pose proof (past_end_exit pc s) as NE.
    destruct (past_end_step pc s) as [[e pc1] s1]. cbn [fst] in NE. destruct e; try reflexivity. congruence.
  - assert (E : inner_run_log p pc s = run (2 ^ S (Z.to_nat (Z.log2 (gas s)))) p pc s).
    { unfold inner_run_log. rewrite run_pow_runc, run_runc. reflexivity. }
    pose proof (run_terminates (Z.to_nat (gas s)) p pc s ltac:(lia)) as T.
    destruct (run (S (Z.to_nat (gas s))) p pc s) as [r|] eqn:R; [|congruence].
    rewrite E. rewrite (run_mono _ _ _ _ _ R _ (pow_fuel_enough (gas s))).
    split; [reflexivity|discriminate].
Qed.

Lemma inner_run_exit : forall p pc s e pc' s', inner_run p pc s = Some (e, pc', s') -> e <> Continue.
Proof.
  intros p pc s e pc' s' H. unfold inner_run in H. destruct (code_len p <=? pc).
  - pose proof (past_end_exit pc s) as NE. inversion H as [H1]. rewrite H1 in NE. exact NE.
  - unfold inner_run_log in H.
    destruct (run_pow _ p pc s) as [[e1 pc1] s1]. destruct e1; inversion H; subst; discriminate.
Qed.

(* ---- the number of registers never changes ---- *)
Lemma exec_regs_length : forall p pc r m e t r' m', exec p pc r m = (e, t, r', m') -> length r' = length r.
Proof.
  intros p pc r m e t r' m' H.
  exec_open H p pc;
    try solve [ inj4 H; rewrite ?sreg_length; reflexivity ];
    try solve [ apply do_store_cases in H; destruct H as [-> _]; reflexivity ];
    try solve [ apply do_load_cases in H;
                destruct H as [_ [[v [_ [_ [_ ->]]]]|[[_ [_ ->]]|[f [_ [_ ->]]]]]]; rewrite ?sreg_length; reflexivity ];
    try solve [ destruct (branch _ _ _ _) as [e0 t0]; inj4 H; rewrite ?sreg_length; reflexivity ];
    try solve [ destruct (djump _ _) as [e0 t0]; inj4 H; rewrite ?sreg_length; reflexivity ].
  - destruct (sbrk m _) as [v m2]. inj4 H. apply sreg_length.
Qed.

Lemma step_regs_length : forall p pc s e pc' s', step p pc s = (e, pc', s') -> length (regs s') = length (regs s).
Proof.
  intros p pc s e pc' s' H. destruct (Z_lt_ge_dec (gas s) 1) as [L|G].
  - rewrite (step_oog p pc s L) in H. inversion H; subst. reflexivity.
  - destruct (step_exec p pc s ltac:(lia)) as (e0 & t & r' & m' & E & _ & St).
    rewrite St in H. inversion H; subst. cbn [regs]. eapply exec_regs_length; eassumption.
Qed.

Lemma run_regs_length : forall fuel p pc s e pc' s', run fuel p pc s = Some (e, pc', s') ->
  length (regs s') = length (regs s).
Proof.
  induction fuel as [|f IH]; intros p pc s e pc' s' H; cbn [run] in H; [discriminate|].
  destruct (step p pc s) as [[e1 pc1] s1] eqn:St.
  pose proof (step_regs_length _ _ _ _ _ _ St) as L1.
  destruct e1; try (inversion H; subst; assumption).
  rewrite (IH _ _ _ _ _ _ H). assumption.
Qed.

(* ================= the window ================= *)
Lemma enc8_length : forall v, length (enc8 v) = 8%nat.
Proof. intros. unfold enc8. rewrite map_length, seq_length. reflexivity. Qed.

Lemma flat_enc8_length : forall l, length (flat_map enc8 l) = (8 * length l)%nat.
Proof.
  induction l as [|x t IH]; [reflexivity|].
  change (flat_map enc8 (x :: t)) with (enc8 x ++ flat_map enc8 t).
  rewrite app_length, enc8_length, IH. cbn [length]. lia.
Qed.

Lemma window_length : forall s', length (regs s') = 13%nat -> length (window s') = 112%nat.
Proof.
  intros s' H. unfold window. rewrite app_length, enc8_length, flat_enc8_length, H. reflexivity.
Qed.

Lemma le_val_enc8 : forall v, 0 <= v < W64 -> le_val (enc8 v) = v.
Proof.
  intros v H. unfold enc8. cbn [seq map le_val].
  change (256 ^ Z.of_nat 0) with 1. change (256 ^ Z.of_nat 1) with 256.
  change (256 ^ Z.of_nat 2) with 65536. change (256 ^ Z.of_nat 3) with 16777216.
  change (256 ^ Z.of_nat 4) with 4294967296. change (256 ^ Z.of_nat 5) with 1099511627776.
  change (256 ^ Z.of_nat 6) with 281474976710656. change (256 ^ Z.of_nat 7) with 72057594037927936.
  unfold W64 in H. lia.
Qed.

Lemma firstn_enc8_app : forall v l, firstn 8 (enc8 v ++ l) = enc8 v.
Proof.
  intros. rewrite firstn_app, enc8_length. change (8 - 8)%nat with 0%nat.
  rewrite firstn_O, app_nil_r. apply firstn_all2. rewrite enc8_length. lia.
Qed.

Lemma skipn_add : forall {A} a b (l : list A), skipn (a + b) l = skipn b (skipn a l).
Proof.
  induction a as [|a IH]; intros b l; [reflexivity|].
  destruct l as [|x t]; [rewrite !skipn_nil; reflexivity|]. cbn [Nat.add skipn]. apply IH.
Qed.

Lemma skipn_enc8_app : forall k v l, skipn (8 + k) (enc8 v ++ l) = skipn k l.
Proof.
  intros. rewrite skipn_add, skipn_app, enc8_length. change (8 - 8)%nat with 0%nat.
  rewrite (skipn_all2 (enc8 v)) by (rewrite enc8_length; lia). reflexivity.
Qed.

Lemma skipn_flat_enc8 : forall k l, skipn (8 * k) (flat_map enc8 l) = flat_map enc8 (skipn k l).
Proof.
  induction k as [|k IH]; intros l.
  - reflexivity.
  - destruct l as [|x t].
    + rewrite !skipn_nil. reflexivity.
    + change (flat_map enc8 (x :: t)) with (enc8 x ++ flat_map enc8 t).
      replace (8 * S k)%nat with (8 + 8 * k)%nat by lia.
      rewrite skipn_enc8_app. cbn [skipn]. apply IH.
Qed.

Lemma skipn_nth_cons : forall {A} (l : list A) k d, (k < length l)%nat ->
  skipn k l = nth k l d :: skipn (S k) l.
Proof.
  induction l as [|x t IH]; intros k d H; [cbn in H; lia|].
  destruct k as [|k]; [reflexivity|]. cbn [length] in H.
  change (skipn (S k) (x :: t)) with (skipn k t).
  change (skipn (S (S k)) (x :: t)) with (skipn (S k) t).
  cbn [nth]. apply IH. lia.
Qed.

Lemma window_roundtrip : window_roundtrip_stmt.
Proof.
  intros st' L F. unfold dec8_at, window. split.
  - change (8 * 0)%nat with 0%nat. cbn [skipn]. rewrite firstn_enc8_app.
    apply le_val_enc8. unfold W64; lia.
  - intros k Hk. replace (8 * S k)%nat with (8 + 8 * k)%nat by lia.
    rewrite skipn_enc8_app, skipn_flat_enc8.
    rewrite (skipn_nth_cons (regs st') k 0) by lia.
    change (flat_map enc8 (nth k (regs st') 0 :: skipn (S k) (regs st')))
      with (enc8 (nth k (regs st') 0) ++ flat_map enc8 (skipn (S k) (regs st'))).
    rewrite firstn_enc8_app. apply le_val_enc8.
    rewrite Forall_forall in F. apply F. apply nth_In. lia.
Qed.

(* ================= the calls ================= *)
Ltac fin := unfold only_w7, only_gas, ret7, upd, paid; cbn [o_regs o_gas o_mem o_mach]; auto.

Ltac open_call H :=
  unfold hostcall in H;
  match type of H with context [?g <? 0] => destruct (g <? 0) eqn:?E; [lia|] end.

Lemma machine_call : machine_stmt.
Proof.
  intros s e s' G H. open_call H. injection H as H. unfold call_machine in H.
  cbv zeta. unfold arg. split; intros R; rewrite R in H; cbn [negb] in H.
  - injection H as <- <-. split; [reflexivity|fin].
  - destruct (deblob _) as [p|].
    + injection H as <- <-. split; [reflexivity|]. unfold upd; cbn [o_regs o_gas o_mem o_mach].
      repeat split; auto; try apply mach_updated_aset.
    + unfold ret7 in H. injection H as <- <-. split; [reflexivity|fin].
Qed.

Lemma expunge_call : expunge_stmt.
Proof.
  intros s e s' G H. open_call H. injection H as H. unfold call_expunge in H.
  cbv zeta. unfold arg. destruct (aget _ (o_mach s)) as [mc|].
  - injection H as <- <-. split; [reflexivity|]. unfold upd, paid; cbn [o_regs o_gas o_mem o_mach].
    repeat split; auto. + apply aget_adel_same. + intros k Hk. apply aget_adel_other. assumption.
  - unfold ret7 in H. injection H as <- <-. split; [reflexivity|fin].
Qed.

Lemma readable_false : forall m x, readable m x = false <-> acc_at m x = AccNone.
Proof. intros. unfold readable. destruct (acc_at m x); split; congruence. Qed.

Lemma pages_call : pages_stmt.
Proof.
  intros s e s' G H. open_call H. injection H as H. unfold call_pages in H.
  cbv zeta. unfold arg. intros Hp Hc Hr.
  destruct (aget _ (o_mach s)) as [mc|].
  2:{ unfold ret7 in H. injection H as <- <-. split; [reflexivity|fin]. }
  set (md := greg (o_regs s) 10) in *. set (p := greg (o_regs s) 8) in *. set (c := greg (o_regs s) 9) in *.
  clearbody md p c.
  destruct ((4 <? md) || (p <? 16) || (NPAGES <=? p + c)) eqn:B1.
  { unfold ret7 in H. injection H as <- <-. split; [reflexivity|]. split; [intros _; fin|].
    intros NB. exfalso. apply NB. unfold pages_bad. lia. }
  destruct (2 <? md) eqn:B2; cbn [andb] in H.
  - destruct (pages_all readable (mc_mem mc) p (Z.to_nat c)) eqn:B3; cbn [negb] in H.
    + injection H as <- <-. split; [reflexivity|]. split.
      * intros [A|[A|[A|[_ [i [Hi Ai]]]]]]; try lia. exfalso.
        rewrite pages_all_spec in B3. specialize (B3 i ltac:(lia)).
        apply readable_false in Ai. congruence.
      * intros _. unfold upd, paid; cbn [o_regs o_gas o_mem o_mach]. repeat split; auto.
        eexists. split; [apply mach_updated_aset|]. apply set_pages_pages_set. assumption.
    + unfold ret7 in H. injection H as <- <-. split; [reflexivity|]. split; [intros _; fin|].
      intros NB. exfalso. apply NB. unfold pages_bad. right; right; right. split; [lia|].
      apply pages_all_false in B3. destruct B3 as [k [Hk Ek]]. exists k. split; [lia|].
      apply readable_false. assumption.
  - injection H as <- <-. split; [reflexivity|]. split.
    + intros [A|[A|[A|[A _]]]]; lia.
    + intros _. unfold upd, paid; cbn [o_regs o_gas o_mem o_mach]. repeat split; auto.
      eexists. split; [apply mach_updated_aset|]. apply set_pages_pages_set. assumption.
Qed.

(* the bytes a range copy writes *)
Lemma copy_written : forall m src o a z, range_ok writable m o z = true ->
  ram_written m (wr_range m o (rd_range src a (Z.to_nat z))) o z (fun x => rd_byte src (a + (x - o))).
Proof.
  intros m src o a z W.
  destruct (wr_range_frame (rd_range src a (Z.to_nat z)) m o) as (R & Ac & _ & Hp & Hl).
  rewrite rd_range_length in R.
  unfold ram_written. split; [|split; [|auto]].
  - intros x Hx. rewrite wr_range_rd.
    + rewrite rd_range_nth by lia. f_equal. lia.
    + rewrite rd_range_length. intros y Hy. apply (range_writable_mapped _ _ _ W). lia.
    + rewrite rd_range_length. lia.
  - intros x Hx. apply R. lia.
Qed.

Lemma peek_call : peek_stmt.
Proof.
  intros s e s' G H. open_call H. injection H as H. unfold call_peek in H.
  cbv zeta. unfold arg. intros Ho Ha. split; intros R; rewrite R in H; cbn [negb] in H.
  - injection H as <- <-. split; [reflexivity|fin].
  - destruct (aget _ (o_mach s)) as [mc|].
    2:{ unfold ret7 in H. injection H as <- <-. split; [reflexivity|fin]. }
    destruct (range_ok readable (mc_mem mc) _ _) eqn:R2; cbn [negb] in H.
    + injection H as <- <-. split; [reflexivity|]. unfold upd, paid; cbn [o_regs o_gas o_mem o_mach].
      repeat split; auto; apply copy_written; assumption.
    + unfold ret7 in H. injection H as <- <-. split; [reflexivity|fin].
Qed.

Lemma poke_call : poke_stmt.
Proof.
  intros s e s' G H. open_call H. injection H as H. unfold call_poke in H.
  cbv zeta. unfold arg. intros Ho Ha. split; intros R; rewrite R in H; cbn [negb] in H.
  - injection H as <- <-. split; [reflexivity|fin].
  - destruct (aget _ (o_mach s)) as [mc|].
    2:{ unfold ret7 in H. injection H as <- <-. split; [reflexivity|fin]. }
    destruct (range_ok writable (mc_mem mc) _ _) eqn:R2; cbn [negb] in H.
    + injection H as <- <-. split; [reflexivity|]. unfold upd, paid; cbn [o_regs o_gas o_mem o_mach].
      repeat split; auto. eexists. split; [apply mach_updated_aset|]. apply copy_written; assumption.
    + unfold ret7 in H. injection H as <- <-. split; [reflexivity|fin].
Qed.

(* ---- invoke ---- *)
Lemma window_in_regs_length : forall m o u, length (regs (window_in m o u)) = 13%nat.
Proof. intros. unfold window_in. cbn [regs]. rewrite map_length, seq_length. reflexivity. Qed.

Lemma inner_run_window : forall p pc m o u e pc' s',
  inner_run p pc (window_in m o u) = Some (e, pc', s') ->
  run (S (Z.to_nat (gas (window_in m o u)))) p pc (window_in m o u) = Some (e, pc', s') /\
  e <> Continue /\ length (window s') = 112%nat.
Proof.
  intros p pc m o u e pc' s' H.
  pose proof (inner_run_exit _ _ _ _ _ _ H) as NE.
  rewrite (proj1 (inner_run_is_run p pc (window_in m o u))) in H.
  split; [assumption|]. split; [assumption|].
  apply window_length. rewrite (run_regs_length _ _ _ _ _ _ _ H). apply window_in_regs_length.
Qed.

Lemma window_written : forall m o bs, length bs = 112%nat -> range_ok writable m o 112 = true ->
  ram_written m (wr_range m o bs) o 112 (fun x => nth (Z.to_nat (x - o)) bs 0).
Proof.
  intros m o bs L W. apply wr_range_written; [rewrite L; reflexivity|].
  apply range_writable_mapped. assumption.
Qed.

Lemma invoke_call : invoke_stmt.
Proof.
  intros s e s' G H. open_call H. unfold call_invoke in H.
  cbv zeta. unfold arg. intros Ho. split; intros R; rewrite R in H; cbn [negb] in H.
  - injection H as <- <-. split; [reflexivity|fin].
  - destruct (aget _ (o_mach s)) as [mc|].
    2:{ unfold ret7 in H. injection H as <- <-. split; [reflexivity|fin]. }
    change {| regs := map (fun k => dec8_at (rd_range (o_mem s) (greg (o_regs s) 8) 112) (S k)) (seq 0 13);
              gas := gas_in (dec8_at (rd_range (o_mem s) (greg (o_regs s) 8) 112) 0);
              mem := mc_mem mc |}
      with (window_in (o_mem s) (greg (o_regs s) 8) (mc_mem mc)) in H.
    destruct (inner_run _ _ _) as [[[ex pc'] st']|] eqn:IR; [|discriminate].
    injection H as <- <-. split; [reflexivity|].
    apply inner_run_window in IR. destruct IR as (Rn & NE & WL).
    exists ex, pc', st'. unfold upd, paid; cbn [o_regs o_gas o_mem o_mach].
    split; [assumption|]. split; [assumption|]. split; [reflexivity|]. split; [reflexivity|].
    split; [assumption|]. split; [apply (window_written _ _ (window st')); assumption|apply mach_updated_aset].
Qed.

Lemma invoke_regs_ok : invoke_regs_stmt.
Proof.
  intros r ex L NE. destruct ex; try congruence; cbn [invoke_regs];
    unfold I_HALT, I_PANIC, I_FAULT, I_HOST, I_OOG.
  - rewrite greg_sreg_same by lia. rewrite greg_sreg_other by lia.
    repeat split; auto. intros i A B. apply greg_sreg_other. lia.
  - rewrite greg_sreg_same by lia. rewrite greg_sreg_other by lia.
    repeat split; auto. intros i A B. apply greg_sreg_other. lia.
  - rewrite greg_sreg_same by lia. rewrite greg_sreg_other by lia.
    repeat split; auto. intros i A B. apply greg_sreg_other. lia.
  - rewrite greg_sreg_other by lia. rewrite greg_sreg_same by lia.
    rewrite greg_sreg_same by (rewrite sreg_length; lia).
    repeat split; auto. intros i A B. rewrite !greg_sreg_other by lia. reflexivity.
  - rewrite greg_sreg_other by lia. rewrite greg_sreg_same by lia.
    rewrite greg_sreg_same by (rewrite sreg_length; lia).
    repeat split; auto. intros i A B. rewrite !greg_sreg_other by lia. reflexivity.
Qed.

(* ---- totality ---- *)
Lemma inner_total : inner_total_stmt.
Proof.
  intros c s. unfold hostcall. destruct (o_gas s - 10 <? 0); [eauto|].
  destruct c; try (match goal with |- exists e s', Some ?x = _ => destruct x as [e0 s0]; eauto end).
  unfold call_invoke.
  destruct (negb _); [eauto|]. destruct (aget _ _) as [mc|]; [|unfold ret7; eauto].
  match goal with |- context [inner_run ?p ?pc ?s0] =>
    pose proof (proj2 (inner_run_is_run p pc s0)) as T; destruct (inner_run p pc s0) as [[[ex pc'] st']|] end;
    [eauto|congruence].
Qed.

Lemma history_total : history_total_stmt.
Proof.
  intros h. induction h as [|[c args] t IH]; intros s; cbn [run_calls]; [eauto|].
  destruct (inner_total c (with_regs s (set_args (o_regs s) 7 args))) as (e & s' & ->).
  destruct e; eauto.
Qed.

(* ================= isolation ================= *)
Lemma isolated_writes : isolated_writes_stmt.
Proof.
  intros c s e s' H A8. unfold hostcall in H.
  destruct (o_gas s - 10 <? 0).
  { injection H as <- <-. unfold upd; cbn [o_mem]. destruct (write_window c s). split; reflexivity. }
  destruct c; cbn [write_window].
  - (* machine *) injection H as H. unfold call_machine in H.
    destruct (negb _); [injection H as <- <-; split; reflexivity|].
    destruct (deblob _); [|unfold ret7 in H]; injection H as <- <-; split; reflexivity.
  - (* peek *) injection H as H. unfold call_peek in H. unfold arg.
    destruct (negb _); [injection H as <- <-; split; reflexivity|].
    destruct (aget _ _) as [mc|]; [|unfold ret7 in H; injection H as <- <-; split; reflexivity].
    destruct (negb _); [unfold ret7 in H; injection H as <- <-; split; reflexivity|].
    injection H as <- <-. unfold upd; cbn [o_mem].
    match goal with |- context [wr_range ?m ?o ?bs] => destruct (wr_range_frame bs m o) as (R & Ac & _) end.
    rewrite rd_range_length in R. split; [|assumption]. intros x Hx. apply R. lia.
  - (* poke *) injection H as H. unfold call_poke in H.
    destruct (negb _); [injection H as <- <-; split; reflexivity|].
    destruct (aget _ _) as [mc|]; [|unfold ret7 in H; injection H as <- <-; split; reflexivity].
    destruct (negb _); [unfold ret7 in H|]; injection H as <- <-; split; reflexivity.
  - (* pages *) injection H as H. unfold call_pages in H.
    destruct (aget _ _) as [mc|]; [|unfold ret7 in H; injection H as <- <-; split; reflexivity].
    destruct (_ || _); [unfold ret7 in H; injection H as <- <-; split; reflexivity|].
    destruct (_ && _); [unfold ret7 in H|]; injection H as <- <-; split; reflexivity.
  - (* invoke *) unfold call_invoke in H. unfold arg.
    destruct (negb _); [injection H as <- <-; split; reflexivity|].
    destruct (aget _ _) as [mc|]; [|unfold ret7 in H; injection H as <- <-; split; reflexivity].
    change {| regs := map (fun k => dec8_at (rd_range (o_mem s) (greg (o_regs s) 8) 112) (S k)) (seq 0 13);
              gas := gas_in (dec8_at (rd_range (o_mem s) (greg (o_regs s) 8) 112) 0);
              mem := mc_mem mc |}
      with (window_in (o_mem s) (greg (o_regs s) 8) (mc_mem mc)) in H.
    destruct (inner_run _ _ _) as [[[ex pc'] st']|] eqn:IR; [|discriminate].
    injection H as <- <-. unfold upd; cbn [o_mem].
    apply inner_run_window in IR. destruct IR as (_ & _ & WL).
    destruct (wr_range_frame (window st') (o_mem s) (greg (o_regs s) 8)) as (R & Ac & _).
    rewrite WL in R. split; [|assumption]. intros x Hx. apply R. lia.
  - (* expunge *) injection H as H. unfold call_expunge in H.
    destruct (aget _ _) as [mc|]; [|unfold ret7 in H]; injection H as <- <-; split; reflexivity.
Qed.

Lemma pages_all_ext : forall ok m1 m2, (forall x, ok m1 x = ok m2 x) ->
  forall n pg, pages_all ok m1 pg n = pages_all ok m2 pg n.
Proof.
  intros ok m1 m2 H. induction n as [|n IH]; intros pg; cbn [pages_all]; [reflexivity|].
  rewrite H, IH. reflexivity.
Qed.

Lemma range_ok_ext : forall ok, page_ok ok -> ok_mapped ok -> forall m1 m2, (forall x, ok m1 x = ok m2 x) ->
  forall a z, range_ok ok m1 a z = range_ok ok m2 a z.
Proof.
  intros ok Hp Hm m1 m2 H a z.
  assert (Q : range_prop ok m1 a z <-> range_prop ok m2 a z).
  { unfold range_prop. split; (intros [L|[A B]]; [left; assumption|right; split; [assumption|]]);
      intros x Hx; [rewrite <- H|rewrite H]; apply B; assumption. }
  pose proof (range_ok_spec ok Hp Hm m1 a z) as S1. pose proof (range_ok_spec ok Hp Hm m2 a z) as S2.
  destruct (range_ok ok m1 a z), (range_ok ok m2 a z); try reflexivity.
  - symmetry. apply S2, Q, S1. reflexivity.
  - apply S1, Q, S2. reflexivity.
Qed.

Lemma readable_ext : forall m1 m2, same_access m1 m2 -> forall x, readable m1 x = readable m2 x.
Proof. intros m1 m2 H x. unfold readable. rewrite H. reflexivity. Qed.

Lemma writable_ext : forall m1 m2, same_access m1 m2 -> forall x, writable m1 x = writable m2 x.
Proof. intros m1 m2 H x. unfold writable. rewrite H. reflexivity. Qed.

Lemma rd_range_agree : forall m1 m2 a z n, agree_on m1 m2 a z -> (n = 0%nat \/ Z.of_nat n <= z) ->
  rd_range m1 a n = rd_range m2 a n.
Proof.
  intros m1 m2 a z n H Hn. unfold rd_range. apply map_ext_in. intros i Hi. apply in_seq in Hi.
  apply H. lia.
Qed.

(* the same bytes written at the same checked place of two RAMs with the same access classes *)
Lemma wr_range_both : forall m1 m2 o z bs, same_access m1 m2 -> range_ok writable m1 o z = true ->
  (length bs = 0%nat \/ Z.of_nat (length bs) <= z) ->
  same_access (wr_range m1 o bs) (wr_range m2 o bs) /\
  forall x, rd_byte m1 x = rd_byte m2 x -> rd_byte (wr_range m1 o bs) x = rd_byte (wr_range m2 o bs) x.
Proof.
  intros m1 m2 o z bs SA W L.
  assert (W2 : range_ok writable m2 o z = true)
    by (rewrite <- (range_ok_ext writable writable_page_ok writable_ok_mapped m1 m2 (writable_ext _ _ SA)); assumption).
  destruct (wr_range_frame bs m1 o) as (R1 & Ac1 & _). destruct (wr_range_frame bs m2 o) as (R2 & Ac2 & _).
  split.
  - intros x. rewrite Ac1, Ac2. apply SA.
  - intros x Hx.
    assert (D : o <= x < o + Z.of_nat (length bs) \/ ~ (o <= x < o + Z.of_nat (length bs))) by lia.
    destruct D as [In|Out].
    + rewrite !wr_range_rd; try assumption; try reflexivity.
      * intros y Hy. apply (range_writable_mapped _ _ _ W2). lia.
      * intros y Hy. apply (range_writable_mapped _ _ _ W). lia.
    + rewrite R1, R2 by assumption. assumption.
Qed.

Lemma isolated_reads : isolated_reads_stmt.
Proof.
  intros c s m2 e1 s1 e2 s2 A7 A8 A9 SA AG H1 H2. unfold hostcall in H1, H2.
  unfold with_mem, upd in H2. cbn [o_regs o_gas o_mem o_mach] in H2.
  destruct (o_gas s - 10 <? 0).
  { injection H1 as <- <-. injection H2 as <- <-. unfold upd; cbn [o_regs o_gas o_mem o_mach].
    repeat split; auto. }
  pose proof (range_ok_ext readable readable_page_ok readable_ok_mapped _ _ (readable_ext _ _ SA)) as RE.
  pose proof (range_ok_ext writable writable_page_ok writable_ok_mapped _ _ (writable_ext _ _ SA)) as WE.
  destruct c; cbn [read_window] in AG; unfold arg in *.
  - (* machine *) injection H1 as H1. injection H2 as H2. unfold call_machine in H1, H2.
    cbn [o_regs o_gas o_mem o_mach] in H2. rewrite <- RE in H2.
    rewrite <- (rd_range_agree _ _ _ _ (Z.to_nat (greg (o_regs s) 8)) AG) in H2 by lia.
    destruct (negb _).
    { injection H1 as <- <-. injection H2 as <- <-. unfold upd; cbn [o_regs o_gas o_mem o_mach]. repeat split; auto. }
    destruct (deblob _); [|unfold ret7 in H1, H2; cbn [o_regs o_gas o_mem o_mach] in H2];
      injection H1 as <- <-; injection H2 as <- <-; unfold upd; cbn [o_regs o_gas o_mem o_mach]; repeat split; auto.
  - (* peek *) injection H1 as H1. injection H2 as H2. unfold call_peek in H1, H2.
    cbn [o_regs o_gas o_mem o_mach] in H2. rewrite <- WE in H2.
    destruct (range_ok writable (o_mem s) _ _) eqn:W; cbn [negb] in H1, H2.
    2:{ injection H1 as <- <-. injection H2 as <- <-. unfold upd; cbn [o_regs o_gas o_mem o_mach]. repeat split; auto. }
    destruct (aget _ _) as [mc|].
    2:{ unfold ret7 in H1, H2; cbn [o_regs o_gas o_mem o_mach] in H2.
        injection H1 as <- <-; injection H2 as <- <-; unfold upd; cbn [o_regs o_gas o_mem o_mach]; repeat split; auto. }
    destruct (negb _).
    { unfold ret7 in H1, H2; cbn [o_regs o_gas o_mem o_mach] in H2.
      injection H1 as <- <-; injection H2 as <- <-; unfold upd; cbn [o_regs o_gas o_mem o_mach]; repeat split; auto. }
    injection H1 as <- <-; injection H2 as <- <-; unfold upd; cbn [o_regs o_gas o_mem o_mach].
    split; [reflexivity|]. split; [reflexivity|]. split; [reflexivity|]. split; [reflexivity|].
    eapply wr_range_both; [exact SA|exact W|]. rewrite rd_range_length. lia.
  - (* poke *) injection H1 as H1. injection H2 as H2. unfold call_poke in H1, H2.
    cbn [o_regs o_gas o_mem o_mach] in H2. rewrite <- RE in H2.
    rewrite <- (rd_range_agree _ _ _ _ (Z.to_nat (greg (o_regs s) 10)) AG) in H2 by lia.
    destruct (negb _).
    { injection H1 as <- <-. injection H2 as <- <-. unfold upd; cbn [o_regs o_gas o_mem o_mach]. repeat split; auto. }
    destruct (aget _ _) as [mc|].
    2:{ unfold ret7 in H1, H2; cbn [o_regs o_gas o_mem o_mach] in H2.
        injection H1 as <- <-; injection H2 as <- <-; unfold upd; cbn [o_regs o_gas o_mem o_mach]; repeat split; auto. }
    destruct (negb _); [unfold ret7 in H1, H2; cbn [o_regs o_gas o_mem o_mach] in H2|];
      injection H1 as <- <-; injection H2 as <- <-; unfold upd; cbn [o_regs o_gas o_mem o_mach]; repeat split; auto.
  - (* pages *) injection H1 as H1. injection H2 as H2. unfold call_pages in H1, H2.
    cbn [o_regs o_gas o_mem o_mach] in H2.
    destruct (aget _ _) as [mc|].
    2:{ unfold ret7 in H1, H2; cbn [o_regs o_gas o_mem o_mach] in H2.
        injection H1 as <- <-; injection H2 as <- <-; unfold upd; cbn [o_regs o_gas o_mem o_mach]; repeat split; auto. }
    destruct (_ || _).
    { unfold ret7 in H1, H2; cbn [o_regs o_gas o_mem o_mach] in H2.
      injection H1 as <- <-; injection H2 as <- <-; unfold upd; cbn [o_regs o_gas o_mem o_mach]; repeat split; auto. }
    destruct (_ && _); [unfold ret7 in H1, H2; cbn [o_regs o_gas o_mem o_mach] in H2|];
      injection H1 as <- <-; injection H2 as <- <-; unfold upd; cbn [o_regs o_gas o_mem o_mach]; repeat split; auto.
  - (* invoke *) unfold call_invoke in H1, H2.
    cbn [o_regs o_gas o_mem o_mach] in H2. rewrite <- WE in H2.
    rewrite <- (rd_range_agree _ _ _ _ 112%nat AG) in H2 by lia.
    destruct (range_ok writable (o_mem s) _ _) eqn:W; cbn [negb] in H1, H2.
    2:{ injection H1 as <- <-. injection H2 as <- <-. unfold upd; cbn [o_regs o_gas o_mem o_mach]. repeat split; auto. }
    destruct (aget _ _) as [mc|].
    2:{ unfold ret7 in H1, H2; cbn [o_regs o_gas o_mem o_mach] in H2.
        injection H1 as <- <-; injection H2 as <- <-; unfold upd; cbn [o_regs o_gas o_mem o_mach]; repeat split; auto. }
    change {| regs := map (fun k => dec8_at (rd_range (o_mem s) (greg (o_regs s) 8) 112) (S k)) (seq 0 13);
              gas := gas_in (dec8_at (rd_range (o_mem s) (greg (o_regs s) 8) 112) 0);
              mem := mc_mem mc |}
      with (window_in (o_mem s) (greg (o_regs s) 8) (mc_mem mc)) in H1, H2.
    destruct (inner_run _ _ _) as [[[ex pc'] st']|] eqn:IR; [|discriminate].
    injection H1 as <- <-; injection H2 as <- <-; unfold upd; cbn [o_regs o_gas o_mem o_mach].
    split; [reflexivity|]. split; [reflexivity|]. split; [reflexivity|]. split; [reflexivity|].
    apply inner_run_window in IR. destruct IR as (_ & _ & WL).
    apply (wr_range_both _ _ _ 112 (window st') SA W). rewrite WL. lia.
  - (* expunge *) injection H1 as H1. injection H2 as H2. unfold call_expunge in H1, H2.
    cbn [o_regs o_gas o_mem o_mach] in H2.
    destruct (aget _ _) as [mc|]; [|unfold ret7 in H1, H2; cbn [o_regs o_gas o_mem o_mach] in H2];
      injection H1 as <- <-; injection H2 as <- <-; unfold upd; cbn [o_regs o_gas o_mem o_mach]; repeat split; auto.
Qed.
