(* C17 — the abstract codecs and root function of Proofs/StateKVP.v instantiated with the development's
   concrete definitions, the hypotheses discharged by the theorems proved about them:

     component / service-information / time-slot-list codecs  :=  the generic strict codec of Model/Codec.v
         on descriptors (any well-formed ones; then those of Model/JamTypes.v), made total by an adapter;
         round trip   <- Proofs/CodecP.v  roundtrip  (= C11_codec_roundtrip, via roundtrip_ok)
         canonicity   <- Proofs/CodecCanonP.v  canonical  (= C13_codec_canonical), val_ok_enc
     root                                                      :=  Model/Trie.v  root  (Appendix D)
         permutation invariance <- Proofs/TrieP.v  root_perm  (= C15_root_perm_invariant)

   The hash stays a variable (only its 32-byte output length is assumed); collisions stay explicit.

   Adapter (this file): the codec of Model/Codec.v is partial on values and returns the unread rest;
   a state component here is a [val], [enc_of d v] is its encoding (junk [] outside well-typed values),
   [dec_of d b] accepts b iff every element is a byte, the strict decoder consumes ALL of b, and yields
   the value; [ok_of d v] := val_ok d v = true is the well-typedness the state must satisfy. *)
From JamV Require Import Base.Bytes Proofs.BytesP Model.NatCodec Model.Codec Model.JamTypes Model.Trie Model.StateKV.
From JamV Require Import Proofs.CodecP Proofs.CodecCanonP Proofs.JamTypesP Proofs.TrieP Proofs.StateKVP.
From Coq Require Import Permutation.
Local Open Scope N_scope.

Definition enc_of (d : desc) (v : val) : bytes := match enc d v with Some b => b | None => [] end.
Definition dec_of (d : desc) (b : bytes) : option val :=
  if wf_bytes b then match dec d b with Some (v, []) => Some v | _ => None end else None.
Definition ok_of (d : desc) (v : val) : Prop := val_ok d v = true.

Lemma rt_of d v : wf_desc d = true -> ok_of d v -> dec_of d (enc_of d v) = Some v.
Proof.
  intros Hwf Hok. destruct (roundtrip_ok d v Hwf Hok) as [b [E R]].
  unfold enc_of, dec_of. rewrite E, (enc_wf d v b E).
  specialize (R []). rewrite app_nil_r in R. now rewrite R.
Qed.

Lemma canon_of d b v : wf_desc d = true -> dec_of d b = Some v -> b = enc_of d v /\ ok_of d v.
Proof.
  intros Hwf. unfold dec_of. destruct (wf_bytes b) eqn:W; [|discriminate].
  destruct (dec d b) as [[v' r]|] eqn:D; [|discriminate]. destruct r; [|discriminate].
  intros [= <-]. destruct (canonical d Hwf b v' [] W D) as [b' [E ->]]. split.
  - unfold enc_of. now rewrite E, app_nil_r.
  - apply val_ok_enc. eauto.
Qed.

(* ---------------------------------------------------------------------------------------------- *)
(* any well-formed descriptors for the 16 components, the service information and the lookup value *)
Section Descriptors.
  Variable H : bytes -> bytes.
  Hypothesis H_len : forall x, length (H x) = 32%nat.
  Variable cdesc : N -> desc.
  Variables dinfo dts : desc.
  Hypothesis cdesc_wf : forall i, wf_desc (cdesc i) = true.
  Hypothesis dinfo_wf : wf_desc dinfo = true.
  Hypothesis dts_wf : wf_desc dts = true.
  Variable zero_comp : N -> val.          (* what the importer starts from; irrelevant for exported states *)
  Variable zero_info : val.

  Definition d_serialize : state val val val -> list kv :=
    serialize H (fun i => enc_of (cdesc i)) (enc_of dinfo) (enc_of dts).
  Definition d_parse : list kv -> option (state val val val * list kv) :=
    parse H (fun i => dec_of (cdesc i)) zero_comp (dec_of dinfo) zero_info (dec_of dts).
  Definition d_valid : state val val val -> Prop :=
    valid_state val val val (fun i => ok_of (cdesc i)) (ok_of dinfo) (ok_of dts).
  Definition d_wf : state val val val -> Prop := wf_state (enc_of dts).
  Definition d_coincidence : state val val val -> Prop := coincidence H (enc_of dts).
  Definition d_coll_free : state val val val -> bool := coll_free H (enc_of dts).

  Let c_rt : forall i c, ok_of (cdesc i) c -> dec_of (cdesc i) (enc_of (cdesc i) c) = Some c :=
    fun i c => rt_of (cdesc i) c (cdesc_wf i).
  Let c_canon : forall i b c, dec_of (cdesc i) b = Some c -> b = enc_of (cdesc i) c /\ ok_of (cdesc i) c :=
    fun i b c => canon_of (cdesc i) b c (cdesc_wf i).

  (* round trip and equal Appendix D state roots *)
  Theorem desc_roundtrip_root st kvs :
    d_wf st -> d_valid st -> Permutation kvs (d_serialize st) ->
    (exists st' raw, d_parse kvs = Some (st', raw) /\ Permutation (d_serialize st' ++ raw) kvs /\
                     root H (d_serialize st' ++ raw) = root H (d_serialize st))
    \/ d_coincidence st.
  Proof.
    intros Hwf Hval P.
    destruct (export_import_roundtrip H val (fun i => enc_of (cdesc i)) (fun i => dec_of (cdesc i)) zero_comp
                val (enc_of dinfo) (dec_of dinfo) zero_info val (enc_of dts) (dec_of dts)
                (fun i => ok_of (cdesc i)) (ok_of dinfo) (ok_of dts)
                c_rt c_canon (fun x => rt_of dinfo x dinfo_wf) (fun b x => canon_of dinfo b x dinfo_wf)
                (fun t => rt_of dts t dts_wf) (fun b t => canon_of dts b t dts_wf) H_len st kvs Hwf Hval P)
      as [(st' & raw & Hp & P')|Hc]; [left|now right].
    exists st', raw. split; [exact Hp|split; [exact P'|]].
    apply root_perm. now rewrite P'.
  Qed.

  (* what the import recovers (components, services with their information, raw entries are service entries) *)
  Theorem desc_recovers st kvs :
    d_wf st -> d_valid st -> Permutation kvs (d_serialize st) ->
    (exists st' raw, d_parse kvs = Some (st', raw) /\
       recovered H val (fun i => enc_of (cdesc i)) val (enc_of dinfo) val (enc_of dts) st kvs st' raw)
    \/ d_coincidence st.
  Proof.
    exact (export_import_recovers H val (fun i => enc_of (cdesc i)) (fun i => dec_of (cdesc i)) zero_comp
             val (enc_of dinfo) (dec_of dinfo) zero_info val (enc_of dts) (dec_of dts)
             (fun i => ok_of (cdesc i)) (ok_of dinfo) (ok_of dts)
             c_rt c_canon (fun x => rt_of dinfo x dinfo_wf) (fun b x => canon_of dinfo b x dinfo_wf)
             (fun t => rt_of dts t dts_wf) (fun b t => canon_of dts b t dts_wf) H_len st kvs).
  Qed.

  (* the same with the coincidence decided: when the decision procedure finds none, the round trip holds *)
  Theorem desc_roundtrip_decided st kvs :
    d_wf st -> d_valid st -> d_coll_free st = true -> Permutation kvs (d_serialize st) ->
    exists st' raw, d_parse kvs = Some (st', raw) /\ Permutation (d_serialize st' ++ raw) kvs /\
                    root H (d_serialize st' ++ raw) = root H (d_serialize st).
  Proof.
    intros Hwf Hval Hc P.
    destruct (roundtrip_no_coincidence H val (fun i => enc_of (cdesc i)) (fun i => dec_of (cdesc i)) zero_comp
                val (enc_of dinfo) (dec_of dinfo) zero_info val (enc_of dts) (dec_of dts)
                (fun i => ok_of (cdesc i)) (ok_of dinfo) (ok_of dts)
                c_rt c_canon (fun x => rt_of dinfo x dinfo_wf) (fun b x => canon_of dinfo b x dinfo_wf)
                (fun t => rt_of dts t dts_wf) (fun b t => canon_of dts b t dts_wf) H_len st Hwf Hval
                (coll_free_true H val val val (enc_of dts) st Hc) kvs P) as (st' & raw & Hp & P' & _).
    exists st', raw. split; [exact Hp|split; [exact P'|]]. apply root_perm. now rewrite P'.
  Qed.

  (* the import side alone, any key-values, no property of the hash *)
  Theorem desc_import_export_any kvs st raw :
    NoDup (map fst kvs) -> d_parse kvs = Some (st, raw) ->
    (forall i, In i idx16 -> In (key_fixed i) (map fst kvs)) ->
    (forall s, In s (map fst (st_delta st)) -> s < 2 ^ 32 /\ In (key_svc_idx 255 s) (map fst kvs)) ->
    Permutation (d_serialize st ++ raw) kvs /\ root H (d_serialize st ++ raw) = root H kvs.
  Proof.
    intros Hn Hp Hf Hi.
    assert (P : Permutation (d_serialize st ++ raw) kvs).
    { exact (import_export_any H val (fun i => enc_of (cdesc i)) (fun i => dec_of (cdesc i)) zero_comp
               val (enc_of dinfo) (dec_of dinfo) zero_info val (enc_of dts) (dec_of dts)
               (fun i => ok_of (cdesc i)) (ok_of dinfo) (ok_of dts)
               c_canon (fun b x => canon_of dinfo b x dinfo_wf) (fun b t => canon_of dts b t dts_wf)
               kvs st raw Hn Hp Hf Hi). }
    split; [exact P|now apply root_perm].
  Qed.
End Descriptors.

(* ---------------------------------------------------------------------------------------------- *)
(* the descriptors of the node's types (Model/JamTypes.v), in the order of the state-component indices
   of D.2: alpha varphi beta gamma psi eta iota kappa lambda rho tau chi pi vartheta xi theta *)
Definition state_descs (p : params) : list desc :=
  [dAuthPools p; dAuthQueues p; dRecentBlocks; dSafroleState p; dDisputesRecords; dEntropyBuffer;
   dValidatorsData p; dValidatorsData p; dValidatorsData p; dAvailabilityAssignments p; dTimeSlot;
   dPrivileges p; dStatistics p; dReadyQueue p; dAccumulatedQueue p; dLastAccOut].
Definition state_desc (p : params) (i : N) : desc := nth (N.to_nat i - 1) (state_descs p) dUnit.

Lemma forallb_nth {A} (f : A -> bool) (l : list A) (d : A) n : forallb f l = true -> f d = true -> f (nth n l d) = true.
Proof.
  revert n. induction l as [|x l IH]; intros n Hl Hd; destruct n; cbn [nth]; try assumption;
    cbn [forallb] in Hl; apply andb_true_iff in Hl; destruct Hl; auto.
Qed.

Lemma state_descs_wf p : forallb wf_desc (state_descs p) = true.
Proof. unfold state_descs. cbn -[N.ltb N.leb two64 unlimited]. reflexivity. Qed.

Lemma state_desc_wf p i : wf_desc (state_desc p i) = true.
Proof. unfold state_desc. apply forallb_nth; [apply state_descs_wf|reflexivity]. Qed.

Lemma dServiceInfo_wf : wf_desc dServiceInfo = true. Proof. reflexivity. Qed.
Lemma dTimeSlotSet_wf : wf_desc dTimeSlotSet = true. Proof. reflexivity. Qed.

Section Jam.
  Variable H : bytes -> bytes.
  Hypothesis H_len : forall x, length (H x) = 32%nat.
  Variable p : params.
  Variable zero_comp : N -> val.
  Variable zero_info : val.

  Definition jam_serialize := d_serialize H (state_desc p) dServiceInfo dTimeSlotSet.
  Definition jam_parse := d_parse H (state_desc p) dServiceInfo dTimeSlotSet zero_comp zero_info.
  Definition jam_valid := d_valid (state_desc p) dServiceInfo dTimeSlotSet.
  Definition jam_wf := d_wf dTimeSlotSet.
  Definition jam_coincidence := d_coincidence H dTimeSlotSet.
  Definition jam_coll_free := d_coll_free H dTimeSlotSet.

  Theorem jam_roundtrip_root st kvs :
    jam_wf st -> jam_valid st -> Permutation kvs (jam_serialize st) ->
    (exists st' raw, jam_parse kvs = Some (st', raw) /\ Permutation (jam_serialize st' ++ raw) kvs /\
                     root H (jam_serialize st' ++ raw) = root H (jam_serialize st))
    \/ jam_coincidence st.
  Proof.
    exact (desc_roundtrip_root H H_len (state_desc p) dServiceInfo dTimeSlotSet (state_desc_wf p)
             dServiceInfo_wf dTimeSlotSet_wf zero_comp zero_info st kvs).
  Qed.

  Theorem jam_recovers st kvs :
    jam_wf st -> jam_valid st -> Permutation kvs (jam_serialize st) ->
    (exists st' raw, jam_parse kvs = Some (st', raw) /\
       recovered H val (fun i => enc_of (state_desc p i)) val (enc_of dServiceInfo) val (enc_of dTimeSlotSet) st kvs st' raw)
    \/ jam_coincidence st.
  Proof.
    exact (desc_recovers H H_len (state_desc p) dServiceInfo dTimeSlotSet (state_desc_wf p)
             dServiceInfo_wf dTimeSlotSet_wf zero_comp zero_info st kvs).
  Qed.

  Theorem jam_roundtrip_decided st kvs :
    jam_wf st -> jam_valid st -> jam_coll_free st = true -> Permutation kvs (jam_serialize st) ->
    exists st' raw, jam_parse kvs = Some (st', raw) /\ Permutation (jam_serialize st' ++ raw) kvs /\
                    root H (jam_serialize st' ++ raw) = root H (jam_serialize st).
  Proof.
    exact (desc_roundtrip_decided H H_len (state_desc p) dServiceInfo dTimeSlotSet (state_desc_wf p)
             dServiceInfo_wf dTimeSlotSet_wf zero_comp zero_info st kvs).
  Qed.

  Theorem jam_import_export_any kvs st raw :
    NoDup (map fst kvs) -> jam_parse kvs = Some (st, raw) ->
    (forall i, In i idx16 -> In (key_fixed i) (map fst kvs)) ->
    (forall s, In s (map fst (st_delta st)) -> s < 2 ^ 32 /\ In (key_svc_idx 255 s) (map fst kvs)) ->
    Permutation (jam_serialize st ++ raw) kvs /\ root H (jam_serialize st ++ raw) = root H kvs.
  Proof.
    exact (desc_import_export_any H (state_desc p) dServiceInfo dTimeSlotSet (state_desc_wf p)
             dServiceInfo_wf dTimeSlotSet_wf zero_comp zero_info kvs st raw).
  Qed.
End Jam.
