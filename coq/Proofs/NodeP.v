(* C26 — proofs about the node bookkeeping protocol of Model/Node.v. *)
From Coq Require Import List NArith Bool Lia.
From JamV Require Import Model.Node.
Import ListNotations.
Local Open Scope N_scope.

Section NodeP.
  Variable state : Type.
  Variable block : Type.
  Variable root : Type.
  Variable kvs : Type.
  Variable bhash : block -> N.
  Variable bparent : block -> N.
  Variable bslot : block -> N.
  Variable stf : state -> block -> state + N.
  Variable root_of : state -> root.
  Variable kv_of : state -> kvs.

  Notation node := (node state).
  Notation op := (op state block).
  Notation obs := (obs root kvs).
  Notation step := (step state block root kvs bhash bparent bslot stf root_of kv_of).
  Notation run := (run state block root kvs bhash bparent bslot stf root_of kv_of).
  Notation import := (import state block root kvs bhash bparent bslot stf root_of kv_of).
  Notation get_state := (get_state state root kvs root_of kv_of).
  Notation is_refusal := (is_refusal root kvs).
  Notation is_import := (is_import state block).
  Notation mask_ok := (mask_ok state block root kvs).
  Notation refused_mask := (refused_mask state block root kvs).

  (* a refused import returns the very same node *)
  Lemma import_refused_unchanged : forall (n n' : node) b ob,
    import n b = (n', ob) -> is_refusal ob = true -> n' = n.
  Proof.
    intros n n' b ob H R. unfold Node.import in H.
    destruct (import_pre state block bhash bparent bslot n b) as [[s a]|why].
    - destruct (stf s b) as [s'|k].
      + inversion H; subst. discriminate R.
      + inversion H; subst. reflexivity.
    - inversion H; subst. reflexivity.
  Qed.

  Lemma step_refused_unchanged : forall (n n' : node) o ob,
    step n o = (n', ob) -> is_import o = true -> is_refusal ob = true -> n' = n.
  Proof.
    intros n n' o ob H I R. destruct o; try discriminate I.
    cbn [Node.step] in H. eapply import_refused_unchanged; eauto.
  Qed.

  (* THE metamorphic theorem: deleting any set of refused imports from any history, started on any
     node, leaves every observable of the remaining operations unchanged. *)
  Theorem rejected_is_noop : forall (ops : list op) (n : node) (m : list bool),
    mask_ok m ops (run n ops) = true ->
    run n (remove_mask m ops) = remove_mask m (run n ops).
  Proof.
    induction ops as [|o ops IH]; intros n m H.
    - destruct m as [|[|] m]; reflexivity.
    - destruct m as [|d m]; [discriminate H|].
      cbn [Node.run] in *. destruct (step n o) as [n' ob] eqn:E.
      cbn [Node.mask_ok] in H. apply andb_true_iff in H. destruct H as [Hd Hm].
      destruct d.
      + apply andb_true_iff in Hd. destruct Hd as [I R].
        assert (n' = n) by (eapply step_refused_unchanged; eauto). subst n'.
        cbn [remove_mask]. apply IH. exact Hm.
      + cbn [remove_mask Node.run]. rewrite E. f_equal. apply IH. exact Hm.
  Qed.

  Lemma refused_mask_ok : forall (ops : list op) (obl : list obs),
    length ops = length obl -> mask_ok (refused_mask ops obl) ops obl = true.
  Proof.
    induction ops as [|o ops IH]; intros [|ob obl] L; try discriminate L; [reflexivity|].
    cbn [Node.refused_mask Node.mask_ok]. rewrite IH by (inversion L; reflexivity).
    destruct (is_import o && is_refusal ob); reflexivity.
  Qed.

  Lemma run_length : forall (ops : list op) (n : node), length (run n ops) = length ops.
  Proof.
    induction ops as [|o ops IH]; intros n; [reflexivity|].
    cbn [Node.run]. destruct (step n o). cbn [length]. f_equal. apply IH.
  Qed.

  (* instance: the node that never sees any refused block *)
  Corollary drop_all_refused : forall (ops : list op) (n : node),
    let m := refused_mask ops (run n ops) in
    run n (remove_mask m ops) = remove_mask m (run n ops).
  Proof.
    intros ops n m. apply rejected_is_noop. apply refused_mask_ok. symmetry. apply run_length.
  Qed.

  (* the clauses of the property text, one by one *)
  Corollary refused_keeps_every_state : forall (n n' : node) b ob,
    import n b = (n', ob) -> is_refusal ob = true -> forall h, get_state n' h = get_state n h.
  Proof. intros. erewrite (import_refused_unchanged n n'); eauto. Qed.

  Corollary refused_then_any_history : forall (n n' : node) b ob,
    import n b = (n', ob) -> is_refusal ob = true -> forall later, run n' later = run n later.
  Proof. intros. erewrite (import_refused_unchanged n n'); eauto. Qed.

  (* a block's accepted import makes exactly its posterior state available under its header hash,
     with the returned root *)
  Lemma lookup_head : forall h (s : state) l, lookup state h ((h, s) :: l) = Some s.
  Proof. intros. cbn [lookup]. rewrite N.eqb_refl. reflexivity. Qed.

  Theorem accepted_is_served : forall (n n' : node) b r k,
    import n b = (n', OAccepted r k) -> get_state n' (bhash b) = OState k r.
  Proof.
    intros n n' b r k H. unfold Node.import in H.
    destruct (import_pre state block bhash bparent bslot n b) as [[s a]|why]; [|discriminate H].
    destruct (stf s b) as [s'|e]; [|discriminate H].
    inversion H; subst. unfold Node.get_state. cbn [store]. rewrite lookup_head. reflexivity.
  Qed.

  (* SetState resets everything: what a node did before it is irrelevant. Two nodes (fresh or not)
     fed the same sequence from a SetState on produce identical observables and end in the same node. *)
  Theorem import_deterministic : forall (n1 n2 : node) h slot s a (ops : list op),
    run n1 (SetState h slot s a :: ops) = run n2 (SetState h slot s a :: ops).
  Proof. intros. reflexivity. Qed.
End NodeP.
