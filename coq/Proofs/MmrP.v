(* C19 — proofs about Model/Mmr.v *)
From JamV Require Import Base.Bytes Model.Mmr Proofs.MerkleP.
From Coq Require Import ZifyBool ZifyNat ZifyN Arith.
Ltac Zify.zify_post_hook ::= Z.div_mod_to_equations.

Lemma list_ind2 {A} (P : list A -> Prop) :
  P [] -> (forall a, P [a]) -> (forall a b t, P t -> P (a :: b :: t)) -> forall l, P l.
Proof.
  intros H0 H1 H2. fix IH 1. intros [|a [|b t]]; [exact H0 | apply H1 | apply H2, IH].
Qed.

Lemma replace_at_app (lo : peaks) o t v : replace_at (lo ++ o :: t) (length lo) v = lo ++ v :: t.
Proof. induction lo as [|a lo IH]; [reflexivity|]. cbn [app length replace_at]. f_equal. exact IH. Qed.

Lemma replace_at_length : forall (s : peaks) i v, length (replace_at s i v) = length s.
Proof. induction s as [|a s IH]; intros [|i] v; cbn; try reflexivity. f_equal. apply IH. Qed.

Lemma list_as_map_nth {A} (d : A) (l : list A) : l = map (fun i => nth i l d) (seq 0 (length l)).
Proof.
  induction l as [|a l IH]; [reflexivity|].
  cbn [length seq map nth]. f_equal. rewrite <- seq_shift, map_map. exact IH.
Qed.

Section MmrP.
Variable Hm : bytes -> bytes.
Notation P_ := (P_ Hm).
Notation append := (append Hm).
Notation mtree := (mtree Hm).
Notation mmr_of := (mmr_of Hm).
Notation peak_of := (peak_of Hm).
Notation carry := (carry Hm).

(* ------------------------------------------------------------------ fuel of P *)
Lemma P_fuel : forall f1 f2 (r : peaks) l n, length r - n < f1 -> length r - n < f2 -> P_ f1 r l n = P_ f2 r l n.
Proof.
  induction f1 as [|f1 IH]; intros f2 r l n H1 H2; [lia|].
  destruct f2; [lia|]. cbn [Mmr.P_].
  destruct (Nat.leb_spec (length r) n); [reflexivity|].
  destruct (nth n r None); [|reflexivity].
  apply IH; rewrite replace_at_length; lia.
Qed.

(* ------------------------------------------------------------------ arbitrary (restored) peak lists *)
Lemma P_holes : forall (r lo : peaks) l f, length r < f ->
  P_ f (lo ++ r) l (length lo) =
  lo ++ repeat None (first_hole r) ++ Some (carry r l) :: skipn (S (first_hole r)) r.
Proof.
  induction r as [|[c|] t IH]; intros lo l f Hf; (destruct f as [|f]; [lia|]); cbn [Mmr.P_].
  - rewrite app_nil_r. destruct (Nat.leb_spec (length lo) (length lo)); [|lia]. reflexivity.
  - rewrite app_length. cbn [length]. destruct (Nat.leb_spec (length lo + S (length t)) (length lo)); [lia|].
    rewrite nth_middle, replace_at_app.
    replace (lo ++ None :: t) with ((lo ++ [None]) ++ t) by (rewrite <- app_assoc; reflexivity).
    replace (S (length lo)) with (length (lo ++ [None])) by (rewrite app_length; cbn; lia).
    rewrite IH by (cbn [length] in Hf; lia).
    rewrite <- app_assoc. reflexivity.
  - rewrite app_length. cbn [length]. destruct (Nat.leb_spec (length lo + S (length t)) (length lo)); [lia|].
    rewrite nth_middle, replace_at_app. reflexivity.
Qed.

Theorem append_from_holes (r : peaks) l :
  append r l = repeat None (first_hole r) ++ Some (carry r l) :: skipn (S (first_hole r)) r.
Proof. unfold Mmr.append. apply (P_holes r [] l). lia. Qed.

Lemma weight_after : forall (r : peaks) i x,
  weight_from i (repeat None (first_hole r) ++ Some x :: skipn (S (first_hole r)) r) = weight_from i r + 2 ^ i.
Proof.
  induction r as [|[c|] t IH]; intros i x.
  - cbn. lia.
  - cbn [first_hole repeat app skipn weight_from]. rewrite IH. rewrite Nat.pow_succ_r'. lia.
  - cbn. lia.
Qed.

Theorem append_weight (r : peaks) l : weight (append r l) = weight r + 1.
Proof. rewrite append_from_holes. unfold weight. rewrite weight_after. reflexivity. Qed.

Theorem append_go_nil (r : peaks) : append_go Hm r None = r.
Proof. reflexivity. Qed.

(* ------------------------------------------------------------------ the bottom-up form of the range *)
Fixpoint pairs (cs : list bytes) : list bytes :=
  match cs with
  | a :: b :: t => Hm (a ++ b) :: pairs t
  | _ => []
  end.
Fixpoint odd_one (cs : list bytes) : option bytes :=
  match cs with
  | [] => None
  | [a] => Some a
  | _ :: _ :: t => odd_one t
  end.
Fixpoint mmr_lvl (fuel : nat) (cs : list bytes) : peaks :=
  match cs with
  | [] => []
  | _ => match fuel with
         | O => []
         | S f => odd_one cs :: mmr_lvl f (pairs cs)
         end
  end.
Definition mmr (cs : list bytes) : peaks := mmr_lvl (length cs) cs.

Lemma pairs_length : forall cs, length (pairs cs) = length cs / 2.
Proof.
  apply list_ind2; [reflexivity | reflexivity |].
  intros a b t IH. cbn [pairs length]. rewrite IH. lia.
Qed.

Lemma mmr_lvl_fuel : forall f1 f2 cs, length cs <= f1 -> length cs <= f2 -> mmr_lvl f1 cs = mmr_lvl f2 cs.
Proof.
  induction f1 as [|f1 IH]; intros f2 cs H1 H2.
  - destruct cs; [destruct f2; reflexivity | cbn in H1; lia].
  - destruct cs as [|a t]; [destruct f2; reflexivity|].
    destruct f2; [cbn in H2; lia|].
    cbn [mmr_lvl]. f_equal. apply IH; rewrite pairs_length; cbn [length] in *; lia.
Qed.

Lemma mmr_nil : mmr [] = [].
Proof. reflexivity. Qed.

Lemma mmr_step cs : cs <> [] -> mmr cs = odd_one cs :: mmr (pairs cs).
Proof.
  intros Hne. destruct cs as [|a t]; [congruence|]. unfold mmr. cbn [length mmr_lvl]. f_equal.
  apply mmr_lvl_fuel; rewrite pairs_length; cbn [length]; lia.
Qed.

Lemma pairs_snoc : forall cs l,
  match odd_one cs with
  | None => pairs (cs ++ [l]) = pairs cs /\ odd_one (cs ++ [l]) = Some l
  | Some c => pairs (cs ++ [l]) = pairs cs ++ [Hm (c ++ l)] /\ odd_one (cs ++ [l]) = None
  end.
Proof.
  intros cs l. revert cs. apply list_ind2.
  - split; reflexivity.
  - intros a. split; reflexivity.
  - intros a b t IH. cbn [odd_one app pairs]. destruct (odd_one t); destruct IH as [E1 E2]; rewrite E1, E2; split; reflexivity.
Qed.

Lemma mmr_length_le : forall n cs, length cs <= n -> length (mmr cs) <= length cs.
Proof.
  induction n as [|n IH]; intros cs Hn.
  - destruct cs; [cbn; lia | cbn in Hn; lia].
  - destruct cs as [|a t]; [cbn; lia|].
    rewrite mmr_step by discriminate. cbn [length].
    pose proof (pairs_length (a :: t)) as Hp. cbn [length] in *.
    pose proof (IH (pairs (a :: t)) ltac:(lia)). lia.
Qed.

(* P on the bottom-up form: appending one chunk at level |lo| *)
Lemma P_mmr : forall n cs, length cs <= n -> forall (lo : peaks) l f, length (mmr cs) < f ->
  P_ f (lo ++ mmr cs) l (length lo) = lo ++ mmr (cs ++ [l]).
Proof.
  induction n as [|n IH]; intros cs Hn lo l f Hf.
  - destruct cs; [|cbn in Hn; lia]. destruct f; [lia|]. cbn [Mmr.P_ app]. rewrite mmr_nil, app_nil_r.
    destruct (Nat.leb_spec (length lo) (length lo)); [|lia]. reflexivity.
  - destruct cs as [|a t].
    + destruct f; [lia|]. cbn [Mmr.P_ app]. rewrite mmr_nil, app_nil_r.
      destruct (Nat.leb_spec (length lo) (length lo)); [|lia]. reflexivity.
    + remember (a :: t) as cs eqn:Ecs.
      assert (Hne : cs <> []) by (subst; discriminate).
      assert (Hne' : cs ++ [l] <> []) by (subst; discriminate).
      rewrite (mmr_step cs Hne) in *. rewrite (mmr_step (cs ++ [l]) Hne').
      destruct f; [lia|]. cbn [Mmr.P_]. rewrite app_length. cbn [length].
      destruct (Nat.leb_spec (length lo + S (length (mmr (pairs cs)))) (length lo)); [lia|].
      rewrite nth_middle, !replace_at_app.
      pose proof (pairs_snoc cs l) as Hs.
      destruct (odd_one cs) as [c|]; destruct Hs as [E1 E2]; rewrite E1, E2.
      * replace (lo ++ None :: mmr (pairs cs)) with ((lo ++ [None]) ++ mmr (pairs cs)) by (rewrite <- app_assoc; reflexivity).
        replace (S (length lo)) with (length (lo ++ [None])) by (rewrite app_length; cbn; lia).
        rewrite IH; [rewrite <- app_assoc; reflexivity | | cbn [length] in Hf; lia].
        rewrite pairs_length. subst cs. cbn [length] in *. lia.
      * reflexivity.
Qed.

(* ------------------------------------------------------------------ bits of the item count *)
Lemma pairs_firstn : forall k l, firstn k (pairs l) = pairs (firstn (2 * k) l).
Proof.
  induction k as [|k IH]; intros l; [reflexivity|].
  replace (2 * S k) with (S (S (2 * k))) by lia.
  destruct l as [|a [|b t]]; try reflexivity.
  cbn [pairs firstn]. f_equal. apply IH.
Qed.

Lemma pairs_skipn : forall k l, skipn k (pairs l) = pairs (skipn (2 * k) l).
Proof.
  induction k as [|k IH]; intros l; [reflexivity|].
  replace (2 * S k) with (S (S (2 * k))) by lia.
  destruct l as [|a [|b t]]; try reflexivity.
  cbn [pairs skipn]. apply IH.
Qed.

Lemma mtree_pairs : forall i ys, 2 ^ S i <= length ys -> mtree (S i) ys = mtree i (pairs ys).
Proof.
  induction i as [|i IH]; intros ys Hy.
  - destruct ys as [|a [|b t]]; cbn in Hy; try lia. reflexivity.
  - pose proof (pow2_pos i) as Hp.
    assert (E1 : 2 ^ S i = 2 * 2 ^ i) by apply Nat.pow_succ_r'.
    assert (E2 : 2 ^ S (S i) = 2 * 2 ^ S i) by apply Nat.pow_succ_r'.
    change (mtree (S (S i)) ys) with (Hm (mtree (S i) (firstn (2 ^ S i) ys) ++ mtree (S i) (skipn (2 ^ S i) ys))).
    change (mtree (S i) (pairs ys)) with (Hm (mtree i (firstn (2 ^ i) (pairs ys)) ++ mtree i (skipn (2 ^ i) (pairs ys)))).
    rewrite !IH by (rewrite ?firstn_length, ?skipn_length; lia).
    rewrite pairs_firstn, pairs_skipn, <- E1. reflexivity.
Qed.

Lemma odd_one_spec : forall cs,
  odd_one cs = if Nat.testbit (length cs) 0 then Some (nth (2 * (length cs / 2)) cs []) else None.
Proof.
  apply list_ind2; [reflexivity | reflexivity |].
  intros a b t IH. cbn [odd_one length]. rewrite IH.
  rewrite !Nat.bit0_eqb.
  replace (S (S (length t)) mod 2) with (length t mod 2) by lia.
  destruct (length t mod 2 =? 1); [|reflexivity].
  replace (2 * (S (S (length t)) / 2)) with (S (S (2 * (length t / 2)))) by lia. reflexivity.
Qed.

Lemma testbit_slice m i : Nat.testbit m i = true -> 2 ^ S i * (m / 2 ^ S i) + 2 ^ i <= m.
Proof.
  intros Hb. apply Nat.testbit_true in Hb.
  pose proof (pow2_pos i) as Hp.
  assert (E : m / 2 ^ S i = m / 2 ^ i / 2) by (rewrite Nat.pow_succ_r', Nat.div_div by lia; f_equal; lia).
  rewrite E, Nat.pow_succ_r'.
  pose proof (Nat.div_mod (m / 2 ^ i) 2 ltac:(lia)) as D1.
  pose proof (Nat.div_mod m (2 ^ i) ltac:(lia)) as D2.
  nia.
Qed.

Lemma nth_mmr : forall i cs,
  nth i (mmr cs) None =
  if Nat.testbit (length cs) i
  then Some (mtree i (firstn (2 ^ i) (skipn (2 ^ S i * (length cs / 2 ^ S i)) cs)))
  else None.
Proof.
  induction i as [|i IH]; intros cs.
  - destruct cs as [|a t]; [reflexivity|].
    rewrite mmr_step by discriminate. cbn [nth]. rewrite odd_one_spec.
    destruct (Nat.testbit (length (a :: t)) 0) eqn:Hb; [|reflexivity].
    f_equal. change (2 ^ 1) with 2. change (2 ^ 0) with 1.
    pose proof (testbit_slice _ _ Hb) as Hs. change (2 ^ 1) with 2 in Hs. change (2 ^ 0) with 1 in Hs.
    rewrite (skipn_cons_nth (A:=bytes) [] (a :: t) (2 * (length (a :: t) / 2))) by lia.
    reflexivity.
  - destruct cs as [|a t]; [rewrite mmr_nil; cbn [length]; rewrite Nat.bits_0; reflexivity|].
    remember (a :: t) as cs eqn:Ecs.
    rewrite mmr_step by (subst; discriminate). cbn [nth]. rewrite IH, pairs_length.
    rewrite Nat.div2_bits.
    destruct (Nat.testbit (length cs) (S i)) eqn:Hb; [|reflexivity].
    f_equal.
    pose proof (testbit_slice _ _ Hb) as Hs.
    pose proof (pow2_pos i) as Hp.
    assert (E1 : 2 ^ S i = 2 * 2 ^ i) by apply Nat.pow_succ_r'.
    assert (E2 : 2 ^ S (S i) = 2 * 2 ^ S i) by apply Nat.pow_succ_r'.
    assert (Eq : length cs / 2 / 2 ^ S i = length cs / 2 ^ S (S i)).
    { rewrite E2, Nat.div_div by lia. reflexivity. }
    rewrite Eq, pairs_skipn, pairs_firstn.
    rewrite <- E1. replace (2 * (2 ^ S i * (length cs / 2 ^ S (S i)))) with (2 ^ S (S i) * (length cs / 2 ^ S (S i))) by lia.
    symmetry. apply mtree_pairs.
    rewrite firstn_length, skipn_length. lia.
Qed.

Lemma bitlen_half n : 0 < n -> bitlen n = S (bitlen (n / 2)).
Proof.
  intros Hn. unfold bitlen at 1. destruct n as [|n']; [lia|]. f_equal.
  set (n := S n') in *.
  destruct (Nat.eq_dec (n / 2) 0) as [E0|E0].
  - assert (n = 1) by lia. rewrite E0. replace n with 1 by lia. reflexivity.
  - unfold bitlen. destruct (n / 2) as [|q'] eqn:Eq; [lia|]. rewrite <- Eq.
    assert (Hq : 0 < n / 2) by lia.
    destruct (Nat.eq_dec (n mod 2) 0) as [Em|Em].
    + replace n with (2 * (n / 2)) at 1 by lia. apply Nat.log2_double. exact Hq.
    + replace n with (2 * (n / 2) + 1) at 1 by lia. apply Nat.log2_succ_double. exact Hq.
Qed.

Lemma mmr_length : forall n cs, length cs <= n -> length (mmr cs) = bitlen (length cs).
Proof.
  induction n as [|n IH]; intros cs Hn.
  - destruct cs; [reflexivity | cbn in Hn; lia].
  - destruct cs as [|a t]; [reflexivity|].
    remember (a :: t) as cs eqn:Ecs.
    assert (Hpos : 0 < length cs) by (subst; cbn; lia).
    rewrite mmr_step by (subst; discriminate). cbn [length].
    rewrite IH by (rewrite pairs_length; lia).
    rewrite pairs_length. symmetry. apply bitlen_half. exact Hpos.
Qed.

Theorem mmr_of_bottom_up (xs : list bytes) : mmr_of xs = mmr xs.
Proof.
  rewrite (list_as_map_nth None (mmr xs)). rewrite (mmr_length _ xs (le_n _)).
  unfold Mmr.mmr_of. apply map_ext. intros i. unfold Mmr.peak_of. rewrite nth_mmr. reflexivity.
Qed.

(* ------------------------------------------------------------------ C19 main theorems *)
Theorem mmr_append_spec (xs : list bytes) (x : bytes) : append (mmr_of xs) x = mmr_of (xs ++ [x]).
Proof.
  rewrite !mmr_of_bottom_up. unfold Mmr.append.
  apply (P_mmr (length xs) xs (le_n _) [] x). lia.
Qed.

Theorem mmr_peaks (xs : list bytes) i : nth i (mmr_of xs) None = peak_of xs i.
Proof. rewrite mmr_of_bottom_up. unfold Mmr.peak_of. apply nth_mmr. Qed.

Theorem mmr_peak_present (xs : list bytes) i :
  nth i (mmr_of xs) None <> None <-> Nat.testbit (length xs) i = true.
Proof.
  rewrite mmr_peaks. unfold Mmr.peak_of. destruct (Nat.testbit (length xs) i); split; congruence.
Qed.

Theorem mmr_history (xs : list bytes) : append_all Hm [] xs = mmr_of xs.
Proof.
  induction xs as [|x xs IH] using rev_ind; [reflexivity|].
  unfold append_all in *. rewrite fold_left_app. cbn [fold_left]. rewrite IH. apply mmr_append_spec.
Qed.

Theorem mmr_weight (xs : list bytes) : weight (mmr_of xs) = length xs.
Proof.
  rewrite <- mmr_history.
  induction xs as [|x xs IH] using rev_ind; [reflexivity|].
  unfold append_all in *. rewrite fold_left_app. cbn [fold_left]. rewrite append_weight, IH, app_length. reflexivity.
Qed.

End MmrP.

(* ------------------------------------------------------------------ super-peak *)
Section SuperPeakP.
Variable K : bytes -> bytes.

Lemma somes_map_Some (hs : list bytes) : somes (map Some hs) = hs.
Proof. induction hs; cbn; congruence. Qed.

Theorem superpeak_none (b : peaks) : somes b = [] -> superpeak K b = zero32.
Proof. unfold superpeak. intros ->. reflexivity. Qed.

Theorem superpeak_one (b : peaks) h : somes b = [h] -> superpeak K b = h.
Proof. unfold superpeak. intros ->. reflexivity. Qed.

Theorem superpeak_more (b : peaks) hs x : hs <> [] -> somes b = hs ++ [x] ->
  superpeak K b = K (peak_tag ++ superpeak K (map Some hs) ++ x).
Proof.
  unfold superpeak. intros Hne ->. rewrite somes_map_Some, rev_app_distr. cbn [rev app].
  destruct (rev hs) as [|y r] eqn:Er.
  - apply (f_equal (@rev bytes)) in Er. rewrite rev_involutive in Er. cbn in Er. congruence.
  - reflexivity.
Qed.

Lemma mr_rev_cons x (r : list bytes) : r <> [] -> mr_rev K (x :: r) = K (peak_tag ++ mr_rev K r ++ x).
Proof. destruct r; [congruence | reflexivity]. Qed.

Theorem superpeak_fold_refines (b : peaks) : superpeak_fold K b = superpeak K b.
Proof.
  unfold superpeak_fold, superpeak. destruct (somes b) as [|h0 t]; [reflexivity|].
  induction t as [|x t IH] using rev_ind; [reflexivity|].
  rewrite fold_left_app. cbn [fold_left].
  rewrite app_comm_cons, rev_app_distr. cbn [rev app].
  rewrite mr_rev_cons by (destruct (rev t); discriminate).
  f_equal. f_equal. f_equal. exact IH.
Qed.

End SuperPeakP.
