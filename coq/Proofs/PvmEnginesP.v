(* C02 — proofs about Model/PvmEngines.v: each engine of the Go interpreter (as repaired) computes the
   Gray Paper machine [PvmRun.run]; hence the two engines agree, also across host calls; the table
   of the block engine is sound; the engines of the unrepaired tree differ (witnesses). *)
From JamV Require Import Model.NatCodec Model.PvmEngines Proofs.PvmCodeP Proofs.PvmMemP Proofs.PvmAluP Proofs.PvmStepP Proofs.PvmRunP.
From Coq Require Import ZifyBool ZifyNat ZifyN.
Local Open Scope Z_scope.
Ltac Zify.zify_post_hook ::= Z.div_mod_to_equations.

(* ---- the shared per-opcode function ---- *)
Lemma exec_d_exec : forall p pc r m,
  exec p pc r m = exec_d p pc (opcode_at p pc) (decode p pc) (skip p pc) r m.
Proof. reflexivity. Qed.

Definition ctl_instr (i : instr) : bool :=
  match i with
  | IJump | IJumpInd | ILoadImmJump | IBranchImm _ | IBranch _ | ILoadImmJumpInd => true
  | _ => false
  end.

Lemma ctl_sweep :
  forallb (fun n => let o := Z.of_nat n in Bool.eqb (is_ctl o) (ctl_instr (instr_of o))) (seq 0 231) = true.
Proof. vm_compute. reflexivity. Qed.

Lemma is_ctl_instr : forall o, 0 <= o <= 230 -> is_ctl o = ctl_instr (instr_of o).
Proof.
  intros o H. pose proof ctl_sweep as S. rewrite forallb_forall in S.
  specialize (S (Z.to_nat o)). rewrite Z2Nat.id in S by lia.
  assert (I : In (Z.to_nat o) (seq 0 231)) by (apply in_seq; lia).
  specialize (S I). cbv zeta in S. apply Bool.eqb_prop in S. exact S.
Qed.

Lemma norm_op_range : forall o, 0 <= norm_op o <= 230.
Proof.
  intros o. unfold norm_op. destruct (valid_op o) eqn:E; [|lia]. unfold valid_op in E. lia.
Qed.

Lemma norm_op_zeta : forall p pc, norm_op (zeta p pc) = opcode_at p pc.
Proof. reflexivity. Qed.

Lemma is_term_valid : forall o, is_term o = true -> valid_op o = true.
Proof. intros o H. unfold is_term in H. unfold valid_op. lia. Qed.

(* the raw opcode byte and the opcode it executes as agree on being a jump or branch *)
Lemma is_ctl_norm : forall o, is_ctl (norm_op o) = is_ctl o.
Proof.
  intros o. unfold norm_op. destruct (valid_op o) eqn:E; [reflexivity|].
  unfold is_ctl. destruct (is_term o) eqn:T.
  - apply is_term_valid in T. congruence.
  - cbn. rewrite Bool.andb_false_r. reflexivity.
Qed.

(* a handler that is not a jump or branch continues at pc + 1 + l; so does a host call *)
Lemma exec_d_next : forall p pc o ar l r m e t r' m', 0 <= o <= 230 ->
  exec_d p pc o ar l r m = (e, t, r', m') ->
  (e = Continue -> is_ctl o = false -> t = pc + 1 + l) /\ (forall id, e = Host id -> t = pc + 1 + l).
Proof.
  intros p pc o ar l r m e t r' m' Ho H. rewrite (is_ctl_instr o Ho).
  unfold exec_d in H. destruct (instr_of o) eqn:EI; cbn [ctl_instr];
    try solve [ inj4 H; split; [intros; reflexivity || discriminate | intros; first [reflexivity|discriminate]] ];
    try solve [ apply do_store_cases in H; destruct H as [_ [[_ [-> ->]]|[[_ [-> _]]|[f [_ [-> _]]]]]];
                split; intros; first [reflexivity|discriminate] ];
    try solve [ apply do_load_cases in H; destruct H as [_ [[v [_ [-> [-> _]]]]|[[_ [-> _]]|[f [_ [-> _]]]]]];
                split; intros; first [reflexivity|discriminate] ];
    try solve [ destruct (branch _ _ _ _) as [e0 t0] eqn:B; inj4 H; apply branch_cases in B;
                destruct B as [[-> _]|[-> ->]]; split; intros; discriminate ];
    try solve [ destruct (djump _ _) as [e0 t0] eqn:B; inj4 H; apply djump_cases in B;
                destruct B as [[-> _]|[[-> ->]|[-> ->]]]; split; intros; discriminate ].
  - (* ISbrk *) destruct (sbrk m _) as [v m2]. inj4 H. split; intros; first [reflexivity|discriminate].
Qed.

(* reading the operands back from the InstrMeta fields gives the handler what decode gave *)
Definition with_fields (e : imeta) (f : nat * nat * nat * Z * Z) : imeta :=
  let '(d, s0, s1, i0, i1) := f in
  {| m_pc := m_pc e; m_op := m_op e; m_skip := m_skip e; m_dst := d; m_src0 := s0; m_src1 := s1; m_imm0 := i0; m_imm1 := i1 |}.

Lemma exec_d_meta : forall p pc o ar l r m e0, 0 <= o <= 230 ->
  exec_d p pc o (meta_args (instr_of o) (with_fields e0 (meta_fields (cat_of o) ar))) l r m = exec_d p pc o ar l r m.
Proof.
  intros p pc o ar l r m e0 Ho. rewrite (proj1 (instr_facts o Ho)).
  unfold exec_d. destruct (instr_of o); reflexivity.
Qed.

(* ================================================================================================
   M1 (repaired) is the Gray Paper machine
   ================================================================================================ *)
Lemma step1_step : forall p pc s, step1 fixed p pc s = step p pc s.
Proof.
  intros p pc s. unfold step1. cbn [fixed q_end_free q_regs_end_halt q_host_own q_fault_adv q_self_fall].
  destruct (code_len p <=? pc) eqn:EN.
  - destruct (gas s <? 1) eqn:G.
    + rewrite step_oog by lia. reflexivity.
    + rewrite step_past_end by lia. reflexivity.
  - cbn [andb]. unfold step. destruct (gas s <? 1) eqn:G; [reflexivity|].
    rewrite exec_d_exec.
    destruct (exec_d p pc (opcode_at p pc) (decode p pc) (skip p pc) (regs s) (mem s)) as [[[e t] r'] m'] eqn:E.
    pose proof (exec_d_next _ _ _ _ _ _ _ _ _ _ _ (opcode_at_range p pc) E) as [NC NH].
    unfold charged. destruct e; try reflexivity.
    + (* Continue *) unfold handler_pc. cbn [fixed q_self_fall].
      destruct (is_ctl (opcode_at p pc)) eqn:C; [reflexivity|].
      rewrite (NC eq_refl eq_refl). f_equal. f_equal. lia.
    + (* Host *) rewrite (NH id eq_refl). f_equal. f_equal. lia.
Qed.

Lemma run_steps_run : forall fuel p pc s, run_steps fixed fuel p pc s = run fuel p pc s.
Proof.
  induction fuel as [|f IH]; intros p pc s; cbn [run_steps run]; [reflexivity|].
  rewrite step1_step. destruct (step p pc s) as [[e pc'] s']. destruct e; try reflexivity. apply IH.
Qed.

(* ================================================================================================
   M2: one InstrMeta executed by the inner loop = one step of the Gray Paper machine
   ================================================================================================ *)
Lemma entry_of_eq : forall p pc,
  entry_of p pc =
  with_fields {| m_pc := pc; m_op := zeta p pc; m_skip := skip p pc; m_dst := O; m_src0 := O; m_src1 := O; m_imm0 := 0; m_imm1 := 0 |}
              (meta_fields (cat_of (opcode_at p pc)) (decode p pc)).
Proof.
  intros. unfold entry_of, with_fields.
  destruct (meta_fields (cat_of (opcode_at p pc)) (decode p pc)) as [[[[d s0] s1] i0] i1]. reflexivity.
Qed.

Lemma with_fields_pc : forall e f, m_pc (with_fields e f) = m_pc e.
Proof. intros e [[[[d s0] s1] i0] i1]. reflexivity. Qed.
Lemma with_fields_op : forall e f, m_op (with_fields e f) = m_op e.
Proof. intros e [[[[d s0] s1] i0] i1]. reflexivity. Qed.
Lemma with_fields_skip : forall e f, m_skip (with_fields e f) = m_skip e.
Proof. intros e [[[[d s0] s1] i0] i1]. reflexivity. Qed.

Lemma entry_pc : forall p pc, m_pc (entry_of p pc) = pc.
Proof. intros. rewrite entry_of_eq, with_fields_pc. reflexivity. Qed.
Lemma entry_op : forall p pc, m_op (entry_of p pc) = zeta p pc.
Proof. intros. rewrite entry_of_eq, with_fields_op. reflexivity. Qed.
Lemma entry_skip : forall p pc, m_skip (entry_of p pc) = skip p pc.
Proof. intros. rewrite entry_of_eq, with_fields_skip. reflexivity. Qed.

(* what the engine does with the outcome (e, pc', s') of the instruction at pc0 *)
Definition bnext (p : prog) (pc0 : Z) (rest : list imeta) (pc : Z) (r : exit * Z * st) : bres :=
  let '(e, pc', s') := r in
  match e with
  | Continue => if is_ctl (zeta p pc0) then BNext [] pc' s'
                else match rest with [] => BNext [] pc' s' | _ => BNext rest pc s' end
  | _ => BDone (e, pc', s')
  end.

Lemma bins_step : forall p pc0 rest pc s,
  bins p (entry_of p pc0) rest pc s = bnext p pc0 rest pc (step p pc0 s).
Proof.
  intros p pc0 rest pc s. unfold bins, step.
  rewrite entry_pc, entry_op, entry_skip.
  destruct (gas s <? 1) eqn:G; [reflexivity|].
  rewrite norm_op_zeta. rewrite entry_of_eq at 1.
  rewrite (exec_d_meta p pc0 (opcode_at p pc0) (decode p pc0) (skip p pc0) (regs s) (mem s) _ (opcode_at_range p pc0)).
  rewrite exec_d_exec.
  destruct (exec_d p pc0 (opcode_at p pc0) (decode p pc0) (skip p pc0) (regs s) (mem s)) as [[[e t] r'] m'] eqn:E.
  pose proof (exec_d_next _ _ _ _ _ _ _ _ _ _ _ (opcode_at_range p pc0) E) as [NC NH].
  unfold charged, bnext. destruct e; try reflexivity.
  - (* Continue *) rewrite <- norm_op_zeta, is_ctl_norm in NC.
    destruct (is_ctl (zeta p pc0)) eqn:C; [reflexivity|].
    rewrite (NC eq_refl eq_refl). destruct rest; [|reflexivity]. f_equal. lia.
  - (* Host *) rewrite (NH id eq_refl). f_equal. f_equal. f_equal. lia.
Qed.

Lemma step_next_nonctl : forall p pc0 s pc' s', step p pc0 s = (Continue, pc', s') ->
  is_ctl (zeta p pc0) = false -> pc' = pc0 + 1 + skip p pc0.
Proof.
  intros p pc0 s pc' s' H C. unfold step in H. destruct (gas s <? 1); [discriminate|].
  rewrite exec_d_exec in H.
  destruct (exec_d p pc0 (opcode_at p pc0) (decode p pc0) (skip p pc0) (regs s) (mem s)) as [[[e t] r'] m'] eqn:E.
  pose proof (exec_d_next _ _ _ _ _ _ _ _ _ _ _ (opcode_at_range p pc0) E) as [NC _].
  rewrite <- norm_op_zeta, is_ctl_norm in NC.
  destruct e; inversion H; subst. apply NC; auto.
Qed.

(* a slice of table entries that the engine may run through: every entry is the decode of the code at its
   own counter, and each entry sits where its predecessor's fall-through leads *)
Fixpoint chain (p : prog) (l : list imeta) : Prop :=
  match l with
  | [] => True
  | e :: t => e = entry_of p (m_pc e) /\
              match t with [] => True | e' :: _ => m_pc e' = m_pc e + m_skip e + 1 end /\
              chain p t
  end.

Definition cur_pc (cur : list imeta) (pc : Z) : Z := match cur with e :: _ => m_pc e | [] => pc end.

(* what the block engine needs of its table (established for [predecode p] below) *)
Definition table_ok (p : prog) (tb : table) : Prop :=
  forall pc, pc < code_len p ->
  match fetch tb pc with
  | FSlice sl => sl <> [] /\ chain p sl /\ cur_pc sl pc = pc
  | FPanic => False
  | FNone => True
  end.

Lemma run_b_run : forall p tb, table_ok p tb ->
  forall fuel cur pc s, chain p cur -> run_b fixed fuel tb p cur pc s = run fuel p (cur_pc cur pc) s.
Proof.
  intros p tb OK. induction fuel as [|f IH]; intros cur pc s CH; [reflexivity|].
  assert (INS : forall ins rest, chain p (ins :: rest) ->
            match bins p ins rest pc s with BDone r => Some r | BNext c pc' s' => run_b fixed f tb p c pc' s' end
            = run (S f) p (m_pc ins) s).
  { intros ins rest (E & L & CR). rewrite E, bins_step, entry_pc. cbn [run].
    destruct (step p (m_pc ins) s) as [[e pc'] s'] eqn:St. unfold bnext.
    destruct e; try reflexivity.
    destruct (is_ctl (zeta p (m_pc ins))) eqn:C.
    - rewrite IH by exact I. reflexivity.
    - pose proof (step_next_nonctl _ _ _ _ _ St C) as ->.
      destruct rest as [|e' rest'].
      + rewrite IH by exact I. reflexivity.
      + rewrite IH by exact CR. cbn [cur_pc]. rewrite L, E, entry_pc, entry_skip. f_equal. lia. }
  cbn [run_b]. destruct cur as [|ins rest]; cbn [bstep cur_pc].
  - destruct (code_len p <=? pc) eqn:EN.
    + cbn [run]. destruct (gas s <? 1) eqn:G.
      * rewrite step_oog by lia. reflexivity.
      * rewrite step_past_end by lia. reflexivity.
    + specialize (OK pc ltac:(lia)). destruct (fetch tb pc) as [sl| |].
      * destruct OK as (NE & CS & HP). destruct sl as [|ins rest]; [congruence|].
        cbn [cur_pc] in HP. transitivity (run (S f) p (m_pc ins) s); [apply INS; exact CS|rewrite HP; reflexivity].
      * contradiction.
      * cbn [fixed q_no_demand].
        transitivity (run (S f) p (m_pc (entry_of p pc)) s); [|rewrite entry_pc; reflexivity].
        apply INS. cbn [chain]. rewrite entry_pc. auto.
  - apply INS. exact CH.
Qed.

(* ================================================================================================
   preDecodeBlocks: invariants of the scan, soundness of the table
   ================================================================================================ *)
Lemma nth_error_snoc : forall {A} (l : list A) x i e, nth_error (l ++ [x]) i = Some e ->
  ((i < length l)%nat /\ nth_error l i = Some e) \/ (i = length l /\ e = x).
Proof.
  intros A l x i e H. destruct (Nat.lt_ge_cases i (length l)) as [L|L].
  - left. rewrite nth_error_app1 in H by assumption. auto.
  - right. rewrite nth_error_app2 in H by assumption.
    destruct (i - length l)%nat as [|k] eqn:K; cbn in H.
    + inversion H; subst. split; [lia|reflexivity].
    + destruct k; discriminate.
Qed.

Lemma nth_error_snoc_last : forall {A} (l : list A) x, nth_error (l ++ [x]) (length l) = Some x.
Proof. intros. rewrite nth_error_app2 by lia. rewrite Nat.sub_diag. reflexivity. Qed.

Lemma skipn_app_le : forall {A} (l x : list A) a, (a <= length l)%nat -> skipn a (l ++ x) = skipn a l ++ x.
Proof.
  intros A l x a H. rewrite skipn_app. replace (a - length l)%nat with O by lia. reflexivity.
Qed.

Lemma skipn_nth : forall {A} (l : list A) a e, nth_error l a = Some e -> skipn a l = e :: skipn (S a) l.
Proof.
  intros A l; induction l as [|x l IH]; intros a e H; destruct a; cbn in *; try discriminate.
  - inversion H; reflexivity.
  - apply IH; assumption.
Qed.

Definition nonterm (e : imeta) : Prop := is_term (m_op e) = false.

Lemma upto_term_snoc : forall l e, Forall nonterm l -> is_term (m_op e) = true -> upto_term (l ++ [e]) = Some (l ++ [e]).
Proof.
  induction l as [|x l IH]; intros e F T; cbn [app upto_term].
  - rewrite T. reflexivity.
  - inversion F as [|? ? Hx Hl]; subst. unfold nonterm in Hx. rewrite Hx. rewrite IH by assumption. reflexivity.
Qed.

Lemma upto_term_stable : forall l x sl, upto_term l = Some sl -> upto_term (l ++ x) = Some sl.
Proof.
  induction l as [|e l IH]; intros x sl H; cbn [app upto_term] in *; [discriminate|].
  destruct (is_term (m_op e)); [assumption|].
  destruct (upto_term l) as [sl'|] eqn:U; [|discriminate]. rewrite (IH x sl' eq_refl). assumption.
Qed.

Lemma upto_term_prefix : forall l sl, upto_term l = Some sl -> firstn (length sl) l = sl.
Proof.
  induction l as [|e l IH]; intros sl H; cbn [upto_term] in H; [discriminate|].
  destruct (is_term (m_op e)).
  - inversion H; subst. reflexivity.
  - destruct (upto_term l) as [sl'|] eqn:U; [|discriminate]. inversion H; subst. cbn. f_equal. apply IH. reflexivity.
Qed.

Lemma upto_term_nonempty : forall l sl, upto_term l = Some sl -> l <> [].
Proof. intros [|e l] sl H; [discriminate|congruence]. Qed.

Lemma aget_cons : forall {A} k k' (v : A) l, aget k ((k', v) :: l) = if k' =? k then Some v else aget k l.
Proof. reflexivity. Qed.

Section Scan.
  Variable p : prog.
  Hypothesis Hlen : length (mask p) = length (code p).

  Lemma kbit_past_end : forall i, code_len p <= i -> kbit p i = true.
  Proof.
    intros i H. unfold kbit. destruct (i <? 0) eqn:E; [reflexivity|].
    apply nth_overflow. unfold code_len in H. rewrite Hlen. lia.
  Qed.

  Lemma skip_past_end : forall pc, code_len p <= pc -> skip p pc = 0.
  Proof.
    intros pc H. destruct (skip_spec p pc) as [A _]. pose proof (skip_le_24 p pc) as B.
    destruct (Z.eq_dec (skip p pc) 0) as [|NE]; [assumption|].
    specialize (A 0 ltac:(lia)). rewrite kbit_past_end in A by lia. discriminate.
  Qed.

  Lemma trap_entry_eq : forall pc, code_len p <= pc -> trap_entry pc = entry_of p pc.
  Proof.
    intros pc H. unfold entry_of, opcode_at. rewrite (zeta_past_end p pc H), (skip_past_end pc H). reflexivity.
  Qed.

  Notation instrs st := (t_instrs (s_tab st)).
  Notation idxs st := (t_idx (s_tab st)).
  Notation blocks st := (t_blocks (s_tab st)).

  Record inv (st : pstate) : Prop := {
    inv_instr : forall i e, nth_error (instrs st) i = Some e -> e = entry_of p (m_pc e);
    inv_idx : forall pc a, aget pc (idxs st) = Some a -> exists e, nth_error (instrs st) a = Some e /\ m_pc e = pc;
    inv_keys : forall pc a, aget pc (idxs st) = Some a -> 0 <= pc < s_pc st /\ pc < code_len p;
    inv_succ : forall i e, nth_error (instrs st) i = Some e -> nonterm e ->
        match nth_error (instrs st) (S i) with
        | Some e' => m_pc e' = m_pc e + m_skip e + 1
        | None => s_open st <> None /\ s_pc st = m_pc e + m_skip e + 1
        end;
    inv_blocks : forall bpc a b, aget bpc (blocks st) = Some (a, b) ->
        aget bpc (idxs st) = Some a /\ exists sl, upto_term (skipn a (instrs st)) = Some sl /\ (b - a)%nat = length sl;
    inv_open : match s_open st with
               | Some (bpc, bidx) => aget bpc (idxs st) = Some bidx /\ (bidx < length (instrs st))%nat /\
                                     Forall nonterm (skipn bidx (instrs st))
               | None => True
               end;
    inv_pc : 0 <= s_pc st
  }.

  Lemma inv_init : inv {| s_pc := 0; s_open := None; s_tab := empty_table |}.
  Proof.
    constructor; cbn; try (intros; discriminate); try exact I; try lia.
    - intros i e H. destruct i; discriminate.
    - intros i e H. destruct i; discriminate.
  Qed.

  (* one iteration of the inner loop keeps the invariant, whether it continues the open block or
     opens a fresh one at an instruction start *)
  Lemma body_inv : forall st bpc bidx, inv st ->
    (s_open st = Some (bpc, bidx) \/
     (s_open st = None /\ s_pc st < code_len p /\ bpc = s_pc st /\ bidx = length (instrs st))) ->
    inv (scan_body p (s_pc st) bpc bidx (s_tab st)).
  Proof.
    intros st bpc bidx V HO. destruct V as [Vi Vx Vk Vs Vb Vo Vp].
    set (pc := s_pc st) in *. set (l := instrs st) in *.
    (* facts about the block being filled *)
    assert (HB : (bidx <= length l)%nat /\ Forall nonterm (skipn bidx l) /\
                 (forall k, aget bpc ((k, length l) :: idxs st) = Some bidx \/ True)) by
      (destruct HO as [O|(O & _ & _ & ->)];
       [rewrite O in Vo; destruct Vo as (_ & L & F); split; [lia|split; [exact F|auto]]
       |split; [lia|split; [rewrite skipn_all; constructor|auto]]]).
    destruct HB as (BL & BF & _).
    assert (BK : code_len p <= pc -> aget bpc (idxs st) = Some bidx).
    { intros E. destruct HO as [O|(O & L & _ & _)]; [rewrite O in Vo; apply Vo|unfold pc in E; lia]. }
    assert (BK2 : aget bpc ((pc, length l) :: idxs st) = Some bidx).
    { rewrite aget_cons. destruct HO as [O|(O & L & -> & ->)].
      - rewrite O in Vo. destruct Vo as (K & _ & _). destruct (Vk _ _ K) as [K1 _].
        destruct (pc =? bpc) eqn:E; [unfold pc in E; lia|exact K].
      - unfold pc. rewrite Z.eqb_refl. reflexivity. }
    assert (LAST : forall i e, nth_error l i = Some e -> nonterm e -> S i = length l -> m_pc e + m_skip e + 1 = pc).
    { intros i e N NT SL. specialize (Vs i e N NT). rewrite (proj2 (nth_error_None l (S i))) in Vs by lia.
      destruct Vs as [_ ->]. reflexivity. }
    unfold scan_body. fold l. destruct (code_len p <=? pc) eqn:EN.
    - (* implicit trap *)
      constructor; cbn [s_pc s_open s_tab t_instrs t_idx t_blocks]; fold l.
      + intros i e N. apply nth_error_snoc in N. destruct N as [[_ N]|[_ ->]]; [eauto|].
        cbn [trap_entry m_pc]. apply trap_entry_eq. lia.
      + intros k a K. destruct (Vx k a K) as (e & N & M). exists e. split; [|exact M].
        rewrite nth_error_app1; [exact N|]. apply nth_error_Some. congruence.
      + exact Vk.
      + intros i e N NT. apply nth_error_snoc in N. destruct N as [[L N]|[_ ->]].
        * destruct (Nat.eq_dec (S i) (length l)) as [E|NE].
          -- rewrite E, nth_error_snoc_last. cbn [trap_entry m_pc]. symmetry. eapply LAST; eassumption.
          -- specialize (Vs i e N NT). rewrite nth_error_app1 by lia.
             destruct (nth_error l (S i)) eqn:N2; [exact Vs|]. apply nth_error_None in N2. lia.
        * unfold nonterm in NT. cbn in NT. discriminate.
      + intros k a b. rewrite aget_cons. destruct (bpc =? k) eqn:E.
        * intros H; inversion H; subst a b. assert (k = bpc) by lia. subst k. split; [apply BK; lia|].
          exists (skipn bidx l ++ [trap_entry pc]). rewrite skipn_app_le by lia. split.
          -- apply upto_term_snoc; [exact BF|reflexivity].
          -- rewrite app_length, skipn_length. cbn [length]. lia.
        * intros H. destruct (Vb k a b H) as (K & sl & U & LN). split; [exact K|]. exists sl. split; [|exact LN].
          rewrite skipn_app_le; [apply upto_term_stable; exact U|].
          pose proof (upto_term_nonempty _ _ U) as NE2. destruct (Nat.le_gt_cases a (length l)); [assumption|].
          rewrite skipn_all2 in NE2 by lia. congruence.
      + exact I.
      + exact Vp.
    - (* an instruction inside the blob *)
      pose proof (skip_le_24 p pc) as SK.
      assert (NEWI : forall i e, nth_error (l ++ [entry_of p pc]) i = Some e -> e = entry_of p (m_pc e)).
      { intros i e N. apply nth_error_snoc in N. destruct N as [[_ N]|[_ ->]]; [eauto|]. rewrite entry_pc. reflexivity. }
      assert (NEWX : forall k a, aget k ((pc, length l) :: idxs st) = Some a ->
                exists e, nth_error (l ++ [entry_of p pc]) a = Some e /\ m_pc e = k).
      { intros k a. rewrite aget_cons. destruct (pc =? k) eqn:E.
        - intros H; inversion H; subst a. exists (entry_of p pc). rewrite nth_error_snoc_last, entry_pc. split; [reflexivity|lia].
        - intros K. destruct (Vx k a K) as (e & N & M). exists e. split; [|exact M].
          rewrite nth_error_app1; [exact N|]. apply nth_error_Some. congruence. }
      assert (NEWK : forall k a, aget k ((pc, length l) :: idxs st) = Some a ->
                0 <= k < pc + m_skip (entry_of p pc) + 1 /\ k < code_len p).
      { intros k a. rewrite aget_cons, entry_skip. destruct (pc =? k) eqn:E.
        - intros _. unfold pc in *. lia.
        - intros K. destruct (Vk k a K). unfold pc in *. lia. }
      assert (NEWS : forall (op : option (Z * nat)), (nonterm (entry_of p pc) -> op <> None) ->
                forall i e, nth_error (l ++ [entry_of p pc]) i = Some e -> nonterm e ->
                match nth_error (l ++ [entry_of p pc]) (S i) with
                | Some e' => m_pc e' = m_pc e + m_skip e + 1
                | None => op <> None /\ pc + m_skip (entry_of p pc) + 1 = m_pc e + m_skip e + 1
                end).
      { intros op OP i e N NT. apply nth_error_snoc in N. destruct N as [[L N]|[-> ->]].
        - destruct (Nat.eq_dec (S i) (length l)) as [E|NE].
          + rewrite E, nth_error_snoc_last, entry_pc. symmetry. eapply LAST; eassumption.
          + specialize (Vs i e N NT). rewrite nth_error_app1 by lia.
            destruct (nth_error l (S i)) eqn:N2; [exact Vs|]. apply nth_error_None in N2. lia.
        - rewrite (proj2 (nth_error_None _ (S (length l)))) by (rewrite app_length; cbn; lia).
          rewrite entry_pc. split; [auto|reflexivity]. }
      assert (OLDB : forall k a b, aget k (blocks st) = Some (a, b) ->
                aget k ((pc, length l) :: idxs st) = Some a /\
                exists sl, upto_term (skipn a (l ++ [entry_of p pc])) = Some sl /\ (b - a)%nat = length sl).
      { intros k a b H. destruct (Vb k a b H) as (K & sl & U & LN). split.
        - rewrite aget_cons. destruct (Vk _ _ K). destruct (pc =? k) eqn:E; [unfold pc in E; lia|exact K].
        - exists sl. split; [|exact LN]. rewrite skipn_app_le; [apply upto_term_stable; exact U|].
          pose proof (upto_term_nonempty _ _ U) as NE2. destruct (Nat.le_gt_cases a (length l)); [assumption|].
          rewrite skipn_all2 in NE2 by lia. congruence. }
      destruct (is_term (m_op (entry_of p pc))) eqn:T.
      + constructor; cbn [s_pc s_open s_tab t_instrs t_idx t_blocks]; fold l.
        * exact NEWI.
        * exact NEWX.
        * exact NEWK.
        * intros i e N NT. pose proof (NEWS None) as S0. specialize (S0 ltac:(unfold nonterm; congruence) i e N NT).
          destruct (nth_error (l ++ [entry_of p pc]) (S i)); [exact S0|]. destruct S0 as [S0 _]. congruence.
        * intros k a b. rewrite aget_cons. destruct (bpc =? k) eqn:E.
          -- intros H; inversion H; subst a b. assert (k = bpc) by lia. subst k. split; [exact BK2|].
             exists (skipn bidx l ++ [entry_of p pc]). rewrite skipn_app_le by lia. split.
             ++ apply upto_term_snoc; [exact BF|exact T].
             ++ rewrite app_length, skipn_length. cbn [length]. lia.
          -- apply OLDB.
        * exact I.
        * rewrite entry_skip. unfold pc in *. lia.
      + constructor; cbn [s_pc s_open s_tab t_instrs t_idx t_blocks]; fold l.
        * exact NEWI.
        * exact NEWX.
        * exact NEWK.
        * intros i e N NT. pose proof (NEWS (Some (bpc, bidx))) as S0. specialize (S0 ltac:(intros; discriminate) i e N NT).
          destruct (nth_error (l ++ [entry_of p pc]) (S i)); [exact S0|]. destruct S0 as [S0 S1]. split; [discriminate|exact S1].
        * apply OLDB.
        * split; [exact BK2|]. split; [rewrite app_length; cbn; lia|].
          rewrite skipn_app_le by lia. apply Forall_app. split; [exact BF|]. constructor; [exact T|constructor].
        * rewrite entry_skip. unfold pc in *. lia.
  Qed.

  Lemma step_inv : forall st st', inv st -> scan_step p st = Some st' -> inv st'.
  Proof.
    intros st st' V H. unfold scan_step in H. destruct (s_open st) as [[bpc bidx]|] eqn:O.
    - inversion H; subst. apply body_inv; auto.
    - destruct (code_len p <=? s_pc st) eqn:EN; [discriminate|].
      destruct (negb (kreal p (s_pc st))) eqn:K; inversion H; subst.
      + destruct V as [Vi Vx Vk Vs Vb Vo Vp]. constructor; cbn [s_pc s_open s_tab]; auto.
        * intros k a Ka. destruct (Vk k a Ka). lia.
        * intros i e N NT. specialize (Vs i e N NT). destruct (nth_error (instrs st) (S i)); [exact Vs|].
          destruct Vs as [Vs _]. congruence.
        * lia.
      + apply body_inv; [exact V|]. right. repeat split; auto; lia.
  Qed.

  Lemma scan_inv : forall fuel st, inv st -> inv (scan fuel p st).
  Proof.
    induction fuel as [|f IH]; intros st V; cbn [scan]; [exact V|].
    destruct (scan_step p st) as [st'|] eqn:S; [|exact V]. apply IH. eapply step_inv; eassumption.
  Qed.

  (* the scan ends: potential = remaining bytes + 1, and 0 once the outer loop is over *)
  Definition potential (st : pstate) : nat :=
    match s_open st with
    | None => if code_len p <=? s_pc st then O else S (Z.to_nat (code_len p - s_pc st))
    | Some _ => S (Z.to_nat (Z.max 0 (code_len p - s_pc st)))
    end.

  Lemma step_potential : forall st st', scan_step p st = Some st' -> (potential st' < potential st)%nat.
  Proof.
    intros st st' H. unfold scan_step in H. pose proof (skip_le_24 p (s_pc st)) as SK.
    assert (B : forall bpc bidx, (potential (scan_body p (s_pc st) bpc bidx (s_tab st)) <
                 S (Z.to_nat (Z.max 0 (code_len p - s_pc st))))%nat /\
                (code_len p <= s_pc st -> potential (scan_body p (s_pc st) bpc bidx (s_tab st)) = O)).
    { intros bpc bidx. unfold scan_body, potential. destruct (code_len p <=? s_pc st) eqn:EN; cbn [s_open s_pc].
      - rewrite EN. split; [lia|reflexivity].
      - rewrite entry_skip. split; [|lia].
        destruct (is_term (m_op (entry_of p (s_pc st)))); cbn [s_open s_pc].
        + destruct (code_len p <=? s_pc st + skip p (s_pc st) + 1); lia.
        + lia. }
    unfold potential at 2. destruct (s_open st) as [[bpc bidx]|].
    - inversion H; subst. apply B.
    - destruct (code_len p <=? s_pc st) eqn:EN; [discriminate|].
      destruct (negb (kreal p (s_pc st))); inversion H; subst.
      + unfold potential. cbn [s_open s_pc]. destruct (code_len p <=? s_pc st + 1); lia.
      + destruct (B (s_pc st) (length (instrs st))) as [B1 _]. lia.
  Qed.

  Lemma scan_finished : forall fuel st, (potential st <= fuel)%nat -> scan_step p (scan fuel p st) = None.
  Proof.
    induction fuel as [|f IH]; intros st H; cbn [scan].
    - destruct (scan_step p st) as [st'|] eqn:S; [|reflexivity]. apply step_potential in S. lia.
    - destruct (scan_step p st) as [st'|] eqn:S; [|exact S]. apply IH. apply step_potential in S. lia.
  Qed.

  Definition final : pstate := scan (S (S (length (code p)))) p {| s_pc := 0; s_open := None; s_tab := empty_table |}.

  Lemma final_inv : inv final.
  Proof. apply scan_inv, inv_init. Qed.

  Lemma final_done : scan_step p final = None.
  Proof. apply scan_finished. unfold potential. cbn [s_open s_pc]. unfold code_len. destruct (_ <=? 0); lia. Qed.

  Lemma final_closed : s_open final = None.
  Proof.
    pose proof final_done as F.
    unfold scan_step in F. destruct (s_open final) as [[a b]|]; [discriminate|reflexivity].
  Qed.

  (* in the finished table every entry is followed by the entries of its fall-through path up to a
     terminator: the mid-block scan always finds one, and what it returns is a chain *)
  Lemma final_slice : forall n a e, (length (instrs final) - a <= n)%nat -> nth_error (instrs final) a = Some e ->
    exists sl, upto_term (skipn a (instrs final)) = Some (e :: sl) /\ chain p (e :: sl).
  Proof.
    pose proof final_inv as [Vi _ _ Vs _ _ _]. pose proof final_closed as CL.
    induction n as [|n IH]; intros a e L N.
    - assert (a < length (instrs final))%nat by (apply nth_error_Some; congruence). lia.
    - rewrite (skipn_nth _ _ _ N). cbn [upto_term]. destruct (is_term (m_op e)) eqn:T.
      + exists []. split; [reflexivity|]. cbn [chain]. split; [eapply Vi; eassumption|auto].
      + specialize (Vs a e N T). destruct (nth_error (instrs final) (S a)) as [e'|] eqn:N2.
        * destruct (IH (S a) e' ltac:(lia) N2) as (sl & U & C). rewrite U. exists (e' :: sl). split; [reflexivity|].
          cbn [chain]. split; [eapply Vi; eassumption|]. split; [exact Vs|exact C].
        * destruct Vs as [Vs _]. congruence.
  Qed.

  Lemma predecode_table_ok : table_ok p (predecode p).
  Proof.
    pose proof final_inv as [Vi Vx Vk Vs Vb Vo Vp].
    assert (IDX : forall pc a, aget pc (idxs final) = Some a ->
              exists e sl, m_pc e = pc /\ upto_term (skipn a (instrs final)) = Some (e :: sl) /\ chain p (e :: sl)).
    { intros pc a K. destruct (Vx pc a K) as (e & N & M).
      destruct (final_slice (length (instrs final)) a e ltac:(lia) N) as (sl & U & C). exists e, sl. auto. }
    intros pc Hpc. unfold fetch, predecode. fold final.
    destruct (aget pc (blocks final)) as [[a b]|] eqn:B.
    - destruct (Vb pc a b B) as (K & sl & U & LN). destruct (IDX pc a K) as (e & sl' & M & U' & C).
      rewrite U in U'. inversion U'; subst sl. rewrite LN, (upto_term_prefix _ _ U).
      split; [discriminate|]. split; [exact C|exact M].
    - destruct (aget pc (idxs final)) as [a|] eqn:K; [|exact I].
      destruct (IDX pc a K) as (e & sl & M & U & C). rewrite U. split; [discriminate|]. split; [exact C|exact M].
  Qed.
End Scan.

(* ================================================================================================
   deblob yields a bitmask as long as the code
   ================================================================================================ *)
Lemma flat_map_bits_length : forall l, length (flat_map bits_of_byte l) = (8 * length l)%nat.
Proof.
  induction l as [|b l IH]; [reflexivity|].
  cbn [flat_map]. rewrite app_length, IH. unfold bits_of_byte. rewrite map_length, seq_length. cbn [length]. lia.
Qed.

Lemma deblob_mask_len : forall b p, deblob b = Some p -> length (mask p) = length (code p).
Proof.
  intros b p H. unfold deblob in H.
  destruct (dec_nat b) as [[nj b1]|]; [|discriminate].
  destruct b1 as [|z b2]; [discriminate|].
  destruct (dec_nat b2) as [[nc b3]|]; [|discriminate].
  destruct (N.of_nat (length b3) =? nj * z + nc + (nc + 7) / 8)%N eqn:E; [|discriminate].
  inversion H; subst; clear H. cbn [mask code].
  unfold unpack_bits, bytesZ. rewrite map_length, !firstn_length, flat_map_bits_length, !skipn_length.
  apply N.eqb_eq in E.
  assert (N.of_nat (N.to_nat nc) = nc) by apply N2Nat.id.
  assert (N.of_nat (N.to_nat (nj * z)) = (nj * z)%N) by apply N2Nat.id.
  lia.
Qed.

(* ================================================================================================
   The two engines (as repaired) agree — with each other and with the Gray Paper machine
   ================================================================================================ *)
Lemma run_blocks_run : forall p, length (mask p) = length (code p) ->
  forall fuel pc s, run_blocks fixed fuel p pc s = run fuel p pc s.
Proof.
  intros p Hl fuel pc s. unfold run_blocks.
  rewrite (run_b_run p (predecode p) (predecode_table_ok p Hl) fuel [] pc s I). reflexivity.
Qed.

Lemma engines_equiv_len : forall p, length (mask p) = length (code p) ->
  forall fuel pc s, run_blocks fixed fuel p pc s = run_steps fixed fuel p pc s.
Proof. intros. rewrite run_blocks_run, run_steps_run by assumption. reflexivity. Qed.

Lemma engines_equiv : forall b p, deblob b = Some p ->
  forall fuel pc s, run_blocks fixed fuel p pc s = run_steps fixed fuel p pc s.
Proof. intros b p H. apply engines_equiv_len. eapply deblob_mask_len; eassumption. Qed.

(* resumption: each engine is resumed from the counter it returned itself, under any host function *)
Lemma psi_h_ext : forall (e1 e2 : nat -> prog -> Z -> st -> option (exit * Z * st)) hostf p,
  (forall fuel pc s, e1 fuel p pc s = e2 fuel p pc s) ->
  forall calls fuel pc s log, psi_h e1 hostf calls fuel p pc s log = psi_h e2 hostf calls fuel p pc s log.
Proof.
  intros e1 e2 hostf p H. induction calls as [|c IH]; intros fuel pc s log; cbn [psi_h]; [reflexivity|].
  rewrite H. destruct (e2 fuel p pc s) as [[[e pc'] s']|]; [|reflexivity].
  destruct e; try reflexivity. destruct (hostf id s'); [apply IH|reflexivity].
Qed.

Lemma engines_equiv_host : forall b p, deblob b = Some p ->
  forall hostf calls fuel pc s log,
  psi_h (run_blocks fixed) hostf calls fuel p pc s log = psi_h (run_steps fixed) hostf calls fuel p pc s log.
Proof. intros b p H hostf. apply psi_h_ext. apply (engines_equiv b p H). Qed.

Lemma engines_are_gp : forall b p, deblob b = Some p ->
  forall hostf calls fuel pc s log,
  psi_h (run_blocks fixed) hostf calls fuel p pc s log = psi_h run hostf calls fuel p pc s log /\
  psi_h (run_steps fixed) hostf calls fuel p pc s log = psi_h run hostf calls fuel p pc s log.
Proof.
  intros b p H hostf calls fuel pc s log. split; apply psi_h_ext; intros.
  - apply run_blocks_run. eapply deblob_mask_len; eassumption.
  - apply run_steps_run.
Qed.

(* ================================================================================================
   The engines of the tree before the C02 repairs differ: one witness per defect
   ================================================================================================ *)
Definition q_of (fa ho ef sf rh nd : bool) : quirks :=
  {| q_fault_adv := fa; q_host_own := ho; q_end_free := ef; q_self_fall := sf; q_regs_end_halt := rh; q_no_demand := nd |}.

Definition st0 (g : Z) : st := {| regs := repeat 0 13; gas := g; mem := {| m_pages := []; m_hp := 0; m_hl := 0 |} |}.

(* hex 00 00 06 | 34 02 00 00 02 00 | 21 : load_u8 r2 = [0x20000]; trap — no page mapped *)
Definition blob_fault : bytes := [0; 0; 6; 52; 2; 0; 0; 2; 0; 33]%N.
(* 00 00 03 | 0a 05 00 | 05 : ecalli 5; trap *)
Definition blob_ecalli : bytes := [0; 0; 3; 10; 5; 0; 5]%N.
(* 00 00 01 | 01 | 01 : fallthrough, then off the end *)
Definition blob_fall : bytes := [0; 0; 1; 1; 1]%N.
(* 00 00 02 | 28 00 | 01 : jump +0 *)
Definition blob_self : bytes := [0; 0; 2; 40; 0; 1]%N.
(* 00 00 01 | 64 | 01 : move_reg whose register byte lies past the end *)
Definition blob_movereg : bytes := [0; 0; 1; 100; 1]%N.
(* 00 00 04 | 33 01 01 00 | 09 : load_imm r1 = 1; trap — entered at 1, inside the first instruction *)
Definition blob_odd : bytes := [0; 0; 4; 51; 1; 1; 0; 9]%N.

Definition differ (b : bytes) (qb qs : quirks) (fuel : nat) (pc : Z) (s : st) : Prop :=
  exists p, deblob b = Some p /\ run_blocks qb fuel p pc s <> run_steps qs fuel p pc s.

Ltac differ_tac := eexists; split; [vm_compute; reflexivity|vm_compute; discriminate].

Lemma fault_pc_refuted : differ blob_fault fixed (q_of true false false false false false) 10 0 (st0 10).
Proof. differ_tac. Qed.
Lemma host_pc_refuted : differ blob_ecalli fixed (q_of false true false false false false) 10 0 (st0 10).
Proof. differ_tac. Qed.
Lemma end_charge_refuted : differ blob_fall fixed (q_of false false true false false false) 10 0 (st0 5).
Proof. differ_tac. Qed.
Lemma self_jump_refuted : differ blob_self fixed (q_of false false false true false false) 10 0 (st0 3).
Proof. differ_tac. Qed.
Lemma regs_past_end_refuted : differ blob_movereg fixed (q_of false false false false true false) 10 0 (st0 5).
Proof. differ_tac. Qed.
Lemma odd_entry_refuted : differ blob_odd (q_of false false false false false true) fixed 10 1 (st0 5).
Proof. differ_tac. Qed.

(* what each side returns on these witnesses *)
Definition outcome (r : option (exit * Z * st)) : option (exit * Z * Z) :=
  match r with Some (e, pc, s) => Some (e, pc, gas s) | None => None end.
Definition both (b : bytes) (qb qs : quirks) (fuel : nat) (pc : Z) (s : st) :=
  match deblob b with
  | Some p => (outcome (run_blocks qb fuel p pc s), outcome (run_steps qs fuel p pc s))
  | None => (None, None)
  end.

Example fault_pc_values : both blob_fault fixed (q_of true false false false false false) 10 0 (st0 10)
  = (Some (Fault 131072, 0, 9), Some (Fault 131072, 5, 9)).
Proof. vm_compute. reflexivity. Qed.
Example host_pc_values : both blob_ecalli fixed (q_of false true false false false false) 10 0 (st0 10)
  = (Some (Host 5, 2, 9), Some (Host 5, 0, 9)).
Proof. vm_compute. reflexivity. Qed.
Example end_charge_values : both blob_fall fixed (q_of false false true false false false) 10 0 (st0 5)
  = (Some (Panic, 0, 3), Some (Panic, 0, 4)).
Proof. vm_compute. reflexivity. Qed.
Example self_jump_values : both blob_self fixed (q_of false false false true false false) 10 0 (st0 3)
  = (Some (OutOfGas, 0, 0), Some (Panic, 0, 1)).
Proof. vm_compute. reflexivity. Qed.
Example regs_past_end_values : both blob_movereg fixed (q_of false false false false true false) 10 0 (st0 5)
  = (Some (Panic, 0, 3), Some (Halt, 0, 4)).
Proof. vm_compute. reflexivity. Qed.
Example odd_entry_values : both blob_odd (q_of false false false false false true) fixed 10 1 (st0 5)
  = (Some (Panic, 0, 5), Some (Panic, 0, 3)).
Proof. vm_compute. reflexivity. Qed.

(* ================================================================================================
   Where the table has entries: exactly at the instruction starts
   ================================================================================================ *)
(* instruction starts: the addresses the bitmask marks, and every address that the fall-through of a
   non-terminating instruction at an instruction start leads to (it differs from the next marked
   address only when skip is clamped at 24) *)
Inductive istart (p : prog) : Z -> Prop :=
| istart_bit : forall pc, 0 <= pc < code_len p -> kreal p pc = true -> istart p pc
| istart_next : forall pc, istart p pc -> is_term (zeta p pc) = false -> pc + skip p pc + 1 < code_len p ->
                istart p (pc + skip p pc + 1).

Lemma nth_error_skipn_in : forall {A} (l : list A) a i e, nth_error l i = Some e -> (a <= i)%nat -> In e (skipn a l).
Proof.
  intros A l; induction l as [|x l IH]; intros a i e N L.
  - destruct i; discriminate.
  - destruct a; cbn [skipn]; [eapply nth_error_In; eassumption|].
    destruct i; [lia|]. cbn in N. eapply IH; [eassumption|lia].
Qed.

Section Scan2.
  Variable p : prog.
  Hypothesis Hlen : length (mask p) = length (code p).

  Notation instrs st := (t_instrs (s_tab st)).
  Notation idxs st := (t_idx (s_tab st)).

  Lemma kreal_kbit : forall q, 0 <= q < code_len p -> kreal p q = kbit p q.
  Proof.
    intros q H. unfold kreal, kbit. destruct (q <? 0) eqn:E; [lia|]. apply nth_indep.
    unfold code_len in H. rewrite Hlen. lia.
  Qed.

  Record inv2 (st : pstate) : Prop := {
    k_entry : forall i e, nth_error (instrs st) i = Some e -> m_pc e < code_len p -> aget (m_pc e) (idxs st) = Some i;
    k_bits : forall q, 0 <= q < s_pc st -> q < code_len p -> kreal p q = true -> aget q (idxs st) <> None;
    k_start : forall pc a, aget pc (idxs st) = Some a -> istart p pc
  }.

  Lemma body_inv2 : forall st bpc bidx, inv p st -> inv2 st ->
    (s_open st = Some (bpc, bidx) \/
     (s_open st = None /\ s_pc st < code_len p /\ kreal p (s_pc st) = true /\ bpc = s_pc st /\ bidx = length (instrs st))) ->
    inv2 (scan_body p (s_pc st) bpc bidx (s_tab st)).
  Proof.
    intros st bpc bidx V W HO. destruct V as [Vi Vx Vk Vs Vb Vo Vp]. destruct W as [K1 K2 K3].
    set (pc := s_pc st) in *. set (l := instrs st) in *.
    unfold scan_body. fold l. destruct (code_len p <=? pc) eqn:EN.
    - constructor; cbn [s_pc s_open s_tab t_instrs t_idx t_blocks]; fold l.
      + intros i e N M. apply nth_error_snoc in N. destruct N as [[_ N]|[_ ->]]; [auto|]. cbn in M. lia.
      + exact K2.
      + exact K3.
    - pose proof (skip_le_24 p pc) as SK.
      assert (G1 : forall i e, nth_error (l ++ [entry_of p pc]) i = Some e -> m_pc e < code_len p ->
                aget (m_pc e) ((pc, length l) :: idxs st) = Some i).
      { intros i e N M. rewrite aget_cons. apply nth_error_snoc in N. destruct N as [[_ N]|[-> ->]].
        * pose proof (K1 i e N M) as K. destruct (Vk _ _ K). destruct (pc =? m_pc e) eqn:E; [unfold pc in E; lia|exact K].
        * rewrite entry_pc, Z.eqb_refl. reflexivity. }
      assert (G2 : forall q, 0 <= q < pc + m_skip (entry_of p pc) + 1 -> q < code_len p -> kreal p q = true ->
                aget q ((pc, length l) :: idxs st) <> None).
      { intros q Hq Hn KR. rewrite aget_cons. destruct (pc =? q) eqn:E; [discriminate|].
        rewrite entry_skip in Hq. destruct (Z_lt_ge_dec q pc) as [L|G].
        * apply K2; auto. unfold pc in *; lia.
        * exfalso. destruct (skip_spec p pc) as [A _]. specialize (A (q - pc - 1) ltac:(lia)).
          replace (pc + 1 + (q - pc - 1)) with q in A by lia. rewrite kreal_kbit in KR by lia. congruence. }
      assert (G3 : forall k a, aget k ((pc, length l) :: idxs st) = Some a -> istart p k).
      { intros k a. rewrite aget_cons. destruct (pc =? k) eqn:E; [|apply K3]. intros _. assert (k = pc) by lia. subst k.
        destruct HO as [O|(O & L & KR & _ & _)]; [|apply istart_bit; [unfold pc in *; lia|exact KR]].
        rewrite O in Vo. destruct Vo as (_ & BL & BF).
        (* the entry before: the last of the open block, not a terminator, falling through to pc *)
        destruct (nth_error l (length l - 1)) as [e0|] eqn:N0; [|apply nth_error_None in N0; lia].
        assert (NT : nonterm e0).
        { rewrite Forall_forall in BF. apply BF. eapply nth_error_skipn_in; [exact N0|lia]. }
        pose proof (Vs _ _ N0 NT) as S0. rewrite (proj2 (nth_error_None l (S (length l - 1)))) in S0 by lia.
        destruct S0 as [_ S0]. pose proof (Vi _ _ N0) as E0.
        assert (M0 : m_pc e0 < code_len p).
        { destruct (Z_lt_ge_dec (m_pc e0) (code_len p)) as [|G]; [assumption|]. exfalso.
          unfold nonterm in NT. rewrite E0, entry_op, zeta_past_end in NT by lia. discriminate. }
        pose proof (K3 _ _ (K1 _ _ N0 M0)) as IS.
        rewrite E0, entry_pc, entry_skip in S0. fold pc in S0. rewrite S0.
        apply istart_next; [exact IS| |unfold pc in *; lia].
        unfold nonterm in NT. rewrite E0, entry_op in NT. exact NT. }
      destruct (is_term (m_op (entry_of p pc))); constructor; cbn [s_pc s_open s_tab t_instrs t_idx t_blocks]; fold l; assumption.
  Qed.

  Lemma step_inv2 : forall st st', inv p st -> inv2 st -> scan_step p st = Some st' -> inv2 st'.
  Proof.
    intros st st' V W H. unfold scan_step in H. destruct (s_open st) as [[bpc bidx]|] eqn:O.
    - inversion H; subst. apply body_inv2; auto.
    - destruct (code_len p <=? s_pc st) eqn:EN; [discriminate|].
      destruct (negb (kreal p (s_pc st))) eqn:K; inversion H; subst.
      + destruct W as [K1 K2 K3]. constructor; cbn [s_pc s_open s_tab]; auto.
        intros q Hq Hn KR. destruct (Z.eq_dec q (s_pc st)) as [->|NE].
        * rewrite KR in K. discriminate.
        * apply K2; auto. lia.
      + apply body_inv2; auto. right. repeat split; auto; try lia. destruct (kreal p (s_pc st)); [reflexivity|discriminate].
  Qed.

  Lemma scan_inv2 : forall fuel st, inv p st -> inv2 st -> inv p (scan fuel p st) /\ inv2 (scan fuel p st).
  Proof.
    induction fuel as [|f IH]; intros st V W; cbn [scan]; [auto|].
    destruct (scan_step p st) as [st'|] eqn:S; [|auto].
    apply IH; [eapply step_inv; eassumption|eapply step_inv2; eassumption].
  Qed.

  Lemma final_inv2 : inv2 (final p).
  Proof.
    apply scan_inv2; [apply inv_init|]. constructor; cbn; intros; try discriminate; try lia.
    destruct i; discriminate.
  Qed.

  Lemma final_pc : code_len p <= s_pc (final p).
  Proof.
    pose proof (final_done p Hlen) as F.
    unfold scan_step in F. rewrite (final_closed p Hlen) in F.
    destruct (code_len p <=? s_pc (final p)) eqn:E; [lia|].
    destruct (negb (kreal p (s_pc (final p)))); discriminate F.
  Qed.

  (* every table entry is the decode of the code at its own counter; the index InstrIdxAt[pc] leads to it *)
  Lemma predecode_entries :
    (forall i e, nth_error (t_instrs (predecode p)) i = Some e -> e = entry_of p (m_pc e)) /\
    (forall pc a, aget pc (t_idx (predecode p)) = Some a ->
       nth_error (t_instrs (predecode p)) a = Some (entry_of p pc) /\ 0 <= pc < code_len p).
  Proof.
    pose proof (final_inv p Hlen) as [Vi Vx Vk _ _ _ _]. unfold predecode. fold (final p). split; [exact Vi|].
    intros pc a K. destruct (Vx pc a K) as (e & N & M). destruct (Vk pc a K). split; [|lia].
    rewrite N. f_equal. rewrite (Vi _ _ N), M. reflexivity.
  Qed.

  (* a block BlockAt[pc] = [a, b) starts at the entry of pc and is what the mid-block scan from there returns *)
  Lemma predecode_blocks : forall pc a b, aget pc (t_blocks (predecode p)) = Some (a, b) ->
    aget pc (t_idx (predecode p)) = Some a /\
    upto_term (skipn a (t_instrs (predecode p))) = Some (firstn (b - a) (skipn a (t_instrs (predecode p)))).
  Proof.
    pose proof (final_inv p Hlen) as [_ _ _ _ Vb _ _]. unfold predecode. fold (final p).
    intros pc a b B. destruct (Vb pc a b B) as (K & sl & U & LN). split; [exact K|].
    rewrite LN, (upto_term_prefix _ _ U). exact U.
  Qed.

  Lemma predecode_keys : forall pc, aget pc (t_idx (predecode p)) <> None <-> istart p pc.
  Proof.
    pose proof (final_inv p Hlen) as [Vi Vx Vk Vs _ _ _]. pose proof final_inv2 as [K1 K2 K3].
    pose proof (final_closed p Hlen) as CL. pose proof final_pc as FP.
    unfold predecode. fold (final p). intros pc. split.
    - intros H. destruct (aget pc (idxs (final p))) as [a|] eqn:K; [|congruence]. eapply K3; eassumption.
    - intros H. induction H as [pc R KR|pc IS IH NT L].
      + apply K2; auto; lia.
      + destruct (aget pc (idxs (final p))) as [a|] eqn:K; [|congruence].
        destruct (Vx pc a K) as (e & N & M). pose proof (Vi _ _ N) as E.
        assert (NT' : nonterm e) by (unfold nonterm; rewrite E, entry_op, M; exact NT).
        specialize (Vs a e N NT'). destruct (nth_error (instrs (final p)) (S a)) as [e'|] eqn:N2.
        * rewrite E, entry_pc, entry_skip, M in Vs. rewrite <- Vs. rewrite (K1 _ _ N2) by lia. discriminate.
        * destruct Vs as [Vs _]. congruence.
  Qed.
End Scan2.

(* the same defect reached from the regular entry point: fallthrough followed by 26 unmarked bytes; skip is clamped
   at 24, execution continues at 25, an address without table entry *)
Definition blob_gap : bytes := ([0; 0; 28; 1] ++ repeat 0 26 ++ [0] ++ [1; 0; 0; 8])%N.
Lemma clamped_skip_refuted : differ blob_gap (q_of false false false false false true) fixed 10 0 (st0 5).
Proof. differ_tac. Qed.
Example clamped_skip_values : both blob_gap (q_of false false false false false true) fixed 10 0 (st0 5)
  = (Some (Panic, 0, 4), Some (Panic, 0, 3)).
Proof. vm_compute. reflexivity. Qed.
