(* C20 — the map-based evaluation of F.1 equals F (so the extracted model runs the specification) *)
From JamV Require Import Base.Bytes Model.Shuffle Model.ShuffleFast Proofs.ShuffleP.
From Coq Require Import ZifyBool ZifyNat ZifyN FMapPositive.
Local Open Scope N_scope.
Ltac Zify.zify_post_hook ::= Z.div_mod_to_equations.

Lemma key_inj a b : key a = key b -> a = b.
Proof.
  unfold key. intros Hk. pose proof (N.succ_pos_spec a) as Ha. pose proof (N.succ_pos_spec b) as Hb.
  rewrite Hk in Ha. lia.
Qed.

Section FastP.
  Context {A : Type}.

  Definition repr (m : PositiveMap.t A) (s : list A) : Prop :=
    forall j : nat, (j < length s)%nat -> PositiveMap.find (key (N.of_nat j)) m = nth_error s j.

  Lemma build_find (s : list A) : forall j0 m k,
    PositiveMap.find (key k) (build s j0 m)
    = if (j0 <=? k) && (k <? j0 + N.of_nat (length s)) then nth_error s (N.to_nat (k - j0))
      else PositiveMap.find (key k) m.
  Proof.
    induction s as [|x t IH]; intros j0 m k.
    - cbn [build length]. destruct (N.leb_spec j0 k), (N.ltb_spec k (j0 + N.of_nat 0)); cbn; try reflexivity; lia.
    - cbn [build]. rewrite IH. cbn [length].
      assert (Hlen : j0 + N.of_nat (S (length t)) = N.succ j0 + N.of_nat (length t)) by lia.
      rewrite Hlen. set (hi := N.succ j0 + N.of_nat (length t)).
      assert (Hhi : j0 < hi) by (subst hi; lia). clearbody hi.
      destruct (N.lt_trichotomy k j0) as [Hlt | [Heq | Hgt]].
      + assert (E1 : N.succ j0 <=? k = false) by (apply N.leb_gt; lia).
        assert (E2 : j0 <=? k = false) by (apply N.leb_gt; lia).
        rewrite E1, E2. cbn [andb].
        rewrite PositiveMap.gso; [reflexivity|]. intros Hk. apply key_inj in Hk. lia.
      + subst k.
        assert (E1 : N.succ j0 <=? j0 = false) by (apply N.leb_gt; lia).
        assert (E2 : j0 <=? j0 = true) by (apply N.leb_le; lia).
        rewrite E1, E2. cbn [andb]. rewrite PositiveMap.gss, N.sub_diag.
        destruct (N.ltb_spec j0 hi); [reflexivity|]. lia.
      + assert (E1 : N.succ j0 <=? k = true) by (apply N.leb_le; lia).
        assert (E2 : j0 <=? k = true) by (apply N.leb_le; lia).
        rewrite E1, E2. cbn [andb]. destruct (N.ltb_spec k hi).
        * replace (N.to_nat (k - j0)) with (S (N.to_nat (k - N.succ j0))) by lia. reflexivity.
        * rewrite PositiveMap.gso; [reflexivity|]. intros Hk. apply key_inj in Hk. lia.
  Qed.

  Lemma build_repr (s : list A) : repr (build s 0 (PositiveMap.empty A)) s.
  Proof.
    intros j Hj. rewrite build_find.
    destruct (N.leb_spec 0 (N.of_nat j)), (N.ltb_spec (N.of_nat j) (0 + N.of_nat (length s))); cbn [andb]; try lia.
    f_equal. lia.
  Qed.

  Lemma nth_error_set_nth (s : list A) i z j : (i < length s)%nat ->
    nth_error (set_nth i z s) j = if Nat.eqb j i then Some z else nth_error s j.
  Proof.
    intros Hi. destruct (nth_split s z Hi) as (p & q & Hs & Hp).
    set (y := nth i s z) in *. clearbody y. subst s i. rewrite set_nth_split.
    destruct (Nat.eqb_spec j (length p)) as [->|Hne].
    - rewrite nth_error_app2, Nat.sub_diag by lia. reflexivity.
    - destruct (Nat.lt_ge_cases j (length p)).
      + rewrite !nth_error_app1 by lia. reflexivity.
      + rewrite !nth_error_app2 by lia.
        destruct (j - length p)%nat as [|n] eqn:E; [lia|reflexivity].
  Qed.

  Lemma nth_error_firstn_lt (t : list A) : forall k j, (j < k)%nat -> nth_error (firstn k t) j = nth_error t j.
  Proof.
    induction t as [|x t IH]; intros k j Hj.
    - rewrite firstn_nil. reflexivity.
    - destruct k as [|k]; [lia|]. destruct j as [|j]; [reflexivity|]. cbn. apply IH. lia.
  Qed.

  Lemma nth_error_last (s : list A) a : s <> [] -> nth_error s (length s - 1) = Some (last s a).
  Proof.
    intros Hs. destruct (last_cases s) as [->|(p & z & ->)]; [congruence|].
    rewrite last_app_single, app_length. cbn [length].
    rewrite nth_error_app2 by lia. replace (length p + 1 - 1 - length p)%nat with 0%nat by lia. reflexivity.
  Qed.

  Lemma get_repr m (s : list A) j d a : repr m s -> (N.to_nat j < length s)%nat -> get j m d = nth (N.to_nat j) s a.
  Proof.
    intros Hr Hj. unfold get. specialize (Hr (N.to_nat j) Hj). rewrite N2Nat.id in Hr. rewrite Hr.
    rewrite (nth_error_nth' s a Hj). reflexivity.
  Qed.

  Lemma F_map_is_F (r : list N) : forall (s : list A) l m d,
    l = N.of_nat (length s) -> repr m s -> F_map r l m d = F s r.
  Proof.
    induction r as [|r0 r' IH]; intros s l m d Hl Hr; [reflexivity|].
    destruct s as [|a s'].
    - cbn in Hl. subst l. reflexivity.
    - cbn [F_map F]. set (s := a :: s') in *.
      assert (Hpos : (0 < length s)%nat) by (subst s; cbn; lia).
      destruct (N.eqb_spec l 0) as [H0|H0]; [lia|].
      set (i := pick r0 (length s)).
      assert (Hi : (i < length s)%nat) by (apply pick_lt; exact Hpos).
      assert (Hidx : N.to_nat (r0 mod l) = i) by (subst i l; reflexivity).
      assert (Hy : get (r0 mod l) m d = nth i s a).
      { rewrite <- Hidx. apply get_repr; [exact Hr|]. rewrite Hidx. exact Hi. }
      assert (Hz : get (l - 1) m d = last s a).
      { unfold get. specialize (Hr (length s - 1)%nat ltac:(lia)).
        replace (N.of_nat (length s - 1)) with (l - 1) in Hr by lia. rewrite Hr.
        rewrite (nth_error_last s a) by (subst s; discriminate). reflexivity. }
      rewrite Hy, Hz. f_equal.
      destruct (step_perm s a i Hi) as [_ Hn].
      apply IH.
      + rewrite Hn. lia.
      + intros j Hj. rewrite Hn in Hj.
        rewrite nth_error_firstn_lt by lia. rewrite nth_error_set_nth by exact Hi.
        destruct (Nat.eqb_spec j i) as [->|Hne].
        * replace (r0 mod l) with (N.of_nat i) by lia. apply PositiveMap.gss.
        * rewrite PositiveMap.gso; [apply Hr; lia|]. intros Hk. apply key_inj in Hk. lia.
  Qed.

  Lemma F_fast_is_F (s : list A) r : F_fast s r = F s r.
  Proof.
    destruct s as [|a s']; [symmetry; apply F_nil|].
    unfold F_fast. apply F_map_is_F; [reflexivity|apply build_repr].
  Qed.
End FastP.

Section HashedFastP.
  Variable H : bytes -> bytes.

  Lemma map_seq_offset {B} (f : nat -> B) a n : map f (seq a n) = map (fun i => f (a + i)%nat) (seq 0 n).
  Proof.
    revert f a. induction n as [|n IH]; intros f a; [reflexivity|].
    cbn [seq map]. rewrite Nat.add_0_r. f_equal. rewrite (IH f (S a)), (IH (fun i => f (a + i)%nat) 1%nat).
    apply map_ext. intros i. f_equal. lia.
  Qed.

  Lemma qword_in_block h b j : (j < 8)%nat ->
    qword H h (8 * b + N.of_nat j) = le_dec (firstn 4 (skipn (4 * j) (H (h ++ le_enc 4 b)))).
  Proof.
    intros Hj. unfold qword.
    assert (E1 : (8 * b + N.of_nat j) / 8 = b) by lia.
    assert (E2 : N.to_nat ((4 * (8 * b + N.of_nat j)) mod 32) = (4 * j)%nat) by lia.
    rewrite E1, E2. reflexivity.
  Qed.

  Lemma blocks_spec h k : forall b,
    blocks H h b k = map (fun i => qword H h (8 * b + N.of_nat i)) (seq 0 (8 * k)).
  Proof.
    induction k as [|k IH]; intros b; [reflexivity|].
    cbn [blocks]. replace (8 * S k)%nat with (8 + 8 * k)%nat by lia.
    rewrite seq_app, map_app. f_equal.
    - unfold block_words. apply map_ext_in. intros j Hj. apply in_seq in Hj.
      symmetry. apply qword_in_block. lia.
    - rewrite IH. rewrite (map_seq_offset _ (0 + 8)%nat). apply map_ext. intros i. f_equal. lia.
  Qed.

  Lemma qseq_fast_is_qseq h l : qseq_fast H h l = qseq H h l.
  Proof.
    unfold qseq_fast, qseq. rewrite blocks_spec, firstn_map.
    assert (Hle : (l <= 8 * Nat.div (l + 7) 8)%nat).
    { pose proof (Nat.div_mod (l + 7) 8 ltac:(lia)) as Hd.
      pose proof (Nat.mod_upper_bound (l + 7) 8 ltac:(lia)). lia. }
    set (n := (8 * Nat.div (l + 7) 8)%nat) in *. clearbody n.
    replace n with (l + (n - l))%nat by lia. rewrite seq_app.
    rewrite firstn_exact by apply seq_length.
    apply map_ext. intros i. f_equal.
  Qed.

  Lemma shuffle_fast_is_F {A} (s : list A) h : shuffle_fast H s h = shuffle_F H s h.
  Proof. unfold shuffle_fast. rewrite qseq_fast_is_qseq. apply F_fast_is_F. Qed.

  Lemma assign_slots_spec p e ts : assign_slots H p e ts = map (assign H p e) ts.
  Proof. unfold assign_slots, assign. rewrite shuffle_fast_is_F. reflexivity. Qed.
End HashedFastP.
