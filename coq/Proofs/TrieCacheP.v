(* C16 — proofs about Model/TrieCache.v *)
From JamV Require Import Base.Bytes Model.Trie Model.TrieCache Proofs.BytesP Proofs.TrieP.
From Coq Require Import Permutation ZifyBool ZifyNat ZifyN.
Local Open Scope N_scope.

Lemma bytes_eq_dec (a b : bytes) : {a = b} + {a <> b}.
Proof. apply list_eq_dec, N.eq_dec. Qed.

Section WithH.
Variable H : bytes -> bytes.

(* an explicit hash collision *)
Definition collision : Prop := exists x y : bytes, x <> y /\ H x = H y.

(* the cache invariant: every entry of key k is (H v, H (leaf k v)) for some value v *)
Definition entry_ok (p : bytes * centry) : Prop :=
  exists v, fst (snd p) = H v /\ snd (snd p) = H (leaf H (fst p) v).
Definition cache_ok (c : cache) : Prop := Forall entry_ok c.
(* the association list is a map: one entry per key, so its length is the Go Len() *)
Definition cache_keys_nodup (c : cache) : Prop := NoDup (map fst c).

Lemma c_lookup_in k c e : c_lookup k c = Some e -> In (k, e) c.
Proof.
  induction c as [|[k' e'] t IH]; cbn [c_lookup]; [discriminate|].
  destruct (bytes_eqb k' k) eqn:E.
  - intros [= ->]. apply bytes_eqb_eq in E. subst. now left.
  - intros Hl. right. auto.
Qed.

Lemma cache_ok_remove k c : cache_ok c -> cache_ok (c_remove k c).
Proof. apply Forall_filter. Qed.

Lemma cache_ok_put k e c : entry_ok (k, e) -> cache_ok c -> cache_ok (c_put k e c).
Proof. intros He Hc. constructor; [exact He|now apply cache_ok_remove]. Qed.

Lemma nodup_remove k c : cache_keys_nodup c -> cache_keys_nodup (c_remove k c).
Proof. apply NoDup_map_filter. Qed.

Lemma remove_not_in k c : ~ In k (map fst (c_remove k c)).
Proof.
  intros Hin. apply in_map_iff in Hin. destruct Hin as [[k' e] [Hk Hf]]. cbn [fst] in Hk. subst k'.
  apply filter_In in Hf. destruct Hf as [_ Hf]. cbn [fst] in Hf.
  assert (bytes_eqb k k = true) by now apply bytes_eqb_eq. rewrite H0 in Hf. discriminate.
Qed.

Lemma nodup_put k e c : cache_keys_nodup c -> cache_keys_nodup (c_put k e c).
Proof.
  intros Hc. unfold c_put, cache_keys_nodup. cbn [map fst]. constructor.
  - apply remove_not_in.
  - now apply nodup_remove.
Qed.

Lemma remove_length k c : (length (c_remove k c) <= length c)%nat.
Proof.
  unfold c_remove. induction c as [|p t IH]; cbn [filter length]; [lia|].
  destruct (negb (bytes_eqb (fst p) k)); cbn [length]; lia.
Qed.

(* ---- get-or-compute ---------------------------------------------------------------------- *)
Lemma goc_sound cap c k v :
  cache_ok c ->
  cache_ok (snd (get_or_compute H cap c k v)) /\
  (fst (get_or_compute H cap c k v) = H (leaf H k v) \/ collision).
Proof.
  intros Hc. unfold get_or_compute.
  assert (Hmiss : forall c1, cache_ok c1 ->
            cache_ok (c_put k (H v, H (leaf H k v)) c1)).
  { intros c1 H1. apply cache_ok_put; [|exact H1]. exists v. split; reflexivity. }
  assert (Hc1 : cache_ok (if (cap <=? length c)%nat then [] else c))
    by (destruct (cap <=? length c)%nat; [constructor|exact Hc]).
  destruct (c_lookup k c) as [[vh lh]|] eqn:L.
  - destruct (bytes_eqb vh (H v)) eqn:E; cbn [fst snd].
    + split; [exact Hc|].
      apply c_lookup_in in L. unfold cache_ok in Hc. rewrite Forall_forall in Hc.
      destruct (Hc _ L) as [v' [Hvh Hlh]]. cbn [fst snd] in Hvh, Hlh.
      apply bytes_eqb_eq in E.
      destruct (bytes_eq_dec v' v) as [->|Hne].
      * left. exact Hlh.
      * right. exists v', v. split; [exact Hne|congruence].
    + split; [now apply Hmiss|now left].
  - cbn [fst snd]. split; [now apply Hmiss|now left].
Qed.

Lemma goc_nodup cap c k v :
  cache_keys_nodup c -> cache_keys_nodup (snd (get_or_compute H cap c k v)).
Proof.
  intros Hc. unfold get_or_compute.
  assert (Hc1 : cache_keys_nodup (if (cap <=? length c)%nat then [] else c))
    by (destruct (cap <=? length c)%nat; [constructor|exact Hc]).
  destruct (c_lookup k c) as [[vh lh]|]; [destruct (bytes_eqb vh (H v))|]; cbn [snd];
    auto using nodup_put.
Qed.

(* the clear-at-capacity rule keeps the cache within max(cap,1) once it is there *)
Lemma goc_length cap c k v :
  (length (snd (get_or_compute H cap c k v)) <= Nat.max (length c) (Nat.max cap 1))%nat.
Proof.
  unfold get_or_compute.
  assert (Hm : (length (c_put k (H v, H (leaf H k v)) (if (cap <=? length c)%nat then [] else c))
                <= Nat.max (length c) (Nat.max cap 1))%nat).
  { destruct (Nat.leb_spec cap (length c)) as [L|L]; unfold c_put; cbn [length].
    - cbn [c_remove filter length]. lia.
    - pose proof (remove_length k c). lia. }
  destruct (c_lookup k c) as [[vh lh]|]; [destruct (bytes_eqb vh (H v))|]; cbn [snd]; try exact Hm. lia.
Qed.

(* ---- cached merklization ----------------------------------------------------------------- *)
Lemma merklize_c_step cap f d e1 e2 t c :
  merklize_c H cap (S f) d (e1 :: e2 :: t) c =
  let (l, r) := go_partition d (e1 :: e2 :: t) in
  let (hl, c1) := merklize_c H cap f (S d) l c in
  let (hr, c2) := merklize_c H cap f (S d) r c1 in
  (match hl, hr with Some a, Some b => Some (H (branch a b)) | _, _ => None end, c2).
Proof. reflexivity. Qed.

Lemma merklize_c_sound cap : forall f d (es : list entry) c,
  cache_ok c ->
  cache_ok (snd (merklize_c H cap f d es c)) /\
  (fst (merklize_c H cap f d es c) = merklize H f d es \/ collision).
Proof.
  induction f as [|f IH]; intros d es c Hc.
  - destruct es as [|e1 [|e2 t]].
    + cbn. auto.
    + cbn [merklize_c merklize].
      destruct (goc_sound cap c (fst e1) (snd e1) Hc) as [Hok Hv].
      destruct (get_or_compute H cap c (fst e1) (snd e1)) as [h c']. cbn [fst snd] in *.
      split; [exact Hok|]. destruct Hv as [->|Hcol]; [left; reflexivity|now right].
    + cbn. auto.
  - destruct es as [|e1 [|e2 t]].
    + cbn. auto.
    + cbn [merklize_c merklize].
      destruct (goc_sound cap c (fst e1) (snd e1) Hc) as [Hok Hv].
      destruct (get_or_compute H cap c (fst e1) (snd e1)) as [h c']. cbn [fst snd] in *.
      split; [exact Hok|]. destruct Hv as [->|Hcol]; [left; reflexivity|now right].
    + rewrite merklize_c_step, merklize_step.
      destruct (go_partition d (e1 :: e2 :: t)) as [l r].
      destruct (IH (S d) l c Hc) as [Hc1 Hl].
      destruct (merklize_c H cap f (S d) l c) as [hl c1]. cbn [fst snd] in *.
      destruct (IH (S d) r c1 Hc1) as [Hc2 Hr].
      destruct (merklize_c H cap f (S d) r c1) as [hr c2]. cbn [fst snd] in *.
      split; [exact Hc2|].
      destruct Hl as [->|Hcol]; [|now right]. destruct Hr as [->|Hcol]; [|now right].
      left. reflexivity.
Qed.

Lemma merklize_c_nodup cap : forall f d (es : list entry) c,
  cache_keys_nodup c -> cache_keys_nodup (snd (merklize_c H cap f d es c)).
Proof.
  induction f as [|f IH]; intros d es c Hc.
  - destruct es as [|e1 [|e2 t]]; try exact Hc.
    cbn [merklize_c]. pose proof (goc_nodup cap c (fst e1) (snd e1) Hc) as G.
    destruct (get_or_compute H cap c (fst e1) (snd e1)). exact G.
  - destruct es as [|e1 [|e2 t]]; try exact Hc.
    + cbn [merklize_c]. pose proof (goc_nodup cap c (fst e1) (snd e1) Hc) as G.
      destruct (get_or_compute H cap c (fst e1) (snd e1)). exact G.
    + rewrite merklize_c_step. destruct (go_partition d (e1 :: e2 :: t)) as [l r].
      pose proof (IH (S d) l c Hc) as H1.
      destruct (merklize_c H cap f (S d) l c) as [hl c1]. cbn [snd] in H1.
      pose proof (IH (S d) r c1 H1) as H2.
      destruct (merklize_c H cap f (S d) r c1) as [hr c2]. exact H2.
Qed.

Lemma merklize_c_length cap : forall f d (es : list entry) c,
  (length (snd (merklize_c H cap f d es c)) <= Nat.max (length c) (Nat.max cap 1))%nat.
Proof.
  induction f as [|f IH]; intros d es c.
  - destruct es as [|e1 [|e2 t]]; cbn [merklize_c snd]; try lia.
    pose proof (goc_length cap c (fst e1) (snd e1)) as G.
    destruct (get_or_compute H cap c (fst e1) (snd e1)). exact G.
  - destruct es as [|e1 [|e2 t]]; try (cbn [merklize_c snd]; lia).
    + cbn [merklize_c]. pose proof (goc_length cap c (fst e1) (snd e1)) as G.
      destruct (get_or_compute H cap c (fst e1) (snd e1)). exact G.
    + rewrite merklize_c_step. destruct (go_partition d (e1 :: e2 :: t)) as [l r].
      pose proof (IH (S d) l c) as H1.
      destruct (merklize_c H cap f (S d) l c) as [hl c1]. cbn [snd] in H1.
      pose proof (IH (S d) r c1) as H2.
      destruct (merklize_c H cap f (S d) r c1) as [hr c2]. cbn [snd] in *. lia.
Qed.

(* one root computation: invariant kept, result = from-scratch specification root or a collision *)
Lemma root_cached_sound cap es c :
  cache_ok c ->
  cache_ok (snd (root_cached H cap es c)) /\
  (fst (root_cached H cap es c) = root H es \/ collision).
Proof.
  intros Hc. unfold root_cached, root.
  rewrite <- (merklize_eq_trie H 249 0 es). now apply merklize_c_sound.
Qed.

(* ---- histories ----------------------------------------------------------------------------- *)
Lemma step_ok c o : cache_ok c -> cache_ok (snd (step H c o)).
Proof.
  intros Hc. destruct o as [cap es| |k]; cbn [step].
  - pose proof (root_cached_sound cap es c Hc) as [G _].
    destruct (root_cached H cap es c). exact G.
  - constructor.
  - now apply cache_ok_remove.
Qed.

Lemma step_nodup c o : cache_keys_nodup c -> cache_keys_nodup (snd (step H c o)).
Proof.
  intros Hc. destruct o as [cap es| |k]; cbn [step].
  - pose proof (merklize_c_nodup cap 249 0 es c Hc) as G. unfold root_cached.
    destruct (merklize_c H cap 249 0 es c). exact G.
  - constructor.
  - now apply nodup_remove.
Qed.

Lemma run_cached_sound : forall ops c,
  cache_ok c ->
  cache_ok (snd (run_cached H ops c)) /\
  (fst (run_cached H ops c) = roots_of H ops \/ collision).
Proof.
  induction ops as [|o t IH]; intros c Hc.
  - cbn. auto.
  - cbn [run_cached roots_of].
    pose proof (step_ok c o Hc) as Hs.
    assert (Hout : match o with
                   | Root _ es => fst (step H c o) = Some (root H es) \/ collision
                   | _ => fst (step H c o) = None
                   end).
    { destruct o as [cap es| |k]; cbn [step]; try reflexivity.
      pose proof (root_cached_sound cap es c Hc) as [_ G].
      destruct (root_cached H cap es c) as [r c']. cbn [fst] in *.
      destruct G as [->|G]; auto. }
    destruct (step H c o) as [out c1]. cbn [fst snd] in *.
    destruct (IH c1 Hs) as [Hfin Houts].
    destruct (run_cached H t c1) as [outs c2]. cbn [fst snd] in *.
    split; [exact Hfin|].
    destruct Houts as [->|Hcol]; [|now right].
    destruct o as [cap es| |k].
    + destruct Hout as [->|Hcol]; [left; reflexivity|now right].
    + rewrite Hout. now left.
    + rewrite Hout. now left.
Qed.

Lemma run_cached_nodup : forall ops c,
  cache_keys_nodup c -> cache_keys_nodup (snd (run_cached H ops c)).
Proof.
  induction ops as [|o t IH]; intros c Hc; [exact Hc|].
  cbn [run_cached]. pose proof (step_nodup c o Hc) as Hs.
  destruct (step H c o) as [out c1]. cbn [snd] in Hs.
  pose proof (IH c1 Hs) as G. destruct (run_cached H t c1). exact G.
Qed.

(* from the empty cache (newChainState) *)
Lemma cache_sound_from_empty ops :
  cache_ok (snd (run_cached H ops [])) /\
  cache_keys_nodup (snd (run_cached H ops [])) /\
  (fst (run_cached H ops []) = roots_of H ops \/ collision).
Proof.
  destruct (run_cached_sound ops [] (Forall_nil _)) as [A B].
  split; [exact A|]. split; [|exact B]. apply run_cached_nodup. constructor.
Qed.

(* size: a root computation with capacity cap never leaves more than max(|c|, cap, 1) entries *)
Lemma root_cached_length cap es c :
  (length (snd (root_cached H cap es c)) <= Nat.max (length c) (Nat.max cap 1))%nat.
Proof. apply merklize_c_length. Qed.

End WithH.
