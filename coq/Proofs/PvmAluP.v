(* Range lemmas for the arithmetic of Model/PvmStep.v: every ALU result is a 64-bit value. *)
From JamV Require Import Model.PvmStep Proofs.PvmCodeP.
From Coq Require Import ZifyBool ZifyNat ZifyN.
Local Open Scope Z_scope.
Ltac Zify.zify_post_hook ::= Z.div_mod_to_equations.

Definition u64 (x : Z) : Prop := 0 <= x < W64.

Lemma W64_eq : W64 = 2 ^ 64. Proof. reflexivity. Qed.
Lemma W32_eq : W32 = 2 ^ 32. Proof. reflexivity. Qed.

Lemma u8_range : forall z, u64 (u8 z).
Proof. intros; unfold u64, u8, W64; lia. Qed.

Lemma mod64_range : forall z, u64 (z mod W64).
Proof. intros; unfold u64, W64; lia. Qed.

Lemma x4_range : forall v, u64 (x4 v).
Proof.
  intros. unfold x4, u64. apply sext_range; [lia|].
  change (2 ^ (8 * 4)) with 4294967296. unfold W32. lia.
Qed.

Lemma b2z_range : forall b, u64 (b2z b).
Proof. intros []; unfold u64, b2z, W64; lia. Qed.

Lemma div_range : forall a c, u64 a -> 0 < c -> u64 (a / c).
Proof.
  intros a c [H0 H1] Hc. unfold u64. split.
  - apply Z.div_pos; lia.
  - apply Z.le_lt_trans with a; [|assumption].
    apply Z.div_le_upper_bound; [lia|]. nia.
Qed.

Lemma pow2_pos : forall k, 0 <= k -> 0 < 2 ^ k.
Proof. intros; apply Z.pow_pos_nonneg; lia. Qed.

Lemma shr_range : forall a k m, u64 a -> 0 < m -> u64 (a / 2 ^ (k mod m)).
Proof. intros. apply div_range; [assumption|]. apply pow2_pos. lia. Qed.

(* ---- bitwise operations ---- *)
Lemma bits_above : forall x i, u64 x -> 64 <= i -> Z.testbit x i = false.
Proof.
  intros x i [H0 H1] Hi. destruct (Z.eq_dec x 0) as [->|Hx]; [apply Z.bits_0|].
  apply Z.bits_above_log2; [assumption|].
  assert (Z.log2 x < 64) by (apply Z.log2_lt_pow2; [lia|rewrite <- W64_eq; assumption]). lia.
Qed.

Lemma u64_of_bits : forall x, 0 <= x -> (forall i, 64 <= i -> Z.testbit x i = false) -> u64 x.
Proof.
  intros x H0 Hb. split; [assumption|].
  destruct (Z.eq_dec x 0) as [->|Hx]; [unfold W64; lia|].
  rewrite W64_eq. apply Z.log2_lt_pow2; [lia|].
  destruct (Z_lt_ge_dec (Z.log2 x) 64) as [L|G]; [assumption|].
  pose proof (Z.bit_log2 x ltac:(lia)) as B. rewrite Hb in B by lia. discriminate.
Qed.

Lemma land_range : forall a b, u64 a -> u64 b -> u64 (Z.land a b).
Proof.
  intros a b Ha Hb. apply u64_of_bits.
  - apply Z.land_nonneg. left. apply Ha.
  - intros i Hi. rewrite Z.land_spec, (bits_above a i Ha Hi). reflexivity.
Qed.

Lemma lor_range : forall a b, u64 a -> u64 b -> u64 (Z.lor a b).
Proof.
  intros a b Ha Hb. apply u64_of_bits.
  - apply Z.lor_nonneg. split; [apply Ha|apply Hb].
  - intros i Hi. rewrite Z.lor_spec, (bits_above a i Ha Hi), (bits_above b i Hb Hi). reflexivity.
Qed.

Lemma lxor_range : forall a b, u64 a -> u64 b -> u64 (Z.lxor a b).
Proof.
  intros a b Ha Hb. apply u64_of_bits.
  - apply Z.lxor_nonneg. split; intros _; [apply Hb|apply Ha].
  - intros i Hi. rewrite Z.lxor_spec, (bits_above a i Ha Hi), (bits_above b i Hb Hi). reflexivity.
Qed.

Lemma not64_range : forall a, u64 a -> u64 (not64 a).
Proof. intros a [H0 H1]. unfold u64, not64, W64 in *. lia. Qed.

(* ---- counting ---- *)
Lemma popcount_range : forall n x, 0 <= popcount n x <= Z.of_nat n.
Proof.
  induction n as [|n IH]; intros x; cbn [popcount]; [lia|].
  specialize (IH (x / 2)). lia.
Qed.

Lemma ctz_range : forall n x, 0 <= ctz n x <= Z.of_nat n.
Proof.
  induction n as [|n IH]; intros x; cbn [ctz]; [lia|].
  destruct (Z.odd x); [lia|]. specialize (IH (x / 2)). lia.
Qed.

Lemma clz_range : forall w x, 0 <= w -> 0 <= x < 2 ^ w -> 0 <= clz w x <= w.
Proof.
  intros w x Hw [H0 H1]. unfold clz. destruct (x =? 0) eqn:E; [lia|].
  assert (0 < x) by lia.
  pose proof (Z.log2_nonneg x).
  assert (Z.log2 x < w) by (apply Z.log2_lt_pow2; assumption). lia.
Qed.

Lemma rev_bytes_range : forall n x acc k, 0 <= k -> 0 <= acc < 256 ^ k ->
  0 <= rev_bytes n x acc < 256 ^ (k + Z.of_nat n).
Proof.
  induction n as [|n IH]; intros x acc k Hk Ha; cbn [rev_bytes].
  - rewrite Z.add_0_r. assumption.
  - replace (k + Z.of_nat (S n)) with ((k + 1) + Z.of_nat n) by lia.
    apply IH; [lia|]. rewrite Z.pow_add_r by lia. change (256 ^ 1) with 256. lia.
Qed.

Lemma small_u64 : forall x n, 0 <= x <= n -> n < W64 -> u64 x.
Proof. intros; unfold u64; lia. Qed.

(* ---- the three ALU families ---- *)
Lemma eval_alu2_range : forall o a, u64 a -> u64 (eval_alu2 o a).
Proof.
  intros o a Ha. destruct o; cbn [eval_alu2]; try apply u8_range.
  - apply (small_u64 _ 64); [apply (popcount_range 64)|unfold W64; lia].
  - apply (small_u64 _ 32); [apply (popcount_range 32)|unfold W64; lia].
  - apply (small_u64 _ 64); [|unfold W64; lia]. apply clz_range; [lia|]. rewrite <- W64_eq. apply Ha.
  - apply (small_u64 _ 32); [|unfold W64; lia]. apply clz_range; [lia|]. rewrite <- W32_eq. unfold W32; lia.
  - apply (small_u64 _ 64); [apply (ctz_range 64)|unfold W64; lia].
  - apply (small_u64 _ 32); [apply (ctz_range 32)|unfold W64; lia].
  - unfold u64, W64. lia.
  - pose proof (rev_bytes_range 8 a 0 0 ltac:(lia) ltac:(cbn; lia)) as R.
    change (256 ^ (0 + Z.of_nat 8)) with 18446744073709551616 in R. exact R.
Qed.

Lemma rotr64_range : forall x k, u64 (rotr 64 x k).
Proof. intros. unfold rotr. change (2 ^ 64) with W64. apply mod64_range. Qed.

Lemma eval_alu2i_range : forall o b x a, u64 b -> u64 x -> u64 a -> u64 (eval_alu2i o b x a).
Proof.
  intros o b x a Hb Hx Ha.
  destruct o; cbn [eval_alu2i];
    try apply x4_range; try apply u8_range; try apply mod64_range; try apply b2z_range;
    try (apply land_range; assumption); try (apply lor_range; assumption); try (apply lxor_range; assumption);
    try (apply shr_range; [assumption|lia]); try apply rotr64_range.
  - destruct (b =? 0); assumption.
  - destruct (b =? 0); assumption.
Qed.

Lemma eval_alu3_range : forall o a b d, u64 a -> u64 b -> u64 d -> u64 (eval_alu3 o a b d).
Proof.
  intros o a b d Ha Hb Hd.
  assert (Hm : u64 (W64 - 1)) by (unfold u64, W64; lia).
  destruct o; cbn [eval_alu3];
    try apply x4_range; try apply u8_range; try apply mod64_range; try apply b2z_range;
    try (apply land_range; assumption); try (apply lor_range; assumption); try (apply lxor_range; assumption);
    try (apply shr_range; [assumption|lia]); try apply rotr64_range.
  - (* DivU32 *) destruct (b mod W32 =? 0); [assumption|apply x4_range].
  - (* DivS32 *) destruct (s4 b =? 0); [assumption|]. destruct ((s4 a =? -2147483648) && (s4 b =? -1)); apply u8_range.
  - (* RemU32 *) destruct (b mod W32 =? 0); apply x4_range.
  - (* RemS32 *) destruct ((s4 a =? -2147483648) && (s4 b =? -1)); [unfold u64, W64; lia|apply u8_range].
  - (* DivU64 *) destruct (b =? 0) eqn:E; [assumption|]. apply div_range; [assumption|]. destruct Hb. lia.
  - (* DivS64 *) destruct (b =? 0); [assumption|].
    destruct ((s8 a =? -9223372036854775808) && (s8 b =? -1)); [assumption|apply u8_range].
  - (* RemU64 *) destruct (b =? 0) eqn:E; [assumption|]. destruct Ha, Hb. unfold u64.
    pose proof (Z.mod_pos_bound a b ltac:(lia)). lia.
  - (* RemS64 *) destruct ((s8 a =? -9223372036854775808) && (s8 b =? -1)); [unfold u64, W64; lia|apply u8_range].
  - (* MulUpperUU *) destruct Ha as [A0 A1], Hb as [B0 B1]. unfold u64. split.
    + apply Z.div_pos; [nia|unfold W64; lia].
    + apply Z.div_lt_upper_bound; [unfold W64; lia|]. nia.
  - (* CmovIz *) destruct (b =? 0); assumption.
  - (* CmovNz *) destruct (b =? 0); assumption.
  - (* AndInv *) apply land_range; [assumption|apply not64_range; assumption].
  - (* OrInv *) apply lor_range; [assumption|apply not64_range; assumption].
  - (* Xnor *) apply not64_range. apply lxor_range; assumption.
  - (* MaxU *) destruct Ha, Hb. unfold u64. lia.
  - (* MinU *) destruct Ha, Hb. unfold u64. lia.
Qed.
