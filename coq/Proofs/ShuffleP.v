(* C20 — proofs about Model/Shuffle.v *)
From JamV Require Import Base.Bytes Model.Shuffle.
From Coq Require Import ZifyBool ZifyNat ZifyN Permutation.
Local Open Scope N_scope.
Ltac Zify.zify_post_hook ::= Z.div_mod_to_equations.

(* ------------------------------------------------------------------------------------------ *)
(* list surgery *)
Section Lists.
  Context {A : Type}.

  Lemma firstn_exact (a b : list A) n : length a = n -> firstn n (a ++ b) = a.
  Proof. intros <-. rewrite firstn_app, Nat.sub_diag, firstn_all. cbn. apply app_nil_r. Qed.

  Lemma skipn_exact (a b : list A) n : length a = n -> skipn n (a ++ b) = b.
  Proof. intros <-. rewrite skipn_app, Nat.sub_diag, skipn_all. reflexivity. Qed.

  Lemma set_nth_split (p q : list A) y x : set_nth (length p) x (p ++ y :: q) = p ++ x :: q.
  Proof.
    unfold set_nth. rewrite firstn_exact by reflexivity.
    replace (S (length p)) with (length (p ++ [y])) by (rewrite app_length; cbn; lia).
    replace (p ++ y :: q) with ((p ++ [y]) ++ q) by (rewrite <- app_assoc; reflexivity).
    rewrite skipn_exact by reflexivity. reflexivity.
  Qed.

  Lemma set_nth_length i x (s : list A) : (i < length s)%nat -> length (set_nth i x s) = length s.
  Proof.
    intros Hi. unfold set_nth. rewrite app_length, firstn_length. cbn [length]. rewrite skipn_length. lia.
  Qed.

  Lemma last_app_single (p : list A) z d : last (p ++ [z]) d = z.
  Proof. apply last_last. Qed.

  Lemma last_cases (q : list A) : q = [] \/ exists q' z, q = q' ++ [z].
  Proof.
    destruct q as [|b q]; [left; reflexivity|right].
    destruct (@exists_last _ (b :: q)) as (q' & z & Hq); [discriminate|]. eauto.
  Qed.

  Lemma pick_lt r0 l : (0 < l)%nat -> (pick r0 l < l)%nat.
  Proof. intros Hl. unfold pick. assert (r0 mod N.of_nat l < N.of_nat l) by (apply N.mod_lt; lia). lia. Qed.

  (* one step of F.1 removes exactly the drawn element: the drawn element followed by the
     remaining sequence is a rearrangement of the sequence before the step *)
  Lemma step_perm (s : list A) a i :
    (i < length s)%nat ->
    Permutation (nth i s a :: firstn (length s - 1) (set_nth i (last s a) s)) s
    /\ length (firstn (length s - 1) (set_nth i (last s a) s)) = (length s - 1)%nat.
  Proof.
    intros Hi. destruct (nth_split s a Hi) as (p & q & Hs & Hp).
    set (y := nth i s a) in *. clearbody y.
    subst s. subst i. rewrite set_nth_split.
    destruct (last_cases q) as [Hq | (q' & z & Hq)].
    - subst q. rewrite last_app_single.
      rewrite app_length; cbn [length]. replace (length p + 1 - 1)%nat with (length p) by lia.
      rewrite firstn_exact by reflexivity. split.
      + apply Permutation_cons_append.
      + reflexivity.
    - subst q.
      replace (p ++ y :: q' ++ [z]) with ((p ++ y :: q') ++ [z]) by (rewrite <- app_assoc; reflexivity).
      rewrite last_app_single.
      replace (p ++ z :: q' ++ [z]) with ((p ++ z :: q') ++ [z]) by (rewrite <- app_assoc; reflexivity).
      assert (Hl : (length ((p ++ y :: q') ++ [z]) - 1)%nat = length (p ++ z :: q')).
      { rewrite !app_length. cbn [length]. lia. }
      rewrite Hl, firstn_exact by reflexivity. split; [|reflexivity].
      (* y :: p ++ z :: q'   ~   (p ++ y :: q') ++ [z] *)
      etransitivity; [| apply Permutation_app_comm ]. cbn [app].
      transitivity (y :: z :: p ++ q').
      { apply perm_skip, Permutation_sym, Permutation_middle. }
      transitivity (z :: y :: p ++ q'); [apply perm_swap|].
      apply perm_skip, Permutation_middle.
  Qed.
End Lists.

(* ------------------------------------------------------------------------------------------ *)
(* F.1 *)
Section FY.
  Context {A : Type}.

  (* the defining equations of F.1 *)
  Lemma F_nil (r : list N) : F (@nil A) r = [].
  Proof. destruct r; reflexivity. Qed.

  Lemma F_step (a : A) (s' : list A) r0 r' :
    let s := a :: s' in
    let l := length s in
    let i := N.to_nat (r0 mod N.of_nat l) in
    F s (r0 :: r') = nth i s a :: F (firstn (l - 1) (set_nth i (last s a) s)) r'.
  Proof. reflexivity. Qed.

  (* the in-place swap of the Go code computes the same sequence as F.1 *)
  Lemma fy_go_is_F (r : list N) : forall s : list A, fy_go s r = F s r.
  Proof.
    induction r as [|r0 r' IH]; intros s; [reflexivity|].
    destruct s as [|a s']; [reflexivity|].
    cbn [fy_go F]. f_equal. rewrite IH. f_equal.
    set (s := a :: s'). set (l := length s). set (i := pick r0 l).
    assert (Hl : (0 < l)%nat) by (subst l s; cbn; lia).
    assert (Hi : (i < l)%nat) by (apply pick_lt; exact Hl).
    set (t := set_nth i (last s a) s).
    assert (Ht : length t = l) by (subst t; apply set_nth_length; exact Hi).
    clearbody t. unfold set_nth at 1.
    apply firstn_exact. rewrite firstn_length. lia.
  Qed.

  Lemma F_perm (r : list N) : forall s : list A, (length s <= length r)%nat -> Permutation (F s r) s.
  Proof.
    induction r as [|r0 r' IH]; intros s Hlen.
    - destruct s; [constructor|cbn in Hlen; lia].
    - destruct s as [|a s']; [constructor|].
      cbn [F]. set (s := a :: s') in *. set (l := length s) in *. set (i := pick r0 l).
      assert (Hl : (0 < l)%nat) by (subst l s; cbn; lia).
      assert (Hi : (i < length s)%nat) by (apply pick_lt; exact Hl).
      destruct (step_perm s a i Hi) as [Hp Hn]. fold l in Hp, Hn.
      etransitivity; [| exact Hp]. apply perm_skip. apply IH.
      rewrite Hn. cbn [length] in Hlen. lia.
  Qed.

  Lemma F_length (r : list N) (s : list A) : (length s <= length r)%nat -> length (F s r) = length s.
  Proof. intros Hl. apply Permutation_length, F_perm, Hl. Qed.

  Lemma fy_go_perm (s : list A) r : (length s <= length r)%nat -> Permutation (fy_go s r) s.
  Proof. intros Hl. rewrite fy_go_is_F. apply F_perm, Hl. Qed.
End FY.

(* ------------------------------------------------------------------------------------------ *)
(* F.2, F.3 *)
Section Hashed.
  Variable H : bytes -> bytes.

  Lemma qseq_length h l : length (qseq H h l) = l.
  Proof. unfold qseq. rewrite map_length, seq_length. reflexivity. Qed.

  Lemma shuffle_go_is_F {A} (s : list A) h : shuffle_go H s h = shuffle_F H s h.
  Proof. apply fy_go_is_F. Qed.

  Lemma shuffle_F_perm {A} (s : list A) h : Permutation (shuffle_F H s h) s.
  Proof. apply F_perm. rewrite qseq_length. lia. Qed.

  Lemma shuffle_go_perm {A} (s : list A) h : Permutation (shuffle_go H s h) s.
  Proof. rewrite shuffle_go_is_F. apply shuffle_F_perm. Qed.

  Lemma permute_go_is_assign p e t : permute_go H p e t = assign H p e t.
  Proof. unfold permute_go, assign. rewrite shuffle_go_is_F. reflexivity. Qed.

  (* -------------------------------------------------------------------------------------- *)
  (* the unshuffled assignment gives every core V/C validators when C divides V *)
  Lemma div_eq_iff n k c : 0 < k -> (n / k = c <-> c * k <= n < (c + 1) * k).
  Proof.
    intros Hk. split.
    - intros <-. split.
      + rewrite N.mul_comm. apply N.mul_div_le. lia.
      + replace (n / k + 1) with (N.succ (n / k)) by lia. rewrite N.mul_comm.
        apply N.mul_succ_div_gt. lia.
    - intros [Hlo Hhi]. symmetry. apply (N.div_unique n k c (n - c * k)); lia.
  Qed.

  Lemma count_div_seq k c (n : nat) : 0 < k ->
    N.of_nat (count_occ N.eq_dec (map (fun i => N.of_nat i / k) (seq 0 n)) c)
    = N.min (N.of_nat n) ((c + 1) * k) - N.min (N.of_nat n) (c * k).
  Proof.
    intros Hk. induction n as [|n IH]; [cbn; lia|].
    rewrite seq_S, map_app, count_occ_app. cbn [Nat.add map count_occ].
    pose proof (div_eq_iff (N.of_nat n) k c Hk) as Hd.
    destruct (N.eq_dec (N.of_nat n / k) c) as [He | He].
    - apply Hd in He. lia.
    - assert (~ (c * k <= N.of_nat n < (c + 1) * k)) by tauto. lia.
  Qed.

  Lemma base_cores_alt p k : 0 < pC p -> 0 < k -> pV p = pC p * k ->
    base_cores p = map (fun i => N.of_nat i / k) (seq 0 (N.to_nat (pV p))).
  Proof.
    intros HC Hk HV. unfold base_cores, nseq. rewrite map_map. apply map_ext.
    intros i. rewrite HV. apply N.div_mul_cancel_l; lia.
  Qed.

  Lemma base_cores_share p c : 0 < pC p -> pV p mod pC p = 0 -> c < pC p ->
    N.of_nat (count_occ N.eq_dec (base_cores p) c) = pV p / pC p.
  Proof.
    intros HC Hdiv Hc. set (k := pV p / pC p).
    assert (HV : pV p = pC p * k).
    { subst k. rewrite (N.div_mod (pV p) (pC p)) at 1 by lia. rewrite Hdiv. lia. }
    destruct (N.eq_dec k 0) as [Hk0 | Hk0].
    - rewrite Hk0 in *. assert (pV p = 0) by lia. unfold base_cores, nseq. rewrite H0. reflexivity.
    - rewrite (base_cores_alt p k) by lia. rewrite count_div_seq by lia.
      rewrite N2Nat.id, HV.
      assert ((c + 1) * k <= pC p * k) by (apply N.mul_le_mono_r; lia).
      assert (c * k <= (c + 1) * k) by (apply N.mul_le_mono_r; lia).
      lia.
  Qed.

  Lemma base_cores_range p : 0 < pC p -> Forall (fun x => x < pC p) (base_cores p).
  Proof.
    intros HC. unfold base_cores, nseq. rewrite Forall_map, Forall_map. apply Forall_forall.
    intros i Hi. apply in_seq in Hi.
    assert (HV : 0 < pV p) by lia.
    apply N.div_lt_upper_bound; [lia|].
    assert (N.of_nat i < pV p) by lia.
    rewrite (N.mul_comm (pV p)). apply N.mul_lt_mono_pos_l; lia.
  Qed.

  Lemma base_cores_length p : length (base_cores p) = N.to_nat (pV p).
  Proof. unfold base_cores, nseq. rewrite !map_length, seq_length. reflexivity. Qed.

  (* -------------------------------------------------------------------------------------- *)
  (* rotation is a bijection of the cores *)
  Lemma mod_lt2 a c : 0 < c -> a < 2 * c -> a mod c = if a <? c then a else a - c.
  Proof.
    intros Hc Ha. destruct (N.ltb_spec a c).
    - apply N.mod_small; lia.
    - symmetry. apply (N.mod_unique a c 1); lia.
  Qed.

  Lemma rot_eq_iff C n x c : 0 < C -> x < C -> c < C ->
    ((x + n) mod C = c <-> x = (c + (C - n mod C)) mod C).
  Proof.
    intros HC Hx Hc. rewrite <- N.add_mod_idemp_r by lia.
    assert (Hn : n mod C < C) by (apply N.mod_lt; lia). set (m := n mod C) in *. clearbody m.
    rewrite (mod_lt2 (x + m) C) by lia. rewrite (mod_lt2 (c + (C - m)) C) by lia.
    destruct (N.ltb_spec (x + m) C); destruct (N.ltb_spec (c + (C - m)) C); lia.
  Qed.

  Lemma rotate_count p l n c : 0 < pC p -> Forall (fun x => x < pC p) l -> c < pC p ->
    count_occ N.eq_dec (rotate p l n) c
    = count_occ N.eq_dec l ((c + (pC p - n mod pC p)) mod pC p).
  Proof.
    intros HC Hl Hc. induction Hl as [|x l Hx Hl IH]; [reflexivity|].
    cbn [rotate map count_occ]. fold (rotate p l n). rewrite IH.
    pose proof (rot_eq_iff (pC p) n x c HC Hx Hc) as Hr.
    destruct (N.eq_dec ((x + n) mod pC p) c) as [He|He];
      destruct (N.eq_dec x ((c + (pC p - n mod pC p)) mod pC p)) as [He'|He']; try reflexivity; tauto.
  Qed.

  Lemma rotate_range p l n : 0 < pC p -> Forall (fun x => x < pC p) (rotate p l n).
  Proof.
    intros HC. unfold rotate. rewrite Forall_map. apply Forall_forall. intros x _.
    apply N.mod_lt. lia.
  Qed.

  (* C | V : every core is assigned exactly V/C validators, whatever the entropy and the slot *)
  Lemma assign_share p e t c : 0 < pC p -> pV p mod pC p = 0 -> c < pC p ->
    N.of_nat (count_occ N.eq_dec (assign H p e t) c) = pV p / pC p.
  Proof.
    intros HC Hdiv Hc. unfold assign.
    pose proof (shuffle_F_perm (base_cores p) e) as Hp.
    rewrite rotate_count; [| exact HC | | exact Hc].
    - rewrite (Permutation_count_occ N.eq_dec) in Hp. rewrite Hp.
      apply base_cores_share; [exact HC | exact Hdiv |]. apply N.mod_lt. lia.
    - eapply Permutation_Forall; [apply Permutation_sym, Hp|]. apply base_cores_range, HC.
  Qed.

  Lemma assign_length p e t : length (assign H p e t) = N.to_nat (pV p).
  Proof.
    unfold assign, rotate. rewrite map_length.
    rewrite (Permutation_length (shuffle_F_perm (base_cores p) e)). apply base_cores_length.
  Qed.

  Lemma assign_range p e t : 0 < pC p -> Forall (fun x => x < pC p) (assign H p e t).
  Proof. intros HC. apply rotate_range, HC. Qed.

  (* -------------------------------------------------------------------------------------- *)
  (* one rotation period later, inside the same epoch, every assignment has moved by one core *)
  Lemma sub_epoch_step p t : 0 < pE p -> 0 < pR p -> t / pE p = (t + pR p) / pE p ->
    sub_epoch p (t + pR p) = sub_epoch p t + 1.
  Proof.
    intros HE HR Hsame. unfold sub_epoch.
    assert (Hm : (t + pR p) mod pE p = t mod pE p + pR p).
    { pose proof (N.div_mod t (pE p)) as H1. pose proof (N.div_mod (t + pR p) (pE p)) as H2.
      rewrite <- Hsame in H2. specialize (H1 ltac:(lia)). specialize (H2 ltac:(lia)).
      set (a := pE p * (t / pE p)) in *. clearbody a. lia. }
    rewrite Hm. replace (t mod pE p + pR p) with (t mod pE p + 1 * pR p) by lia.
    apply N.div_add. lia.
  Qed.

  Lemma rotate_succ p l n : 0 < pC p ->
    rotate p l (n + 1) = map (fun c => (c + 1) mod pC p) (rotate p l n).
  Proof.
    intros HC. unfold rotate. rewrite map_map. apply map_ext. intros x.
    rewrite N.add_mod_idemp_l by lia. f_equal. lia.
  Qed.

  Lemma assign_rotation_step p e t : 0 < pC p -> 0 < pE p -> 0 < pR p ->
    t / pE p = (t + pR p) / pE p ->
    assign H p e (t + pR p) = map (fun c => (c + 1) mod pC p) (assign H p e t).
  Proof.
    intros HC HE HR Hsame. unfold assign. rewrite sub_epoch_step by assumption.
    apply rotate_succ, HC.
  Qed.

  (* the assignment depends on the slot only through its rotation index *)
  Lemma assign_slot_indep p e t1 t2 : sub_epoch p t1 = sub_epoch p t2 -> assign H p e t1 = assign H p e t2.
  Proof. intros Hs. unfold assign. rewrite Hs. reflexivity. Qed.
End Hashed.

(* a stand-in hash used only by the non-vacuity Examples of Properties/C20.v *)
Definition toyH (b : bytes) : bytes :=
  let s := fold_left (fun acc x => (acc * 31 + x + 7) mod 65521) b 1 in
  map (fun i => (s * (N.of_nat i + 3) + N.of_nat i * N.of_nat i) mod 256) (seq 0 32).
