(* C18 — proofs about Model/Merkle.v *)
From JamV Require Import Base.Bytes Model.Merkle Proofs.BytesP.
From Coq Require Import ZifyBool ZifyNat ZifyN Arith.
Ltac Zify.zify_post_hook ::= Z.div_mod_to_equations.

(* ------------------------------------------------------------------ lists *)
Lemma nth_firstn_lt {A} (d : A) : forall (l : list A) n i, i < n -> nth i (firstn n l) d = nth i l d.
Proof.
  induction l as [|a l IH]; intros n i Hi.
  - rewrite firstn_nil. reflexivity.
  - destruct n; [lia|]. destruct i; [reflexivity|]. cbn. apply IH. lia.
Qed.

Lemma nth_skipn_add {A} (d : A) : forall (l : list A) n i, nth i (skipn n l) d = nth (n + i) l d.
Proof.
  induction l as [|a l IH]; intros n i.
  - rewrite skipn_nil. destruct i, n; reflexivity.
  - destruct n; [reflexivity|]. cbn. apply IH.
Qed.

Lemma firstn_skipn_firstn {A} : forall (l : list A) a b m, a + b <= m ->
  firstn b (skipn a (firstn m l)) = firstn b (skipn a l).
Proof.
  induction l as [|x l IH]; intros a b m Hm.
  - rewrite firstn_nil, skipn_nil. reflexivity.
  - destruct m.
    + assert (a = 0) by lia. assert (b = 0) by lia. subst. reflexivity.
    + destruct a.
      * cbn [skipn]. destruct b; [reflexivity|]. cbn [firstn]. f_equal.
        apply (IH 0 b m). lia.
      * cbn [firstn skipn]. apply IH. lia.
Qed.

Lemma skipn_skipn {A} : forall (l : list A) a b, skipn a (skipn b l) = skipn (b + a) l.
Proof.
  induction l as [|x l IH]; intros a b.
  - rewrite !skipn_nil. reflexivity.
  - destruct b; [reflexivity|]. cbn [skipn Nat.add]. apply IH.
Qed.

Lemma split_at_nth {A} (d : A) : forall (l : list A) i, i < length l ->
  l = firstn i l ++ nth i l d :: skipn (S i) l.
Proof.
  induction l as [|a l IH]; intros i Hi; [cbn in Hi; lia|].
  destruct i; [reflexivity|]. cbn [firstn nth skipn app]. f_equal. apply IH. cbn in Hi. lia.
Qed.

Lemma skipn_cons_nth {A} (d : A) : forall (l : list A) i, i < length l ->
  skipn i l = nth i l d :: skipn (S i) l.
Proof.
  induction l as [|a l IH]; intros i Hi; [cbn in Hi; lia|].
  destruct i; [reflexivity|]. cbn [skipn nth]. apply IH. cbn in Hi. lia.
Qed.

Lemma firstn_repeat {A} (x : A) : forall n m, firstn n (repeat x m) = repeat x (Nat.min n m).
Proof. induction n; intros [|m]; cbn; try reflexivity. f_equal. apply IHn. Qed.

Lemma map_nth_seq {A B} (g : A -> B) (d : A) : forall (l : list A),
  map (fun i => g (nth i l d)) (seq 0 (length l)) = map g l.
Proof.
  induction l as [|a l IH]; [reflexivity|].
  cbn [length seq map nth]. f_equal. rewrite <- seq_shift, map_map. exact IH.
Qed.

Lemma map_nth_seq_firstn {A} (d : A) : forall (l : list A) n, n <= length l ->
  map (fun k => nth k l d) (seq 0 n) = firstn n l.
Proof.
  induction l as [|a l IH]; intros n Hn.
  - cbn in Hn. assert (n = 0) by lia. subst. reflexivity.
  - destruct n; [reflexivity|]. cbn [seq map nth firstn]. f_equal.
    rewrite <- seq_shift, map_map. apply IH. cbn in Hn. lia.
Qed.

(* the chunks of size q > 0 partition a list *)
Lemma chunks_concat {A} q : 0 < q -> forall k (l : list A), length l <= k * q ->
  concat (map (fun i => firstn q (skipn (q * i) l)) (seq 0 k)) = l.
Proof.
  intros Hq. induction k as [|k IH]; intros l Hl.
  - destruct l; [reflexivity | cbn in Hl; lia].
  - cbn [seq map concat]. rewrite Nat.mul_0_r. cbn [skipn].
    rewrite <- seq_shift, map_map.
    rewrite (map_ext _ (fun i => firstn q (skipn (q * i) (skipn q l)))).
    + rewrite IH; [apply firstn_skipn|]. rewrite skipn_length. lia.
    + intros i. rewrite skipn_skipn. f_equal. f_equal. lia.
Qed.

(* ------------------------------------------------------------------ arithmetic *)
Lemma half_bounds n : 2 <= n -> 0 < half n < n.
Proof. unfold half. lia. Qed.
Lemma half_pow2 d : half (2 ^ S d) = 2 ^ d.
Proof. unfold half. rewrite Nat.pow_succ_r'. lia. Qed.
Lemma pow2_pos d : 0 < 2 ^ d.
Proof. induction d; cbn; lia. Qed.

Section MerkleP.
Variable H : bytes -> bytes.
Notation Nroot := (Nroot H).
Notation Nroot_ := (Nroot_ H).
Notation T := (T H).
Notation T_ := (T_ H).
Notation fold_trace := (fold_trace H).

(* ------------------------------------------------------------------ fuel is irrelevant *)
Lemma Nroot_fuel : forall f1 f2 (v : list bytes), length v <= f1 -> length v <= f2 -> Nroot_ f1 v = Nroot_ f2 v.
Proof.
  induction f1 as [|f1 IH]; intros f2 v H1 H2; destruct v as [|a [|b t]];
    try (destruct f2; reflexivity).
  - cbn in H1. lia.
  - destruct f2; [cbn in H2; lia|].
    cbn [Merkle.Nroot_].
    remember (a :: b :: t) as v eqn:Ev.
    assert (Hv : 2 <= length v) by (subst v; cbn; lia).
    pose proof (half_bounds _ Hv) as Hh.
    f_equal. f_equal. f_equal; apply IH; rewrite ?firstn_length, ?skipn_length; lia.
Qed.

Lemma Nroot_nil : Nroot [] = zero_hash.
Proof. reflexivity. Qed.
Lemma Nroot_single x : Nroot [x] = x.
Proof. reflexivity. Qed.

Lemma Nroot__S f (v : list bytes) : 2 <= length v ->
  Nroot_ (S f) v = H (node_tag ++ Nroot_ f (firstn (half (length v)) v) ++ Nroot_ f (skipn (half (length v)) v)).
Proof. destruct v as [|a [|b t]]; cbn [length]; try lia. reflexivity. Qed.

Lemma Nroot_step (v : list bytes) : 2 <= length v ->
  Nroot v = H (node_tag ++ Nroot (firstn (half (length v)) v) ++ Nroot (skipn (half (length v)) v)).
Proof.
  intros Hv. pose proof (half_bounds _ Hv) as Hh.
  unfold Merkle.Nroot at 1. destruct (length v) as [|n] eqn:E; [lia|].
  rewrite Nroot__S by lia. rewrite E.
  f_equal. f_equal. f_equal; apply Nroot_fuel; rewrite ?firstn_length, ?skipn_length; lia.
Qed.

Lemma T_fuel : forall f1 f2 (v : list bytes) i, length v <= f1 -> length v <= f2 -> T_ f1 v i = T_ f2 v i.
Proof.
  induction f1 as [|f1 IH]; intros f2 v i H1 H2.
  - destruct v; [|cbn in H1; lia]. destruct f2; reflexivity.
  - destruct f2.
    + destruct v; [reflexivity | cbn in H2; lia].
    + cbn [Merkle.T_]. destruct (Nat.leb_spec (length v) 1); [reflexivity|].
      pose proof (half_bounds (length v) ltac:(lia)) as Hh.
      destruct (i <? half (length v)); f_equal; apply IH; rewrite ?firstn_length, ?skipn_length; lia.
Qed.

Lemma T_small (v : list bytes) i : length v <= 1 -> T v i = [].
Proof.
  intros Hv. unfold Merkle.T. destruct (length v) eqn:E; [reflexivity|].
  cbn [Merkle.T_]. rewrite E. destruct (Nat.leb_spec (S n) 1); [reflexivity | lia].
Qed.

Lemma T_step (v : list bytes) i : 2 <= length v ->
  T v i = if i <? half (length v)
          then Nroot (skipn (half (length v)) v) :: T (firstn (half (length v)) v) i
          else Nroot (firstn (half (length v)) v) :: T (skipn (half (length v)) v) (i - half (length v)).
Proof.
  intros Hv. pose proof (half_bounds _ Hv) as Hh.
  unfold Merkle.T at 1. destruct (length v) as [|n] eqn:E; [lia|].
  cbn [Merkle.T_]. rewrite E. destruct (Nat.leb_spec (S n) 1); [lia|].
  destruct (i <? half (S n)); f_equal; apply T_fuel; rewrite ?firstn_length, ?skipn_length; lia.
Qed.

(* ------------------------------------------------------------------ the trace folds back to the root *)
Lemma trace_reproduces_root_aux : forall n (v : list bytes) i, length v <= n -> i < length v ->
  fold_trace (nth i v []) (T v i) i (length v) = Nroot v.
Proof.
  induction n as [|n IH]; intros v i Hn Hi; [lia|].
  destruct (Nat.le_gt_cases (length v) 1) as [H1|H2].
  - destruct v as [|a [|b t]]; cbn in Hi, H1; try lia.
    assert (i = 0) by lia. subst. reflexivity.
  - pose proof (half_bounds (length v) ltac:(lia)) as Hh.
    assert (Hv2 : 2 <= length v) by lia.
    rewrite (T_step v i Hv2), (Nroot_step v Hv2).
    set (m := half (length v)) in *.
    destruct (Nat.ltb_spec i m) as [Hlt|Hge].
    + cbn [Merkle.fold_trace]. fold m. destruct (Nat.ltb_spec i m); [|lia].
      f_equal. f_equal. f_equal.
            rewrite <- (IH (firstn m v) i); rewrite ?firstn_length; try lia.
      rewrite nth_firstn_lt by lia. f_equal. lia.
    + cbn [Merkle.fold_trace]. fold m. destruct (Nat.ltb_spec i m); [lia|].
      f_equal. f_equal. f_equal.
      rewrite <- (IH (skipn m v) (i - m)); rewrite ?skipn_length; try lia.
      rewrite nth_skipn_add. replace (m + (i - m)) with i by lia. reflexivity.
Qed.

Theorem trace_reproduces_root (v : list bytes) i : i < length v ->
  fold_trace (nth i v []) (T v i) i (length v) = Nroot v.
Proof. intros. eapply trace_reproduces_root_aux; eauto. Qed.

(* ------------------------------------------------------------------ any single change is detected *)
Definition collision : Prop := exists a b : bytes, a <> b /\ H a = H b.

Lemma H_inj_or_collision a b : H a = H b -> a = b \/ collision.
Proof.
  intros E. destruct (list_eq_dec N.eq_dec a b) as [|Hne]; [left; assumption|].
  right. exists a, b. split; assumption.
Qed.

Lemma single_change_app_aux : forall n (l1 l2 : list bytes) a b, length (l1 ++ a :: l2) <= n ->
  Nroot (l1 ++ a :: l2) = Nroot (l1 ++ b :: l2) -> a = b \/ collision.
Proof.
  induction n as [|n IH]; intros l1 l2 a b Hn E.
  - rewrite app_length in Hn. cbn in Hn. lia.
  - assert (Hlen : length (l1 ++ b :: l2) = length (l1 ++ a :: l2)) by (rewrite !app_length; reflexivity).
    destruct (Nat.le_gt_cases (length (l1 ++ a :: l2)) 1) as [H1|H2].
    + rewrite app_length in H1. cbn in H1.
      destruct l1; [|cbn in H1; lia]. destruct l2; [|cbn in H1; lia].
      left. exact E.
    + rewrite (Nroot_step (l1 ++ a :: l2)), (Nroot_step (l1 ++ b :: l2)) in E by lia.
      rewrite Hlen in E.
      pose proof (half_bounds (length (l1 ++ a :: l2)) ltac:(lia)) as Hh.
      set (m := half (length (l1 ++ a :: l2))) in *.
      apply H_inj_or_collision in E. destruct E as [E|]; [|right; assumption].
      apply app_inv_head in E.
      rewrite !firstn_app, !skipn_app in E.
      destruct (Nat.le_gt_cases m (length l1)) as [Hle|Hgt].
      * replace (m - length l1) with 0 in E by lia. cbn [firstn skipn] in E.
        apply app_inv_head in E.
        apply (IH (skipn m l1) l2 a b); [|exact E].
        rewrite app_length, skipn_length. rewrite app_length in Hn, Hh. cbn [length] in *. lia.
      * destruct (m - length l1) as [|k] eqn:Ek; [lia|]. cbn [firstn skipn] in E.
        rewrite (skipn_all2 l1) in E by lia. cbn [app] in E.
        apply app_inv_tail in E.
        rewrite (firstn_all2 l1) in E by lia.
        apply (IH l1 (firstn k l2) a b); [|exact E].
        rewrite app_length. cbn [length]. rewrite firstn_length.
        rewrite app_length in Hn, Hh. cbn [length] in *. lia.
Qed.

Theorem single_change_app (l1 l2 : list bytes) a b :
  Nroot (l1 ++ a :: l2) = Nroot (l1 ++ b :: l2) -> a = b \/ collision.
Proof. apply (single_change_app_aux _ l1 l2 a b (le_n _)). Qed.

Lemma upd_length (v : list bytes) i x : i < length v -> length (upd v i x) = length v.
Proof.
  intros Hi. unfold upd. rewrite app_length. cbn [length]. rewrite firstn_length, skipn_length. lia.
Qed.

Theorem single_change_N (v : list bytes) i x : i < length v ->
  Nroot (upd v i x) = Nroot v -> x = nth i v [] \/ collision.
Proof.
  intros Hi E. apply (single_change_app (firstn i v) (skipn (S i) v)).
  rewrite <- (split_at_nth (A:=bytes) [] v i Hi). exact E.
Qed.

Lemma MB_ge2 (w : list bytes) : length w <> 1 -> MB H w = Nroot w.
Proof. destruct w as [|a [|b t]]; cbn [length]; try reflexivity. lia. Qed.

Theorem single_change_MB (v : list bytes) i x : i < length v ->
  MB H (upd v i x) = MB H v -> x = nth i v [] \/ collision.
Proof.
  intros Hi E. destruct (Nat.eq_dec (length v) 1) as [H1|H1].
  - destruct v as [|a [|b t]]; cbn in H1; try lia. assert (i = 0) by (cbn in Hi; lia). subst i.
    cbn in E. cbn. apply H_inj_or_collision. exact E.
  - rewrite !MB_ge2 in E by (rewrite ?upd_length; assumption).
    apply single_change_N; assumption.
Qed.

(* ------------------------------------------------------------------ constant-depth tree *)
Notation leaf_hash := (leaf_hash H).
Notation C := (C H).
Notation M := (M H).
Notation Jx := (Jx H).
Notation Lx := (Lx H).

Lemma le_pow2_depth n : n <= 2 ^ depth n.
Proof.
  unfold depth. pose proof (Nat.log2_log2_up_spec (Nat.max 1 n) ltac:(lia)). lia.
Qed.

Lemma C_app (v : list bytes) : C v = map leaf_hash v ++ repeat zero_hash (2 ^ depth (length v) - length v).
Proof. unfold Merkle.C, pad_to. rewrite map_length. reflexivity. Qed.

Lemma C_length (v : list bytes) : length (C v) = 2 ^ depth (length v).
Proof.
  rewrite C_app, app_length, map_length, repeat_length. pose proof (le_pow2_depth (length v)). lia.
Qed.

Theorem single_change_M_app (l1 l2 : list bytes) a b :
  M (l1 ++ a :: l2) = M (l1 ++ b :: l2) -> a = b \/ collision.
Proof.
  unfold Merkle.M. rewrite !C_app, !map_app. cbn [map]. rewrite !app_length. cbn [length].
  rewrite <- !app_assoc. cbn [app]. intros E.
  apply single_change_app in E. destruct E as [E|]; [|right; assumption].
  apply H_inj_or_collision in E. destruct E as [E|]; [|right; assumption].
  left. apply app_inv_head in E. exact E.
Qed.

Theorem single_change_M (v : list bytes) i x : i < length v ->
  M (upd v i x) = M v -> x = nth i v [] \/ collision.
Proof.
  intros Hi E. apply (single_change_M_app (firstn i v) (skipn (S i) v)).
  rewrite <- (split_at_nth (A:=bytes) [] v i Hi). exact E.
Qed.

(* ------------------------------------------------------------------ power-of-two trees *)
Lemma T_length_pow2 : forall d (w : list bytes) i, length w = 2 ^ d -> length (T w i) = d.
Proof.
  induction d as [|d IH]; intros w i Hw.
  - rewrite T_small; [reflexivity|]. rewrite Hw. cbn. lia.
  - pose proof (pow2_pos d) as Hp.
    assert (Hw2 : 2 <= length w) by (rewrite Hw, Nat.pow_succ_r'; lia).
    rewrite (T_step w i Hw2). rewrite Hw, half_pow2.
    assert (Hs : 2 ^ S d - 2 ^ d = 2 ^ d) by (rewrite Nat.pow_succ_r'; lia).
    destruct (i <? 2 ^ d); cbn [length]; f_equal; apply IH;
      rewrite ?firstn_length, ?skipn_length, Hw; lia.
Qed.

(* folding the top [a] entries of the trace of position 2^b j from the root of the j-th subtree of size 2^b *)
Lemma subtree_fold : forall a b (w : list bytes) j, length w = 2 ^ (a + b) -> j < 2 ^ a ->
  fold_trace (Nroot (firstn (2 ^ b) (skipn (2 ^ b * j) w))) (firstn a (T w (2 ^ b * j))) j (2 ^ a) = Nroot w.
Proof.
  induction a as [|a IH]; intros b w j Hw Hj.
  - cbn in Hj. assert (j = 0) by lia. subst j. rewrite Nat.mul_0_r. cbn [skipn firstn Merkle.fold_trace].
    cbn [Nat.add] in Hw. rewrite firstn_all2 by lia. reflexivity.
  - pose proof (pow2_pos a) as Hpa. pose proof (pow2_pos b) as Hpb.
    assert (Hab : 2 ^ (a + b) = 2 ^ a * 2 ^ b) by apply Nat.pow_add_r.
    assert (Hw' : length w = 2 ^ S (a + b)) by exact Hw.
    assert (Hw2 : 2 <= length w) by (rewrite Hw', Nat.pow_succ_r'; pose proof (pow2_pos (a + b)); lia).
    rewrite (T_step w _ Hw2), (Nroot_step w Hw2). rewrite Hw', half_pow2.
    assert (HSa : 2 ^ S a = 2 * 2 ^ a) by apply Nat.pow_succ_r'.
    assert (HSab : 2 ^ S (a + b) = 2 * 2 ^ (a + b)) by apply Nat.pow_succ_r'.
    destruct (Nat.ltb_spec (2 ^ b * j) (2 ^ (a + b))) as [Hlt|Hge].
    + assert (Hj' : j < 2 ^ a) by nia.
      cbn [firstn Merkle.fold_trace]. rewrite half_pow2.
      destruct (Nat.ltb_spec j (2 ^ a)); [|lia].
      f_equal. f_equal. f_equal.
      rewrite <- (IH b (firstn (2 ^ (a + b)) w) j); [|rewrite firstn_length; lia|exact Hj'].
      rewrite firstn_skipn_firstn by nia. reflexivity.
    + assert (Hj' : 2 ^ a <= j) by nia.
      cbn [firstn Merkle.fold_trace]. rewrite half_pow2.
      destruct (Nat.ltb_spec j (2 ^ a)); [lia|].
      f_equal. f_equal. f_equal.
      replace (2 ^ S a - 2 ^ a) with (2 ^ a) by lia.
      replace (2 ^ b * j - 2 ^ (a + b)) with (2 ^ b * (j - 2 ^ a)) by nia.
      rewrite <- (IH b (skipn (2 ^ (a + b)) w) (j - 2 ^ a)); [|rewrite skipn_length; lia|lia].
      rewrite skipn_skipn. replace (2 ^ (a + b) + 2 ^ b * (j - 2 ^ a)) with (2 ^ b * j) by nia.
      reflexivity.
Qed.

(* ------------------------------------------------------------------ pages *)
Lemma pages_bound x (v : list bytes) i : i < pages x v -> 2 ^ x * i < length v.
Proof. unfold pages. pose proof (pow2_pos x). intros Hi. nia. Qed.

Lemma pages_cover x (v : list bytes) : length v <= pages x v * 2 ^ x.
Proof. unfold pages. pose proof (pow2_pos x). nia. Qed.

Lemma Lx_length x (v : list bytes) i : length (Lx x v i) = Nat.min (2 ^ x) (length v - 2 ^ x * i).
Proof. unfold Merkle.Lx. rewrite map_length, firstn_length, skipn_length. reflexivity. Qed.

Lemma Lx_nth x (v : list bytes) i j : j < length (Lx x v i) ->
  nth j (Lx x v i) [] = leaf_hash (nth (2 ^ x * i + j) v []).
Proof.
  intros Hj. rewrite Lx_length in Hj. unfold Merkle.Lx.
  rewrite (nth_indep _ [] (leaf_hash [])) by (rewrite map_length, firstn_length, skipn_length; exact Hj).
  rewrite map_nth. f_equal. rewrite nth_firstn_lt by lia. apply nth_skipn_add.
Qed.

Theorem paged_cover x (v : list bytes) :
  concat (map (Lx x v) (seq 0 (pages x v))) = map leaf_hash v.
Proof.
  unfold Merkle.Lx.
  rewrite <- (map_map (fun i => firstn (2 ^ x) (skipn (2 ^ x * i) v)) (map leaf_hash)).
  rewrite <- concat_map. f_equal.
  apply chunks_concat; [apply pow2_pos | apply pages_cover].
Qed.

(* page i of the padded leaf sequence is the zero-padded page of hashed leaves *)
Lemma page_of_C x (v : list bytes) i : x <= depth (length v) -> 2 ^ x * i < length v ->
  firstn (2 ^ x) (skipn (2 ^ x * i) (C v)) = pad_to (2 ^ x) (Lx x v i).
Proof.
  intros Hx Hi. set (d := depth (length v)) in *.
  pose proof (le_pow2_depth (length v)) as Hle. fold d in Hle.
  pose proof (pow2_pos x) as Hpx.
  assert (Hd : 2 ^ d = 2 ^ (d - x) * 2 ^ x) by (rewrite <- Nat.pow_add_r; f_equal; lia).
  assert (Hfit : 2 ^ x * i + 2 ^ x <= 2 ^ d).
  { assert (i < 2 ^ (d - x)) by nia. nia. }
  rewrite C_app. fold d.
  rewrite skipn_app, map_length. replace (2 ^ x * i - length v) with 0 by lia. cbn [skipn].
  rewrite firstn_app, skipn_map, firstn_map, map_length, skipn_length.
  unfold pad_to, Merkle.Lx. f_equal.
  rewrite firstn_repeat. f_equal.
  rewrite map_length, firstn_length, skipn_length. lia.
Qed.

Theorem paged_fold x (v : list bytes) i : i < pages x v ->
  fold_trace (page_root H x v i) (Jx x v i) i (2 ^ (depth (length v) - x)) = M v.
Proof.
  intros Hi. pose proof (pages_bound x v i Hi) as Hb.
  pose proof (le_pow2_depth (length v)) as Hle.
  pose proof (pow2_pos x) as Hpx.
  unfold page_root, Merkle.Jx, Merkle.M.
  set (d := depth (length v)) in *.
  destruct (Nat.le_gt_cases x d) as [Hx|Hx].
  - rewrite Nat.min_l by assumption.
    rewrite <- page_of_C by assumption.
    assert (Hd : 2 ^ d = 2 ^ (d - x) * 2 ^ x) by (rewrite <- Nat.pow_add_r; f_equal; lia).
    apply subtree_fold.
    + rewrite C_length. fold d. f_equal. lia.
    + nia.
  - replace (d - x) with 0 by lia. cbn [firstn Merkle.fold_trace].
    rewrite Nat.min_r by lia.
    assert (Hlt : 2 ^ d < 2 ^ x) by (apply Nat.pow_lt_mono_r; lia).
    assert (i = 0) by nia. subst i.
    unfold Merkle.Lx. rewrite Nat.mul_0_r. cbn [skipn]. rewrite firstn_all2 by lia.
    reflexivity.
Qed.

Lemma page_root_0 (v : list bytes) i : i < length v -> page_root H 0 v i = leaf_hash (nth i v []).
Proof.
  intros Hi. unfold page_root. rewrite Nat.min_0_l. unfold Merkle.Lx.
  change (2 ^ 0) with 1. rewrite Nat.mul_1_l.
  rewrite (skipn_cons_nth (A:=bytes) [] v i Hi). reflexivity.
Qed.

Lemma pages_0 (v : list bytes) : pages 0 v = length v.
Proof. unfold pages. change (2 ^ 0) with 1. rewrite Nat.div_1_r. lia. Qed.

Theorem J0_reproduces_M (v : list bytes) i : i < length v ->
  fold_trace (leaf_hash (nth i v [])) (Jx 0 v i) i (2 ^ depth (length v)) = M v.
Proof.
  intros Hi. rewrite <- page_root_0 by assumption.
  rewrite <- (paged_fold 0 v i) by (rewrite pages_0; assumption).
  rewrite Nat.sub_0_r. reflexivity.
Qed.

Lemma Jx_length x (v : list bytes) i : length (Jx x v i) = depth (length v) - x.
Proof.
  unfold Merkle.Jx. rewrite firstn_length, (T_length_pow2 (depth (length v))) by apply C_length. lia.
Qed.

(* ------------------------------------------------------------------ VerifyMerkleProof (bottom-up) *)
Notation verify_up := (verify_up H).

Lemma verify_up_app : forall l1 l2 c i,
  verify_up c (l1 ++ l2) i = verify_up (verify_up c l1 i) l2 (i / 2 ^ length l1).
Proof.
  induction l1 as [|s l1 IH]; intros l2 c i.
  - cbn [app Merkle.verify_up length]. change (2 ^ 0) with 1. rewrite Nat.div_1_r. reflexivity.
  - cbn [app Merkle.verify_up length]. rewrite IH. f_equal.
    rewrite Nat.pow_succ_r', Nat.div_div by (pose proof (pow2_pos (length l1)); lia). reflexivity.
Qed.

Lemma verify_up_mod : forall l c i k, verify_up c l (i + 2 ^ length l * k) = verify_up c l i.
Proof.
  induction l as [|s l IH]; intros c i k; [reflexivity|].
  cbn [Merkle.verify_up length]. rewrite Nat.pow_succ_r'.
  replace (Nat.even (i + 2 * 2 ^ length l * k)) with (Nat.even i).
  2:{ rewrite <- Nat.mul_assoc, Nat.even_add_mul_2. reflexivity. }
  replace ((i + 2 * 2 ^ length l * k) / 2) with (i / 2 + 2 ^ length l * k).
  2:{ replace (i + 2 * 2 ^ length l * k) with (i + (2 ^ length l * k) * 2) by lia.
      rewrite Nat.div_add by lia. reflexivity. }
  apply IH.
Qed.

Lemma fold_trace_bottom_up : forall tr c i, i < 2 ^ length tr ->
  fold_trace c tr i (2 ^ length tr) = verify_up c (rev tr) i.
Proof.
  induction tr as [|s tr IH]; intros c i Hi; [reflexivity|].
  cbn [length] in *. pose proof (pow2_pos (length tr)) as Hp.
  assert (HS : 2 ^ S (length tr) = 2 * 2 ^ length tr) by apply Nat.pow_succ_r'.
  cbn [Merkle.fold_trace rev]. rewrite half_pow2, verify_up_app, rev_length.
  cbn [Merkle.verify_up].
  destruct (Nat.ltb_spec i (2 ^ length tr)) as [Hlt|Hge].
  - rewrite Nat.div_small by assumption. cbn [Nat.even].
    rewrite IH by assumption. reflexivity.
  - replace (i / 2 ^ length tr) with 1 by (apply Nat.div_unique with (i - 2 ^ length tr); lia).
    cbn [Nat.even]. replace (2 ^ S (length tr) - 2 ^ length tr) with (2 ^ length tr) by lia.
    rewrite IH by lia.
    rewrite <- (verify_up_mod (rev tr) c (i - 2 ^ length tr) 1), rev_length.
    replace (i - 2 ^ length tr + 2 ^ length tr * 1) with i by lia. reflexivity.
Qed.

Theorem verify_J0 (v : list bytes) i : i < length v ->
  verify_root H (nth i v []) (Jx 0 v i) i = M v.
Proof.
  intros Hi. unfold verify_root.
  pose proof (Jx_length 0 v i) as HL. rewrite Nat.sub_0_r in HL.
  pose proof (le_pow2_depth (length v)) as Hle.
  rewrite <- fold_trace_bottom_up by (rewrite HL; lia).
  rewrite HL. apply J0_reproduces_M. assumption.
Qed.

Theorem verify_go_accepts (v : list bytes) i : i < length v ->
  verify_go H (nth i v []) (Jx 0 v i) i (M v) = true.
Proof. intros Hi. unfold verify_go. rewrite verify_J0 by assumption. apply bytes_eqb_eq. reflexivity. Qed.

(* ------------------------------------------------------------------ the Go loops compute the same sizes *)
Lemma log_loop_spec : forall fuel lg n, 0 < n ->
  (forall k, k < lg -> 2 ^ k < n) -> Nat.log2_up n <= lg + fuel ->
  log_loop fuel lg n = Nat.log2_up n.
Proof.
  induction fuel as [|fuel IH]; intros lg n Hn Hinv Hf.
  - cbn [log_loop]. destruct (Nat.eq_dec lg (Nat.log2_up n)) as [|Hne]; [assumption|].
    assert (Hlt : Nat.log2_up n < lg) by lia.
    pose proof (Hinv _ Hlt) as Hc. pose proof (Nat.log2_log2_up_spec n Hn). lia.
  - cbn [log_loop]. destruct (Nat.ltb_spec (2 ^ lg) n) as [Hlt|Hge].
    + apply IH; [assumption | | ].
      * intros k Hk. destruct (Nat.eq_dec k lg); [subst; assumption | apply Hinv; lia].
      * apply Nat.log2_up_lt_pow2 in Hlt; lia.
    + apply Nat.log2_up_le_pow2 in Hge; [|assumption].
      destruct (Nat.eq_dec lg (Nat.log2_up n)) as [|Hne]; [assumption|].
      assert (Hlt : Nat.log2_up n < lg) by lia.
      pose proof (Hinv _ Hlt) as Hc. pose proof (Nat.log2_log2_up_spec n Hn). lia.
Qed.

Lemma log2_up_le_self n : Nat.log2_up n <= n.
Proof.
  destruct n; [reflexivity|]. apply Nat.log2_up_le_pow2; [lia|].
  apply Nat.lt_le_incl, Nat.pow_gt_lin_r. lia.
Qed.

Lemma log_loop_depth n : log_loop (Nat.max 1 n) 0 (Nat.max 1 n) = depth n.
Proof.
  unfold depth. apply log_loop_spec; [lia | intros k Hk; lia | ].
  pose proof (log2_up_le_self (Nat.max 1 n)). lia.
Qed.

Lemma dbl_loop_log : forall fuel lg n, dbl_loop fuel (2 ^ lg) n = 2 ^ log_loop fuel lg n.
Proof.
  induction fuel as [|fuel IH]; intros lg n; [reflexivity|].
  cbn [dbl_loop log_loop]. destruct (2 ^ lg <? n); [|reflexivity].
  rewrite <- Nat.pow_succ_r'. apply IH.
Qed.

Lemma dbl_loop_depth n : dbl_loop n 1 n = 2 ^ depth n.
Proof.
  change 1 with (2 ^ 0) at 1. rewrite dbl_loop_log. f_equal.
  destruct n as [|n]; [reflexivity|].
  unfold depth. replace (Nat.max 1 (S n)) with (S n) by lia.
  apply log_loop_spec; [lia | intros k Hk; lia | apply log2_up_le_self].
Qed.

Theorem C_go_refines (v : list bytes) : C_go H v = C v.
Proof.
  unfold C_go. rewrite dbl_loop_depth, C_app.
  pose proof (le_pow2_depth (length v)) as Hle.
  replace (2 ^ depth (length v)) with (length v + (2 ^ depth (length v) - length v)) at 1 by lia.
  rewrite seq_app, map_app. f_equal.
  - rewrite <- (map_nth_seq leaf_hash [] v). apply map_ext_in.
    intros i Hi. apply in_seq in Hi. destruct (Nat.ltb_spec i (length v)); [reflexivity | lia].
  - generalize (2 ^ depth (length v) - length v). intros k. cbn [Nat.add].
    assert (Hgen : forall k s, length v <= s ->
      map (fun i => if i <? length v then leaf_hash (nth i v []) else zero_hash) (seq s k) = repeat zero_hash k).
    { induction k0 as [|k0 IHk]; intros s Hs; [reflexivity|].
      cbn [seq map repeat]. destruct (Nat.ltb_spec s (length v)); [lia|]. f_equal. apply IHk. lia. }
    apply Hgen. lia.
Qed.

Theorem Jx_go_refines x (v : list bytes) i : Jx_go H x v i = Jx x v i.
Proof.
  unfold Jx_go, Merkle.Jx. rewrite log_loop_depth, C_go_refines, (Nat.mul_comm i).
  apply map_nth_seq_firstn.
  rewrite (T_length_pow2 (depth (length v))) by apply C_length. lia.
Qed.

End MerkleP.

(* ------------------------------------------------------------------ the shapes the Go code had before the patches *)
(* with H := identity the two sides are different concrete byte strings *)
Lemma bytes_neq_by_eqb a b : bytes_eqb a b = false -> a <> b.
Proof. intros E Heq. apply bytes_eqb_eq in Heq. congruence. Qed.

Theorem T_floor_refuted :
  exists (H : bytes -> bytes) (v : list bytes) (i : nat), i < length v /\
    fold_trace H (nth i v []) (T_floor H v i) i (length v) <> Nroot H v.
Proof.
  exists (fun x => x), [[1%N]; [2%N]; [3%N]], 0. split; [cbn; lia|].
  apply bytes_neq_by_eqb. vm_compute. reflexivity.
Qed.

Theorem N_nil0_refuted :
  exists (H : bytes -> bytes) (v : list (option bytes)), N_nil0 H v <> Nroot H (map blob v).
Proof.
  exists (fun x => x), [None; Some [1%N]].
  apply bytes_neq_by_eqb. vm_compute. reflexivity.
Qed.

