(* Every descriptor of Model/JamTypes.v is well formed, for every parameter set. *)
From JamV Require Import Base.Bytes Model.NatCodec Model.Codec Model.JamTypes.
From Coq Require Import ZifyBool ZifyNat ZifyN.
Local Open Scope N_scope.

Theorem all_descs_wf p : pL p < two64 -> forallb wf_desc (all_descs p) = true.
Proof.
  intros H. apply N.ltb_lt in H.
  unfold all_descs. cbn -[N.ltb N.leb two64 unlimited]. rewrite H.
  reflexivity.
Qed.
