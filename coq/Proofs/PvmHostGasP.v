From JamV Require Import Model.PvmHostGas.
From Coq Require Import Lia.
Local Open Scope Z_scope.

(* the charge of a transfer that lets execution continue: exactly 10, plus l exactly when it succeeded *)
Theorem transfer_charge c l s s' : 0 <= l -> host_transfer c l s = HCont s' ->
  gas s' = gas s - 10 - (match c with XOk => l | _ => 0 end) /\ 0 <= gas s'.
Proof.
  intros Hl. unfold host_transfer. destruct (Z.ltb_spec (gas s - 10) 0); [discriminate|].
  destruct c; try (intros E; inversion E; cbn; lia).
  destruct (Z.ltb_spec (gas s - 10) l); [discriminate|]. intros E; inversion E; cbn; lia.
Qed.

(* it stops out-of-gas precisely when the remaining gas cannot pay the charge *)
Theorem transfer_oog_iff c l s : 0 <= l ->
  (exists s', host_transfer c l s = HStop OutOfGas s') <->
  gas s < 10 + (match c with XOk => l | _ => 0 end).
Proof.
  intros Hl. unfold host_transfer. destruct (Z.ltb_spec (gas s - 10) 0).
  - split; [intros _; destruct c; lia|intros _; eexists; reflexivity].
  - destruct c; try (split; [intros [s' E]; discriminate|lia]).
    destruct (Z.ltb_spec (gas s - 10) l); split; try lia; try (intros _; eexists; reflexivity).
    intros [s' E]; discriminate.
Qed.

(* an error return (WHO, LOW, CASH) never costs more than 10 whatever the gas argument is *)
Theorem transfer_error_costs_ten c l s : c <> XOk -> 10 <= gas s ->
  exists s', host_transfer c l s = HCont s' /\ gas s' = gas s - 10.
Proof.
  intros Hc Hg. unfold host_transfer. destruct (Z.ltb_spec (gas s - 10) 0); [lia|].
  destruct c; try contradiction; eexists; split; reflexivity.
Qed.
