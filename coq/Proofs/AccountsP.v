(* Lemmas about Model/Accounts.v: association lists, derived footprints, threshold arithmetic. *)
From JamV Require Import Base.Bytes Proofs.BytesP Model.Accounts.
From Coq Require Import ZifyBool ZifyNat ZifyN.
Local Open Scope N_scope.
Ltac Zify.zify_post_hook ::= Z.div_mod_to_equations.

(* ---------------- threshold ---------------- *)
Lemma threshold_raw_Z i o f :
  Z.of_N (threshold_raw i o f) = Z.max 0 (100 + 10 * Z.of_N i + Z.of_N o - Z.of_N f)%Z.
Proof. unfold threshold_raw, B_S, B_I, B_L. lia. Qed.

Lemma threshold_raw_mono i o f i' o' : i <= i' -> o <= o' -> threshold_raw i o f <= threshold_raw i' o' f.
Proof. unfold threshold_raw, B_S, B_I, B_L. lia. Qed.

Lemma threshold_go64_exact i o f :
  i < two32 -> o < two64 -> f < two64 -> threshold_go64 i o f = threshold_u64 i o f.
Proof.
  unfold threshold_go64, threshold_u64, threshold_raw, B_S, B_I, B_L, two32, two64. intros Hi Ho Hf.
  rewrite (N.mod_small (100 + 10 * i)) by lia.
  rewrite N.mul_1_l.
  destruct (N.eqb_spec ((100 + 10 * i + o) / 18446744073709551616) 0) as [E | E].
  - destruct (N.ltb_spec ((100 + 10 * i + o) mod 18446744073709551616) f); lia.
  - destruct (N.leb_spec f ((100 + 10 * i + o) mod 18446744073709551616)); lia.
Qed.

Lemma threshold_go64_fits i o f :
  i < two32 -> o < two64 -> f < two64 -> threshold_raw i o f < two64 ->
  threshold_go64 i o f = threshold_raw i o f.
Proof.
  intros. rewrite threshold_go64_exact by assumption. unfold threshold_u64, two64 in *. lia.
Qed.

(* the unchanged Go arithmetic: 32-bit product *)
Lemma threshold_go32_refuted :
  exists i o f, i < two32 /\ o < two64 /\ f < two64 /\ threshold_raw i o f < two64 /\
                threshold_go32 i o f <> threshold_raw i o f.
Proof. exists 429496730, 0, 0. vm_compute. repeat split; try reflexivity; discriminate. Qed.

(* counters: the Go code subtracts the old footprint and adds the new one in uint32 / uint64 *)
Lemma counter_go_exact W c old new :
  0 < W -> old <= c -> c < W -> c - old + new < W ->
  (((c + W - old) mod W) + new) mod W = c - old + new.
Proof.
  intros. assert ((c + W - old) mod W = c - old) as ->.
  { replace (c + W - old) with ((c - old) + 1 * W) by lia. rewrite N.mod_add by lia. apply N.mod_small. lia. }
  apply N.mod_small. lia.
Qed.

(* ---------------- association lists ---------------- *)
Section ALP.
  Context {K V : Type}.
  Variable eqb : K -> K -> bool.

  Lemma al_set_length k v (l : list (K * V)) :
    N.of_nat (length (al_set eqb k v l)) + (match al_get eqb k l with Some _ => 1 | None => 0 end)
    = N.of_nat (length l) + 1.
  Proof.
    induction l as [| [k' v'] t IH]; cbn [al_set al_get length]; [lia |].
    destruct (eqb k k'); cbn [length]; lia.
  Qed.

  Lemma al_del_length k (l : list (K * V)) :
    N.of_nat (length (al_del eqb k l)) + (match al_get eqb k l with Some _ => 1 | None => 0 end)
    = N.of_nat (length l).
  Proof.
    induction l as [| [k' v'] t IH]; cbn [al_del al_get length]; [lia |].
    destruct (eqb k k'); cbn [length]; lia.
  Qed.

  Lemma al_set_Forall (P : K * V -> Prop) k v l :
    (forall k', eqb k k' = true -> P (k, v)) -> P (k, v) -> Forall P l -> Forall P (al_set eqb k v l).
  Proof.
    intros _ Hp. induction 1 as [| [k' v'] t Hh Ht IH]; cbn [al_set]; [repeat constructor; assumption |].
    destruct (eqb k k'); constructor; assumption.
  Qed.

  Lemma al_del_Forall (P : K * V -> Prop) k l : Forall P l -> Forall P (al_del eqb k l).
  Proof.
    induction 1 as [| [k' v'] t Hh Ht IH]; cbn [al_del]; [constructor |].
    destruct (eqb k k'); [assumption | constructor; assumption].
  Qed.

  Lemma al_get_In k v (l : list (K * V)) : al_get eqb k l = Some v -> exists k', In (k', v) l /\ eqb k k' = true.
  Proof.
    induction l as [| [k' v'] t IH]; cbn [al_get]; [discriminate |].
    destruct (eqb k k') eqn:E; intros H.
    - inversion H; subst. exists k'. split; [left; reflexivity | assumption].
    - destruct (IH H) as (k2 & Hin & He). exists k2. split; [right; assumption | assumption].
  Qed.
End ALP.

(* ---------------- derived footprints ---------------- *)
Lemma stor_octets_set k v s :
  stor_octets (al_set bytes_eqb k v s)
  + (match al_get bytes_eqb k s with Some ov => stor_fp k ov | None => 0 end)
  = stor_octets s + stor_fp k v.
Proof.
  induction s as [| [k' v'] t IH]; cbn [al_set al_get stor_octets]; [lia |].
  destruct (bytes_eqb k k') eqn:E; cbn [stor_octets].
  - apply bytes_eqb_eq in E. subst. lia.
  - lia.
Qed.

Lemma stor_octets_del k s :
  stor_octets (al_del bytes_eqb k s)
  + (match al_get bytes_eqb k s with Some ov => stor_fp k ov | None => 0 end)
  = stor_octets s.
Proof.
  induction s as [| [k' v'] t IH]; cbn [al_del al_get stor_octets]; [lia |].
  destruct (bytes_eqb k k') eqn:E; cbn [stor_octets].
  - apply bytes_eqb_eq in E. subst. lia.
  - lia.
Qed.

Lemma lk_eqb_snd a b : lk_eqb a b = true -> snd a = snd b.
Proof. unfold lk_eqb. intros H. apply andb_true_iff in H. destruct H as [_ H]. apply N.eqb_eq in H. exact H. Qed.

Lemma look_octets_set k ts l :
  look_octets (al_set lk_eqb k ts l)
  + (match al_get lk_eqb k l with Some _ => look_fp (snd k) | None => 0 end)
  = look_octets l + look_fp (snd k).
Proof.
  induction l as [| [k' v'] t IH]; cbn [al_set al_get look_octets]; [lia |].
  destruct (lk_eqb k k') eqn:E; cbn [look_octets].
  - apply lk_eqb_snd in E. rewrite E. lia.
  - lia.
Qed.

Lemma look_octets_del k l :
  look_octets (al_del lk_eqb k l)
  + (match al_get lk_eqb k l with Some _ => look_fp (snd k) | None => 0 end)
  = look_octets l.
Proof.
  induction l as [| [k' v'] t IH]; cbn [al_del al_get look_octets]; [lia |].
  destruct (lk_eqb k k') eqn:E; cbn [look_octets].
  - apply lk_eqb_snd in E. rewrite E. lia.
  - lia.
Qed.

(* recorded counters agree with the derived ones *)
Definition fp_ok (a : account) : Prop := a_items a = items_of a /\ a_octets a = octets_of a.
Definition funded (a : account) : Prop := threshold a <= a_bal a.

Lemma fp_ok_set_bal a b : fp_ok a -> fp_ok (set_bal a b).
Proof. unfold fp_ok, items_of, octets_of. destruct a; cbn. auto. Qed.
Lemma fp_ok_set_code a c g m : fp_ok a -> fp_ok (set_code a c g m).
Proof. unfold fp_ok, items_of, octets_of. destruct a; cbn. auto. Qed.
