From JamV Require Import Base.Bytes Model.AccInvoke.
Local Open Scope N_scope.

Lemma apply_checkpoint c : apply_op c OCheckpoint = c.
Proof. reflexivity. Qed.

(* x after any trace is the plain fold of the mutations; checkpoints do not change x *)
Lemma fold_step_x ops s : sx (fold_left step ops s) = fold_left apply_op ops (sx s).
Proof.
  revert s; induction ops as [|o t IH]; intros s; [reflexivity|].
  cbn [fold_left]. rewrite IH. destruct o; reflexivity.
Qed.

(* y after a trace: x at the last checkpoint, or the old y if the trace has no checkpoint *)
Definition has_checkpoint (ops : list aop) : bool :=
  existsb (fun o => match o with OCheckpoint => true | _ => false end) ops.

Lemma committed_nil_iff ops : committed ops = [] <-> has_checkpoint ops = false.
Proof.
  induction ops as [|o t IH]; cbn [committed has_checkpoint existsb]; [tauto|].
  destruct (committed t) eqn:C.
  - destruct o; cbn; try (split; [intros _; apply IH; reflexivity|reflexivity]); split; discriminate.
  - split; [discriminate|]. intros H. apply orb_false_iff in H. destruct H as [_ H].
    apply IH in H. discriminate.
Qed.

Lemma fold_step_y ops s :
  sy (fold_left step ops s) =
  if has_checkpoint ops then fold_left apply_op (committed ops) (sx s) else sy s.
Proof.
  revert s; induction ops as [|o t IH]; intros s; [reflexivity|].
  cbn [fold_left]. rewrite IH. cbn [has_checkpoint existsb committed].
  fold (has_checkpoint t).
  destruct (has_checkpoint t) eqn:Ht.
  - assert (committed t <> []) as NE by (intros E; apply committed_nil_iff in E; congruence).
    destruct (committed t) as [|c0 cl] eqn:C; [contradiction|].
    rewrite orb_true_r. cbn [fold_left]. destruct o; reflexivity.
  - assert (committed t = []) as E by (apply committed_nil_iff; assumption). rewrite E.
    rewrite orb_false_r. destruct o; reflexivity.
Qed.

(* ---- the property -------------------------------------------------------------------------------- *)
Theorem rollback_is_last_checkpoint init ops e :
  e = EPanic \/ e = EOutOfGas ->
  run init ops e = fold_left apply_op (committed ops) init.
Proof.
  intros [-> | ->]; unfold run, collapse; rewrite fold_step_y; cbn [sx sy];
    (destruct (has_checkpoint ops) eqn:H; [reflexivity|]);
    apply committed_nil_iff in H; rewrite H; reflexivity.
Qed.

Theorem halt_is_latest init ops e :
  e = EHaltEmpty \/ e = EHaltOther -> run init ops e = fold_left apply_op ops init.
Proof. intros [-> | ->]; unfold run, collapse; rewrite fold_step_x; reflexivity. Qed.

Theorem output_precedence init ops k :
  run init ops (EHalt32 k) = with_yield (fold_left apply_op ops init) k.
Proof. unfold run, collapse. rewrite fold_step_x. reflexivity. Qed.

(* what follows the last checkpoint never reaches the exceptional result *)
Lemma committed_app_checkpoint pre post :
  has_checkpoint post = false -> committed (pre ++ OCheckpoint :: post) = pre ++ [OCheckpoint].
Proof.
  intros H. induction pre as [|o t IH]; cbn [app committed].
  - apply committed_nil_iff in H. rewrite H. reflexivity.
  - rewrite IH. destruct (t ++ [OCheckpoint]) eqn:E; [destruct t; discriminate|reflexivity].
Qed.

Theorem no_leak_after_checkpoint init pre post e :
  e = EPanic \/ e = EOutOfGas -> has_checkpoint post = false ->
  run init (pre ++ OCheckpoint :: post) e = fold_left apply_op pre init.
Proof.
  intros He H. rewrite rollback_is_last_checkpoint by assumption.
  rewrite committed_app_checkpoint by assumption. rewrite fold_left_app. reflexivity.
Qed.

Theorem no_checkpoint_is_initial init ops e :
  e = EPanic \/ e = EOutOfGas -> has_checkpoint ops = false -> run init ops e = init.
Proof.
  intros He H. rewrite rollback_is_last_checkpoint by assumption.
  apply committed_nil_iff in H. rewrite H. reflexivity.
Qed.
