(* C35 proofs: verdict classification, good/bad/wonky disjoint and sorted, offenders grow and stay sorted,
   bad / wonky reports leave the pending-availability slots. *)
From JamV Require Import Base.Bytes Proofs.BytesP Model.StfLists Proofs.StfListsP Model.Disputes.
From Coq Require Import ZifyBool ZifyNat ZifyN Sorted Permutation.
Ltac Zify.zify_post_hook ::= Z.div_mod_to_equations.
Local Open Scope N_scope.

(* ---------- classification by the positive-vote count ---------- *)
Lemma classify_good V n : classify V n = Some Good <-> n = 2 * V / 3 + 1.
Proof.
  unfold classify. destruct (N.eqb_spec n (2 * V / 3 + 1)); [tauto|].
  destruct (n =? 0); [split; [discriminate|tauto]|].
  destruct (n =? V / 3); split; (discriminate || tauto).
Qed.

Lemma classify_bad V n : classify V n = Some Bad <-> n = 0.
Proof.
  unfold classify. destruct (N.eqb_spec n (2 * V / 3 + 1)) as [E|E].
  - split; [discriminate|]. intros ->. lia.
  - destruct (N.eqb_spec n 0); [tauto|]. destruct (n =? V / 3); split; (discriminate || tauto).
Qed.

Lemma classify_wonky V n : classify V n = Some Wonky <-> n = V / 3 /\ n <> 0.
Proof.
  unfold classify. destruct (N.eqb_spec n (2 * V / 3 + 1)) as [E|E].
  - split; [discriminate|]. intros [-> _]. exfalso. lia.
  - destruct (N.eqb_spec n 0).
    + split; [discriminate|tauto].
    + destruct (N.eqb_spec n (V / 3)); split; (discriminate || tauto).
Qed.

Lemma classify_wonky_3 V n : 3 <= V -> (classify V n = Some Wonky <-> n = V / 3).
Proof. intros HV. rewrite classify_wonky. split; [tauto|]. intros ->. split; [reflexivity|]. lia. Qed.

Lemma classify_none V n : classify V n = None <-> n <> 2 * V / 3 + 1 /\ n <> 0 /\ n <> V / 3.
Proof.
  unfold classify. destruct (N.eqb_spec n (2 * V / 3 + 1)); [split; [discriminate|tauto]|].
  destruct (N.eqb_spec n 0); [split; [discriminate|tauto]|].
  destruct (N.eqb_spec n (V / 3)); [split; [discriminate|tauto]|tauto].
Qed.

(* ---------- add_new ---------- *)
Lemma add_new_In acc items x : In x (add_new acc items) <-> In x acc \/ In x items.
Proof.
  revert acc; induction items as [|y t IH]; intros acc; cbn [add_new].
  - cbn. tauto.
  - destruct (mem_bytes y acc) eqn:E.
    + rewrite IH. apply mem_bytes_In in E. cbn. split; [tauto|]. intros [H|[<-|H]]; tauto.
    + rewrite IH, in_app_iff. cbn. tauto.
Qed.

Lemma add_new_NoDup acc items : NoDup acc -> NoDup (add_new acc items).
Proof.
  revert acc; induction items as [|y t IH]; intros acc H; cbn [add_new]; [assumption|].
  destruct (mem_bytes y acc) eqn:E; [now apply IH|].
  apply IH. apply mem_bytes_false in E.
  apply NoDup_rev in H. rewrite <- (rev_involutive (acc ++ [y])). apply NoDup_rev.
  rewrite rev_app_distr. cbn. constructor; [|assumption]. now rewrite <- in_rev.
Qed.

Lemma add_new_prefix acc items : exists ext, add_new acc items = acc ++ ext.
Proof.
  revert acc; induction items as [|y t IH]; intros acc; cbn [add_new].
  - exists []. now rewrite app_nil_r.
  - destruct (mem_bytes y acc); [apply IH|].
    destruct (IH (acc ++ [y])) as (ext & ->). exists (y :: ext). now rewrite <- app_assoc.
Qed.

Lemma psi_update_In p n x : In x (psi_update p n) <-> In x p \/ In x n.
Proof. unfold psi_update. now rewrite sort_by_In, add_new_In. Qed.

Lemma psi_update_sorted p n : ssorted p -> ssorted (psi_update p n).
Proof. intros H. unfold psi_update. apply sort_bytes_ssorted, add_new_NoDup, ssorted_NoDup, H. Qed.

(* when nothing new arrives a sorted set is unchanged *)
Lemma psi_update_nil p : ssorted p -> psi_update p [] = p.
Proof. intros H. unfold psi_update. cbn [add_new]. apply sort_by_id. now apply ssorted_kle. Qed.

(* ---------- unpacking an accepted extrinsic ---------- *)
Lemma disputes_step_some e s ext s' m : disputes_step e s ext = Some (s', m) ->
  let vs := d_verdicts ext in let V := dV e in
  forallb (verdict_sigs_ok e) vs = true
  /\ verdicts_sorted vs = true
  /\ not_judged s vs = true
  /\ enough_culprits vs (d_culprits ext) = true
  /\ enough_faults V vs (d_faults ext) = true
  /\ strictly_sortedb (map c_key (d_culprits ext)) = true
  /\ strictly_sortedb (map f_key (d_faults ext)) = true
  /\ all_classified V vs = true
  /\ culprits_valid e s (psi_update (psi_b s) (targets_of V Bad vs)) (d_culprits ext) = true
  /\ faults_valid e s (psi_update (psi_g s) (targets_of V Good vs)) (psi_update (psi_b s) (targets_of V Bad vs)) (d_faults ext) = true
  /\ s' = {| psi_g := psi_update (psi_g s) (targets_of V Good vs);
             psi_b := psi_update (psi_b s) (targets_of V Bad vs);
             psi_w := psi_update (psi_w s) (targets_of V Wonky vs);
             psi_o := psi_o_update (psi_o s) (offender_keys ext);
             rho := clear_rho (cleared_targets V vs) (rho s) |}
  /\ m = offender_keys ext.
Proof.
  unfold disputes_step. cbn zeta.
  destruct (forallb (verdict_sigs_ok e) (d_verdicts ext)); cbn [negb]; [|discriminate].
  destruct (verdicts_sorted (d_verdicts ext)); cbn [negb]; [|discriminate].
  destruct (not_judged s (d_verdicts ext)); cbn [negb]; [|discriminate].
  destruct (enough_culprits (d_verdicts ext) (d_culprits ext)); cbn [negb]; [|discriminate].
  destruct (enough_faults (dV e) (d_verdicts ext) (d_faults ext)); cbn [negb]; [|discriminate].
  destruct (strictly_sortedb (map c_key (d_culprits ext))); cbn [negb]; [|discriminate].
  destruct (strictly_sortedb (map f_key (d_faults ext))); cbn [negb]; [|discriminate].
  destruct (all_classified (dV e) (d_verdicts ext)); cbn [negb]; [|discriminate].
  destruct (culprits_valid e s _ (d_culprits ext)); cbn [negb]; [|discriminate].
  destruct (faults_valid e s _ _ (d_faults ext)); cbn [negb]; [|discriminate].
  intros H. inversion H; subst. repeat split; reflexivity.
Qed.

(* ---------- targets_of ---------- *)
Lemma targets_of_In V c vs x : In x (targets_of V c vs) <-> exists v, In v vs /\ has_class V c v = true /\ v_target v = x.
Proof.
  unfold targets_of. rewrite in_map_iff. split.
  - intros (v & <- & Hv). apply filter_In in Hv as [H1 H2]. eauto.
  - intros (v & H1 & H2 & <-). exists v. split; [reflexivity|]. apply filter_In. tauto.
Qed.

Lemma has_class_excl V c1 c2 v : has_class V c1 v = true -> has_class V c2 v = true -> c1 = c2.
Proof.
  unfold has_class. destruct (classify V (positives v)) as [c|]; [|discriminate].
  destruct c1, c2, c; cbn; congruence.
Qed.

Lemma has_class_iff V c v : has_class V c v = true <-> classify V (positives v) = Some c.
Proof.
  unfold has_class. destruct (classify V (positives v)) as [c'|]; [|split; discriminate].
  destruct c, c'; cbn; split; congruence.
Qed.

Lemma NoDup_map_inj {A B} (f : A -> B) l a b : NoDup (map f l) -> In a l -> In b l -> f a = f b -> a = b.
Proof.
  induction l as [|x t IH]; cbn; [tauto|]. intros Hnd Ha Hb E. inversion Hnd as [|? ? Hnin Hnd']; subst.
  destruct Ha as [<-|Ha], Hb as [<-|Hb]; try reflexivity.
  - exfalso. apply Hnin. rewrite E. now apply in_map.
  - exfalso. apply Hnin. rewrite <- E. now apply in_map.
  - now apply IH.
Qed.

Lemma verdicts_sorted_NoDup vs : verdicts_sorted vs = true -> NoDup (map v_target vs).
Proof.
  unfold verdicts_sorted. rewrite Bool.andb_true_iff. intros [H _].
  apply ssorted_NoDup, strictly_sortedb_iff, H.
Qed.

Lemma not_judged_spec s vs v : not_judged s vs = true -> In v vs ->
  ~ In (v_target v) (psi_g s) /\ ~ In (v_target v) (psi_b s) /\ ~ In (v_target v) (psi_w s).
Proof.
  unfold not_judged. rewrite forallb_forall. intros H Hv. specialize (H v Hv).
  apply Bool.negb_true_iff, mem_bytes_false in H. rewrite !in_app_iff in H. tauto.
Qed.

(* ---------- good / bad / wonky: pairwise disjoint and sorted ---------- *)
Definition disjoint (a b : list bytes) : Prop := forall x, In x a -> In x b -> False.
Definition gbw_inv (s : dstate) : Prop :=
  ssorted (psi_g s) /\ ssorted (psi_b s) /\ ssorted (psi_w s)
  /\ disjoint (psi_g s) (psi_b s) /\ disjoint (psi_g s) (psi_w s) /\ disjoint (psi_b s) (psi_w s).

Lemma update_disjoint s V vs c1 c2 p1 p2 :
  c1 <> c2 -> verdicts_sorted vs = true -> not_judged s vs = true ->
  disjoint p1 p2 ->
  (forall v, In v vs -> ~ In (v_target v) p1 /\ ~ In (v_target v) p2) ->
  disjoint (psi_update p1 (targets_of V c1 vs)) (psi_update p2 (targets_of V c2 vs)).
Proof.
  intros Hc Hs Hj Hd Hfresh x H1 H2.
  apply psi_update_In in H1. apply psi_update_In in H2.
  destruct H1 as [H1|H1], H2 as [H2|H2].
  - exact (Hd x H1 H2).
  - apply targets_of_In in H2 as (v & Hv & _ & <-). destruct (Hfresh v Hv); contradiction.
  - apply targets_of_In in H1 as (v & Hv & _ & <-). destruct (Hfresh v Hv); contradiction.
  - apply targets_of_In in H1 as (v1 & Hv1 & Hc1 & <-). apply targets_of_In in H2 as (v2 & Hv2 & Hc2 & E).
    assert (v2 = v1) by (eapply NoDup_map_inj; eauto using verdicts_sorted_NoDup). subst v2.
    apply Hc. eapply has_class_excl; eassumption.
Qed.

Lemma step_gbw_inv e s ext s' m : disputes_step e s ext = Some (s', m) -> gbw_inv s -> gbw_inv s'.
Proof.
  intros H (Sg & Sb & Sw & Dgb & Dgw & Dbw).
  apply disputes_step_some in H. cbn zeta in H.
  destruct H as (_ & Hs & Hj & _ & _ & _ & _ & _ & _ & _ & -> & _).
  unfold gbw_inv. cbn [psi_g psi_b psi_w].
  repeat split; try (now apply psi_update_sorted).
  - apply (update_disjoint s); try assumption; [discriminate|].
    intros v Hv. pose proof (not_judged_spec s _ v Hj Hv). tauto.
  - apply (update_disjoint s); try assumption; [discriminate|].
    intros v Hv. pose proof (not_judged_spec s _ v Hj Hv). tauto.
  - apply (update_disjoint s); try assumption; [discriminate|].
    intros v Hv. pose proof (not_judged_spec s _ v Hj Hv). tauto.
Qed.

Lemma with_rho_gbw s r : gbw_inv (with_rho s r) <-> gbw_inv s.
Proof. reflexivity. Qed.

Lemma dblock_step_gbw_inv s b : gbw_inv s -> gbw_inv (dblock_step s b).
Proof.
  intros H. unfold dblock_step. destruct (disputes_step (db_env b) s (db_ext b)) as [[s' m]|] eqn:E; [|assumption].
  apply with_rho_gbw. eapply step_gbw_inv; eassumption.
Qed.

Lemma run_gbw_inv s0 bs : gbw_inv s0 -> gbw_inv (disputes_run s0 bs).
Proof.
  unfold disputes_run. revert s0; induction bs as [|b bs IH]; intros s0 H; cbn; [assumption|].
  apply IH. now apply dblock_step_gbw_inv.
Qed.

(* ---------- every verdict lands in the set of its class; any other count rejects ---------- *)
Lemma verdict_class_accept e s ext s' m v :
  disputes_step e s ext = Some (s', m) -> In v (d_verdicts ext) ->
  exists c, classify (dV e) (positives v) = Some c
    /\ (c = Good -> In (v_target v) (psi_g s'))
    /\ (c = Bad -> In (v_target v) (psi_b s'))
    /\ (c = Wonky -> In (v_target v) (psi_w s')).
Proof.
  intros H Hv. apply disputes_step_some in H. cbn zeta in H.
  destruct H as (_ & _ & _ & _ & _ & _ & _ & Hc & _ & _ & -> & _).
  unfold all_classified in Hc. rewrite forallb_forall in Hc. specialize (Hc v Hv).
  destruct (classify (dV e) (positives v)) as [c|] eqn:E; [|discriminate].
  exists c. split; [reflexivity|]. cbn [psi_g psi_b psi_w].
  repeat split; intros ->; apply psi_update_In; right; apply targets_of_In; exists v;
    (split; [assumption|split; [now apply has_class_iff|reflexivity]]).
Qed.

Lemma verdict_class_reject e s ext v :
  In v (d_verdicts ext) -> classify (dV e) (positives v) = None -> disputes_step e s ext = None.
Proof.
  intros Hv Hc. destruct (disputes_step e s ext) as [[s' m]|] eqn:E; [|reflexivity].
  destruct (verdict_class_accept _ _ _ _ _ v E Hv) as (c & Hc' & _). congruence.
Qed.

(* a newly judged report is in exactly one of the three sets *)
Lemma verdict_class_exclusive e s ext s' m v :
  disputes_step e s ext = Some (s', m) -> gbw_inv s -> In v (d_verdicts ext) ->
  (In (v_target v) (psi_g s') /\ ~ In (v_target v) (psi_b s') /\ ~ In (v_target v) (psi_w s'))
  \/ (~ In (v_target v) (psi_g s') /\ In (v_target v) (psi_b s') /\ ~ In (v_target v) (psi_w s'))
  \/ (~ In (v_target v) (psi_g s') /\ ~ In (v_target v) (psi_b s') /\ In (v_target v) (psi_w s')).
Proof.
  intros H Hinv Hv. pose proof (step_gbw_inv _ _ _ _ _ H Hinv) as (_ & _ & _ & Dgb & Dgw & Dbw).
  destruct (verdict_class_accept _ _ _ _ _ v H Hv) as (c & _ & Hg & Hb & Hw).
  destruct c.
  - left. specialize (Hg eq_refl). repeat split; [assumption| |]; intros X; [exact (Dgb _ Hg X)|exact (Dgw _ Hg X)].
  - right; left. specialize (Hb eq_refl). repeat split; [|assumption|]; intros X; [exact (Dgb _ X Hb)|exact (Dbw _ Hb X)].
  - right; right. specialize (Hw eq_refl). repeat split; [| |assumption]; intros X; [exact (Dgw _ X Hw)|exact (Dbw _ X Hw)].
Qed.

(* ---------- offenders only grow and stay sorted ---------- *)
Lemma psi_o_update_In p k x : In x (psi_o_update p k) <-> In x p \/ In x k.
Proof. unfold psi_o_update. now rewrite sort_by_In, add_new_In. Qed.

Lemma psi_o_update_sorted p k : ssorted p -> ssorted (psi_o_update p k).
Proof. intros H. unfold psi_o_update. apply sort_bytes_ssorted, add_new_NoDup, ssorted_NoDup, H. Qed.

Lemma step_offenders e s ext s' m : disputes_step e s ext = Some (s', m) ->
  incl (psi_o s) (psi_o s')
  /\ (forall x, In x (psi_o s') <-> In x (psi_o s) \/ In x (offender_keys ext))
  /\ (ssorted (psi_o s) -> ssorted (psi_o s'))
  /\ m = offender_keys ext.
Proof.
  intros H. apply disputes_step_some in H. cbn zeta in H.
  destruct H as (_ & _ & _ & _ & _ & _ & _ & _ & _ & _ & -> & ->). cbn [psi_o].
  repeat split.
  - intros x Hx. apply psi_o_update_In. now left.
  - apply psi_o_update_In.
  - apply psi_o_update_In.
  - apply psi_o_update_sorted.
Qed.

Lemma dblock_step_offenders s b :
  incl (psi_o s) (psi_o (dblock_step s b)) /\ (ssorted (psi_o s) -> ssorted (psi_o (dblock_step s b))).
Proof.
  unfold dblock_step. destruct (disputes_step (db_env b) s (db_ext b)) as [[s' m]|] eqn:E.
  - destruct (step_offenders _ _ _ _ _ E) as (Hi & _ & Hs & _). cbn [with_rho psi_o]. tauto.
  - split; [apply incl_refl|tauto].
Qed.

Lemma run_offenders s0 bs :
  incl (psi_o s0) (psi_o (disputes_run s0 bs)) /\ (ssorted (psi_o s0) -> ssorted (psi_o (disputes_run s0 bs))).
Proof.
  unfold disputes_run. revert s0; induction bs as [|b bs IH]; intros s0; cbn [fold_left].
  - split; [apply incl_refl|tauto].
  - destruct (IH (dblock_step s0 b)) as [Hi Hs]. destruct (dblock_step_offenders s0 b) as [Hi0 Hs0].
    split; [eapply incl_tran; eassumption|tauto].
Qed.

(* monotone along the history: every prefix's offenders are contained in the final ones *)
Lemma run_offenders_prefix s0 bs1 bs2 :
  incl (psi_o (disputes_run s0 bs1)) (psi_o (disputes_run s0 (bs1 ++ bs2))).
Proof. unfold disputes_run. rewrite fold_left_app. apply run_offenders. Qed.

(* ---------- bad and wonky reports are removed from pending availability ---------- *)
Lemma clear_rho_ext l1 l2 r : (forall h, In h l1 <-> In h l2) -> clear_rho l1 r = clear_rho l2 r.
Proof.
  intros H. unfold clear_rho. apply map_ext. intros [h|]; [|reflexivity].
  destruct (mem_bytes h l1) eqn:E1, (mem_bytes h l2) eqn:E2; try reflexivity.
  - apply mem_bytes_In in E1. apply H in E1. apply mem_bytes_false in E2. contradiction.
  - apply mem_bytes_In in E2. apply H in E2. apply mem_bytes_false in E1. contradiction.
Qed.

Lemma cleared_iff_bad_or_wonky V v : 2 <= V ->
  classify V (positives v) <> None ->
  (positives v <? 2 * V / 3) = has_class V Bad v || has_class V Wonky v.
Proof.
  intros HV Hc. unfold has_class. destruct (classify V (positives v)) as [c|] eqn:E; [|congruence].
  destruct c; cbn [vclass_eqb orb].
  - apply classify_good in E. apply N.ltb_ge. lia.
  - apply classify_bad in E. apply N.ltb_lt. lia.
  - apply classify_wonky in E. apply N.ltb_lt. lia.
Qed.

Lemma bad_wonky_cleared e s ext s' m : 2 <= dV e -> disputes_step e s ext = Some (s', m) ->
  rho s' = clear_rho (targets_of (dV e) Bad (d_verdicts ext) ++ targets_of (dV e) Wonky (d_verdicts ext)) (rho s).
Proof.
  intros HV H. apply disputes_step_some in H. cbn zeta in H.
  destruct H as (_ & _ & _ & _ & _ & _ & _ & Hc & _ & _ & -> & _). cbn [rho].
  apply clear_rho_ext. intros h. rewrite in_app_iff, !targets_of_In. unfold cleared_targets. rewrite in_map_iff.
  unfold all_classified in Hc. rewrite forallb_forall in Hc.
  split.
  - intros (v & <- & Hv). apply filter_In in Hv as [Hv Hlt].
    rewrite cleared_iff_bad_or_wonky in Hlt; [|assumption|specialize (Hc v Hv); destruct (classify _ _); congruence].
    apply Bool.orb_true_iff in Hlt as [Hb|Hw]; [left|right]; exists v; tauto.
  - intros [(v & Hv & Hcl & <-)|(v & Hv & Hcl & <-)]; exists v; (split; [reflexivity|]); apply filter_In; (split; [assumption|]);
      (rewrite cleared_iff_bad_or_wonky; [|assumption|specialize (Hc v Hv); destruct (classify _ _); congruence]);
      rewrite Hcl; [reflexivity|apply Bool.orb_true_r].
Qed.

(* per core: a pending report survives iff it was not judged bad or wonky in this block; nothing else changes *)
Lemma bad_wonky_cleared_core e s ext s' m c : 2 <= dV e -> disputes_step e s ext = Some (s', m) ->
  let judged := targets_of (dV e) Bad (d_verdicts ext) ++ targets_of (dV e) Wonky (d_verdicts ext) in
  match nth_error (rho s) c with
  | None => nth_error (rho s') c = None
  | Some None => nth_error (rho s') c = Some None
  | Some (Some h) => (In h judged -> nth_error (rho s') c = Some None)
                     /\ (~ In h judged -> nth_error (rho s') c = Some (Some h))
  end.
Proof.
  intros HV H. cbn zeta. rewrite (bad_wonky_cleared _ _ _ _ _ HV H). unfold clear_rho. rewrite nth_error_map.
  destruct (nth_error (rho s) c) as [[h|]|]; cbn [option_map]; try reflexivity.
  split; intros Hin.
  - apply mem_bytes_In in Hin. now rewrite Hin.
  - apply mem_bytes_false in Hin. now rewrite Hin.
Qed.

(* the judged-bad / judged-wonky reports are exactly the new members of psi_b / psi_w *)
Lemma new_bad_wonky_in_state e s ext s' m x : disputes_step e s ext = Some (s', m) ->
  (In x (targets_of (dV e) Bad (d_verdicts ext)) -> In x (psi_b s'))
  /\ (In x (targets_of (dV e) Wonky (d_verdicts ext)) -> In x (psi_w s')).
Proof.
  intros H. apply disputes_step_some in H. cbn zeta in H.
  destruct H as (_ & _ & _ & _ & _ & _ & _ & _ & _ & _ & -> & _). cbn [psi_b psi_w].
  split; intros Hx; apply psi_update_In; now right.
Qed.
