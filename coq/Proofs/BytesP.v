From JamV Require Import Base.Bytes.
From Coq Require Import ZifyBool ZifyNat ZifyN.
Local Open Scope N_scope.
Ltac Zify.zify_post_hook ::= Z.div_mod_to_equations.

Lemma le_enc_length n x : length (le_enc n x) = n.
Proof. revert x; induction n as [|n IH]; intros x; cbn [le_enc length]; [reflexivity|now rewrite IH]. Qed.

Lemma wf_bytes_cons b t : wf_bytes (b :: t) = true <-> b < 256 /\ wf_bytes t = true.
Proof. unfold wf_bytes; cbn [forallb]. rewrite andb_true_iff, N.ltb_lt. tauto. Qed.

Lemma wf_bytes_app a b : wf_bytes (a ++ b) = true <-> wf_bytes a = true /\ wf_bytes b = true.
Proof. unfold wf_bytes. rewrite forallb_app, andb_true_iff. tauto. Qed.

Lemma wf_bytes_firstn n l : wf_bytes l = true -> wf_bytes (firstn n l) = true.
Proof.
  intros H. rewrite <- (firstn_skipn n l) in H. apply wf_bytes_app in H. tauto.
Qed.

Lemma wf_bytes_skipn n l : wf_bytes l = true -> wf_bytes (skipn n l) = true.
Proof.
  intros H. rewrite <- (firstn_skipn n l) in H. apply wf_bytes_app in H. tauto.
Qed.

Lemma le_enc_wf n x : wf_bytes (le_enc n x) = true.
Proof.
  revert x; induction n as [|n IH]; intros x; [reflexivity|].
  cbn [le_enc]. apply wf_bytes_cons. split; [apply N.mod_lt; discriminate|apply IH].
Qed.

Lemma le_dec_enc n x : le_dec (le_enc n x) = x mod 256 ^ N.of_nat n.
Proof.
  revert x; induction n as [|n IH]; intros x.
  - cbn. now rewrite N.mod_1_r.
  - cbn [le_enc le_dec]. rewrite IH.
    replace (N.of_nat (S n)) with (N.succ (N.of_nat n)) by lia.
    rewrite N.pow_succ_r'.
    rewrite N.mod_mul_r by (try discriminate; apply N.pow_nonzero; discriminate).
    reflexivity.
Qed.

Lemma le_dec_lt l : wf_bytes l = true -> le_dec l < 256 ^ N.of_nat (length l).
Proof.
  induction l as [|b t IH]; intros H.
  - cbn. lia.
  - apply wf_bytes_cons in H. destruct H as [Hb Ht]. specialize (IH Ht).
    cbn [le_dec length]. replace (N.of_nat (S (length t))) with (N.succ (N.of_nat (length t))) by lia.
    rewrite N.pow_succ_r'. lia.
Qed.

Lemma le_enc_dec l : wf_bytes l = true -> le_enc (length l) (le_dec l) = l.
Proof.
  induction l as [|b t IH]; intros H; [reflexivity|].
  apply wf_bytes_cons in H. destruct H as [Hb Ht].
  cbn [length le_enc le_dec].
  assert (E1 : (b + 256 * le_dec t) mod 256 = b).
  { lia. }
  assert (E2 : (b + 256 * le_dec t) / 256 = le_dec t).
  { lia. }
  rewrite E1, E2, IH by assumption. reflexivity.
Qed.

Lemma firstn_app_exact {A} (a b : list A) n : length a = n -> firstn n (a ++ b) = a.
Proof. intros <-. rewrite firstn_app, Nat.sub_diag, firstn_all. cbn. apply app_nil_r. Qed.

Lemma skipn_app_exact {A} (a b : list A) n : length a = n -> skipn n (a ++ b) = b.
Proof. intros <-. rewrite skipn_app, Nat.sub_diag, skipn_all. reflexivity. Qed.

Lemma bytes_eqb_eq a b : bytes_eqb a b = true <-> a = b.
Proof.
  revert b; induction a as [|x a IH]; intros [|y b]; cbn; try (split; congruence).
  rewrite andb_true_iff, N.eqb_eq, IH. split; [intros [-> ->]; reflexivity|intros E; inversion E; auto].
Qed.
