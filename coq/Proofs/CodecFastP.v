(* The extracted decoder decf is the decoder dec of the theorems. *)
From JamV Require Import Base.Bytes Model.NatCodec Model.Codec Proofs.CodecP.
From Coq Require Import ZifyBool ZifyNat ZifyN.
Local Open Scope N_scope.

Lemma shorter_spec bs : forall w, shorter bs w = (length bs <? w)%nat.
Proof.
  induction bs as [|b t IH]; intros [|w]; cbn [shorter length]; try reflexivity.
  rewrite IH. reflexivity.
Qed.

Lemma fits_spec r : forall n, fits n r = count_fits n r.
Proof.
  unfold count_fits. induction r as [|b t IH]; intros n; cbn [fits length].
  - destruct (N.eqb_spec n 0); destruct (N.leb_spec n (N.of_nat 0)); try reflexivity; lia.
  - destruct (N.eqb_spec n 0) as [->|Hn].
    + symmetry. apply N.leb_le. lia.
    + rewrite IH. destruct (N.leb_spec (N.pred n) (N.of_nat (length t)));
        destruct (N.leb_spec n (N.of_nat (S (length t)))); try reflexivity; lia.
Qed.

Lemma dnat_spec bs : dnat bs = dec_nat bs.
Proof. destruct bs as [|b t]; [reflexivity|]. cbn [dnat dec_nat]. now rewrite shorter_spec. Qed.

Lemma rep_ext f g : (forall bs, f bs = g bs) -> forall k bs, rep f k bs = rep g k bs.
Proof.
  intros H. induction k as [|k IH]; intros bs; cbn [rep]; [reflexivity|].
  rewrite H. destruct (g bs) as [[v r]|]; [|reflexivity]. now rewrite IH.
Qed.

Lemma decf_counted_spec f g lim bs :
  (forall bs, f bs = g bs) -> decf_counted f lim bs = dec_counted g lim bs.
Proof.
  intros H. unfold decf_counted, dec_counted. rewrite dnat_spec.
  destruct (dec_nat bs) as [[n r]|]; [|reflexivity]. rewrite fits_spec.
  destruct (_ && _); [|reflexivity]. now apply rep_ext.
Qed.

Lemma pair_dec_ext f1 f2 g1 g2 :
  (forall bs, f1 bs = g1 bs) -> (forall bs, f2 bs = g2 bs) -> forall bs, pair_dec f1 f2 bs = pair_dec g1 g2 bs.
Proof. intros H1 H2 bs. unfold pair_dec. rewrite H1. destruct (g1 bs) as [[a r]|]; [|reflexivity]. now rewrite H2. Qed.

Theorem decf_eq d : forall bs, decf d bs = dec d bs.
Proof.
  induction d as [w|bd|n| | |n|lim d IH|n d IH|d IH|alts IH|k v IHk IHv|ds IH] using desc_ind';
    intros bs; cbn [decf dec].
  - now rewrite shorter_spec.
  - now rewrite dnat_spec.
  - now rewrite shorter_spec.
  - rewrite dnat_spec. destruct (dec_nat bs) as [[n r]|]; [|reflexivity]. now rewrite fits_spec.
  - rewrite dnat_spec. destruct (dec_nat bs) as [[n0 r0]|]; [|reflexivity]. rewrite dnat_spec.
    destruct (dec_nat r0) as [[n r]|]; [|reflexivity]. now rewrite fits_spec.
  - now rewrite shorter_spec.
  - now rewrite (decf_counted_spec _ (dec d) lim bs IH).
  - now rewrite (rep_ext _ (dec d) IH).
  - destruct bs as [|t r]; [reflexivity|]. now rewrite IH.
  - destruct bs as [|t r]; [reflexivity|]. rewrite !assoc_map.
    destruct (assoc t alts) as [da|] eqn:A; [|reflexivity]. cbn [option_map].
    rewrite Forall_forall in IH. now rewrite (IH _ (assoc_In _ _ _ A)).
  - now rewrite (decf_counted_spec _ (pair_dec (dec k) (dec v)) unlimited bs (pair_dec_ext _ _ _ _ IHk IHv)).
  - assert (E : forall bs, seq_all (map decf ds) bs = seq_all (map dec ds) bs); [|now rewrite E].
    induction IH as [|d0 ds Hd _ IHds]; intros bs'; cbn [map seq_all]; [reflexivity|].
    rewrite Hd. destruct (dec d0 bs') as [[v0 r1]|]; [|reflexivity]. now rewrite IHds.
Qed.

Theorem decf_frame_eq d bs : decf_frame d bs = dec_frame d bs.
Proof. unfold decf_frame, dec_frame. now rewrite shorter_spec, fits_spec, decf_eq. Qed.
