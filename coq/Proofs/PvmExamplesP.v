(* Concrete programs and states used by the non-vacuity Examples of C01 / C04 / C05. *)
From JamV Require Import Model.PvmRun Proofs.PvmCodeP Proofs.PvmMemP Proofs.PvmAluP Proofs.PvmStepP.
Local Open Scope Z_scope.

Definition mkprog (c : list Z) (k : list bool) : prog :=
  {| code := c; mask := k; jt_count := 0; jt_width := 0; jt_bytes := [] |}.

Definition regs0 : list Z := repeat 0 13.

(* one read-write page at 0x10000 holding 0x11 at offset 0, one read-only page at 0x11000 *)
Definition mem0 : memory :=
  {| m_pages := [(16, {| p_acc := AccRW; p_dat := [(0, 17)] |}); (17, {| p_acc := AccRO; p_dat := [(0, 34)] |})];
     m_hp := 135168; m_hl := 139264 |}.

Definition st0 (g : Z) : st := {| regs := regs0; gas := g; mem := mem0 |}.

(* ecalli 300 : opcode 10, two immediate bytes 2C 01 *)
Definition p_ecalli300 : prog := mkprog [10; 44; 1] [true; false; false].
(* ecalli with the one-byte immediate FF = -1 *)
Definition p_ecalli_neg : prog := mkprog [10; 255] [true; false].
(* load_imm r1 = 5 with nothing after it: runs into the implicit trap *)
Definition p_open_end : prog := mkprog [51; 1; 5] [true; false; false].
(* store_u32 [0x10FFE] = r0 : straddles the RW page 16 and the RO page 17 *)
Definition p_store_cross : prog := mkprog [61; 0; 254; 15; 1; 0; 0] [true; false; false; false; false; false; true].
(* load_u8 r2 = [0x100] : below 2^16 *)
Definition p_load_low : prog := mkprog [52; 2; 0; 1; 0] [true; false; false; false; true].
(* three fallthroughs then trap *)
Definition p_four_steps : prog := mkprog [1; 1; 1; 0] [true; true; true; true].
(* load_imm_64 r2 = 4096; sbrk r3 <- r2; trap *)
Definition p_sbrk : prog :=
  mkprog [20; 2; 0; 16; 0; 0; 0; 0; 0; 0; 101; 35; 0]
         [true; false; false; false; false; false; false; false; false; false; true; false; true].

Lemma wf_regs0 : wf_regs regs0.
Proof. split; [reflexivity|]. unfold regs0. apply Forall_forall. intros x H. apply repeat_spec in H. subst. unfold u64, W64. lia. Qed.
