(* C34 — proofs about Model/Statistics.v *)
From JamV Require Import Base.Bytes Model.Statistics.
From Coq Require Import ZifyBool ZifyNat ZifyN.
Local Open Scope N_scope.

Ltac dvr r := let xb := fresh "xb" in let xt := fresh "xt" in let xp := fresh "xp" in let xd := fresh "xd" in
  let xg := fresh "xg" in let xa := fresh "xa" in destruct r as [xb xt xp xd xg xa].

(* ------------------------------------------------------------------ lists *)
Lemma upd_at_length {A} n (f : A -> A) l : length (upd_at n f l) = length l.
Proof. revert n; induction l as [|x t IH]; intros [|n]; cbn; auto. Qed.

Lemma upd_at_nth_same {A} n (f : A -> A) l : nth_error (upd_at n f l) n = option_map f (nth_error l n).
Proof. revert n; induction l as [|x t IH]; intros [|n]; cbn; auto. Qed.

Lemma upd_at_nth_other {A} n m (f : A -> A) l : n <> m -> nth_error (upd_at n f l) m = nth_error l m.
Proof.
  revert n m; induction l as [|x t IH]; intros [|n] [|m] Hn; cbn; auto; try congruence.
Qed.

Lemma sum_N_app a b : sum_N (a ++ b) = sum_N a + sum_N b.
Proof. induction a as [|x a IH]; cbn; [reflexivity|]. unfold sum_N in *. cbn. rewrite IH. lia. Qed.

Lemma memN_In x l : memN x l = true <-> In x l.
Proof.
  unfold memN. rewrite existsb_exists. split.
  - intros [y [Hi He]]. apply N.eqb_eq in He. now subst.
  - intros Hi. exists x. split; [exact Hi | apply N.eqb_refl].
Qed.

(* ------------------------------------------------------------------ the author's counters *)
Lemma fold_octets l : forall r,
  fold_left (fun r (p : N * N) => mk_vrec (v_b r) (v_t r) (v_p r) (v_d r + snd p) (v_g r) (v_a r)) l r
  = mk_vrec (v_b r) (v_t r) (v_p r) (v_d r + sum_N (map snd l)) (v_g r) (v_a r).
Proof.
  induction l as [|p l IH]; intros r; cbn [fold_left map].
  - dvr r; cbn. f_equal. unfold sum_N; cbn. lia.
  - rewrite IH. cbn. f_equal. unfold sum_N; cbn. lia.
Qed.

Definition author_delta (b : block) : vrec :=
  mk_vrec 1 (b_tickets b) (N.of_nat (length (b_preimages b))) (sum_N (map snd (b_preimages b))) 0 0.

Lemma bump_author_spec b r : bump_author b r = vadd r (author_delta b).
Proof.
  unfold bump_author. rewrite fold_octets. dvr r; unfold vadd, author_delta; cbn. f_equal; lia.
Qed.

(* ------------------------------------------------------------------ guarantors *)
Lemma mark_reporters_nth k b l : forall v0 i,
  nth_error (mark_reporters k b v0 l) i
  = option_map (fun r => if is_reporter k b (v0 + i) then bump_g r else r) (nth_error l i).
Proof.
  induction l as [|r t IH]; intros v0 [|i]; cbn; auto.
  - now rewrite Nat.add_0_r.
  - rewrite IH. now replace (S v0 + i)%nat with (v0 + S i)%nat by lia.
Qed.

Lemma no_guarantees_no_reporter k b v : b_guarantees b = [] -> is_reporter k b v = false.
Proof.
  intros E. unfold is_reporter, reporters. rewrite E. cbn. now destruct (nth_error (b_kappa b) v).
Qed.

(* ------------------------------------------------------------------ assurers *)
Lemma assurances_nth l : forall c v,
  nth_error (fold_left (fun c a => upd_at (as_validator a) bump_a c) l c) v
  = option_map (fun r => mk_vrec (v_b r) (v_t r) (v_p r) (v_d r) (v_g r) (v_a r + count_assurances v l)) (nth_error c v).
Proof.
  induction l as [|a l IH]; intros c v; cbn [fold_left].
  - unfold count_assurances, sum_N; cbn. destruct (nth_error c v) as [r|]; cbn; [|reflexivity].
    dvr r; cbn. f_equal. f_equal. lia.
  - rewrite IH. unfold count_assurances. cbn [map]. unfold sum_N at 2. cbn [fold_right]. fold (sum_N (map (fun a0 => if Nat.eqb (as_validator a0) v then 1 else 0) l)).
    destruct (Nat.eqb (as_validator a) v) eqn:E.
    + apply Nat.eqb_eq in E. subst v. rewrite upd_at_nth_same.
      destruct (nth_error c (as_validator a)) as [r|]; cbn [option_map]; [|reflexivity].
      dvr r; unfold bump_a; cbn [v_b v_t v_p v_d v_g v_a]. f_equal. f_equal. lia.
    + apply Nat.eqb_neq in E. rewrite upd_at_nth_other by exact E.
      destruct (nth_error c v) as [r|]; cbn [option_map]; [|reflexivity]. do 2 f_equal; lia.
Qed.

(* ------------------------------------------------------------------ per-block deltas: M = S *)
Lemma update_current_spec k b curr v :
  nth_error (update_current k b curr) v = option_map (fun r => vadd r (vdelta k b v)) (nth_error curr v).
Proof.
  unfold update_current. rewrite assurances_nth.
  assert (Hc2 : nth_error (match b_guarantees b with [] => upd_at (b_author b) (bump_author b) curr
                                  | _ => mark_reporters k b 0 (upd_at (b_author b) (bump_author b) curr) end) v
                = option_map (fun r => if is_reporter k b v then bump_g r else r)
                             (nth_error (upd_at (b_author b) (bump_author b) curr) v)).
  { destruct (b_guarantees b) eqn:Eg.
    - rewrite (no_guarantees_no_reporter k b v Eg). now destruct (nth_error _ v).
    - rewrite mark_reporters_nth. reflexivity. }
  rewrite Hc2. clear Hc2. unfold vdelta.
  destruct (Nat.eqb v (b_author b)) eqn:Ea.
  - apply Nat.eqb_eq in Ea. subst v. rewrite upd_at_nth_same.
    destruct (nth_error curr (b_author b)) as [r|]; cbn [option_map]; [|reflexivity].
    rewrite bump_author_spec. dvr r; destruct (is_reporter k b (b_author b)); unfold vadd, author_delta, bump_g; cbn;
      f_equal; f_equal; lia.
  - apply Nat.eqb_neq in Ea. rewrite upd_at_nth_other by congruence.
    destruct (nth_error curr v) as [r|]; cbn [option_map]; [|reflexivity].
    dvr r; destruct (is_reporter k b v); unfold vadd, bump_g; cbn; f_equal; f_equal; lia.
Qed.

Lemma update_current_length k b curr : length (update_current k b curr) = length curr.
Proof.
  unfold update_current.
  assert (Hf : forall l c, length (fold_left (fun c a => upd_at (as_validator a) bump_a c) l c) = length c).
  { induction l as [|a l IH]; intros c; cbn; [reflexivity|]. rewrite IH. apply upd_at_length. }
  rewrite Hf.
  assert (Hm : forall l v0, length (mark_reporters k b v0 l) = length l).
  { induction l as [|r t IH]; intros v0; cbn; auto. }
  destruct (b_guarantees b); [|rewrite Hm]; apply upd_at_length.
Qed.

(* ------------------------------------------------------------------ the block theorem *)
(* same epoch: the accumulator continues; epoch change: previous := accumulator, accumulator := zero; then the deltas *)
Lemma block_deltas k prior_tau p b v :
  nth_error (pi_curr (stats_step k prior_tau p b)) v
  = option_map (fun r => vadd r (vdelta k b v))
      (nth_error (if epoch_of k prior_tau =? epoch_of k (b_slot b) then pi_curr p else repeat vzero (K_V k)) v).
Proof.
  unfold stats_step, rollover. destruct (epoch_of k prior_tau =? epoch_of k (b_slot b)); cbn [pi_curr];
    apply update_current_spec.
Qed.

Lemma vadd_zero d : vadd vzero d = d.
Proof. dvr d; unfold vadd, vzero; cbn. reflexivity. Qed.

Lemma nth_error_repeat {A} (x : A) n v : (v < n)%nat -> nth_error (repeat x n) v = Some x.
Proof. revert v; induction n as [|n IH]; intros [|v] Hv; cbn; try lia; auto. apply IH. lia. Qed.

Lemma epoch_rollover k prior_tau p b :
  (epoch_of k prior_tau <> epoch_of k (b_slot b) ->
     pi_last (stats_step k prior_tau p b) = pi_curr p /\
     length (pi_curr (stats_step k prior_tau p b)) = K_V k /\
     forall v, (v < K_V k)%nat -> nth_error (pi_curr (stats_step k prior_tau p b)) v = Some (vdelta k b v)) /\
  (epoch_of k prior_tau = epoch_of k (b_slot b) ->
     pi_last (stats_step k prior_tau p b) = pi_last p /\
     length (pi_curr (stats_step k prior_tau p b)) = length (pi_curr p)).
Proof.
  split; intros He.
  - apply N.eqb_neq in He. split; [|split].
    + unfold stats_step, rollover. now rewrite He.
    + unfold stats_step, rollover. rewrite He. cbn [pi_curr]. rewrite update_current_length. apply repeat_length.
    + intros v Hv. rewrite block_deltas, He, nth_error_repeat by exact Hv. cbn. now rewrite vadd_zero.
  - apply N.eqb_eq in He. split.
    + unfold stats_step, rollover. now rewrite He.
    + unfold stats_step, rollover. rewrite He. cbn [pi_curr]. apply update_current_length.
Qed.

(* a validator that neither authored, nor reported, nor assured keeps its record (within an epoch) *)
Lemma others_unchanged k prior_tau p b v r :
  epoch_of k prior_tau = epoch_of k (b_slot b) ->
  nth_error (pi_curr p) v = Some r ->
  v <> b_author b -> is_reporter k b v = false ->
  (forall a, In a (b_assurances b) -> as_validator a <> v) ->
  nth_error (pi_curr (stats_step k prior_tau p b)) v = Some r.
Proof.
  intros He Hr Ha Hg Has. rewrite block_deltas. apply N.eqb_eq in He. rewrite He, Hr. cbn. f_equal.
  unfold vdelta. rewrite Hg. replace (Nat.eqb v (b_author b)) with false by (symmetry; now apply Nat.eqb_neq).
  assert (Hc : count_assurances v (b_assurances b) = 0).
  { unfold count_assurances. induction (b_assurances b) as [|a l IH]; [reflexivity|].
    cbn [map]. unfold sum_N; cbn [fold_right]. fold (sum_N (map (fun a0 => if Nat.eqb (as_validator a0) v then 1 else 0) l)).
    rewrite IH by (intros a' Hi; apply Has; right; exact Hi).
    replace (Nat.eqb (as_validator a) v) with false; [reflexivity|].
    symmetry. apply Nat.eqb_neq. apply Has. left; reflexivity. }
  rewrite Hc. dvr r; unfold vadd; cbn. f_equal; lia.
Qed.

(* each assurance counts once: the assurers' total gain is the number of assurances naming a validator in range *)
Lemma count_assurances_app v l1 l2 : count_assurances v (l1 ++ l2) = count_assurances v l1 + count_assurances v l2.
Proof. unfold count_assurances. rewrite map_app. apply sum_N_app. Qed.

(* ------------------------------------------------------------------ core records *)
Lemma last_on_core_acc c l : forall acc,
  fold_left (fun acc w => if Nat.eqb (w_core w) c then Some w else acc) l acc
  = match rev (on_core c l) with w :: _ => Some w | [] => acc end.
Proof.
  induction l as [|w l IH]; intros acc; cbn [fold_left on_core filter]; [reflexivity|].
  rewrite IH. unfold on_core. destruct (Nat.eqb (w_core w) c); [|reflexivity].
  cbn [rev]. destruct (rev (filter (fun w0 => Nat.eqb (w_core w0) c) l)); reflexivity.
Qed.

Lemma on_core_unique c l : NoDup (map w_core l) -> (length (on_core c l) <= 1)%nat.
Proof.
  unfold on_core. induction l as [|w l IH]; [cbn; lia|]. intros Hnd. cbn [map] in Hnd.
  inversion Hnd as [|? ? Hnin Hnd']; subst.
  specialize (IH Hnd'). cbn [filter]. destruct (Nat.eqb (w_core w) c) eqn:E; [|exact IH].
  apply Nat.eqb_eq in E. cbn [length].
  destruct (filter (fun w0 => Nat.eqb (w_core w0) c) l) as [|w' t] eqn:Eo; [cbn; lia|]. exfalso. apply Hnin.
  assert (Hin : In w' (filter (fun w0 => Nat.eqb (w_core w0) c) l)) by (rewrite Eo; left; reflexivity).
  apply filter_In in Hin as [Hi Hc]. apply Nat.eqb_eq in Hc.
  rewrite E, <- Hc. now apply in_map.
Qed.

Lemma last_on_core_spec c l : NoDup (map w_core l) ->
  on_core c l = match last_on_core c l with Some w => [w] | None => [] end.
Proof.
  intros Hnd. unfold last_on_core. rewrite last_on_core_acc.
  pose proof (on_core_unique c l Hnd) as Hl.
  destruct (on_core c l) as [|w [|w2 t]]; cbn in *; try reflexivity; lia.
Qed.

Lemma core_rec_go_spec k b c :
  NoDup (map w_core (incoming b)) -> NoDup (map w_core (b_available b)) ->
  core_rec_go k b c = core_rec k b c.
Proof.
  intros H1 H2. unfold core_rec_go, core_rec.
  rewrite (last_on_core_spec c (incoming b) H1), (last_on_core_spec c (b_available b) H2).
  destruct (last_on_core c (incoming b)) as [w|]; destruct (last_on_core c (b_available b)) as [w'|];
    cbn [flat_map map]; rewrite ?app_nil_r; unfold sum_N; cbn [fold_right]; rewrite ?N.add_0_r; reflexivity.
Qed.

Lemma core_records k prior_tau p b c :
  (c < K_C k)%nat ->
  NoDup (map w_core (incoming b)) -> NoDup (map w_core (b_available b)) ->
  nth_error (pi_cores (stats_step k prior_tau p b)) c = Some (core_rec k b c).
Proof.
  intros Hc H1 H2. unfold stats_step. destruct (rollover k prior_tau (b_slot b) p) as [curr last]. cbn [pi_cores].
  rewrite nth_error_map.
  assert (Hs : nth_error (seq 0 (K_C k)) c = Some c).
  { clear -Hc. rewrite <- (Nat.add_0_l c) at 2. generalize 0%nat.
    revert c Hc. induction (K_C k) as [|n IH]; intros c Hc s; [lia|]. destruct c; cbn; [f_equal; lia|].
    rewrite IH by lia. f_equal. lia. }
  rewrite Hs. cbn. f_equal. now apply core_rec_go_spec.
Qed.

(* ------------------------------------------------------------------ service records *)
Lemma dedupN_In x l : In x (dedupN l) <-> In x l.
Proof.
  induction l as [|y t IH]; cbn; [tauto|].
  destruct (memN y t) eqn:E.
  - rewrite IH. split; [auto|]. intros [<-|Hi]; [now apply memN_In | exact Hi].
  - cbn. rewrite IH. tauto.
Qed.
Lemma dedupN_NoDup l : NoDup (dedupN l).
Proof.
  induction l as [|y t IH]; cbn; [constructor|].
  destruct (memN y t) eqn:E; [exact IH|]. constructor; [|exact IH].
  rewrite dedupN_In. intros Hi. apply memN_In in Hi. congruence.
Qed.

Lemma service_records k prior_tau p b s :
  (In (s, service_rec b s) (pi_services (stats_step k prior_tau p b)) <->
   In s (map d_service (all_digests b)) \/ In s (map fst (b_preimages b)) \/ In s (map fst (b_accstats b))) /\
  (forall r, In (s, r) (pi_services (stats_step k prior_tau p b)) -> r = service_rec b s) /\
  NoDup (map fst (pi_services (stats_step k prior_tau p b))).
Proof.
  unfold stats_step. destruct (rollover k prior_tau (b_slot b) p) as [curr last]. cbn [pi_services].
  split; [|split].
  - rewrite in_map_iff. unfold service_keys. split.
    + intros [s' [E Hi]]. inversion E; subst s'. apply (proj1 (dedupN_In _ _)) in Hi.
      apply in_app_or in Hi as [Hi|Hi]; [left; exact Hi|]. apply in_app_or in Hi as [Hi|Hi]; [right; left | right; right]; exact Hi.
    + intros Hi. exists s. split; [reflexivity|]. apply (proj2 (dedupN_In _ _)).
      apply in_or_app. destruct Hi as [Hi|[Hi|Hi]]; [left; exact Hi | right; apply in_or_app; left; exact Hi | right; apply in_or_app; right; exact Hi].
  - intros r Hi. apply in_map_iff in Hi as [s' [E _]]. inversion E; subst. reflexivity.
  - rewrite map_map. cbn. rewrite map_id. apply dedupN_NoDup.
Qed.

(* ------------------------------------------------------------------ histories *)
Definition total_blocks (l : list vrec) : N := sum_N (map v_b l).

Lemma total_blocks_upd n f l r :
  nth_error l n = Some r -> total_blocks (upd_at n f l) + v_b r = total_blocks l + v_b (f r).
Proof.
  revert n; induction l as [|x t IH]; intros [|n] E; cbn in E; try discriminate.
  - inversion E; subst. unfold total_blocks, sum_N; cbn. lia.
  - specialize (IH n E). unfold total_blocks, sum_N in *; cbn. lia.
Qed.

Lemma total_blocks_same_b l l' :
  length l = length l' -> (forall v r r', nth_error l v = Some r -> nth_error l' v = Some r' -> v_b r' = v_b r) ->
  total_blocks l' = total_blocks l.
Proof.
  revert l'; induction l as [|x t IH]; intros [|y t'] Hl Hb; cbn in Hl; try discriminate; [reflexivity|].
  unfold total_blocks, sum_N in *; cbn. rewrite (Hb 0%nat x y eq_refl eq_refl).
  f_equal. apply IH; [lia|]. intros v r r' H1 H2. apply (Hb (S v) r r'); assumption.
Qed.

Lemma update_current_total k b curr :
  (b_author b < length curr)%nat -> total_blocks (update_current k b curr) = total_blocks curr + 1.
Proof.
  intros Ha.
  destruct (nth_error curr (b_author b)) as [ra|] eqn:Era; [|apply nth_error_None in Era; lia].
  (* go through the pointwise characterisation *)
  set (c1 := upd_at (b_author b) (bump_author b) curr).
  assert (H1 : total_blocks c1 = total_blocks curr + 1).
  { pose proof (total_blocks_upd (b_author b) (bump_author b) curr ra Era) as Ht. fold c1 in Ht.
    rewrite bump_author_spec in Ht. unfold vadd, author_delta in Ht. cbn in Ht. lia. }
  rewrite <- H1. apply total_blocks_same_b.
  - unfold c1. rewrite upd_at_length. symmetry. apply update_current_length.
  - intros v r r' Hr Hr'. rewrite update_current_spec in Hr'.
    unfold c1 in Hr. destruct (Nat.eq_dec (b_author b) v) as [<-|Hn].
    + rewrite upd_at_nth_same, Era in Hr. cbn in Hr. inversion Hr; subst r. rewrite Era in Hr'. cbn in Hr'.
      inversion Hr'; subst r'. rewrite bump_author_spec. unfold vadd, vdelta, author_delta. cbn.
      rewrite Nat.eqb_refl. reflexivity.
    + rewrite upd_at_nth_other in Hr by exact Hn. rewrite Hr in Hr'. cbn in Hr'. inversion Hr'; subst r'.
      unfold vadd, vdelta. cbn. replace (Nat.eqb v (b_author b)) with false by (symmetry; apply Nat.eqb_neq; congruence).
      lia.
Qed.

(* over any history that stays inside one epoch, the accumulator's block counters grow by exactly the number of blocks *)
Lemma epoch_block_count k bs : forall prior_tau p,
  Forall (fun b => epoch_of k (b_slot b) = epoch_of k prior_tau /\ (b_author b < length (pi_curr p))%nat) bs ->
  total_blocks (pi_curr (stats_run k prior_tau p bs)) = total_blocks (pi_curr p) + N.of_nat (length bs) /\
  length (pi_curr (stats_run k prior_tau p bs)) = length (pi_curr p).
Proof.
  induction bs as [|b t IH]; intros prior_tau p Hall; cbn [stats_run length].
  - split; [lia | reflexivity].
  - inversion Hall as [|? ? [He Ha] Ht]; subst.
    assert (Hstep : pi_curr (stats_step k prior_tau p b) = update_current k b (pi_curr p)).
    { unfold stats_step, rollover. rewrite <- He, N.eqb_refl. reflexivity. }
    destruct (IH (b_slot b) (stats_step k prior_tau p b)) as [IH1 IH2].
    { rewrite Hstep, update_current_length. eapply Forall_impl; [|exact Ht].
      intros b' [E1 E2]. split; [congruence | exact E2]. }
    rewrite IH1, IH2, Hstep, update_current_length, update_current_total by exact Ha. split; [lia | reflexivity].
Qed.
